(* C15 -- relayout is lazy, dirtiness is exact.  Engine-skeleton theorems, every algorithm satisfying WF and H1. *)
From Coq Require Import List Bool Arith NArith.
From TV Require Import Num.Num Num.QNum Model.Cache Model.Engine Model.EngineToy Model.EngineReal Model.EngineForestG Model.EngineRealToy
  Proofs.EngineMemo Proofs.EngineDirty Proofs.EngineHistory
  Proofs.EngineFrame Proofs.EngineToyProofs Proofs.EngineTotal Proofs.EngineRealDirty Proofs.EngineRealHistory.
Import ListNotations.

(* recomputing the layout of an unchanged tree with the same input is answered by the root's cache entry: the tree is
   returned as it is -- nothing below is evaluated (so no measure function runs), no cache or layout is written.
   Holds for any reflexive key, in particular the real one whenever known dimensions are not NaN and definite
   available space is finite (C02_store_hit) *)
Theorem C15_second_pass_silent :
  forall (S In Out Lay : Type) (mode : In -> RunMode) (in_eqb : In -> In -> bool) (is_none : S -> bool)
         (hidden_out : Out) (zero_lay : Lay) (algo : S -> list S -> In -> Alg In Out Lay),
    (forall a, in_eqb a a = true) ->
    forall f g t i o t',
      mode i = PerformLayout ->
      memo S In Out Lay mode in_eqb is_none hidden_out zero_lay algo f t i = Some (o, t') ->
      memo S In Out Lay mode in_eqb is_none hidden_out zero_lay algo (Datatypes.S g) t' i = Some (o, t').
Proof. intros until algo. intros Hr. intros. eapply second_pass_silent; eauto. Qed.

(* after a layout pass no box-generating node under the root is dirty: every node outside display:none regions has a
   final-layout entry (Full), and a display:none node itself has a non-empty cache *)
Theorem C15_clean_after_pass :
  forall (S In Out Lay : Type) (mode : In -> RunMode) (in_eqb : In -> In -> bool) (is_none : S -> bool)
         (hidden_out : Out) (zero_lay : Lay) (algo : S -> list S -> In -> Alg In Out Lay),
    (forall s st i, WFAlg In Out Lay mode (algo s st i)) ->
    (forall s st i, mode i = PerformLayout -> Visits In Out Lay mode (seq 0 (length st)) (algo s st i)) ->
    forall f t i o t',
      mode i = PerformLayout -> J S In Out Lay is_none t -> B S In Out Lay is_none t ->
      memo S In Out Lay mode in_eqb is_none hidden_out zero_lay algo f t i = Some (o, t') ->
      Full S In Out Lay is_none t' /\ J S In Out Lay is_none t' /\ B S In Out Lay is_none t'.
Proof. intros until algo. intros HWF HH1. intros. eapply pass_clean; eauto. Qed.

Theorem C15_full_means_not_dirty :
  forall (S In Out Lay : Type) (is_none : S -> bool) s c l kids,
    Full S In Out Lay is_none (Node S In Out Lay s c l kids) -> is_empty In Out c = false.
Proof.
  intros S In Out Lay is_none s c l kids HF. inversion HF; subst; [assumption|].
  eapply Full_not_dirty; eauto.
Qed.

(* a mutation (which ends in mark_dirty of the mutated node) at a node without display:none ancestor makes that node and
   each of its ancestors dirty and leaves the cache of every other node, and every style and stored layout, unchanged:
   with the boundary invariants the early exit of mark_dirty loses nothing *)
Theorem C15_mark_exact :
  forall (S In Out Lay : Type) (is_none : S -> bool) t p,
    J S In Out Lay is_none t -> B S In Out Lay is_none t -> visible_path S In Out Lay is_none t p ->
    (exists u, subtree S In Out Lay t p = Some u) ->
    let t' := mark_dirty S In Out Lay t p in
    (forall q, is_prefix q p = true -> cache_at S In Out Lay t' q = Some (cempty In Out)) /\
    (forall q, is_prefix q p = false -> cache_at S In Out Lay t' q = cache_at S In Out Lay t q) /\
    (forall q, style_at S In Out Lay t' q = style_at S In Out Lay t q) /\
    (forall q, lay_at S In Out Lay t' q = lay_at S In Out Lay t q).
Proof.
  intros S In Out Lay is_none t p HJ HB Hv Hu t'.
  assert (E : t' = clear_path S In Out Lay t p).
  { unfold t', mark_dirty. rewrite (md_spec S In Out Lay is_none p t HJ HB Hv). reflexivity. }
  rewrite E. split; [intros q Hq; apply clear_path_on; assumption|].
  split; [intros q Hq; apply clear_path_off; assumption|].
  split; [intros q; apply clear_path_style | intros q; apply clear_path_lay].
Qed.

(* the boundary invariants J and B hold in every state reachable by mutators and layout passes *)
Theorem C15_invariants_reachable :
  forall (S In Out Lay : Type) (mode : In -> RunMode) (in_eqb : In -> In -> bool) (is_none : S -> bool)
         (hidden_out : Out) (zero_lay : Lay) (algo : S -> list S -> In -> Alg In Out Lay),
    (forall a b, in_eqb a b = true -> a = b) ->
    (forall s st i, WFAlg In Out Lay mode (algo s st i)) ->
    (forall s st i, mode i = PerformLayout -> Visits In Out Lay mode (seq 0 (length st)) (algo s st i)) ->
    forall ops t,
      Inv S In Out Lay mode is_none hidden_out algo t ->
      run_ok S In Out Lay mode in_eqb is_none hidden_out zero_lay algo t ops ->
      Inv S In Out Lay mode is_none hidden_out algo (run_ops S In Out Lay mode in_eqb is_none hidden_out zero_lay algo t ops).
Proof. intros until algo. intros Hk HWF HH1. intros. eapply history_inv; eauto. Qed.

(* non-vacuity: the concrete history of Proofs/EngineToyProofs.v ends with no dirty node outside the hidden region *)
Example C15_example :
  map (fun t => dirty TS TIn TOut TLay t) (ex_run :: kids_of _ _ _ _ ex_run) = [false; false; false].
Proof. exact ex_flags. Qed.

(* non-vacuity of the premises, on the 4-node toy tree (root 0; child 0 = node 1, display:none, with a child 3; child 1 =
   node 2): the fresh tree satisfies Inv (= Valid, J, B); its first pass SUCCEEDS (Some, not the out-of-fuel None) and
   changes the tree (caches filled); the second pass with a single unit of fuel returns the same output and the same tree
   (the instance of C15_second_pass_silent: one unit of fuel cannot reach any child, so nothing below the root is evaluated);
   after the pass no node outside the display:none region is dirty; path [1] is visible and marking it dirties exactly the
   root and node 2 (the instance of C15_mark_exact) *)
Definition ex_pass1 : ttree :=
  step TS TIn TOut TLay t_mode t_in_eqb t_is_none 0%N 0%N t_algo' ex_tree (OLayout _ _ _ _ 8 (PerformLayout, 5%N)).

Example C15_example_premises :
  Inv TS TIn TOut TLay t_mode t_is_none 0%N t_algo' ex_tree /\
  visible_path TS TIn TOut TLay t_is_none ex_pass1 [1] /\
  (exists o, memo TS TIn TOut TLay t_mode t_in_eqb t_is_none 0%N 0%N t_algo' 8 ex_tree (PerformLayout, 5%N) = Some (o, ex_pass1) /\
             ex_pass1 <> ex_tree /\
             memo TS TIn TOut TLay t_mode t_in_eqb t_is_none 0%N 0%N t_algo' 1 ex_pass1 (PerformLayout, 5%N) = Some (o, ex_pass1)) /\
  map (dirty TS TIn TOut TLay) (ex_pass1 :: kids_of _ _ _ _ ex_pass1) = [false; false; false] /\
  map (dirty TS TIn TOut TLay) (let t := mark_dirty TS TIn TOut TLay ex_pass1 [1] in t :: kids_of _ _ _ _ t) = [true; false; true].
Proof.
  split; [apply Inv_fresh|]. split; [cbn; auto|].
  split; [exists 2%N; split; [vm_compute; reflexivity|]; split; [vm_compute; discriminate | vm_compute; reflexivity]|].
  split; vm_compute; reflexivity.
Qed.

(* the premise `memo f t i = Some (o, t')` is never false for lack of fuel: for every algorithm that addresses only children
   that exist, fuel >= the height of the tree suffices, whatever the caches hold (so None means an out-of-range child index) *)
Theorem C15_pass_succeeds_with_enough_fuel :
  forall (S In Out Lay : Type) (mode : In -> RunMode) (in_eqb : In -> In -> bool) (is_none : S -> bool)
         (hidden_out : Out) (zero_lay : Lay) (algo : S -> list S -> In -> Alg In Out Lay),
    (forall s st i, Bounded In Out Lay (length st) (algo s st i)) ->
    forall f t i, height S In Out Lay t <= f ->
      exists o t', memo S In Out Lay mode in_eqb is_none hidden_out zero_lay algo f t i = Some (o, t').
Proof. intros until algo. intros HB f t i Hh. apply memo_total; assumption. Qed.

(* ================================================================================================================== *)
(* The statements above that do not depend on the key being exact, over the cache INTERFACE of Model/EngineReal.v (`gmemo`,
   `gmark_dirty`: the definitions the real-cache event-level correspondence runs, notes/REALHIST.md), for ANY cache that satisfies
   `cache_laws` (eleven laws relating "has a final-layout entry" `cfinal`, `cdirty`, `cget`, `cstore`, `cclear`, `cempty` under a
   representation invariant `Cok`), and for the REAL cache of src/tree/cache.rs, which satisfies them (C15_real_cache_laws). *)
Module RealCache.

(* the real cache satisfies the laws: cfinal := a final entry is present, Cok := nine slots /\ (is_empty flag set -> no entry) *)
Theorem C15_real_cache_laws :
  forall (T : Type) (NT : Num T) (In Out : Type) (mode : In -> RunMode) (key_of : In -> Cache.key T)
         (osize : Out -> Cache.size T) (from_outer : Cache.size T -> Out),
    cache_laws In Out mode (rcache In Out) (rnew In Out) (rget In Out mode key_of osize from_outer) (rstore In Out mode key_of)
               (rclear In Out) (rdirty In Out) (rfinal In Out) (rwf In Out).
Proof. intros. apply real_cache_laws. Qed.

(* second pass, any cache: if a lookup under the key just stored hits, recomputing the layout of an unchanged tree with the same
   input is answered by the root's entry; the tree comes back as it is except for the root's (ghost) hit counter *)
Theorem C15_real_second_pass_silent :
  forall (S In Out Lay : Type) (mode : In -> RunMode) (is_none : S -> bool) (hidden_out : Out) (zero_lay : Lay)
         (algo : S -> list S -> In -> Alg In Out Lay) (mcalls : S -> list S -> In -> N)
         (C : Type) (cget : C -> In -> option Out) (clossy : C -> In -> bool) (cstore : C -> In -> Out -> C) (cclear : C -> C),
    (forall c o i, mode i = PerformLayout -> cget (cstore c i o) i = Some o) ->
    forall f g t i o t',
      mode i = PerformLayout ->
      gmemo S In Out Lay mode is_none hidden_out zero_lay algo mcalls C cget clossy cstore cclear f t i = Some (o, t') ->
      gmemo S In Out Lay mode is_none hidden_out zero_lay algo mcalls C cget clossy cstore cclear (Datatypes.S g) t' i
        = Some (o, ghit_root S In Lay C clossy i t').
Proof. intros until cclear. intros Hs. intros. eapply gsecond_pass_silent; eauto. Qed.

(* ... and for the real cache the premise is needed for the ROOT input only and is C02_store_hit's: its key matches itself
   (`self_compat`: C02_refl_key_F32 -- known dimensions not NaN, definite available space finite) *)
Theorem C15_real_cache_second_pass_silent :
  forall (T : Type) (NT : Num T) (S In Out Lay : Type) (mode : In -> RunMode) (is_none : S -> bool) (hidden_out : Out) (zero_lay : Lay)
         (algo : S -> list S -> In -> Alg In Out Lay) (mcalls : S -> list S -> In -> N)
         (key_of : In -> Cache.key T) (osize : Out -> Cache.size T) (from_outer : Cache.size T -> Out)
         (in_eqb : In -> In -> bool) (is_outer : Out -> bool),
    forall f g t i o t',
      mode i = PerformLayout -> self_compat (key_of i) ->
      memo_real S In Out Lay mode is_none hidden_out zero_lay algo mcalls key_of osize from_outer in_eqb is_outer f t i = Some (o, t') ->
      memo_real S In Out Lay mode is_none hidden_out zero_lay algo mcalls key_of osize from_outer in_eqb is_outer (Datatypes.S g) t' i
        = Some (o, ghit_root S In Lay (rcache In Out) (rlossy In Out mode key_of osize in_eqb is_outer) i t').
Proof. intros. eapply real_second_pass_silent; eauto. Qed.

(* after a layout pass no box-generating node under the root is dirty, any lawful cache *)
Theorem C15_real_clean_after_pass :
  forall (S In Out Lay : Type) (mode : In -> RunMode) (is_none : S -> bool) (hidden_out : Out) (zero_lay : Lay)
         (algo : S -> list S -> In -> Alg In Out Lay) (mcalls : S -> list S -> In -> N)
         (C : Type) (cempty : C) (cget : C -> In -> option Out) (clossy : C -> In -> bool) (cstore : C -> In -> Out -> C) (cclear : C -> C)
         (cdirty cfinal : C -> bool) (Cok : C -> Prop),
    cache_laws In Out mode C cempty cget cstore cclear cdirty cfinal Cok ->
    (forall s st i, WFAlg In Out Lay mode (algo s st i)) ->
    (forall s st i, mode i = PerformLayout -> Visits In Out Lay mode (seq 0 (length st)) (algo s st i)) ->
    forall f t i o t',
      mode i = PerformLayout -> GOk S Lay C Cok t -> GJ S Lay is_none C cdirty cfinal t -> GB S Lay is_none C cdirty cfinal t ->
      gmemo S In Out Lay mode is_none hidden_out zero_lay algo mcalls C cget clossy cstore cclear f t i = Some (o, t') ->
      GFull S Lay is_none C cdirty cfinal t' /\ GOk S Lay C Cok t' /\ GJ S Lay is_none C cdirty cfinal t' /\ GB S Lay is_none C cdirty cfinal t'.
Proof. intros until Cok. intros HL HWF HH1. intros. eapply gpass_clean; eauto. Qed.

Theorem C15_real_full_means_not_dirty :
  forall (S In Out Lay : Type) (mode : In -> RunMode) (is_none : S -> bool)
         (C : Type) (cempty : C) (cget : C -> In -> option Out) (cstore : C -> In -> Out -> C) (cclear : C -> C)
         (cdirty cfinal : C -> bool) (Cok : C -> Prop),
    cache_laws In Out mode C cempty cget cstore cclear cdirty cfinal Cok ->
    forall s c l n kids, GFull S Lay is_none C cdirty cfinal (GNode S Lay C s c l n kids) -> cdirty c = false.
Proof. intros until Cok. intros HL. intros. eapply GFull_not_dirty; eauto. Qed.

(* mark_dirty (hence every mutator: gmutate = edit, then gmark_dirty) at a node without display:none ancestor: afterwards the node and
   each of its ancestors is dirty, the cache of every other node and every style, stored layout and counter is unchanged -- the
   AlreadyEmpty early exit loses nothing, for any lawful cache (only `final_not_dirty` and `clear_dirty` are used: "cempty sound") *)
Theorem C15_real_mark_exact :
  forall (S In Out Lay : Type) (mode : In -> RunMode) (is_none : S -> bool)
         (C : Type) (cempty : C) (cget : C -> In -> option Out) (cstore : C -> In -> Out -> C) (cclear : C -> C)
         (cdirty cfinal : C -> bool) (Cok : C -> Prop),
    cache_laws In Out mode C cempty cget cstore cclear cdirty cfinal Cok ->
    forall t p,
      GOk S Lay C Cok t -> GJ S Lay is_none C cdirty cfinal t -> GB S Lay is_none C cdirty cfinal t ->
      gvisible_path S Lay is_none C t p -> (exists u, gsubtree S Lay C t p = Some u) ->
      let t' := gmark_dirty S Lay C cclear cdirty t p in
      (forall q, is_prefix q p = true -> exists c, gcache_at S Lay C t' q = Some c /\ cdirty c = true) /\
      (forall q, is_prefix q p = false -> gcache_at S Lay C t' q = gcache_at S Lay C t q) /\
      (forall q, gstyle_at S Lay C t' q = gstyle_at S Lay C t q) /\
      (forall q, glay_at S Lay C t' q = glay_at S Lay C t q) /\
      (forall q, gstats_at S Lay C t' q = gstats_at S Lay C t q).
Proof.
  intros until Cok. intros HL t p HO HJ HB Hv Hu t'.
  exact (proj1 (gmd_exact S In Out Lay mode is_none C cempty cget cstore cclear cdirty cfinal Cok HL p t HO HJ HB Hv Hu)).
Qed.

(* the premises are satisfiable: a freshly built tree satisfies GOk, GJ and GB (any lawful cache) ... *)
Theorem C15_real_fresh_invariants :
  forall (S In Out Lay : Type) (mode : In -> RunMode) (is_none : S -> bool) (zero_lay : Lay)
         (C : Type) (cempty : C) (cget : C -> In -> option Out) (cstore : C -> In -> Out -> C) (cclear : C -> C)
         (cdirty cfinal : C -> bool) (Cok : C -> Prop),
    cache_laws In Out mode C cempty cget cstore cclear cdirty cfinal Cok ->
    forall k, let t := gfresh S Lay zero_lay C cempty k in
              GOk S Lay C Cok t /\ GJ S Lay is_none C cdirty cfinal t /\ GB S Lay is_none C cdirty cfinal t.
Proof. intros until Cok. intros HL k. eapply gfresh_inv; eauto. Qed.

(* the invariants hold in every state reachable from a state satisfying them (e.g. a fresh tree) by mutators -- edit, then gmark_dirty,
   at nodes without display:none ancestor, attached subtrees satisfying the invariants themselves -- and PerformLayout passes: the
   premises of C15_real_mark_exact / C15_real_clean_after_pass are never false along a history, for any lawful cache *)
Theorem C15_real_invariants_reachable :
  forall (S In Out Lay : Type) (mode : In -> RunMode) (is_none : S -> bool) (hidden_out : Out) (zero_lay : Lay)
         (algo : S -> list S -> In -> Alg In Out Lay) (mcalls : S -> list S -> In -> N)
         (C : Type) (cempty : C) (cget : C -> In -> option Out) (clossy : C -> In -> bool) (cstore : C -> In -> Out -> C) (cclear : C -> C)
         (cdirty cfinal : C -> bool) (Cok : C -> Prop),
    cache_laws In Out mode C cempty cget cstore cclear cdirty cfinal Cok ->
    (forall s st i, WFAlg In Out Lay mode (algo s st i)) ->
    (forall s st i, mode i = PerformLayout -> Visits In Out Lay mode (seq 0 (length st)) (algo s st i)) ->
    forall ops t,
      GInv S Lay is_none C cdirty cfinal Cok t ->
      grun_ok S In Out Lay mode is_none hidden_out zero_lay algo mcalls C cget clossy cstore cclear cdirty cfinal Cok t ops ->
      GInv S Lay is_none C cdirty cfinal Cok
        (grun_ops S In Out Lay mode is_none hidden_out zero_lay algo mcalls C cget clossy cstore cclear cdirty t ops).
Proof. intros until Cok. intros HL HWF HH1. intros. eapply ghistory_inv; eauto. Qed.

(* ... and on the toy instance of the real-cache engine (Model/EngineRealToy.v, 6 nodes, node 3 display:none with a child): the first
   pass succeeds and fills the caches; the second pass with ONE unit of fuel returns the same output and the same tree up to the
   root's hit counter; after the pass the dirty flags (pre-order) are false except below the display:none node; marking node 2
   (path [0;0]) dirties exactly nodes 0, 1, 2 *)
Definition rex_pass1 : option (TOut * rtree TS TIn TOut TLay) := tr_memo 8 (tr_fresh tr_k) (PerformLayout, 6%N).
Fixpoint rex_flags (t : rtree TS TIn TOut TLay) : list bool :=
  match t with GNode _ _ _ _ c _ _ kids => rdirty TIn TOut c :: flat_map rex_flags kids end.

Example C15_real_example :
  exists o t1,
    rex_pass1 = Some (o, t1) /\
    rex_flags (tr_fresh tr_k) = [true; true; true; true; true; true] /\
    rex_flags t1 = [false; false; false; false; true; false] /\
    tr_memo 1 t1 (PerformLayout, 6%N)
      = Some (o, ghit_root TS TIn TLay (rcache TIn TOut) (rlossy TIn TOut t_mode tr_key tr_osize t_in_eqb tr_is_outer) (PerformLayout, 6%N) t1) /\
    self_compat (tr_key (PerformLayout, 6%N)) /\
    gvisible_path TS TLay t_is_none (rcache TIn TOut) t1 [0; 0]%nat /\
    rex_flags (gmark_dirty TS TLay (rcache TIn TOut) (rclear TIn TOut) (rdirty TIn TOut) t1 [0; 0]%nat)
      = [true; true; true; false; true; false].
Proof.
  destruct rex_pass1 as [[o t1]|] eqn:E; [|vm_compute in E; discriminate].
  exists o, t1. split; [reflexivity|].
  vm_compute in E. injection E as <- <-.
  split; [vm_compute; reflexivity|]. split; [vm_compute; reflexivity|]. split; [vm_compute; reflexivity|].
  split; [repeat split; vm_compute; try reflexivity; discriminate|].
  split; [cbn; auto|]. vm_compute. reflexivity.
Qed.

Print Assumptions C15_real_cache_laws.
Print Assumptions C15_real_second_pass_silent.
Print Assumptions C15_real_cache_second_pass_silent.
Print Assumptions C15_real_clean_after_pass.
Print Assumptions C15_real_full_means_not_dirty.
Print Assumptions C15_real_mark_exact.
Print Assumptions C15_real_fresh_invariants.
Print Assumptions C15_real_invariants_reachable.
End RealCache.

Print Assumptions C15_second_pass_silent.
Print Assumptions C15_clean_after_pass.
Print Assumptions C15_full_means_not_dirty.
Print Assumptions C15_mark_exact.
Print Assumptions C15_invariants_reachable.
Print Assumptions C15_pass_succeeds_with_enough_fuel.

(* ---- the TRANSLATED mark_dirty (Gen/EngineGlueGen.v, regenerated from src/tree/taffy_tree.rs TaffyTree::mark_dirty + its inner fn,
   NodeData::mark_dirty and src/tree/cache.rs Cache::clear on every run) over the accessors of Model/EngineGlue.v (the tree as the node
   store, paths as keys, parent = removelast) IS the walk `mark_dirty` all theorems above are about, early exit included, for every
   fuel above the depth of the node ---- *)
From TV Require Import Gen.EngineGlueGen Model.EngineGlue Proofs.EngineGlueProofs.
From TV Require Model.EngineGlueTables.

Theorem C15_translated_mark_dirty_is_model :
  forall (S In Out Lay : Type) (t u : tree S In Out Lay) (p : list nat) (fuel : nat),
    subtree S In Out Lay t p = Some u -> length p < fuel ->
    eg_mark_dirty S In Out Lay fuel t p = mark_dirty S In Out Lay t p.
Proof. intros. eapply translated_mark_dirty_is_model; eauto. Qed.

(* non-vacuity, computed: on the tree the toy history ends with, marking the (clean) first child dirty walks up to the root and clears
   both caches; marking it again stops at once *)
Example C15_translated_mark_dirty_example :
  let t1 := eg_mark_dirty TS TIn TOut TLay 2 ex_run [0] in
  (exists u, subtree TS TIn TOut TLay ex_run [0] = Some u) /\
  t1 = mark_dirty TS TIn TOut TLay ex_run [0] /\
  map (fun t => dirty TS TIn TOut TLay t) (t1 :: kids_of _ _ _ _ t1) = [true; true; false] /\
  eg_mark_dirty TS TIn TOut TLay 2 t1 [0] = t1.
Proof. split; [eexists; vm_compute; reflexivity|]. vm_compute. repeat split; reflexivity. Qed.

(* every mutator of TaffyTree ends its edit with exactly ONE top-level, unconditional `self.mark_dirty(x)?;` (the generator refuses a
   mark_dirty under an `if` / `match` / loop): the node each of them names, as Model/EngineForest.v `step_op` has it *)
Example C15_translated_mutators_mark_dirty_unconditionally :
  glue_mutator_marks = EngineGlueTables.expected_mutator_marks.
Proof. reflexivity. Qed.

Print Assumptions C15_translated_mark_dirty_is_model.
