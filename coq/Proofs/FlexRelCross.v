(* The middle part of compute_preliminary is relational (Model/FlexAlgRel.v): resolve_flexible_lengths per line (kernel: Proofs/ScaleFlex.v),
   determine_hypothetical_cross_size and calculate_children_base_lines (with their queries), calculate_cross_size,
   handle_align_content_stretch, determine_used_cross_size, distribute_remaining_free_space (kernel: Proofs/ScaleFlex.v),
   resolve_cross_axis_auto_margins, align_flex_items_along_cross_axis, determine_container_cross_size. *)
From Coq Require Import QArith Qabs Lqa Bool List ZArith Lia.
From TV Require Import Num.Num Num.QNum Model.Common Model.Leaf Gen.FlexGen Model.Flex Model.FlexLines Model.FlexBase Model.FlexContainer Model.FlexFraction.
From TV Require Import Model.FiltersBase Gen.FiltersGen Model.ItemFilters Model.FlexAlgBase Model.FlexAlgAbs Model.FlexAlg Model.FlexAlgT.
From TV Require Import Model.Scale Model.ScaleFlex Model.Engine Model.EngineRel Model.FlexAlgRel.
From TV Require Import Proofs.ScaleProofs Proofs.ScaleKit Proofs.ScaleFlex Proofs.FlexAlgStruct Proofs.FlexStyleRel Proofs.FlexRelKit Proofs.FlexRelItems.
Import ListNotations.
Close Scope Z_scope.

Ltac apk k Hk lem := first [eapply (lem k Hk) | eapply (lem k)].

Section Cross.
  Variable k : Q.
  Hypothesis Hk : 0 < k.
  Variable SR : FStyle XQ -> FStyle XQ -> Prop.
  Variable crow : bool.        (* the direction of the container *)
  Hypothesis SR_weak : forall s s', SR s s' -> fstyle_wrel k crow s s'.
  Notation L := (sc k).
  Notation O := (op_rel (sc k)).
  Notation A := (av_rel (sc k)).
  Notation WR := (witem_rel k SR).

  (* ---- 9.7 per line *)
  Lemma rel_resolve_line kc kc' ln ln' : kconst_rel k kc kc' -> Forall2 WR ln ln' -> Forall2 WR (resolve_line kc ln) (resolve_line kc' ln').
  Proof.
    intros Hc Hln. kconst_open Hc. unfold resolve_line. rewrite Ekr.
    pose proof (resolve_flexible_lengths_homog k Hk _ _ _ _ _ _ (wr_fi k SR _ _ Hln) (rel_s_main L (k_row kc) _ _ Hkgap)
                  (rel_s_main O (k_row kc) _ _ Hki)) as Hr.
    destruct (resolve_flexible_lengths (map w_fi ln) _ _), (resolve_flexible_lengths (map w_fi ln') _ _); cbn [op_rel] in Hr; try contradiction;
      [|exact Hln].
    apply (zip_total_rel WR (item_rel k)); [|exact Hln|exact Hr]. intros w w' x x' Hw Hx. apply rel_set_fi; assumption.
  Qed.

  (* ---- determine_hypothetical_cross_size *)
  Lemma rel_child_cross_of kc kc' w w' : kconst_rel k kc kc' -> WR w w' -> O (child_cross_of kc w) (child_cross_of kc' w').
  Proof.
    intros Hc Hw. kconst_open Hc. w_open Hw. ci_open Hwci. unfold child_cross_of. rewrite Ekr. set (row := k_row kc).
    pose proof (rel_cross_axis_sum k row _ _ (rel_rect_add k _ _ _ _ Hcpad Hcbor)) as Hpb.
    pose proof (rel_s_cross O row _ _ Hcsz) as Hs. pose proof (rel_s_cross O row _ _ Hcmin) as Hmn. pose proof (rel_s_cross O row _ _ Hcmax) as Hmx.
    hm k Hk.
  Qed.

  Lemma rel_hyp_cross_asks kc kc' av av' cm cm' w w' : kconst_rel k kc kc' -> sz_rel A av av' -> L cm cm' -> WR w w' ->
    Forall2 (fin_rel k) (hyp_cross_asks kc av cm w) (hyp_cross_asks kc' av' cm' w').
  Proof.
    intros Hc Hav Hcm Hw. pose proof (rel_child_cross_of _ _ _ _ Hc Hw) as Hcc. unfold hyp_cross_asks.
    destruct (child_cross_of kc w), (child_cross_of kc' w'); cbn [op_rel] in Hcc; try contradiction; [constructor|].
    kconst_open Hc. w_open Hw. ci_open Hwci. item_open Hwfi. rewrite Ekr. set (row := k_row kc).
    pose proof (rel_cross_axis_sum k row _ _ (rel_rect_add k _ _ _ _ Hcpad Hcbor)) as Hpb.
    pose proof (rel_s_cross O row _ _ Hcmin) as Hsmn. pose proof (rel_s_cross O row _ _ Hcmax) as Hsmx. pose proof (rel_s_cross A row _ _ Hav) as Hca.
    constructor; [|constructor]. apply fin_rel_mk; [|exact Hki|].
    - apply rel_s_of_mc; cbn [op_rel]; [assumption|exact I].
    - apply rel_s_of_mc; [cbn [av_rel]; exact Hcm|]. apk k Hk rel_maybe_max_af; [|exact Hpb]. apk k Hk rel_maybe_clamp_ao; assumption.
  Qed.

  Lemma rel_set_hyp_cross w w' i i' o o' : WR w w' -> L i i' -> L o o' -> WR (set_hyp_cross w i o) (set_hyp_cross w' i' o').
  Proof.
    intros Hw Hi Ho. unfold set_hyp_cross. apply rel_set_x; [exact Hw|]. w_open Hw. cross_open Hwx. unfold cross_rel.
    cbn [x_hyp_inner x_hyp_outer x_target x_outer_target x_margin_start x_margin_end x_offset]. repeat split; assumption.
  Qed.

  Lemma rel_hyp_cross_upd kc kc' w w' a a' : kconst_rel k kc kc' -> WR w w' -> Forall2 (ans_rel k) a a' ->
    WR (hyp_cross_upd kc w a) (hyp_cross_upd kc' w' a').
  Proof.
    intros Hc Hw Ha. pose proof (rel_child_cross_of _ _ _ _ Hc Hw) as Hcc. unfold hyp_cross_upd.
    kconst_open Hc. w_open Hw. ci_open Hwci. rewrite Ekr. set (row := k_row kc).
    pose proof (rel_cross_axis_sum k row _ _ (rel_rect_add k _ _ _ _ Hcpad Hcbor)) as Hpb. pose proof (rel_cross_axis_sum k row _ _ Hcmar) as Hm.
    pose proof (rel_s_cross O row _ _ Hcmin) as Hsmn. pose proof (rel_s_cross O row _ _ Hcmax) as Hsmx.
    assert (Hv : L (match child_cross_of kc w, a with
                    | Some v, _ => v
                    | None, x :: _ => fmax (maybe_clamp_fo (ans_cross row x) (s_cross row (ci_min (w_ci w))) (s_cross row (ci_max (w_ci w))))
                                           (cross_axis_sum row (rect_add (ci_padding (w_ci w)) (ci_border (w_ci w))))
                    | None, [] => zero end)
                   (match child_cross_of kc' w', a' with
                    | Some v, _ => v
                    | None, x :: _ => fmax (maybe_clamp_fo (ans_cross row x) (s_cross row (ci_min (w_ci w'))) (s_cross row (ci_max (w_ci w'))))
                                           (cross_axis_sum row (rect_add (ci_padding (w_ci w')) (ci_border (w_ci w'))))
                    | None, [] => zero end)).
    { destruct (child_cross_of kc w), (child_cross_of kc' w'); cbn [op_rel] in Hcc; try contradiction; [exact Hcc|].
      destruct Ha as [|x x' l l' Hx Hl]; [apply sc_zero|]. pose proof (rel_ans_cross k row _ _ Hx) as Hax. hm k Hk. }
    apply rel_set_hyp_cross; [exact Hw|exact Hv|]. apply sc_add; assumption.
  Qed.

  (* ---- calculate_children_base_lines *)
  Lemma rel_count_baseline ln ln' : Forall2 WR ln ln' -> count_baseline ln' = count_baseline ln.
  Proof.
    intros Hln. unfold count_baseline. apply (rel_length WR). apply rel_filter; [|exact Hln]. intros w w' Hw. w_open Hw. assumption.
  Qed.
  Lemma rel_mark_baseline_line kc kc' ln ln' : kconst_rel k kc kc' -> Forall2 WR ln ln' -> Forall2 WR (mark_baseline_line kc ln) (mark_baseline_line kc' ln').
  Proof.
    intros Hc Hln. kconst_open Hc. unfold mark_baseline_line. rewrite Ekr, (rel_count_baseline _ _ Hln).
    apply (rel_map WR WR); [|exact Hln]. intros w w' Hw. w_open Hw. rewrite Ewba. apply rel_set_ask_baseline. exact Hw.
  Qed.

  Lemma rel_baseline_asks kc kc' kd kd' av av' cm cm' w w' : kconst_rel k kc kc' -> sz_rel O kd kd' -> sz_rel A av av' -> L cm cm' -> WR w w' ->
    Forall2 (fin_rel k) (baseline_asks kc kd av cm w) (baseline_asks kc' kd' av' cm' w').
  Proof.
    intros Hc Hkd Hav Hcm Hw. kconst_open Hc. w_open Hw. item_open Hwfi. cross_open Hwx. unfold baseline_asks. rewrite Ewask.
    destruct (w_ask_baseline w); [|constructor]. constructor; [|constructor]. destruct Hkd as [_ Hkdh]. destruct Hav as [_ Havh].
    apply fin_rel_mk; [|exact Hki|]; split; cbn [width height op_rel av_rel]; try assumption. apk k Hk rel_avail_maybe_set; assumption.
  Qed.

  Lemma rel_baseline_upd w w' a a' : WR w w' -> Forall2 (ans_rel k) a a' -> WR (baseline_upd w a) (baseline_upd w' a').
  Proof.
    intros Hw Ha. unfold baseline_upd. destruct Ha as [|x x' l l' [Hx1 Hx2] Hl]; [exact Hw|].
    apply rel_set_baseline; [exact Hw|]. w_open Hw. ci_open Hwci. destruct Hcmar as (_ & _ & Hmt & _). destruct Hx1 as [_ Hh]. hm k Hk.
  Qed.

  (* ---- calculate_cross_size *)
  Lemma rel_max_baseline_of ln ln' : Forall2 WR ln ln' -> L (max_baseline_of ln) (max_baseline_of ln').
  Proof.
    intros Hln. unfold max_baseline_of. apply (rel_fold_left WR L); [|exact Hln|apply sc_zero]. intros b b' w w' Hb Hw. w_open Hw.
    apply (sc_max k); assumption.
  Qed.

  Lemma rel_line_cross_contributions kc kc' ln ln' : kconst_rel k kc kc' -> Forall2 WR ln ln' ->
    Forall2 L (line_cross_contributions kc ln) (line_cross_contributions kc' ln').
  Proof.
    intros Hc Hln. kconst_open Hc. unfold line_cross_contributions. rewrite Ekr. pose proof (rel_max_baseline_of _ _ Hln) as Hmb.
    apply (rel_map WR L); [|exact Hln]. intros w w' Hw. w_open Hw. ci_open Hwci. cross_open Hwx. rewrite Ewba, Ecma.
    match goal with |- context [if ?b then _ else _] => destruct b end; [|assumption]. apply sc_add; [apply sc_sub|]; assumption.
  Qed.

  Lemma rel_line_cross_size l l' : Forall2 L l l' -> L (line_cross_size l) (line_cross_size l').
  Proof.
    intros Hl. unfold line_cross_size. apply (rel_fold_left L L); [|exact Hl|apply sc_zero]. intros. apply (sc_max k); assumption.
  Qed.

  Lemma rel_map_const_zero {X} (R : X -> X -> Prop) l l' : Forall2 R l l' -> Forall2 L (map (fun _ => zero) l) (map (fun _ => zero) l').
  Proof. induction 1; cbn [map]; constructor; [apply sc_zero|assumption]. Qed.

  Lemma rel_calc_cross_sizes kc kc' ns ns' lines lines' : kconst_rel k kc kc' -> sz_rel O ns ns' -> Forall2 (Forall2 WR) lines lines' ->
    Forall2 L (calc_cross_sizes kc ns lines) (calc_cross_sizes kc' ns' lines').
  Proof.
    intros Hc Hns Hl. pose proof Hc as Hc0. kconst_open Hc. unfold calc_cross_sizes. rewrite Ekr, Ekw. set (row := k_row kc).
    pose proof (rel_cross_axis_sum k row _ _ Hkin) as Hpb. pose proof (rel_s_cross O row _ _ Hkmin) as Hsmn.
    pose proof (rel_s_cross O row _ _ Hkmax) as Hsmx. pose proof (rel_s_cross O row _ _ Hns) as Hcn.
    assert (Esome : match s_cross row ns' with Some _ => true | None => false end = match s_cross row ns with Some _ => true | None => false end)
      by (destruct (s_cross row ns), (s_cross row ns'); cbn [op_rel] in Hcn; try contradiction; reflexivity).
    rewrite Esome. destruct (negb (k_wrap kc) && _)%bool.
    - destruct Hl as [|ln ln' r r' Hln Hr]; [constructor|]. constructor; [hm k Hk; apply sc_zero|]. apply (rel_map_const_zero (Forall2 WR)). exact Hr.
    - assert (Hs : Forall2 L (map (fun ln => line_cross_size (line_cross_contributions kc ln)) lines)
                             (map (fun ln => line_cross_size (line_cross_contributions kc' ln)) lines')).
      { apply (rel_map (Forall2 WR) L); [|exact Hl]. intros ln ln' Hln. apply rel_line_cross_size. apply rel_line_cross_contributions; assumption. }
      destruct (negb (k_wrap kc)); [|exact Hs]. destruct Hs as [|x x' r r' Hx Hr]; [constructor|]. constructor; [|exact Hr]. hm k Hk.
  Qed.

  (* ---- handle_align_content_stretch *)
  Lemma rel_handle_align_content_stretch kc kc' ns ns' cs cs' : kconst_rel k kc kc' -> sz_rel O ns ns' -> Forall2 L cs cs' ->
    Forall2 L (handle_align_content_stretch kc ns cs) (handle_align_content_stretch kc' ns' cs').
  Proof.
    intros Hc Hns Hcs. kconst_open Hc. unfold handle_align_content_stretch. rewrite Ekac, Ekr. destruct (k_align_content kc); try exact Hcs.
    set (row := k_row kc).
    pose proof (rel_cross_axis_sum k row _ _ Hkin) as Hpb. pose proof (rel_s_cross O row _ _ Hkmin) as Hsmn.
    pose proof (rel_s_cross O row _ _ Hkmax) as Hsmx. pose proof (rel_s_cross O row _ _ Hns) as Hcn. pose proof (rel_s_cross L row _ _ Hkgap) as Hg.
    rewrite (rel_zlen L _ _ Hcs).
    assert (Hmin : L (opt_unwrap_or (maybe_max_of (maybe_sub_of (maybe_clamp_oo (opt_or (s_cross row ns) (s_cross row (k_min kc))) (s_cross row (k_min kc)) (s_cross row (k_max kc)))
                                                                 (cross_axis_sum row (k_inset kc))) zero) zero)
                     (opt_unwrap_or (maybe_max_of (maybe_sub_of (maybe_clamp_oo (opt_or (s_cross row ns') (s_cross row (k_min kc'))) (s_cross row (k_min kc')) (s_cross row (k_max kc')))
                                                                 (cross_axis_sum row (k_inset kc'))) zero) zero)).
    { hm k Hk; apply sc_zero. }
    set (cmin := opt_unwrap_or _ zero) in *. set (cmin' := opt_unwrap_or (maybe_max_of (maybe_sub_of (maybe_clamp_oo (opt_or (s_cross row ns') _) _ _) _) zero) zero) in *.
    clearbody cmin cmin'.
    assert (Ht : L (fsum cs + sum_axis_gaps (s_cross row (k_gap kc)) (zlen cs))%num (fsum cs' + sum_axis_gaps (s_cross row (k_gap kc')) (zlen cs))%num)
      by (apply sc_add; [apply rel_fsum; exact Hcs|apply (rel_sum_axis_gaps k Hk); exact Hg]).
    set (tot := (fsum cs + _)%num) in *. set (tot' := (fsum cs' + _)%num) in *. clearbody tot tot'.
    rewrite (sc_ltb k _ _ _ _ Hk Ht Hmin). destruct (tot <? cmin)%num; [|exact Hcs].
    apply (rel_map L L); [|exact Hcs]. intros x x' Hx. apply sc_add; [exact Hx|]. apply (sc_div_dl k); [exact Hk|apply sc_sub; assumption|apply dl_of_Z].
  Qed.

  (* ---- determine_used_cross_size *)
  Lemma rel_used_cross_upd kc kc' lc lc' w w' : kconst_rel k kc kc' -> L lc lc' -> WR w w' -> WR (used_cross_upd kc lc w) (used_cross_upd kc' lc' w').
  Proof.
    intros Hc Hlc Hw. unfold used_cross_upd. apply rel_set_x; [exact Hw|]. kconst_open Hc. w_open Hw. cross_open Hwx. ci_open Hwci.
    pose proof (SR_weak _ _ Hwst) as Wst. wstyle_open Wst. rewrite Ekr.
    pose proof (Wucs kc kc' lc lc' (w_ci w) (w_ci w') (w_fi w) (w_fi w') _ _ Hc Hlc Hwci Hxhi) as Ht.
    unfold work_of. unfold cross_rel. cbn [x_hyp_inner x_hyp_outer x_target x_outer_target x_margin_start x_margin_end x_offset].
    repeat match goal with |- _ /\ _ => split end; try assumption. apply sc_add; [exact Ht|]. apply rel_cross_axis_sum. exact Hcmar.
  Qed.

  (* ---- distribute_remaining_free_space *)
  Lemma rel_distribute_line kc kc' im im' ln ln' : kconst_rel k kc kc' -> L im im' -> Forall2 WR ln ln' ->
    Forall2 WR (distribute_line kc im ln) (distribute_line kc' im' ln').
  Proof.
    intros Hc Him Hln. kconst_open Hc. unfold distribute_line. rewrite Ekr, Ekj, Ekrev.
    apply (zip_total_rel WR (item_rel k)); [|exact Hln|].
    - intros w w' x x' Hw Hx. apply rel_set_fi; assumption.
    - apply (distribute_remaining_free_space_homog k Hk); [apply (wr_fi k SR); exact Hln|apply rel_s_main; exact Hkgap|exact Him].
  Qed.

  (* ---- resolve_cross_axis_auto_margins, align_flex_items_along_cross_axis *)
  Lemma rel_align_item_cross kc kc' a f f' : kconst_rel k kc kc' -> L f f' -> L (align_item_cross kc a f) (align_item_cross kc' a f').
  Proof.
    intros Hc Hf. kconst_open Hc. unfold align_item_cross. rewrite Ekwr.
    destruct a; try apply sc_zero; try exact Hf; try (destruct (k_wrap_reverse kc); [exact Hf|apply sc_zero]);
      try (destruct (k_wrap_reverse kc); [apply sc_zero|exact Hf]).
    apply (sc_div_dl k); [exact Hk|exact Hf|apply dl_refl].
  Qed.

  Lemma rel_cross_margins_upd kc kc' lc lc' mb mb' w w' : kconst_rel k kc kc' -> L lc lc' -> L mb mb' -> WR w w' ->
    WR (cross_margins_upd kc lc mb w) (cross_margins_upd kc' lc' mb' w').
  Proof.
    intros Hc Hlc Hmb Hw. pose proof Hc as Hc0. kconst_open Hc. w_open Hw. cross_open Hwx. ci_open Hwci. unfold cross_margins_upd. rewrite Ekr, Ecma.
    assert (Hfs : L (lc - x_outer_target (w_x w))%num (lc' - x_outer_target (w_x w'))%num) by (apply sc_sub; assumption).
    assert (Hhalf : L ((lc - x_outer_target (w_x w)) / two)%num ((lc' - x_outer_target (w_x w')) / two)%num)
      by (apply (sc_div_dl k); [exact Hk|exact Hfs|apply dl_refl]).
    assert (Hal : L (align_item_cross_b kc w (lc - x_outer_target (w_x w))%num mb) (align_item_cross_b kc' w' (lc' - x_outer_target (w_x w'))%num mb')).
    { unfold align_item_cross_b. rewrite Ewba, Ekr, Ekwr, Ecal. destruct (w_baseline_align w).
      - destruct (k_row kc); [apply sc_sub; assumption|]. destruct (k_wrap_reverse kc); [exact Hfs|apply sc_zero].
      - apply rel_align_item_cross; assumption. }
    assert (Hmk : forall ms ms' me me' off off', L ms ms' -> L me me' -> L off off' ->
              WR (set_x w (mkCross (x_hyp_inner (w_x w)) (x_hyp_outer (w_x w)) (x_target (w_x w)) (x_outer_target (w_x w)) ms me off))
                 (set_x w' (mkCross (x_hyp_inner (w_x w')) (x_hyp_outer (w_x w')) (x_target (w_x w')) (x_outer_target (w_x w')) ms' me' off'))).
    { intros. apply rel_set_x; [exact Hw|]. unfold cross_rel. cbn [x_hyp_inner x_hyp_outer x_target x_outer_target x_margin_start x_margin_end x_offset].
      repeat split; assumption. }
    destruct (r_cross_start (k_row kc) (ci_margin_auto (w_ci w))), (r_cross_end (k_row kc) (ci_margin_auto (w_ci w))); cbn [andb]; apply Hmk; assumption.
  Qed.

  (* ---- determine_container_cross_size *)
  Lemma rel_container_cross_size kc kc' g g' ns ns' cs cs' : kconst_rel k kc kc' -> pt_rel L g g' -> sz_rel O ns ns' -> Forall2 L cs cs' ->
    L (fst (fst (container_cross_size kc g ns cs))) (fst (fst (container_cross_size kc' g' ns' cs'))) /\
    L (snd (fst (container_cross_size kc g ns cs))) (snd (fst (container_cross_size kc' g' ns' cs'))) /\
    L (snd (container_cross_size kc g ns cs)) (snd (container_cross_size kc' g' ns' cs')).
  Proof.
    intros Hc Hg Hns Hcs. kconst_open Hc. unfold container_cross_size. cbn [fst snd]. rewrite Ekr, (rel_zlen L _ _ Hcs). set (row := k_row kc).
    pose proof (rel_cross_axis_sum k row _ _ Hkin) as Hpb. pose proof (rel_s_cross O row _ _ Hkmin) as Hsmn.
    pose proof (rel_s_cross O row _ _ Hkmax) as Hsmx. pose proof (rel_s_cross O row _ _ Hns) as Hcn. pose proof (rel_s_cross L row _ _ Hkgap) as Hgap.
    pose proof (rel_p_cross k row _ _ Hg) as Hgc. pose proof (rel_fsum k _ _ Hcs) as Hsum.
    pose proof (rel_sum_axis_gaps k Hk _ _ (zlen cs) Hgap) as Hgs.
    set (gs := sum_axis_gaps (s_cross row (k_gap kc)) (zlen cs)) in *. set (gs' := sum_axis_gaps (s_cross row (k_gap kc')) (zlen cs)) in *.
    clearbody gs gs'. repeat split; hm k Hk.
  Qed.
End Cross.
