(* Wave 9n: the whole of step 11.5 (Model/GridIntrinsic.v resolve_intrinsic_track_sizes) with additional fuel at every inner
   `distribute_loop`, and the input class of the statement "11.5 does not depend on that fuel".  Definitions only.

   `to_base_f e1 e2` / `to_limit_f e3` .. `resolve_intrinsic_f e1 e2 e3`: textual copies of to_base .. resolve_intrinsic_track_sizes over the
   fuel-parametrised kernels of Model/FuelDistDefs.v: e1 / e2 more rounds at the first / second call of distribute_space_up_to_limits in
   distribute_item_space_to_base_size_inner, e3 more at the one of distribute_item_space_to_growth_limit.  The same (e1, e2, e3) at
   every call of the run.  At (0, 0, 0) the copy IS the model (by computation, any `Num`).

   `tk_ok inner t`: the class of tracks that is invariant under every phase of 11.5:
     base size finite; growth limit finite or +inf; item-incurred increase finite and >= 0; both planned increases finite;
     the values inside both track sizing functions finite, a flex factor >= 0.
   `inner_ok`, `item_ok contrib`: the inner node size is absent or finite; the three contributions of the item (the oracle) and its
   margin sum are finite. *)
From Coq Require Import ZArith QArith Bool List.
From TV Require Import Num.Num Num.QNum Gen.GridTracksGen Model.GridTracks Model.GridIntrinsic Model.FuelDistDefs.
Import ListNotations.

Section StepFuelled.
  Context {T : Type} `{Num T}.
  Local Open Scope num_scope.
  Notation track := (track T).
  Notation item := (item T).

  Variable contrib : item -> ckind -> T.
  Variable inner : option T.
  Variable avail : avail_space T.
  Variables e1 e2 e3 : nat.

  Section Batch.
    Variable is_flex : bool.
    Variable use_flex_factor : bool.

    Definition to_base_f (it : item) (space : T) (affected : track -> bool) (limit : track -> T) (ct : contribution_type)
               (tracks : list track) : list track :=
      if zero <? space
      then on_slice it (fun sl => base_size_fuelled e1 e2 is_flex use_flex_factor space sl affected limit ct) tracks
      else tracks.

    Definition step_minimums_f (batch : list item) (tracks : list track) : list track :=
      flush_planned_base
        (fold_left (fun ts it =>
                      if it_crosses_intrinsic it then
                        let space := intrinsic_minimum_space contrib avail it (spanned_track_limit inner it ts) in
                        to_base_f it space (has_intrinsic_min inner) (scroll_limit inner it) CMinimum ts
                      else ts) batch tracks).

    Definition step_content_minimums_f (batch : list item) (tracks : list track) : list track :=
      flush_planned_base
        (fold_left (fun ts it =>
                      to_base_f it (min_content_contribution contrib it) (fun t => is_min_or_max_content (minf t))
                                (scroll_limit inner it) CMinimum ts) batch tracks).

    Definition step_max_content_minimums_f (batch : list item) (tracks : list track) : list track :=
      match avail with
      | MaxContentA =>
          flush_planned_base
            (fold_left (fun ts it =>
                          let axis_max_content_size := max_content_contribution contrib it in
                          let limit := spanned_track_limit inner it ts in
                          let space := maybe_min axis_max_content_size limit in
                          if existsb has_max_content_min (item_slice it ts)
                          then to_base_f it space has_max_content_min (fun _ => infinity) CMaximum ts
                          else to_base_f it space has_auto_min (fit_content_limited_growth_limit inner) CMaximum ts)
                       batch tracks)
      | _ => tracks
      end.

    Definition step_max_content_all_f (batch : list item) (tracks : list track) : list track :=
      flush_planned_base
        (fold_left (fun ts it => to_base_f it (max_content_contribution contrib it) has_max_content_min growth_limit CMaximum ts)
                   batch tracks).

    Definition to_limit_f (it : item) (space : T) (affected : track -> bool) (tracks : list track) : list track :=
      if zero <? space then on_slice it (fun sl => growth_limit_fuelled inner e3 space sl affected) tracks
      else tracks.
    Definition step_intrinsic_maximums_f (batch : list item) (tracks : list track) : list track :=
      flush_planned_growth_limit_increases true
        (fold_left (fun ts it => to_limit_f it (min_content_contribution contrib it)
                                            (fun t => negb (has_definite_value inner (maxf t))) ts)
                   batch tracks).
    Definition step_max_content_maximums_f (batch : list item) (tracks : list track) : list track :=
      flush_planned_growth_limit_increases false
        (fold_left (fun ts it => to_limit_f it (max_content_contribution contrib it) (has_max_content_max inner) ts) batch tracks).

    Definition general_batch_f (batch : list item) (tracks : list track) : list track :=
      let ts1 := step_minimums_f batch tracks in
      let ts2 := step_content_minimums_f batch ts1 in
      let ts3 := step_max_content_minimums_f batch ts2 in
      let ts4 := step_max_content_all_f batch ts3 in
      let ts5 := fix_growth_limits ts4 in
      if is_flex then ts5
      else step_max_content_maximums_f batch (step_intrinsic_maximums_f batch ts5).
  End Batch.

  Definition process_batch_f (flex_factor_sum : T) (batch : list item) (is_flex : bool) (tracks : list track) : list track :=
    let batch_span := match batch with it :: _ => it_span it | [] => 1%nat end in
    if negb is_flex && Nat.eqb batch_span 1 then span1_batch contrib inner avail batch tracks
    else general_batch_f is_flex (is_flex && neb flex_factor_sum zero) batch tracks.

  Fixpoint batch_loop_f (fuel : nat) (flex_factor_sum : T) (index_offset : nat) (items : list item) (tracks : list track)
    : list track :=
    match fuel with
    | O => tracks
    | S f =>
        match next_batch index_offset items with
        | None => tracks
        | Some (next, is_flex) =>
            let batch := firstn (next - index_offset) (skipn index_offset items) in
            let tracks' := process_batch_f flex_factor_sum batch is_flex tracks in
            if is_flex then tracks'
            else batch_loop_f f flex_factor_sum next items tracks'
        end
    end.

  Definition resolve_intrinsic_f (items : list item) (tracks : list track) : list track :=
    let sorted := sort_items items in
    let flex_factor_sum := fsum (map flex_factor tracks) in
    finish_infinite_limits (batch_loop_f (intrinsic_fuel items) flex_factor_sum 0 sorted tracks).
End StepFuelled.

(* ---- the input class (exact instance) *)
Definition fin_or_pinf (x : XQ) : Prop := finite x \/ x = PInf.

Definition sfn_ok (f : sfn XQ) : Prop :=
  match f with
  | SLength v | SPercent v | SFitPx v | SFitPct v => finite v
  | SFr v => finite v /\ (0 <= val v)%Q
  | _ => True
  end.

Definition tk_ok (t : track XQ) : Prop :=
  finite (base_size t) /\ fin_or_pinf (growth_limit t) /\
  finite (incurred t) /\ (0 <= val (incurred t))%Q /\
  finite (base_planned t) /\ finite (limit_planned t) /\
  sfn_ok (minf t) /\ sfn_ok (maxf t).

Definition inner_ok (inner : option XQ) : Prop := match inner with Some v => finite v | None => True end.

Definition item_ok (contrib : item XQ -> ckind -> XQ) (it : item XQ) : Prop :=
  finite (it_margin it) /\ forall k, finite (contrib it k).
