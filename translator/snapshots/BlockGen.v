(* GENERATED on every run by /verif/translator/gen_block.py from src/tree/layout.rs -- do not edit. *)
From Coq Require Import ZArith Bool List.
From TV Require Import Num.Num.
Record MarginSet (T : Type) := mkMS { ms_positive : T; ms_negative : T }.
Arguments mkMS {T}.
Arguments ms_positive {T}.
Arguments ms_negative {T}.
Section BlockGen.
Context {T : Type} `{Num T}.
Definition ms_ZERO : MarginSet T := (mkMS zero zero).
Definition ms_from_margin (margin : T) : MarginSet T :=
  (if (leb zero margin) then (mkMS margin zero) else (mkMS zero margin)).
Definition ms_collapse_with_margin (self : MarginSet T) (margin : T) : MarginSet T :=
  (if (leb zero margin) then (mkMS (fmax (ms_positive self) margin) (ms_negative self)) else (mkMS (ms_positive self) (fmin (ms_negative self) margin))).
Definition ms_collapse_with_set (self : MarginSet T) (other : MarginSet T) : MarginSet T :=
  (mkMS (fmax (ms_positive self) (ms_positive other)) (fmin (ms_negative self) (ms_negative other))).
Definition ms_resolve (self : MarginSet T) : T :=
  (add (ms_positive self) (ms_negative self)).
End BlockGen.
