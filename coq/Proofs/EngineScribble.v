(* The layout-level form of C01 ("every node's stored layout equals the fresh one") is FALSE for algorithms that
   write child layouts while only being asked for their size (ComputeSize), even with an exact memo key:
   witness = a three-node chain, no mutation at all, only the root input changes between two passes.
   taffy's block algorithm is such an algorithm (perform_final_layout_on_in_flow_children runs, and calls
   set_unrounded_layout, in ComputeSize mode): known finding C01/computesize-scribble. *)
From Coq Require Import List Bool Arith NArith Lia.
From TV Require Import Model.Engine Model.EngineToy.
Import ListNotations.

(* root (id 0):  PerformLayout x  ->  child.PerformLayout x ; child.ComputeSize 2
   middle (id 1): any input i     ->  child.query i ; child.layout := tag of i      (writes the layout in EVERY mode)
   leaf (id 2):  returns 0 *)
Definition w_algo (s : TS) (st : list TS) (i : TIn) : Alg TIn TOut TLay :=
  match fst s with
  | 0%N => Query _ _ _ 0 (PerformLayout, snd i) (fun _ => Query _ _ _ 0 (ComputeSize, 2%N) (fun o => Ret _ _ _ o))
  | 1%N => Query _ _ _ 0 i (fun _ => SetLayout _ _ _ 0 (snd i) (Ret _ _ _ (snd i)))
  | _ => Ret _ _ _ 0%N
  end.

Definition w_memo := memo TS TIn TOut TLay t_mode t_in_eqb t_is_none 0%N 0%N w_algo.
Definition w_sk : sk TS := SNode TS (0%N, false) [SNode TS (1%N, false) [SNode TS (2%N, false) []]].
Definition w_fresh : ttree := fresh TS TIn TOut TLay 0%N w_sk.

(* stored layout of the leaf *)
Definition leaf_lay (t : ttree) : option N :=
  match subtree TS TIn TOut TLay t [0; 0] with Some u => Some (lay_of TS TIn TOut TLay u) | None => None end.

Definition after (inputs : list N) : option ttree :=
  fold_left (fun acc x => match acc with
                          | Some t => match w_memo 8 t (PerformLayout, x) with Some (_, t') => Some t' | None => None end
                          | None => None end) inputs (Some w_fresh).

(* incremental: pass with root input 1, then pass with root input 3; from scratch: one pass with root input 3 *)
Lemma scribble_witness :
  option_map leaf_lay (after [1%N; 3%N]) = Some (Some 3%N) /\
  option_map leaf_lay (after [3%N]) = Some (Some 2%N).
Proof. vm_compute. split; reflexivity. Qed.

(* ... although both trees have the same skeleton (nothing was mutated) *)
Lemma scribble_same_skeleton :
  option_map (skel TS TIn TOut TLay) (after [1%N; 3%N]) = Some w_sk /\ option_map (skel TS TIn TOut TLay) (after [3%N]) = Some w_sk.
Proof. vm_compute. split; reflexivity. Qed.
