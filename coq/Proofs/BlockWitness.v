(* Concrete configurations over XQ: the witnesses of the `_refuted` theorems of C10 and the non-vacuity examples.
   The children's LayoutOutputs are computed by the models of compute_inner (Model.BlockTree.block_compute_inner) and of
   the leaf (Model.BlockLeaf.leaf_layout), then fed to block_inflow as the oracle values. *)
From Coq Require Import ZArith QArith Bool List Lqa.
From TV Require Import Num.Num Num.QNum Gen.BlockGen Model.Block Model.BlockLeaf Model.BlockTree Proofs.BlockProofs.
Import ListNotations.
Open Scope Q_scope.

Definition qz (z : Z) : XQ := Fin (inject_Z z).
Definition zero_lp : BRect (LPA XQ) := mkRect (Len (qz 0)) (Len (qz 0)) (Len (qz 0)) (Len (qz 0)).
Definition auto_rect : BRect (LPA XQ) := mkRect Auto Auto Auto Auto.
Definition base_style (w h : LPA XQ) (mt mb : Z) : BStyle XQ :=
  mkStyle DBlock false false OVisible OVisible (qz 0) PRelative auto_rect (mkSize w h) (mkSize Auto Auto) (mkSize Auto Auto) None
          (mkRect (Len (qz 0)) (Len (qz 0)) (Len (qz mt)) (Len (qz mb))) zero_lp zero_lp TAAuto.

(* a 100 x 100 block container, laid out as a root (parent size unknown, margins not collapsible with its parent) *)
Definition w_root : BStyle XQ := base_style (Len (qz 100)) (Len (qz 100)) 0 0.
Definition w_root_in : BInput XQ := mkInput (mkSize (Some (qz 100)) (Some (qz 100))) sz_none (mkLine false false).
Definition w_P : Params XQ := block_params w_root w_root_in (qz 100).

Definition out_of_tree (t : TreeOut XQ) : ChildOut XQ :=
  mkOut (to_size t) (io_content_size (to_inflow t)) (fst (to_margins t)) (snd (to_margins t)) (to_ct t).

(* what the container passes to an in-flow block child *)
Definition child_input (P : Params XQ) (it : Item XQ) : BInput XQ :=
  mkInput (item_known_dims P it) (mkSize (Some (p_outer_width P)) None) (mkLine true true).
Definition child_avail (P : Params XQ) (it : Item XQ) : BSize (Avail XQ) := mkSize (Definite (item_avail_w P it)) MinContent.

(* a block child with leaf children, and a leaf child, as oracle values *)
Definition block_child (P : Params XQ) (it : Item XQ) (st : BStyle XQ) (kids : list (BStyle XQ * Measure XQ)) : ChildOut XQ :=
  out_of_tree (block_compute_inner st (child_input P it) (child_avail P it) kids).
Definition leaf_child (P : Params XQ) (it : Item XQ) (st : BStyle XQ) : ChildOut XQ :=
  leaf_layout st MNone (item_known_dims P it) (mkSize (Some (p_outer_width P)) None) PerformLayout.

Definition items_of (sts : list (BStyle XQ)) : list (Item XQ) := generate_item_list sts (block_node_inner_size w_root w_root_in).

(* ---- C10_ct_refuted: child {height 50%, one empty block leaf} followed by a 10 px sibling *)
Definition ct_child : BStyle XQ := base_style Auto (Pct (Fin (1 # 2))) 0 0.
Definition ct_empty : BStyle XQ := base_style Auto Auto 0 0.
Definition ct_sibling : BStyle XQ := base_style Auto (Len (qz 10)) 0 0.
Definition ct_items : list (Item XQ) := items_of [ct_child; ct_sibling].
Definition ct_xs : list (Item XQ * ChildOut XQ) :=
  match ct_items with
  | [a; b] => [(a, block_child w_P a ct_child [(ct_empty, MNone)]); (b, leaf_child w_P b ct_sibling)]
  | _ => []
  end.


(* ---- C10_margin_collapse_refuted: A {height 20, margin-bottom -10}; B {margin-top 20} containing C {height 10, margin-top -5} *)
Definition mx_a : BStyle XQ := base_style Auto (Len (qz 20)) 0 (-10).
Definition mx_b : BStyle XQ := base_style Auto Auto 20 0.
Definition mx_c : BStyle XQ := base_style Auto (Len (qz 10)) (-5) 0.
Definition mx_items : list (Item XQ) := items_of [mx_a; mx_b].
Definition mx_xs : list (Item XQ * ChildOut XQ) :=
  match mx_items with
  | [a; b] => [(a, leaf_child w_P a mx_a); (b, block_child w_P b mx_b [(mx_c, MNone)])]
  | _ => []
  end.

(* the order premises on every item, WITHOUT H_ct *)
Definition order_premises (P : Params XQ) (x : Item XQ * ChildOut XQ) : Prop :=
  position_is_absolute (it_position (fst x)) = false /\ fin_item P (fst x) (snd x) /\ nonneg_item P (fst x) (snd x).

Ltac qdec := vm_compute; try reflexivity; try discriminate; try exact I; try (intro; discriminate).
Ltac prem := repeat (first [apply Forall_cons | apply Forall_nil | split | constructor]); qdec.

Lemma w_P_fin : fin_params w_P.
Proof. exact I. Qed.

Lemma ct_refuted_witness :
  Forall (order_premises w_P) ct_xs /\
  exists ri rj,
    nth_error (io_results (block_inflow w_P ct_xs)) 0 = Some ri /\ nth_error (io_results (block_inflow w_P ct_xs)) 1 = Some rj /\
    ir_inflow ri = true /\ ir_inflow rj = true /\
    ir_ct ri = true /\ 0 < val (s_h (ir_size ri)) /\
    val (ir_y rj) < val (ir_y ri) + val (s_h (ir_size ri)).
Proof.
  split.
  - unfold order_premises. prem.
  - eexists _, _. split; [vm_compute; reflexivity|]. split; [vm_compute; reflexivity|]. repeat split; qdec.
Qed.

(* compute_inner's own decision: collapse-through reported for a box whose used height is positive *)
Lemma ct_decision_witness :
  match ct_items with
  | a :: _ =>
      let t := block_compute_inner ct_child (child_input w_P a) (child_avail w_P a) [(ct_empty, MNone)] in
      block_prevent_ct ct_child (child_input w_P a) = false /\ to_ct t = true /\ 0 < val (s_h (to_size t)) /\
      s_h (in_known (child_input w_P a)) = Some (Fin (100 # 2)) /\ s_h (in_parent (child_input w_P a)) = None
  | [] => False
  end.
Proof. vm_compute. repeat split; reflexivity. Qed.

Lemma mixed_refuted_witness :
  match mx_xs with
  | [(it_i, co_i); (it_j, co_j)] =>
      position_is_absolute (it_position it_i) = false /\ fin_item w_P it_i co_i /\ co_ct co_i = false /\
      val (item_off_y it_i) == 0 /\ wf_ms (co_bottom co_i) /\
      position_is_absolute (it_position it_j) = false /\ fin_item w_P it_j co_j /\ co_ct co_j = false /\
      val (item_off_y it_j) == 0 /\ wf_ms (co_top co_j) /\
      exists r_i r_j, io_results (block_inflow w_P mx_xs) = [r_i; r_j] /\
        mixed_ms (ir_top_set r_j) /\
        val (ir_y r_j) - (val (ir_y r_i) + val (s_h (ir_size r_i))) == 5 /\
        val (ms_resolve (ms_collapse_with_set (ir_bottom_set r_i) (ir_top_set r_j))) == 10
  | _ => False
  end.
Proof.
  vm_compute. repeat split; try reflexivity; try discriminate; try exact I.
  eexists _, _. split; [reflexivity|]. repeat split; reflexivity.
Qed.

(* ---- non-vacuity: A {h 20, mb 10}; E {empty, mt 5, mb 7}; B {h 10, mt 3}; absolute box interleaved *)
Definition ex_a : BStyle XQ := base_style Auto (Len (qz 20)) 0 10.
Definition ex_e : BStyle XQ := base_style Auto Auto 5 7.
Definition ex_b : BStyle XQ := base_style Auto (Len (qz 10)) 3 0.
Definition ex_items : list (Item XQ) := items_of [ex_a; ex_e; ex_b].
Definition ex_xs : list (Item XQ * ChildOut XQ) :=
  match ex_items with
  | [a; e; b] => [(a, leaf_child w_P a ex_a); (e, leaf_child w_P e ex_e); (b, leaf_child w_P b ex_b)]
  | _ => []
  end.

Lemma ex_order_premises : Forall (nonneg_ok w_P) ex_xs.
Proof. unfold nonneg_ok. repeat (first [apply Forall_cons | apply Forall_nil]); right; unfold hct_item; repeat (first [split | constructor]); qdec. Qed.

Lemma ex_values :
  map (fun r => (ir_y r, s_h (ir_size r), ir_ct r)) (io_results (block_inflow w_P ex_xs)) =
  [(Fin 0, Fin 20, false); (Fin 30, Fin 0, true); (Fin 30, Fin 10, false)].
Proof. vm_compute. reflexivity. Qed.

(* with negative margins: A {mb -4}; E {mt 6, mb -8}; B {mt 3}: distance = 6 + (-8) = -2 *)
Definition ex2_a : BStyle XQ := base_style Auto (Len (qz 20)) 0 (-4).
Definition ex2_e : BStyle XQ := base_style Auto Auto 6 (-8).
Definition ex2_items : list (Item XQ) := items_of [ex2_a; ex2_e; ex_b].
Definition ex2_xs : list (Item XQ * ChildOut XQ) :=
  match ex2_items with
  | [a; e; b] => [(a, leaf_child w_P a ex2_a); (e, leaf_child w_P e ex2_e); (b, leaf_child w_P b ex_b)]
  | _ => []
  end.
Lemma ex2_values :
  map (fun r => (ir_y r, s_h (ir_size r), ir_ct r)) (io_results (block_inflow w_P ex2_xs)) =
  [(Fin 0, Fin 20, false); (Fin 22, Fin 0, true); (Fin 18, Fin 10, false)].
Proof. vm_compute. reflexivity. Qed.

Lemma ex2_premises :
  match ex2_xs with
  | [(it_i, co_i); x_e; (it_j, co_j)] =>
      position_is_absolute (it_position it_i) = false /\ fin_item w_P it_i co_i /\ co_ct co_i = false /\
      val (item_off_y it_i) == 0 /\ wf_ms (co_bottom co_i) /\ Forall (through_ok w_P) [x_e] /\
      position_is_absolute (it_position it_j) = false /\ fin_item w_P it_j co_j /\
      val (item_off_y it_j) == 0 /\ wf_ms (co_top co_j)
  | _ => False
  end.
Proof.
  vm_compute. repeat split; try reflexivity; try discriminate; try exact I.
  apply Forall_cons; [|apply Forall_nil]. right. repeat split; try reflexivity; try discriminate; try exact I.
Qed.

(* fill width: margins 5 / 7 in the 100 px container *)
Definition ex_fw : BStyle XQ :=
  mkStyle DBlock false false OVisible OVisible (qz 0) PRelative auto_rect (mkSize Auto Auto) (mkSize Auto Auto) (mkSize Auto Auto) None
          (mkRect (Len (qz 5)) (Len (qz 7)) (Len (qz 0)) (Len (qz 0))) zero_lp zero_lp TAAuto.
Lemma ex_fill_width :
  match items_of [ex_fw] with
  | [it] => s_w (item_known_dims w_P it) = Some (Fin 88) /\ s_w (co_size (leaf_child w_P it ex_fw)) = Fin 88
  | _ => False
  end.
Proof. vm_compute. split; reflexivity. Qed.
