(* C05: the item lists of the three container algorithms (pipelines GENERATED from the source, Gen/FiltersGen.v) do not depend
   on the styles of display:none children.  Every proof steps the generated pipeline child by child with a case analysis on
   the enum values of the child's style, so it neither depends on how the source spells its filters (two `.filter`s, one
   closure with `&&`, `matches!`, ..) nor on the presence of the position:absolute filter (a change that breaks only C06
   leaves these proofs intact). *)
From Coq Require Import ZArith Bool List Lia.
From TV Require Import Num.Num Gen.BlockGen Model.Block Model.FiltersBase Gen.FiltersGen Model.ItemFilters Proofs.ItemFiltersBase.
From TV Require Import Model.PlacementBase Gen.PlacementGen Model.Placement.
Import ListNotations.
Close Scope Z_scope.   (* opened by Model/Placement.v *)

Section Hidden.
  Context {C S I : Type}.
  Variable position : S -> GPosition.
  Variable bgm : S -> GBoxGenerationMode.
  Notation hidden := (s_hidden bgm).

  (* ---------------------------------------------------------------- flex *)

  Lemma flex_hidden_blind (f f' : C -> S) (build : nat -> C -> S -> I) cs : agree_except hidden f f' cs ->
    flex_generate_items f position bgm build cs = flex_generate_items f' position bgm build cs.
  Proof.
    intros Ha. unfold flex_generate_items, g_enumerate. generalize 0.
    induction Ha as [|c cs Hc Hl IH]; intros n; [reflexivity|].
    cbn [g_enumerate_from map]. destruct Hc as [E|[A B]].
    - rewrite <- E. destruct (position (f c)) eqn:Ep, (bgm (f c)) eqn:Eb;
        repeat (progress (cbn; rewrite ?Ep, ?Eb)); first [apply IH | f_equal; apply IH].
    - unfold s_hidden, g_is_none in A, B.
      destruct (bgm (f c)) eqn:Eb; cbn in A; try discriminate A.
      destruct (bgm (f' c)) eqn:Eb'; cbn in B; try discriminate B.
      destruct (position (f c)) eqn:Ep, (position (f' c)) eqn:Ep';
        repeat (progress (cbn; rewrite ?Ep, ?Eb, ?Ep', ?Eb')); apply IH.
  Qed.

  (* deleting the display:none children: the same items up to the index *)
  Lemma flex_delete_hidden (f : C -> S) (build : C -> S -> I) cs :
    flex_generate_items f position bgm (fun _ => build) (filter (fun c => negb (hidden (f c))) cs) =
    flex_generate_items f position bgm (fun _ => build) cs.
  Proof.
    unfold flex_generate_items, g_enumerate, s_hidden, g_is_none. generalize 0 at 1. generalize 0.
    induction cs as [|c cs IH]; intros n m; [reflexivity|].
    cbn [filter g_enumerate_from map].
    destruct (position (f c)) eqn:Ep, (bgm (f c)) eqn:Eb;
      repeat (progress (cbn; rewrite ?Ep, ?Eb)); first [apply IH | f_equal; apply IH].
  Qed.

End Hidden.

(* ---------------------------------------------------------------- grid *)

Lemma grid_in_flow_hidden_blind {C S : Type} (position : S -> GPosition) (bgm : S -> GBoxGenerationMode) (f f' : C -> S) cs :
  agree_except (s_hidden bgm) f f' cs ->
  map (fun ics : nat * C * S => fst ics) (grid_in_flow_children f position bgm cs) =
  map (fun ics : nat * C * S => fst ics) (grid_in_flow_children f' position bgm cs) /\
  grid_in_flow_children f position bgm cs = grid_in_flow_children f' position bgm cs.
Proof.
  intros Ha. assert (G : grid_in_flow_children f position bgm cs = grid_in_flow_children f' position bgm cs).
  { unfold grid_in_flow_children, g_enumerate. generalize 0.
    induction Ha as [|c cs Hc Hl IH]; intros n; [reflexivity|].
    cbn [g_enumerate_from map]. destruct Hc as [E|[A B]].
    - rewrite <- E. destruct (position (f c)) eqn:Ep, (bgm (f c)) eqn:Eb;
        repeat (progress (cbn; rewrite ?Ep, ?Eb)); first [apply IH | f_equal; apply IH].
    - unfold s_hidden, g_is_none in A, B.
      destruct (bgm (f c)) eqn:Eb; cbn in A; try discriminate A.
      destruct (bgm (f' c)) eqn:Eb'; cbn in B; try discriminate B.
      destruct (position (f c)) eqn:Ep, (position (f' c)) eqn:Ep';
        repeat (progress (cbn; rewrite ?Ep, ?Eb, ?Ep', ?Eb')); apply IH. }
  rewrite G. split; reflexivity.
Qed.

(* the grid size estimate: blind to display:none children *)
Lemma grid_estimate_hidden_blind {C S : Type} (position : S -> GPosition) (bgm : S -> GBoxGenerationMode) (f f' : C -> S) cs :
  agree_except (s_hidden bgm) f f' cs ->
  grid_estimate_children f position bgm cs = grid_estimate_children f' position bgm cs.
Proof.
  intros Ha. unfold grid_estimate_children.
  induction Ha as [|c cs Hc Hl IH]; [reflexivity|].
  cbn [map]. destruct Hc as [E|[A B]].
  - rewrite <- E. destruct (position (f c)) eqn:Ep, (bgm (f c)) eqn:Eb;
      repeat (progress (cbn; rewrite ?Ep, ?Eb)); first [apply IH | f_equal; apply IH].
  - unfold s_hidden, g_is_none in A, B.
    destruct (bgm (f c)) eqn:Eb; cbn in A; try discriminate A.
    destruct (bgm (f' c)) eqn:Eb'; cbn in B; try discriminate B.
    destruct (position (f c)) eqn:Ep, (position (f' c)) eqn:Ep';
      repeat (progress (cbn; rewrite ?Ep, ?Eb, ?Ep', ?Eb')); apply IH.
Qed.

(* ------------------------------------------------------------------ Model/Placement.v: its filters ARE the generated ones,
   on child lists without position:absolute children (the C05 family of the placement K; the C06 counterpart is in
   Proofs/ItemFiltersAbs.v) *)

Definition hidden_kind (b : GBoxGenerationMode) : child_kind := kind_of Position_Relative b.

Lemma placement_estimate_is_generated {C S} (position : S -> GPosition) (bgm : S -> GBoxGenerationMode) (style_of : C -> S)
      (placement : S -> child) (cs : list C) :
  estimate_children (map (fun c => (kind_of (position (style_of c)) (bgm (style_of c)), placement (style_of c))) cs) =
  map placement (grid_estimate_children style_of position bgm cs).
Proof.
  unfold grid_estimate_children, estimate_children.
  induction cs as [|c cs IH]; [reflexivity|]. cbn [map filter fst snd]. unfold kind_of.
  destruct (position (style_of c)) eqn:Ep, (bgm (style_of c)) eqn:Eb;
    repeat (progress (cbn; rewrite ?Ep, ?Eb)); first [apply IH | f_equal; apply IH].
Qed.

Lemma placement_in_flow_is_generated_no_absolute {C S} (position : S -> GPosition) (bgm : S -> GBoxGenerationMode) (style_of : C -> S)
      (placement : S -> child) (cs : list C) :
  Forall (fun c => position (style_of c) = Position_Relative) cs ->
  in_flow_children (map (fun c => (kind_of (position (style_of c)) (bgm (style_of c)), placement (style_of c))) cs) =
  map (fun ics : nat * C * S => (Z.of_nat (fst (fst ics)), placement (snd ics))) (grid_in_flow_children style_of position bgm cs).
Proof.
  intros Hrel. unfold in_flow_children, grid_in_flow_children, g_enumerate.
  change (enumerate_from 0%Z) with (enumerate_from (A := child_kind * child) (Z.of_nat 0)). generalize 0.
  induction Hrel as [|c cs Hc Hl IH]; intros n; [reflexivity|].
  cbn [map enumerate_from g_enumerate_from]. replace (Z.of_nat n + 1)%Z with (Z.of_nat (Datatypes.S n)) by lia.
  unfold kind_of. rewrite Hc.
  destruct (bgm (style_of c)) eqn:Eb; repeat (progress (cbn -[Z.of_nat]; rewrite ?Hc, ?Eb));
    first [apply IH | f_equal; apply IH].
Qed.
