(* Vocabulary for the UNBOUNDED-depth theorem about the block chains of Model/BlockChainReal.v (C16_real_block_chain_bound_all_depths;
   Proofs/BlockChainInduct.v).  Definitions only.

   The idea.  One evaluation of a block container over its single child is a resumption (Model/BlockAlg.v `block_alg`): it asks the child
   a few queries and stores a layout.  `areplay outs a` runs a resumption against a SCRIPT of answers and records what it asked (no tree,
   no cache involved); Proofs/BlockChainInduct.v `grun_replay` shows that the engine's `grun_memo` does exactly that whenever the
   children answer as the script says.  For a chain family (`mix`, available-space class `k`) everything below the root is evaluated
   with ONE input, `lvl_in` (the first query the root issues), and answers ONE output (`o_leaf` for the leaf, `o_blk` for a container);
   all later queries of a parent hit the child's final-layout entry (stored for `lvl_in`).  `family_ok` is the finite, computable check
   of exactly these facts for one level:
       the leaf at `lvl_in` measures once;
       a container over the leaf / over a container, at `lvl_in`, asks `nq` queries: the first IS `lvl_in`, every later one is a
       PerformLayout query that `Cache.compat` accepts against the entry (lvl_in, answer); its output is `o_blk` -- in the second case
       AGAIN `o_blk` (the fixed point that makes the induction go through);
       the root (input of compute_root_layout) over the leaf / over a container asks `nqr` such queries.
   The induction over the depth (Proofs) then needs no number fact beyond this check; it is evaluated over binary32 by vm_compute.
   `xeq` = an EXACT equality of numbers (representation equality, Model/TaffyKey.v f32_seqb). *)
From Coq Require Import ZArith NArith Bool List.
From TV Require Import Num.Num.
From TV Require Model.Leaf Model.MeasureFamily Model.Cache.
From TV Require Import Gen.BlockGen Model.Block Model.Engine Model.BlockAlg Model.BlockEngine Model.BlockAbs Model.BlockRoot
  Model.EngineReal Model.BlockEngineReal Model.BlockChainReal.
Import ListNotations.

Section Replay.
  Variables (In Out Lay : Type).
  (* what a resumption did: asked child c the input i and was answered o / stored the layout l on child c *)
  Inductive aev := EQ (c : nat) (i : In) (o : Out) | ES (c : nat) (l : Lay).

  Fixpoint areplay (outs : list Out) (a : Alg In Out Lay) : option (Out * list aev) :=
    match a with
    | Ret _ _ _ o => Some (o, [])
    | Query _ _ _ c i k =>
        match outs with
        | o :: r => match areplay r (k o) with Some (x, tr) => Some (x, EQ c i o :: tr) | None => None end
        | [] => None
        end
    | SetLayout _ _ _ c l k => match areplay outs k with Some (x, tr) => Some (x, ES c l :: tr) | None => None end
    end.

  Definition is_eq (e : aev) : bool := match e with EQ _ _ _ => true | ES _ _ => false end.
  Definition count_q (tr : list aev) : nat := length (filter is_eq tr).
  Definition first_in (a : Alg In Out Lay) (dflt : In) : In := match a with Query _ _ _ _ i _ => i | _ => dflt end.
End Replay.
Arguments EQ {In Out Lay}. Arguments ES {In Out Lay}.

Section ChainInduct.
  Context {T : Type} `{Num T}.
  Variable xeq : T -> T -> bool.

  Definition bev : Type := aev (BIn T) (ChildOut T) (BLayout T).

  Definition ms_eqb_with (a b : MarginSet T) : bool := xeq (ms_positive a) (ms_positive b) && xeq (ms_negative a) (ms_negative b).
  Definition cout_eqb_with (a b : ChildOut T) : bool :=
    xeq (s_w (co_size a)) (s_w (co_size b)) && xeq (s_h (co_size a)) (s_h (co_size b))
    && xeq (s_w (co_content_size a)) (s_w (co_content_size b)) && xeq (s_h (co_content_size a)) (s_h (co_content_size b))
    && ms_eqb_with (co_top a) (co_top b) && ms_eqb_with (co_bottom a) (co_bottom b) && Bool.eqb (co_ct a) (co_ct b).

  (* the two kinds of nodes of a chain *)
  Definition blkn (mix : ChainMix) : BNode T := mkBNode (chain_style mix) no_measure.
  Definition leafn : BNode T :=
    mkBNode (default_style DFlex Auto Auto) (MeasureFamily.family_measure (MeasureFamily.MText 17 (of_Z 8))).
  Definition chain_node (mix : ChainMix) (d : nat) : BNode T := match d with O => leafn | S _ => blkn mix end.

  (* one evaluation of node n over the single child `kid` *)
  Definition lalg (n kid : BNode T) (i : BIn T) : Alg (BIn T) (ChildOut T) (BLayout T) := bl_algo block_pre abs_child_block n [kid] i.

  (* the input compute_root_layout hands to the root, the input of every node below, the leaf's and a container's answer to it *)
  Definition rootin (mix : ChainMix) (k : nat) : BIn T :=
    root_bin (block_root_known (chain_style mix) (chain_avail k)) (chain_avail k).
  Definition lvl_in (mix : ChainMix) (k : nat) : BIn T :=
    first_in _ _ _ (lalg (blkn mix) (blkn mix) (rootin mix k)) (rootin mix k).
  Definition o_leaf (mix : ChainMix) (k : nat) : ChildOut T := leaf_out (bn_style leafn) (bn_measure leafn) (lvl_in mix k).

  Definition is_pl (m : RunMode) : bool := match m with PerformLayout => true | _ => false end.
  (* the later queries / stored layouts of a parent: all on child 0, every query a PerformLayout query accepted by the entry (lvl, oc) *)
  Definition later_ok (lvl : BIn T) (oc : ChildOut T) (tr : list bev) : bool :=
    forallb (fun e => match e with
                      | EQ c j _ => Nat.eqb c 0 && is_pl (bi_mode j)
                                    && rcompat (BIn T) (ChildOut T) bkey_of bosize j (mkREntry _ _ lvl oc)
                      | ES c _ => Nat.eqb c 0
                      end) tr.
  Definition trace_ok (lvl : BIn T) (oc : ChildOut T) (tr : list bev) : bool :=
    match tr with
    | EQ c i _ :: rest => Nat.eqb c 0 && bin_eqb_with xeq i lvl && later_ok lvl oc rest
    | _ => false
    end.

  (* node n over child `kid` at input i, the child answering oc to each of the nq queries: the output, provided the trace is as above *)
  Definition level_out (n kid : BNode T) (i lvl : BIn T) (oc : ChildOut T) (nq : nat) : option (ChildOut T) :=
    match areplay _ _ _ (repeat oc nq) (lalg n kid i) with
    | Some (o, tr) => if trace_ok lvl oc tr && Nat.eqb (count_q _ _ _ tr) nq then Some o else None
    | None => None
    end.

  Definition o_blk (mix : ChainMix) (k nq : nat) : ChildOut T :=
    match level_out (blkn mix) leafn (lvl_in mix k) (lvl_in mix k) (o_leaf mix k) nq with Some o => o | None => hidden_child_out end.

  Definition is_some_b {A : Type} (o : option A) : bool := match o with Some _ => true | None => false end.

  (* the finite check (see the header): nq = queries per level below the root, nqr = queries of the root *)
  Definition family_ok_body (blk : BNode T) (lvl rin : BIn T) (oL oB : ChildOut T) (nq nqr : nat) : bool :=
    is_pl (bi_mode lvl) && is_pl (bi_mode rin) && negb (bn_is_none blk) && negb (bn_is_none leafn)
    && N.eqb (bl_mcalls leafn [] lvl) 1
    && is_some_b (level_out blk leafn lvl lvl oL nq)
    && match level_out blk blk lvl lvl oB nq with Some o => cout_eqb_with o oB | None => false end
    && is_some_b (level_out blk leafn rin lvl oL nqr)
    && is_some_b (level_out blk blk rin lvl oB nqr).
  (* for the family (mix, k); a notation, not a definition: conversion must never have to unfold the arguments *)
  Notation family_ok mix k nq nqr :=
    (family_ok_body (blkn mix) (lvl_in mix k) (rootin mix k) (o_leaf mix k) (o_blk mix k nq) nq nqr).

  (* a later event of the parent applied to the child: a hit touches the root counters only *)
  Definition apply_ev (teq : T -> T -> bool) (t : @brtree T) (e : bev) : @brtree T :=
    match e with
    | EQ _ j _ =>
        match t with
        | GNode _ _ _ s c l n kids =>
            GNode _ _ _ s c l (st_hit (rlossy (BIn T) (ChildOut T) bi_mode bkey_of bosize (bin_eqb_with teq) b_is_outer c j) n) kids
        end
    | ES _ l => gset_lay _ _ _ t l
    end.
End ChainInduct.

Notation family_ok xeq mix k nq nqr :=
  (family_ok_body xeq (blkn mix) (lvl_in mix k) (rootin mix k) (o_leaf mix k) (o_blk xeq mix k nq) nq nqr).

(* the families for which the check holds over binary32 (Proofs/BlockChainInductF32.v), with their rate r: every node below the root is
   asked r times (the root once), i.e. r * depth + 1 compute_cached_layout calls in all.  k as in `chain_avail` (every k >= 2 is
   min-content x max-content).  Not in the table: max-width:120px under max-content / 300 x 200 (there the check fails: see notes/w9a.md) *)
Definition chain_rate (mix : ChainMix) (k : nat) : option nat :=
  match mix, k with
  | CPlain, 1%nat => Some 1%nat
  | CPlain, _ => Some 2%nat
  | CFixed, _ => Some 1%nat
  | CCapped, S (S _) => Some 2%nat
  | CCapped, _ => None
  end.
