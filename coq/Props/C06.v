(* C06 -- absolutely positioned children influence nothing outside their subtree (except the container's content size
   and paint order).  Statements only.

   GRID placement (Model/Placement.v; tables regenerated from the source on every run):
     C06_grid_never_placed                 absolute children are never placed, whatever their styles
     C06_grid_estimate_absolute_refuted    but the size estimate READS their grid_row / grid_column: an absolute child with
                                           `grid_row: 4` on an empty explicit grid changes the reported track counts (1 -> 4
                                           implicit rows; with grid-auto-rows: 7px the container grows 7 -> 28 px); even its
                                           mere presence creates a track.  Known finding C06/grid-estimate-absolute.
     C06_grid_known_class                  outside the known class nothing changes: if the placement of every absolute child
                                           is `harmless` (per axis: lines inside the explicit grid, 1 <= span <= max(explicit, 1);
                                           auto/auto is), neutralising the absolute children -- or replacing their styles by
                                           any other harmless ones -- leaves the whole placement result unchanged.
   ENGINE (Model/Engine.v), for every algorithm that is AbsBlind (interface hypothesis, validated on the implementation by the
   metamorphic oracle `vh c06 oracle`; refuted for the grid algorithm exactly on the known class):
     C06_abs_blind_engine_partial (+ _layouts_partial)   two trees that coincide up to oeq/leq (= up to content size / order) outside the
                                           subtrees of out-of-flow nodes stay so through any evaluation; every node that is
                                           not itself out of flow returns oeq outputs and keeps leq stored layouts.
   BLOCK in-flow kernel (Model/Block.v `block_inflow` = perform_final_layout_on_in_flow_children, tied by C10's K1/K2; any `Num`
   instance, so also binary32 bit for bit) -- discharges the block part of AbsBlind for what is modelled:
     C06_block_inflow_abs_blind            replacing absolute items by ANY other absolute items, and the children's reported
                                           content sizes by any others, changes no in-flow item's record (location, size,
                                           margins, known dimensions / available width passed to it, margin sets), no absolute
                                           item's static position, nor intrinsic_outer_height, nor the two returned margin
                                           sets, nor compute_inner's collapse-through / outer height / output margin decisions;
                                           inflow_content_size is unchanged when the child outputs are unchanged
     C06_block_inflow_delete_absolute      DELETING the absolute items deletes their records and changes nothing else
   ITEM GENERATION (Gen/FiltersGen.v: the iterator pipelines translated from the source on every run):
     C06_flex_items_ignore_absolute        flex: the item list (order = source index included) does not depend on the styles of
                                           absolute children; deleting them changes only the indices
     C06_grid_items_ignore_absolute        grid: same for the children handed to placement (the size ESTIMATE is not blind:
                                           C06_grid_estimate_absolute_refuted)
     C06_block_items_absolute_flagged      block: absolute children stay in the item list; changing such a child's style changes
                                           that one item only (same length, same `order`s)
     C06_block_source_predicates           the tests of the hand-written model are the predicates found in the source
   BLOCK ALGORITHM as a resumption (Model/BlockAlg.v: compute_inner over the engine interface -- translated item pipeline,
   measuring queries of determine_content_based_container_width, the in-flow step function of Model/Block.v with the child
   outputs as ANSWERS, the absolute pass as arbitrary traffic addressed to the absolute item's own node, the hidden pass):
     C06_block_algorithm_abs_blind         AbsBlind HOLDS for it (ab = box-generating and position:absolute; oeq / leq = equal
                                           up to content_size): no longer a premise for block containers
     C06_block_engine_instance_partial     hence the conclusion of C06_abs_blind_engine_partial for every engine whose nodes are block
                                           containers or leaves
     C06_block_resumption_runs_kernel      the in-flow part of the resumption, answered by any function, hands on exactly the
                                           state and records of Model/Block.v `inflow_loop` (what C10's K2 runs)
   FLEX ALGORITHM as a resumption (Model/FlexAlg.v: all of compute_flexbox_layout over the engine interface; tied to the
   implementation event by event, bit for bit, by `vh flexalg cases`):
     C06_flex_algorithm_abs_blind          AbsBlind HOLDS for it (ab = box-generating and position:absolute; oeq / leq = equal up to
                                           content_size): the container's output, and every query and stored layout addressed to a
                                           non-absolute child, are independent of the absolute children's styles and of the answers to
                                           the queries addressed to them -- no longer a premise for flex containers
     C06_blockflex_engine_instance         hence the conclusion of C06_abs_blind_engine for every engine whose nodes are block containers,
                                           flex containers or leaves
   GRID ALGORITHM as a resumption (Model/GridAlg.v: all of compute_grid_layout over the engine interface; tied to the implementation
   event by event, bit for bit, by `vh gridalg cases`):
     C06_grid_algorithm_abs_blind_refuted  full AbsBlind is FALSE for it: the known finding C06/grid-estimate-absolute on the level of the
                                           whole algorithm -- `grid-auto-rows: 7px` with one absolute child on grid_row 4 / a bare absolute
                                           child / no child returns heights 28 / 7 / 0 (`vh gridalg witness abs` on the implementation)
     C06_grid_algorithm_abs_blind_lines    the strongest true complement: for ANY class of box-generating absolute children, two child lists
                                           that agree except at children of the class, where both sides are in the class and have the SAME
                                           grid_row / grid_column, give bisimilar resumptions (ABis): the algorithm is blind to everything
                                           about an absolute child -- its whole subtree, sizes, insets, margins, alignment -- except its
                                           grid placement lines; in particular AbsBlind holds for ab = "box-generating, absolute, on lines
                                           (r, c)", for every r, c (auto / auto included)
     C06_grid_engine_instance_partial              hence the conclusion of C06_abs_blind_engine for every engine of grid containers and leaves, for
                                           the absolute nodes of any one line class
   KEYED engine theorem (Proofs/EngineAbsKey.v: Proofs/EngineAbs.v with a `key` = what a parent may read of an out-of-flow child's style):
     C06_abs_blind_engine_keyed            for every algorithm that is AbsBlindK: trees that coincide up to oeq / leq outside the subtrees of
                                           out-of-flow nodes WHOSE KEYS AGREE stay so through any evaluation; AbsBlind implies AbsBlindK
     C06_grid_algorithm_abs_blind_keyed    the grid algorithm is AbsBlindK for ALL box-generating absolute children, key = (grid_row, grid_column)
     C06_taffy_engine_instance_partial             hence, for every engine whose nodes are block, flex, grid containers or leaves (every kind
                                           TaffyView::compute_child_layout dispatches on): replacing the subtree and the style of box-generating
                                           absolute nodes by anything absolute with the same grid lines changes nothing outside those subtrees but
                                           content sizes -- C06 for all of taffy, up to exactly the known finding (the lines) *)
From Coq Require Import List Bool Arith NArith ZArith Lia.
From TV Require Import Num.Num Gen.BlockGen Model.Block Model.BlockLeaf Model.BlockTree Proofs.BlockBlind.
From TV Require Import Model.FiltersBase Gen.FiltersGen Model.ItemFilters Proofs.ItemFiltersBase Proofs.ItemFiltersAbs Model.BlockAlg Proofs.BlockAlgBlind.
From TV Require Import Model.BlockAbs Proofs.BlockAbsLocal.
From TV Require Import Model.Engine Model.EngineToy Proofs.EngineMemo Proofs.EngineBlind Proofs.EngineAbs Proofs.EngineAbsToy.
From TV Require Import Model.PlacementBase Gen.PlacementGen Model.Placement Proofs.PlacementBlind.
Import ListNotations.

(* ---------------------------------------------------------------------------------------------- grid placement *)

Theorem C06_grid_never_placed :
  forall (children children' : list (child_kind * child)),
    Forall2 (same_but Absolute (fun _ _ => True)) children children' ->
    in_flow_children children = in_flow_children children' /\
    in_flow_children (map (neutralise Absolute) children) = in_flow_children children.
Proof.
  intros l l' H. split; [apply (in_flow_same Absolute (fun _ _ => True)); [discriminate|exact H]|].
  apply in_flow_neutralise_absolute.
Qed.

Theorem C06_grid_estimate_absolute_refuted :
  exists ec er fl (children : list (child_kind * child)) o o' o'',
    Forall (fun kc => fst kc = Absolute) children /\
    grid_placement_run ec er fl children = Ok o /\
    grid_placement_run ec er fl (map (neutralise Absolute) children) = Ok o' /\
    grid_placement_run ec er fl [] = Ok o'' /\
    o_items o = [] /\ o_items o' = [] /\
    o_rows o = mkTC 0 0 4 /\ o_rows o' = mkTC 0 0 1 /\ o_rows o'' = mkTC 0 0 0.
Proof.
  destruct abs_line_changes_counts as [[o [E1 [I1 [R1 _]]]] [[o' [E2 [R2 _]]] [o'' [E3 [R3 _]]]]].
  exists 0%Z, 0%Z, FRow, abs_line4, o, o', o''.
  split; [repeat constructor|]. split; [exact E1|]. split; [exact E2|]. split; [exact E3|].
  split; [exact I1|]. split; [|repeat split; assumption].
  revert E2. vm_compute. intros E. injection E as <-. reflexivity.
Qed.

(* with an in-flow sibling: its area is reported identically, the track counts (hence the container) differ *)
Theorem C06_grid_estimate_absolute_refuted_sibling :
  exists o o', grid_placement_run 0 0 FRow abs_line4_sibling = Ok o /\
               grid_placement_run 0 0 FRow (map (neutralise Absolute) abs_line4_sibling) = Ok o' /\
               o_items o = o_items o' /\ o_rows o = mkTC 0 0 4 /\ o_rows o' = mkTC 0 0 1.
Proof. exact abs_line_changes_counts_sibling. Qed.

Theorem C06_grid_known_class :
  forall ec er fl (children children' : list (child_kind * child)),
    (0 <= ec < 32768)%Z -> (0 <= er < 32768)%Z ->
    (Forall2 (same_but Absolute (fun c c' => harmless ec er c /\ harmless ec er c')) children children' ->
     grid_placement_run ec er fl children = grid_placement_run ec er fl children') /\
    (Forall (fun kc => fst kc = Absolute -> harmless ec er (snd kc)) children ->
     grid_placement_run ec er fl (map (neutralise Absolute) children) = grid_placement_run ec er fl children) /\
    harmless ec er auto_child.
Proof.
  intros ec er fl l l' Hec Her. split; [apply run_ignores_harmless_absolute_styles; assumption|].
  split; [apply run_neutralise_harmless_absolute; assumption|apply auto_child_harmless; lia].
Qed.

(* the class has members beyond auto/auto, and the witness of the refutation is outside it *)
Example C06_grid_known_class_examples :
  harmless 3 2 (mkChild (mkLn (Line 1) (Line 3)) (mkLn (Line (-2)) (Span 1))) /\
  harmless 3 2 (mkChild (mkLn Auto (Span 2)) (mkLn (Span 3) Auto)) /\
  ~ harmless 3 2 (mkChild (mkLn (Line 4) Auto) (mkLn Auto Auto)) /\
  ~ harmless 0 0 (mkChild (mkLn Auto Auto) (mkLn (Span 2) Auto)).
Proof. exact harmless_examples. Qed.

(* ---------------------------------------------------------------------------------------------- block in-flow kernel *)

(* xrel x y: both items position:absolute (all else arbitrary), or the same in-flow item with child outputs equal up to
   content_size.  rrel r r': equal in-flow records; absolute records equal except `order` and scrollbar size (copied from the item) *)
Theorem C06_block_inflow_abs_blind :
  forall (T : Type) (N : Num T) (st : BStyle T) (inp : BInput T) (P : Params T) (xs xs' : list (Item T * ChildOut T)),
    Forall2 xrel xs xs' ->
    let io := block_inflow P xs in
    let io' := block_inflow P xs' in
    Forall2 rrel (io_results io) (io_results io') /\
    filter (fun r => ir_inflow r) (io_results io) = filter (fun r => ir_inflow r) (io_results io') /\
    map (fun r => (ir_static_x r, ir_static_y r)) (io_results io) = map (fun r => (ir_static_x r, ir_static_y r)) (io_results io') /\
    io_height io = io_height io' /\ io_first_set io = io_first_set io' /\ io_last_set io = io_last_set io' /\
    block_can_collapse_through st inp (io_results io) = block_can_collapse_through st inp (io_results io') /\
    block_outer_height st inp (io_height io) = block_outer_height st inp (io_height io') /\
    block_output_margins st inp io = block_output_margins st inp io' /\
    (Forall2 xrel_strict xs xs' -> io_content_size io = io_content_size io').
Proof.
  intros T N st inp P xs xs' Hx io io'.
  destruct (block_inflow_abs_blind P xs xs' Hx) as (R & Hh & Hf & Hl). fold io io' in R, Hh, Hf, Hl.
  destruct (block_decisions_abs_blind st inp P xs xs' Hx) as (D1 & D2 & D3). fold io io' in D1, D2, D3.
  split; [exact R|]. split; [apply (rrel_inflow_eq _ _ R)|]. split.
  - clear -R. induction R as [|r r' rs rs' Hr _ IH]; [reflexivity|]. cbn [map].
    destruct (rrel_static r r' Hr) as [-> ->]. rewrite IH. reflexivity.
  - repeat split; try assumption. intros Hs. apply block_inflow_abs_blind_content. exact Hs.
Qed.

Theorem C06_block_inflow_delete_absolute :
  forall (T : Type) (N : Num T) (st : BStyle T) (inp : BInput T) (P : Params T) (xs : list (Item T * ChildOut T)),
    let io := block_inflow P xs in
    let io' := block_inflow P (in_flow_only xs) in
    io' = mkInflowOut (filter (fun r => ir_inflow r) (io_results io)) (io_content_size io) (io_height io) (io_first_set io) (io_last_set io) /\
    block_can_collapse_through st inp (io_results io) = block_can_collapse_through st inp (io_results io') /\
    block_outer_height st inp (io_height io) = block_outer_height st inp (io_height io') /\
    block_output_margins st inp io = block_output_margins st inp io'.
Proof.
  intros T N st inp P xs io io'. split; [apply block_inflow_delete_absolute|apply block_decisions_delete_absolute].
Qed.

(* the premises are satisfiable and the conclusion is not vacuous: an in-flow item between two different absolute items *)
Example C06_block_inflow_example :
  forall (T : Type) (N : Num T) (a b c : Item T) (o o1 o2 : ChildOut T),
    position_is_absolute (it_position a) = true -> position_is_absolute (it_position b) = true ->
    position_is_absolute (it_position c) = false ->
    Forall2 xrel [(a, o1); (c, o); (b, o2)] [(b, o2); (c, o); (a, o1)] /\ in_flow_only [(a, o1); (c, o); (b, o2)] = [(c, o)].
Proof.
  intros T N a b c o o1 o2 Ha Hb Hc. split.
  - constructor; [left; split; assumption|]. constructor; [right; repeat split; exact Hc|].
    constructor; [left; split; assumption|constructor].
  - unfold in_flow_only, is_abs. cbn [filter fst]. rewrite Ha, Hb, Hc. reflexivity.
Qed.

(* ---------------------------------------------------------------------------------------------- item generation *)

(* flex (generate_anonymous_flex_items as translated): two style assignments to the same children that agree except on
   position:absolute children give the SAME item list, for every item builder (order = source index and node id included);
   and deleting the out-of-flow children changes the items only in their index *)
Theorem C06_flex_items_ignore_absolute :
  forall (C S I : Type) (position : S -> GPosition) (bgm : S -> GBoxGenerationMode) (f f' : C -> S) (cs : list C),
    (forall (build : nat -> C -> S -> I),
       agree_except (s_absolute position) f f' cs ->
       flex_generate_items f position bgm build cs = flex_generate_items f' position bgm build cs) /\
    (forall (build : C -> S -> I),
       flex_generate_items f position bgm (fun _ => build) (filter (fun c => negb (s_absolute position (f c))) cs) =
       flex_generate_items f position bgm (fun _ => build) cs) /\
    (* `order` is the child's index in the child list: every item is `build i c (f c)` for the i-th child c *)
    (forall (build : nat -> C -> S -> I),
       Forall (fun it => exists i c, nth_error cs i = Some c /\ it = build i c (f c)) (flex_generate_items f position bgm build cs)).
Proof.
  intros C S I position bgm f f' cs. split; [|split].
  - intros build Ha. apply flex_absolute_blind. exact Ha.
  - intros build. apply flex_delete_absolute.
  - intros build. apply flex_items_indexed.
Qed.

Theorem C06_grid_items_ignore_absolute :
  forall (C S : Type) (position : S -> GPosition) (bgm : S -> GBoxGenerationMode) (f f' : C -> S) (cs : list C),
    agree_except (s_absolute position) f f' cs ->
    grid_in_flow_children f position bgm cs = grid_in_flow_children f' position bgm cs.
Proof. intros C S position bgm f f' cs Ha. apply grid_in_flow_absolute_blind. exact Ha. Qed.

(* block (generate_item_list as translated): absolute children stay items *)
Theorem C06_block_items_absolute_flagged :
  forall (C S I : Type) (position : S -> GPosition) (bgm : S -> GBoxGenerationMode) (f f' : C -> S) (cs : list C)
         (build : nat -> C -> S -> I),
    agree_except (s_visible_absolute position bgm) f f' cs ->
    Forall2 (fun x y => exists o c, x = build o c (f c) /\ y = build o c (f' c) /\
                                    (f c = f' c \/ (s_visible_absolute position bgm (f c) = true /\
                                                    s_visible_absolute position bgm (f' c) = true)))
            (block_generate_items f position bgm build cs) (block_generate_items f' position bgm build cs).
Proof. intros C S I position bgm f f' cs build Ha. apply block_absolute_flagged. exact Ha. Qed.

(* the tests of the hand-written block model are the predicates found in the source: the in-flow loop's absolute branch, the
   filter of determine_content_based_container_width, the `.all(..)` of all_in_flow_children_can_be_collapsed_through; and the
   absolute branch of the loop was checked (by the translator) to assign fields of `item` only and never to call `tree` *)
Theorem C06_block_source_predicates :
  (forall (T : Type) (it : Item T) (ct : bool),
     position_is_absolute (it_position it) = block_inflow_absolute_branch_cond (gpos (it_position it)) ct /\
     negb (position_is_absolute (it_position it)) = block_content_width_visits (gpos (it_position it)) ct /\
     orb (negb (negb (position_is_absolute (it_position it)))) ct = block_all_collapsible_pred (gpos (it_position it)) ct /\
     position_is_absolute (it_position it) = block_absolute_pass_visits (gpos (it_position it)) ct) /\
  block_inflow_absolute_branch_is_local = true /\ block_tree_calls_address_item_only = true /\
  (* placement's child iterator of Model/Placement.v, on the C06 family of the placement K (no display:none child) *)
  (forall (C S : Type) (position : S -> GPosition) (bgm : S -> GBoxGenerationMode) (style_of : C -> S) (placement : S -> child)
          (cs : list C),
     Forall (fun c => bgm (style_of c) = BoxGenerationMode_Normal) cs ->
     in_flow_children (map (fun c => (kind_of (position (style_of c)) (bgm (style_of c)), placement (style_of c))) cs) =
     map (fun ics : nat * C * S => (Z.of_nat (fst (fst ics)), placement (snd ics))) (grid_in_flow_children style_of position bgm cs)).
Proof.
  split; [|split; [reflexivity|split; [reflexivity|]]].
  - intros T it ct. split; [apply inflow_branch_is_generated|]. split; [apply content_width_filter_is_generated|].
    split; [apply all_collapsible_is_generated|apply abs_pass_filter_is_generated].
  - intros C S position bgm style_of placement cs. apply placement_in_flow_is_generated_no_hidden.
Qed.

(* determine_content_based_container_width over leaf children (Model/BlockTree.v, run by C10's K1) skips the absolute items *)
Theorem C06_block_content_width_ignores_absolute :
  forall (T : Type) (N : Num T) (items : list (Item T * (BStyle T * Measure T))) (aw : Avail T),
    content_based_width (filter (fun x => negb (position_is_absolute (it_position (fst x)))) items) aw =
    content_based_width items aw.
Proof. intros T N items aw. apply content_based_width_delete. Qed.

(* PARTIAL (renamed in the audit, wave 5c).  What `asim` leaves unconstrained, and the property text does not:
   (1) the subtree of ANY out-of-flow node -- asim relates two out-of-flow nodes whatever their caches, layouts and children.  So
       an UNCHANGED position:absolute sibling (or cousin) of the edited absolute child, and everything below it, is not covered,
       although the text says "its in-flow or out-of-flow siblings ... any node outside its own subtree";
   (2) content_size is ignored on EVERY node (oeq / leq drop it); the text allows only the container's (ancestors') content size
       to depend on the absolute child.
   Both are checked bit for bit on the implementation by `vh c06 oracle`, which is therefore stronger than this theorem.
   A sharper statement needs the mask "positions where the two style lists differ" instead of "all out-of-flow positions" and a
   relational locality hypothesis on the absolute-item routine. *)
(* ---------------------------------------------------------------------------------------------- engine *)

Theorem C06_abs_blind_engine_partial :
  forall (S In Out Lay : Type) (mode : In -> RunMode) (in_eqb : In -> In -> bool) (is_none : S -> bool)
         (hidden_out : Out) (zero_lay : Lay) (algo : S -> list S -> In -> Alg In Out Lay)
         (ab : S -> bool) (oeq : Out -> Out -> Prop) (leq : Lay -> Lay -> Prop),
    (forall o, oeq o o) -> (forall l, leq l l) ->
    AbsBlind S In Out Lay algo ab oeq leq ->
    forall f f' t t' i o t1 o' t1',
      asim S In Out Lay ab oeq leq t t' ->
      memo S In Out Lay mode in_eqb is_none hidden_out zero_lay algo f t i = Some (o, t1) ->
      memo S In Out Lay mode in_eqb is_none hidden_out zero_lay algo f' t' i = Some (o', t1') ->
      asim S In Out Lay ab oeq leq t1 t1' /\ (ab (style_of S In Out Lay t) = false -> oeq o o').
Proof.
  intros until leq. intros Ho Hl HB f f' t t' i o t1 o' t1' H E E'.
  eapply (memo_asim S In Out Lay mode in_eqb is_none hidden_out zero_lay algo ab oeq leq Ho Hl HB f f'); eauto.
Qed.

(* asim read pointwise: along a path without out-of-flow nodes (end included) both trees have a node, same style, leq layouts;
   and a tree is related to itself, so the relation can be started from a pair of fresh trees that differ only below
   out-of-flow nodes *)
Theorem C06_abs_blind_layouts_partial :
  forall (S In Out Lay : Type) (ab : S -> bool) (oeq : Out -> Out -> Prop) (leq : Lay -> Lay -> Prop)
         (t t' : tree S In Out Lay) p u,
    asim S In Out Lay ab oeq leq t t' -> in_flow_path S In Out Lay ab t p -> subtree S In Out Lay t p = Some u ->
    exists u', subtree S In Out Lay t' p = Some u' /\ leq (lay_of S In Out Lay u) (lay_of S In Out Lay u') /\
               style_of S In Out Lay u' = style_of S In Out Lay u.
Proof. intros until u. apply asim_at. Qed.

(* the hypotheses are satisfiable, and the conclusion is visible on a concrete pair: an absolute container with a child
   vs. a bare absolute leaf between two in-flow leaves: same container size 31, same in-flow positions 1 and 11, different
   content sizes *)
Example C06_hypotheses_satisfiable :
  AbsBlind AS TIn AOut ALay a_algo a_ab a_oeq a_leq /\
  asim AS TIn AOut ALay a_ab a_oeq a_leq a_left a_right /\
  exists o t o' t', a_memo 6 a_left (PerformLayout, 3%N) = Some (o, t) /\ a_memo 6 a_right (PerformLayout, 3%N) = Some (o', t') /\
    fst o = 31%N /\ fst o' = 31%N /\ snd o <> snd o'.
Proof.
  split; [exact a_algo_blind|]. split; [exact a_trees_related|].
  destruct a_run as (o & t & o' & t' & E & E' & A & B & C & _). exists o, t, o', t'. repeat split; assumption.
Qed.

(* ---------------------------------------------------------------------------------------------- the block algorithm *)

Theorem C06_block_algorithm_abs_blind :
  forall (T : Type) (N : Num T) (pre : BStyle T -> BIn T -> BIn T) (abs_child : @AbsChild T),
    AbsChildLocal abs_child ->
    AbsBlind (BStyle T) (BIn T) (ChildOut T) (BLayout T) (block_alg pre abs_child) bs_visible_absolute out_eq lay_eq.
Proof. intros T N pre abs_child Hloc. apply block_alg_abs_blind. exact Hloc. Qed.

(* engines made of block containers (sel s = true) and leaves: two trees that coincide up to content_size outside the
   subtrees of box-generating absolute nodes stay so through any pair of evaluations, and every node that is not itself such
   a node returns the same output up to content_size *)
Theorem C06_block_engine_instance_partial :
  forall (T : Type) (N : Num T) (pre : BStyle T -> BIn T -> BIn T) (abs_child : @AbsChild T)
         (sel : BStyle T -> bool) (leaf : BStyle T -> BIn T -> ChildOut T)
         (mode : BIn T -> RunMode) (in_eqb : BIn T -> BIn T -> bool) (is_none : BStyle T -> bool)
         (hidden_out : ChildOut T) (zero_lay : BLayout T),
    AbsChildLocal abs_child ->
    let algo := fun s st i => if sel s then block_alg pre abs_child s st i
                              else Engine.Ret (BIn T) (ChildOut T) (BLayout T) (leaf s i) in
    forall f f' t t' i o t1 o' t1',
      asim (BStyle T) (BIn T) (ChildOut T) (BLayout T) bs_visible_absolute out_eq lay_eq t t' ->
      memo (BStyle T) (BIn T) (ChildOut T) (BLayout T) mode in_eqb is_none hidden_out zero_lay algo f t i = Some (o, t1) ->
      memo (BStyle T) (BIn T) (ChildOut T) (BLayout T) mode in_eqb is_none hidden_out zero_lay algo f' t' i = Some (o', t1') ->
      asim (BStyle T) (BIn T) (ChildOut T) (BLayout T) bs_visible_absolute out_eq lay_eq t1 t1' /\
      (bs_visible_absolute (style_of (BStyle T) (BIn T) (ChildOut T) (BLayout T) t) = false -> out_eq o o').
Proof.
  intros T N pre abs_child sel leaf mode in_eqb is_none hidden_out zero_lay Hloc algo f f' t t' i o t1 o' t1' Hs E E'.
  eapply (C06_abs_blind_engine_partial (BStyle T) (BIn T) (ChildOut T) (BLayout T) mode in_eqb is_none hidden_out zero_lay algo
            bs_visible_absolute out_eq lay_eq); eauto.
  - apply out_eq_refl.
  - apply lay_eq_refl.
  - apply AbsBlind_dispatch; [apply block_alg_abs_blind; exact Hloc|apply AbsBlind_leaf; apply out_eq_refl].
Qed.

(* the premise on the absolute-item routine is satisfiable *)
Example C06_block_algorithm_example :
  forall (T : Type) (N : Num T), AbsChildLocal (abs_child_simple (T := T)).
Proof. intros T N. apply abs_child_simple_local. Qed.

(* ... and holds for the REAL absolute-item routine (Model/BlockAbs.v abs_child_block: one iteration of block.rs
   perform_absolute_layout_on_absolute_children built from the translated kernel Gen/AbsPosGen.v; the engine instance the whole-tree
   correspondence `vh blocktree cases` ties to the implementation bit for bit): its one query and its one stored layout address the
   item's own node.  So the block instance below needs no premise for the real routine. *)
Theorem C06_block_real_absolute_routine_local :
  forall (T : Type) (N : Num T), AbsChildLocal (abs_child_block (T := T)).
Proof. intros T N. apply abs_child_block_local. Qed.

(* PARTIAL (renamed by the audit of wave 7b): this is C06_block_engine_instance_partial at abs_child := abs_child_block, with the same
   conclusion and therefore the same gap (asim leaves the subtree of EVERY out-of-flow node unconstrained and ignores content_size on
   every node).  NOTE the engine: nodes are bare BStyles, dispatch is an arbitrary predicate `sel` of the node's OWN style and the leaf is
   arbitrary -- `bl_algo` (Model/BlockEngine.v: dispatch on the number of children, leaf = compute_leaf_layout with the node's measure
   function), the engine `vh blocktree` runs, is NOT an instance of this form.  The statement about the engine that is run is
   C06_bl_engine_real_instance_partial below. *)
Theorem C06_block_engine_real_instance_partial :
  forall (T : Type) (N : Num T) (pre : BStyle T -> BIn T -> BIn T)
         (sel : BStyle T -> bool) (leaf : BStyle T -> BIn T -> ChildOut T)
         (mode : BIn T -> RunMode) (in_eqb : BIn T -> BIn T -> bool) (is_none : BStyle T -> bool)
         (hidden_out : ChildOut T) (zero_lay : BLayout T),
    let algo := fun s st i => if sel s then block_alg pre abs_child_block s st i
                              else Engine.Ret (BIn T) (ChildOut T) (BLayout T) (leaf s i) in
    forall f f' t t' i o t1 o' t1',
      asim (BStyle T) (BIn T) (ChildOut T) (BLayout T) bs_visible_absolute out_eq lay_eq t t' ->
      memo (BStyle T) (BIn T) (ChildOut T) (BLayout T) mode in_eqb is_none hidden_out zero_lay algo f t i = Some (o, t1) ->
      memo (BStyle T) (BIn T) (ChildOut T) (BLayout T) mode in_eqb is_none hidden_out zero_lay algo f' t' i = Some (o', t1') ->
      asim (BStyle T) (BIn T) (ChildOut T) (BLayout T) bs_visible_absolute out_eq lay_eq t1 t1' /\
      (bs_visible_absolute (style_of (BStyle T) (BIn T) (ChildOut T) (BLayout T) t) = false -> out_eq o o').
Proof.
  intros T N pre sel leaf mode in_eqb is_none hidden_out zero_lay.
  apply (C06_block_engine_instance_partial T N pre abs_child_block sel leaf mode in_eqb is_none hidden_out zero_lay). apply abs_child_block_local.
Qed.

Theorem C06_block_resumption_runs_kernel :
  forall (T : Type) (N : Num T) (ans : nat -> BIn T -> ChildOut T) (P : Params T) (items : list (@AItem T)) st acc k,
    exists fuel0, forall fuel,
      answer ans (fuel0 + fuel) (inflow_alg P st items acc k) =
      answer ans fuel (k (fst (inflow_loop P st (answered ans P items)))
                         (rev acc ++ combine items (snd (inflow_loop P st (answered ans P items))))).
Proof. intros T N ans P items st acc k. apply inflow_alg_is_inflow_loop. Qed.

(* ... and the input of each query is what the item's record carries, i.e. what C10's K2 / C06's K3 compare with the known
   dimensions / available width the implementation passed to the child *)
Theorem C06_block_resumption_query_inputs :
  forall (T : Type) (N : Num T) (P : Params T) (st : State T) (it : Item T) (co : ChildOut T),
    position_is_absolute (it_position it) = false ->
    bi_known (child_input P it) = ir_known (snd (inflow_step P st it co)) /\
    s_w (bi_avail (child_input P it)) = Definite (ir_avail_w (snd (inflow_step P st it co))) /\
    bi_parent (child_input P it) = mkSize (Some (p_outer_width P)) None /\ bi_mode (child_input P it) = PerformLayout.
Proof. intros T N P st it co A. apply child_input_is_recorded. exact A. Qed.

(* =====================================================================================================================
   Computed instances of the premises (audit, wave 5c): runs that return Ok / Some on inputs where the absolute children
   are non-trivial and really differ between the two sides. *)

(* C06_grid_never_placed / C06_grid_known_class: two in-flow, one hidden, two absolute children with harmless but
   different placements; the run succeeds, places children 0 and 2, and is the same for the three lists *)
Definition g_abs1 : child := mkChild (mkLn (Line 1) (Line 3)) (mkLn (Line (-2)) (Span 1)).
Definition g_abs2 : child := mkChild (mkLn Auto (Span 2)) (mkLn (Span 3) Auto).
Definition g_children : list (child_kind * child) :=
  [(InFlow, mkChild (mkLn (Line 2) Auto) (mkLn (Line 2) (Span 2))); (Absolute, g_abs1); (InFlow, auto_child);
   (Hidden, mkChild (mkLn (Line 5) Auto) (mkLn Auto Auto)); (Absolute, g_abs2)].
Definition g_children' : list (child_kind * child) :=
  [(InFlow, mkChild (mkLn (Line 2) Auto) (mkLn (Line 2) (Span 2))); (Absolute, g_abs2); (InFlow, auto_child);
   (Hidden, mkChild (mkLn (Line 5) Auto) (mkLn Auto Auto)); (Absolute, auto_child)].
Example C06_grid_example :
  Forall2 (same_but Absolute (fun c c' => harmless 3 2 c /\ harmless 3 2 c')) g_children g_children' /\
  Forall2 (same_but Absolute (fun _ _ => True)) g_children g_children' /\
  Forall (fun kc => fst kc = Absolute -> harmless 3 2 (snd kc)) g_children /\
  g_children <> g_children' /\ map (neutralise Absolute) g_children <> g_children /\
  exists o, grid_placement_run 3 2 FRow g_children = Ok o /\ grid_placement_run 3 2 FRow g_children' = Ok o /\
            grid_placement_run 3 2 FRow (map (neutralise Absolute) g_children) = Ok o /\
            map p_index (o_items o) = [0; 2]%Z /\ o_cols o = mkTC 0 3 0 /\ o_rows o = mkTC 0 2 0 /\
            map fst (in_flow_children g_children) = [0; 2]%Z.
Proof.
  destruct harmless_examples as (H1 & H2 & _).
  assert (H0 : harmless 3 2 auto_child) by (apply auto_child_harmless; lia).
  assert (SB : forall (R : child -> child -> Prop) k c c', (k = Absolute -> R c c') -> (k <> Absolute -> c = c') -> same_but Absolute R (k, c) (k, c'))
    by (intros R k c c' A B; split; [reflexivity|split; assumption]).
  split.
  { unfold g_children, g_children'. repeat (constructor; [apply SB; [try discriminate; intros _; split; assumption|try reflexivity; intros N; exfalso; apply N; reflexivity]|]). constructor. }
  split.
  { unfold g_children, g_children'. repeat (constructor; [apply SB; [intros _; exact I|try reflexivity; intros N; exfalso; apply N; reflexivity]|]). constructor. }
  split.
  { unfold g_children. repeat (constructor; [cbn; try discriminate; intros _; assumption|]). constructor. }
  split; [discriminate|]. split; [vm_compute; discriminate|].
  eexists. split; [vm_compute; reflexivity|]. split; [vm_compute; reflexivity|]. split; [vm_compute; reflexivity|].
  vm_compute. repeat split; reflexivity.
Qed.

(* C06_flex_items_ignore_absolute / C06_grid_items_ignore_absolute / C06_block_items_absolute_flagged on five children *)
Definition IS : Type := (GPosition * GBoxGenerationMode * nat)%type.
Definition i_pos (s : IS) := fst (fst s).
Definition i_bgm (s : IS) := snd (fst s).
Definition i_cs : list nat := [0; 1; 2; 3; 4]%nat.
Definition i_f (c : nat) : IS :=
  match c with
  | 0 => (Position_Relative, BoxGenerationMode_Normal, 10) | 1 => (Position_Absolute, BoxGenerationMode_Normal, 20)
  | 2 => (Position_Relative, BoxGenerationMode_None, 30) | 3 => (Position_Absolute, BoxGenerationMode_None, 40)
  | _ => (Position_Relative, BoxGenerationMode_Normal, 50) end%nat.
Definition i_f' (c : nat) : IS :=
  match c with 1 => (Position_Absolute, BoxGenerationMode_Normal, 21) | 3 => (Position_Absolute, BoxGenerationMode_Normal, 41) | _ => i_f c end%nat.
Definition i_f'' (c : nat) : IS := match c with 1 => (Position_Absolute, BoxGenerationMode_Normal, 21) | _ => i_f c end%nat.
Example C06_items_example :
  agree_except (s_absolute i_pos) i_f i_f' i_cs /\ agree_except (s_visible_absolute i_pos i_bgm) i_f i_f'' i_cs /\
  flex_generate_items i_f i_pos i_bgm (fun i c s => (i, c, snd s)) i_cs = [(0, 0, 10); (4, 4, 50)]%nat /\
  flex_generate_items i_f' i_pos i_bgm (fun i c s => (i, c, snd s)) i_cs = [(0, 0, 10); (4, 4, 50)]%nat /\
  map fst (grid_in_flow_children i_f i_pos i_bgm i_cs) = [(0, 0); (4, 4)]%nat /\
  block_generate_items i_f i_pos i_bgm (fun o c s => (o, c, snd s)) i_cs = [(0, 0, 10); (1, 1, 20); (2, 4, 50)]%nat /\
  block_generate_items i_f'' i_pos i_bgm (fun o c s => (o, c, snd s)) i_cs = [(0, 0, 10); (1, 1, 21); (2, 4, 50)]%nat.
Proof.
  split; [|split].
  - unfold agree_except, i_cs. repeat (constructor; [cbn; first [left; reflexivity|right; split; reflexivity]|]). constructor.
  - unfold agree_except, i_cs. repeat (constructor; [cbn; first [left; reflexivity|right; split; reflexivity]|]). constructor.
  - vm_compute. repeat split; reflexivity.
Qed.

(* C06_abs_blind_layouts_partial and the engine theorem on NON-fresh trees: after a first pass both trees are asim, differ from the
   initial ones, the in-flow node at [2] has the same stored layout in both, the node at [1] is out of flow; a further
   ComputeSize evaluation of both succeeds with oeq outputs whose content parts differ *)
Example C06_abs_blind_layouts_example :
  exists o t o' t', a_memo 6 a_left (PerformLayout, 3%N) = Some (o, t) /\ a_memo 6 a_right (PerformLayout, 3%N) = Some (o', t') /\
    asim AS TIn AOut ALay a_ab a_oeq a_leq t t' /\ t <> a_left /\
    in_flow_path AS TIn AOut ALay a_ab t [2%nat] /\ ~ in_flow_path AS TIn AOut ALay a_ab t [1%nat] /\
    (exists u u', subtree AS TIn AOut ALay t [2%nat] = Some u /\ subtree AS TIn AOut ALay t' [2%nat] = Some u' /\
                  lay_of _ _ _ _ u = (11%N, 0%N) /\ a_leq (lay_of _ _ _ _ u) (lay_of _ _ _ _ u')) /\
    exists o2 t2 o2' t2', a_memo 6 t (ComputeSize, 4%N) = Some (o2, t2) /\ a_memo 6 t' (ComputeSize, 4%N) = Some (o2', t2') /\
      a_oeq o2 o2' /\ fst o2 = 31%N /\ snd o2 <> snd o2'.
Proof.
  destruct (a_memo 6 a_left (PerformLayout, 3%N)) as [[o t]|] eqn:E; [|vm_compute in E; discriminate].
  destruct (a_memo 6 a_right (PerformLayout, 3%N)) as [[o' t']|] eqn:E'; [|vm_compute in E'; discriminate].
  exists o, t, o', t'. split; [reflexivity|]. split; [reflexivity|].
  destruct (memo_asim AS TIn AOut ALay t_mode t_in_eqb (fun _ => false) (0%N, 0%N) (0%N, 0%N) a_algo a_ab a_oeq a_leq
              (fun _ => eq_refl) (fun _ => eq_refl) a_algo_blind 6 6 a_left a_right (PerformLayout, 3%N) o t o' t'
              a_trees_related E E') as [Ht _].
  split; [exact Ht|].
  vm_compute in E. vm_compute in E'. injection E as <- <-. injection E' as <- <-.
  split; [vm_compute; discriminate|]. split; [vm_compute; repeat split|]. split; [vm_compute; intros [_ [A _]]; discriminate|].
  split; [eexists; eexists; split; [vm_compute; reflexivity|split; [vm_compute; reflexivity|split; vm_compute; reflexivity]]|].
  do 4 eexists. split; [vm_compute; reflexivity|]. split; [vm_compute; reflexivity|]. vm_compute. repeat split; try reflexivity. discriminate.
Qed.

From Coq Require Import QArith.
From TV Require Import Num.QNum.
From TV Require Model.Scale.
From TV Require Import Model.EngineRel Model.BlockEngine Model.BlockEngineExample Proofs.BlockEngineBlind.

(* the same for the dispatcher the block engine of Model/BlockEngine.v really uses (`bl_algo`: "has children" decides, nodes
   carry their measure function): AbsBlind holds of it for every local absolute-item routine, so C06_abs_blind_engine_partial
   applies to bl_memo (Proofs/BlockEngineBlind.v, audit wave 5c) *)
Theorem C06_bl_algorithm_abs_blind :
  forall (T : Type) (N : Num T) (pre : BStyle T -> BIn T -> BIn T) (abs_child : @AbsChild T),
    AbsChildLocal abs_child ->
    AbsBlind (BNode T) (BIn T) (ChildOut T) (BLayout T) (bl_algo pre abs_child) bn_visible_absolute out_eq lay_eq.
Proof. exact bl_algo_abs_blind. Qed.

(* ... hence, for the engine `vh blocktree cases` RUNS (Model/BlockEngineRun.v: `bl_memo block_pre abs_child_block` = Engine.memo with the exact
   key bin_eqb over `bl_algo`: dispatch on the number of children, leaf = compute_leaf_layout with the node's measure function, the real
   preprocessing and the real absolute routine), any `Num`: the conclusion of C06_abs_blind_engine_partial, no premise left.  (Audit of
   wave 7b: C06_block_engine_real_instance_partial above is about a `sel` / `leaf` engine over bare styles that no runner executes.)
   PARTIAL for the reason C06_abs_blind_engine_partial is: asim leaves the subtree of every out-of-flow node unconstrained -- an UNCHANGED
   absolute sibling is not covered -- and ignores content_size on every node.  Exact-key memo: the implementation under the verification
   hook. *)
Theorem C06_bl_engine_real_instance_partial :
  forall (T : Type) (N : Num T) f f' t t' i o t1 o' t1',
    asim (BNode T) (BIn T) (ChildOut T) (BLayout T) bn_visible_absolute out_eq lay_eq t t' ->
    bl_memo block_pre abs_child_block f t i = Some (o, t1) ->
    bl_memo block_pre abs_child_block f' t' i = Some (o', t1') ->
    asim (BNode T) (BIn T) (ChildOut T) (BLayout T) bn_visible_absolute out_eq lay_eq t1 t1' /\
    (bn_visible_absolute (style_of (BNode T) (BIn T) (ChildOut T) (BLayout T) t) = false -> out_eq o o').
Proof.
  intros T N f f' t t' i o t1 o' t1' Hs E E'. unfold bl_memo in *.
  eapply (C06_abs_blind_engine_partial (BNode T) (BIn T) (ChildOut T) (BLayout T) bi_mode bin_eqb bn_is_none hidden_child_out zero_blay
            (bl_algo block_pre abs_child_block) bn_visible_absolute out_eq lay_eq); eauto.
  - apply out_eq_refl.
  - apply lay_eq_refl.
  - apply bl_algo_abs_blind. apply abs_child_block_local.
Qed.

(* computed instance over XQ (Model/BlockAbsExample2.v): the 7-node scroll container of Model/BlockAbsExample.v against the same tree with the
   absolute CONTAINER R (and its child) replaced by a bare absolute leaf 7 x 9; the fresh trees are asim; both evaluations succeed; root size
   212 x 52 on both sides, content sizes 203 x 69 vs 203 x 51 (they DIFFER: content_size is what the statement leaves out); the stored boxes
   of A, P, Q and F coincide (listed in r_check); the theorem's conclusion for this pair *)
From TV Require Import Model.BlockRoot Model.BlockAbsExample Model.BlockAbsExample2.
Example C06_bl_engine_real_example :
  asim (BNode XQ) (BIn XQ) (ChildOut XQ) (BLayout XQ) bn_visible_absolute out_eq lay_eq (bl_fresh exr_tree) (bl_fresh exr_tree') /\
  r_check = true /\
  exists o t o' t', r_run exr_tree = Some (o, t) /\ r_run exr_tree' = Some (o', t') /\
    asim (BNode XQ) (BIn XQ) (ChildOut XQ) (BLayout XQ) bn_visible_absolute out_eq lay_eq t t' /\ out_eq o o'.
Proof.
  assert (Hs : asim (BNode XQ) (BIn XQ) (ChildOut XQ) (BLayout XQ) bn_visible_absolute out_eq lay_eq (bl_fresh exr_tree) (bl_fresh exr_tree')).
  { pose proof (asim_refl (BNode XQ) (BIn XQ) (ChildOut XQ) (BLayout XQ) bn_visible_absolute out_eq lay_eq out_eq_refl lay_eq_refl) as R.
    pose proof (crel_refl (BIn XQ) (ChildOut XQ) out_eq out_eq_refl) as C.
    apply asim_node; [apply C|apply lay_eq_refl|].
    constructor; [apply R|]. constructor; [apply R|]. constructor; [apply R|]. constructor; [|constructor; [apply R|constructor]].
    apply asim_abs; vm_compute; reflexivity. }
  split; [exact Hs|].
  split; [vm_compute; reflexivity|].
  let v := eval vm_compute in (r_run exr_tree) in assert (E : r_run exr_tree = v) by (vm_compute; reflexivity).
  let v := eval vm_compute in (r_run exr_tree') in assert (E' : r_run exr_tree' = v) by (vm_compute; reflexivity).
  match type of E with _ = Some (?o, ?t) => match type of E' with _ = Some (?o', ?t') =>
    exists o, t, o', t'; split; [exact E|]; split; [exact E'|];
    destruct (C06_bl_engine_real_instance_partial XQ _ ex_fuel ex_fuel _ _ r_in o t o' t' Hs E E') as [Ht Ho];
    split; [exact Ht|]; apply Ho; vm_compute; reflexivity
  end end.
Qed.


(* C06_block_inflow_abs_blind / _delete_absolute, concrete over XQ: a container 212 wide with an in-flow child, an absolute
   child and another in-flow child; on the other side the absolute child has another style and another output and the first
   child reports another content size: xrel holds, the lists differ, the in-flow records and the height (52) coincide, the
   content sizes differ *)
Definition kR : BStyle XQ := fst (sstyle _ ex_spec).
Definition kA : BStyle XQ := fst (sstyle _ ex_A).
Definition kE : BStyle XQ := fst (sstyle _ ex_E).
Definition kF : BStyle XQ := fst (sstyle _ ex_F).
Definition kE2 : BStyle XQ := ex_style DBlock true PAbsolute (mkSize (len 33) (len 44)) auto2 auto2 2 1 9.
Definition k_inp : BInput XQ := mkInput (mkSize (Some (qz 212)) None) (mkSize (Some (qz 300)) (Some (qz 400))) (mkLine false false).
Definition k_nis := block_node_inner_size kR k_inp.
Definition k_P : Block.Params XQ := block_params kR k_inp (qz 212).
Definition k_out (w h cw ch : Z) : ChildOut XQ := mkOut (mkSize (qz w) (qz h)) (mkSize (qz cw) (qz ch)) ms_ZERO ms_ZERO false.
Definition k_xs : list (Item XQ * ChildOut XQ) :=
  [(generate_item kA k_nis 0, k_out 200 24 34 14); (generate_item kE k_nis 1, k_out 10 10 10 10); (generate_item kF k_nis 2, k_out 100 12 32 12)].
Definition k_xs' : list (Item XQ * ChildOut XQ) :=
  [(generate_item kA k_nis 0, k_out 200 24 999 777); (generate_item kE2 k_nis 1, k_out 39 50 0 0); (generate_item kF k_nis 2, k_out 100 12 32 12)].
Example C06_block_inflow_concrete_example :
  Forall2 xrel k_xs k_xs' /\ k_xs <> k_xs' /\ in_flow_only k_xs <> k_xs /\ length (in_flow_only k_xs) = 2%nat /\
  map (fun r => (ir_inflow r, ir_x r, ir_y r, ir_static_x r, ir_static_y r)) (io_results (block_inflow k_P k_xs)) =
    [(true, qz 6, qz 10, qz 6, qz 6); (false, qz 0, qz 0, qz 6, qz 34); (true, qz 6, qz 34, qz 6, qz 34)] /\
  map (fun r => (ir_inflow r, ir_x r, ir_y r, ir_static_x r, ir_static_y r)) (io_results (block_inflow k_P k_xs')) =
    [(true, qz 6, qz 10, qz 6, qz 6); (false, qz 0, qz 0, qz 6, qz 34); (true, qz 6, qz 34, qz 6, qz 34)] /\
  io_height (block_inflow k_P k_xs) = qz 52 /\ io_height (block_inflow k_P k_xs') = qz 52 /\
  io_content_size (block_inflow k_P k_xs) <> io_content_size (block_inflow k_P k_xs').
Proof.
  split.
  { unfold k_xs, k_xs'. constructor; [right; vm_compute; repeat split|]. constructor; [left; vm_compute; split; reflexivity|].
    constructor; [right; vm_compute; repeat split|constructor]. }
  split; [vm_compute; discriminate|]. split; [vm_compute; discriminate|].
  vm_compute. repeat split; try reflexivity. discriminate.
Qed.

(* C06_block_engine_instance_partial, computed over XQ: an absolute CONTAINER with two children against a bare absolute leaf,
   nested in a block container: the fresh trees are asim, both evaluations succeed, the results are asim, the root outputs
   coincide up to content size (212 x 92; content 206 x 108 vs 206 x 86), and all in-flow boxes coincide *)
Definition csel (s : BStyle XQ) : bool :=
  match Block.r_left (st_padding s) with Len (Fin q) => Qeq_bool q 5 || Qeq_bool q 3 | _ => false end.
Definition cleaf (s : BStyle XQ) (i : BIn XQ) : ChildOut XQ := leaf_out s (Scale.measure_fixed (qz 30) (qz 10)) i.
Notation c_algo := (fun s st i => if csel s then block_alg block_pre abs_child_simple s st i
                                  else Engine.Ret (BIn XQ) (ChildOut XQ) (BLayout XQ) (cleaf s i)).
Notation c_memo := (memo (BStyle XQ) (BIn XQ) (ChildOut XQ) (BLayout XQ) bi_mode bin_eqb bs_is_none hidden_child_out zero_blay c_algo).
Notation c_fresh := (fresh (BStyle XQ) (BIn XQ) (ChildOut XQ) (BLayout XQ) zero_blay).
Definition cA := fst (sstyle _ ex_A). Definition cC := fst (sstyle _ ex_C). Definition cG := fst (sstyle _ ex_G).
Definition cB := fst (sstyle _ ex_B). Definition cE := fst (sstyle _ ex_E). Definition cF := fst (sstyle _ ex_F).
Definition cR := fst (sstyle _ ex_spec).
Definition cAbs : BStyle XQ := ex_style Block.DBlock false Block.PAbsolute (Block.mkSize (len 40) Block.Auto) auto2 auto2 3 2 9.
Definition CL (s : BStyle XQ) := SNode (BStyle XQ) s [].
Definition ck : sk (BStyle XQ) := SNode _ cR [CL cA; SNode _ cB [CL cC; SNode _ cAbs [CL cG; CL cA]; CL cG]; CL cF].
Definition ck' : sk (BStyle XQ) := SNode _ cR [CL cA; SNode _ cB [CL cC; CL cE; CL cG]; CL cF].
Definition cx (t : Engine.tree (BStyle XQ) (BIn XQ) (ChildOut XQ) (BLayout XQ)) :=
  map (fun l => (bl_x l, bl_y l, s_w (bl_size l), s_h (bl_size l))) (lays (BStyle XQ) (BIn XQ) (ChildOut XQ) (BLayout XQ) t).
Example C06_block_engine_example :
  asim (BStyle XQ) (BIn XQ) (ChildOut XQ) (BLayout XQ) bs_visible_absolute out_eq lay_eq (c_fresh ck) (c_fresh ck') /\
  exists o t o' t',
    c_memo 6 (c_fresh ck) ex_input = Some (o, t) /\ c_memo 6 (c_fresh ck') ex_input = Some (o', t') /\
    asim (BStyle XQ) (BIn XQ) (ChildOut XQ) (BLayout XQ) bs_visible_absolute out_eq lay_eq t t' /\ out_eq o o' /\
    bsz_eqb (co_size o) (Block.mkSize (qz 212) (qz 92)) = true /\
    bsz_eqb (co_content_size o) (Block.mkSize (qz 206) (qz 108)) = true /\
    bsz_eqb (co_content_size o') (Block.mkSize (qz 206) (qz 86)) = true /\
    list_eqb box_eqb (cx t) [box 0 0 0 0; box 6 10 200 24; box 6 40 200 34; box 4 4 52 12; box 4 16 46 52; box 5 5 36 14; box 5 23 36 24;
                             box 4 16 192 14; box 6 74 100 12] = true /\
    list_eqb box_eqb (cx t') [box 0 0 0 0; box 6 10 200 24; box 6 40 200 34; box 4 4 52 12; box 4 16 30 10;
                              box 4 16 192 14; box 6 74 100 12] = true.
Proof.
  assert (Hs : asim (BStyle XQ) (BIn XQ) (ChildOut XQ) (BLayout XQ) bs_visible_absolute out_eq lay_eq (c_fresh ck) (c_fresh ck')).
  { pose proof (asim_refl (BStyle XQ) (BIn XQ) (ChildOut XQ) (BLayout XQ) bs_visible_absolute out_eq lay_eq out_eq_refl lay_eq_refl) as R.
    pose proof (crel_refl (BIn XQ) (ChildOut XQ) out_eq out_eq_refl) as C.
    cbn [ck ck' Engine.fresh map CL].
    apply asim_node; [apply C|apply lay_eq_refl|]. constructor; [apply R|]. constructor; [|constructor; [apply R|constructor]].
    apply asim_node; [apply C|apply lay_eq_refl|]. constructor; [apply R|]. constructor; [|constructor; [apply R|constructor]].
    apply asim_abs; vm_compute; reflexivity. }
  split; [exact Hs|].
  destruct (c_memo 6 (c_fresh ck) ex_input) as [[o t]|] eqn:E; [|vm_compute in E; discriminate].
  destruct (c_memo 6 (c_fresh ck') ex_input) as [[o' t']|] eqn:E'; [|vm_compute in E'; discriminate].
  exists o, t, o', t'. split; [reflexivity|]. split; [reflexivity|].
  destruct (C06_block_engine_instance_partial XQ _ block_pre abs_child_simple csel cleaf bi_mode bin_eqb bs_is_none hidden_child_out
              zero_blay (abs_child_simple_local (T := XQ)) 6 6 _ _ ex_input o t o' t' Hs E E') as [Ht Ho].
  split; [exact Ht|]. split; [apply Ho; vm_compute; reflexivity|].
  assert (X : match c_memo 6 (c_fresh ck) ex_input, c_memo 6 (c_fresh ck') ex_input with
              | Some (o, t), Some (o', t') =>
                  bsz_eqb (co_size o) (Block.mkSize (qz 212) (qz 92)) &&
                  bsz_eqb (co_content_size o) (Block.mkSize (qz 206) (qz 108)) &&
                  bsz_eqb (co_content_size o') (Block.mkSize (qz 206) (qz 86)) &&
                  list_eqb box_eqb (cx t) [box 0 0 0 0; box 6 10 200 24; box 6 40 200 34; box 4 4 52 12; box 4 16 46 52; box 5 5 36 14; box 5 23 36 24;
                             box 4 16 192 14; box 6 74 100 12] &&
                  list_eqb box_eqb (cx t') [box 0 0 0 0; box 6 10 200 24; box 6 40 200 34; box 4 4 52 12; box 4 16 30 10;
                              box 4 16 192 14; box 6 74 100 12]
              | _, _ => false end = true) by (vm_compute; reflexivity).
  rewrite E, E' in X. do 4 (apply andb_true_iff in X; destruct X as [X ?]). repeat split; assumption.
Qed.

(* ---------------------------------------------------------------------------------------------- the flex algorithm *)
From TV Require Import Model.Common Model.Leaf Model.FlexAlgBase Model.FlexAlg Model.EngineLift Model.BlockFlexEngine.
From TV Require Import Proofs.FlexAlgBlind Proofs.BlockFlexEngine.

(* AbsBlind, spelled out: on two child-style lists that agree except at positions where both children are box-generating and
   position:absolute (abmask st), the two resumptions are bisimilar up to content_size (ABis, Proofs/EngineAbs.v): Ret with outputs equal
   up to content_size; the same Query (same input) / SetLayout (layouts equal up to content_size) to every other child, answer for answer up
   to content_size; any traffic with the absolute children, whose answers are ignored by everything that follows *)
Theorem C06_flex_algorithm_abs_blind :
  forall (T : Type) (N : Num T),
    AbsBlind (FStyle T) (FIn T) (LayoutOutput T) (FLay T) flex_alg f_visible_absolute fout_eq flay_eq /\
    (forall o : LayoutOutput T, fout_eq o o) /\ (forall l : FLay T, flay_eq l l).
Proof. intros T N. split; [apply flex_alg_abs_blind|]. split; [apply fout_eq_refl|apply flay_eq_refl]. Qed.

(* engines made of block containers, flex containers and leaves (`kind` = the dispatch of TaffyView::compute_child_layout): two trees
   that coincide up to content_size outside the subtrees of box-generating absolute nodes stay so through any pair of evaluations, and
   every node that is not itself such a node returns the same output up to content_size *)
Theorem C06_blockflex_engine_instance :
  forall (T : Type) (N : Num T) (kind : BFStyle T -> NodeKind) (pre : BStyle T -> BIn T -> BIn T) (abs_child : @AbsChild T)
         (leaf : BFStyle T -> FIn T -> LayoutOutput T)
         (mode : FIn T -> Engine.RunMode) (in_eqb : FIn T -> FIn T -> bool) (is_none : BFStyle T -> bool)
         (hidden_out : LayoutOutput T) (zero_lay : FLay T),
    AbsChildLocal abs_child ->
    let algo := blockflex_algo kind pre abs_child leaf in
    forall f f' t t' i o t1 o' t1',
      asim (BFStyle T) (FIn T) (LayoutOutput T) (FLay T) bf_visible_absolute fout_eq flay_eq t t' ->
      memo (BFStyle T) (FIn T) (LayoutOutput T) (FLay T) mode in_eqb is_none hidden_out zero_lay algo f t i = Some (o, t1) ->
      memo (BFStyle T) (FIn T) (LayoutOutput T) (FLay T) mode in_eqb is_none hidden_out zero_lay algo f' t' i = Some (o', t1') ->
      asim (BFStyle T) (FIn T) (LayoutOutput T) (FLay T) bf_visible_absolute fout_eq flay_eq t1 t1' /\
      (bf_visible_absolute (style_of (BFStyle T) (FIn T) (LayoutOutput T) (FLay T) t) = false -> fout_eq o o').
Proof.
  intros T N kind pre abs_child leaf mode in_eqb is_none hidden_out zero_lay Hloc algo f f' t t' i o t1 o' t1' Hs E E'.
  eapply (C06_abs_blind_engine_partial (BFStyle T) (FIn T) (LayoutOutput T) (FLay T) mode in_eqb is_none hidden_out zero_lay algo
            bf_visible_absolute fout_eq flay_eq); eauto.
  - apply fout_eq_refl.
  - apply flay_eq_refl.
  - apply blockflex_algo_abs_blind. exact Hloc.
Qed.

(* ---------------------------------------------------------------------------------------------- the grid algorithm *)
From TV Require Import Num.QNum Gen.GridTracksGen Model.GridTracks Model.GridAlgBase Model.GridAlg Model.TaffyEngine.
From TV Require Import Proofs.GridAlgVisits Proofs.GridAlgBlind Proofs.TaffyEngine.

(* full AbsBlind fails: the size estimate of the implicit grid reads the absolute children's lines, and even counts a bare absolute
   child.  gab_container = `display:grid; grid-auto-rows: 7px`; gab_child4 = a bare absolute child with grid_row: 4 / auto;
   gab_child_bare = a bare absolute child.  The two lists are related by `arel` for ab = box-generating absolute, the resumptions
   return at once (ComputeSize) with heights 28 and 7 -- and 0 without any child. *)
Theorem C06_grid_algorithm_abs_blind_refuted :
  Forall2 (arel (GStyle XQ) g_visible_absolute) [gab_child4] [gab_child_bare] /\
  ret_height (grid_alg gab_container [gab_child4] (gab_input Engine.ComputeSize)) = Some (xq 28) /\
  ret_height (grid_alg gab_container [gab_child_bare] (gab_input Engine.ComputeSize)) = Some (xq 7) /\
  ret_height (grid_alg gab_container [] (gab_input Engine.ComputeSize)) = Some (xq 0) /\
  ~ ABis (GIn XQ) (LayoutOutput XQ) (GLay XQ) gout_eq glay_eq (abmask (GStyle XQ) g_visible_absolute [gab_child4])
         (grid_alg gab_container [gab_child4] (gab_input Engine.ComputeSize)) (grid_alg gab_container [gab_child_bare] (gab_input Engine.ComputeSize)) /\
  ~ AbsBlind (GStyle XQ) (GIn XQ) (LayoutOutput XQ) (GLay XQ) grid_alg g_visible_absolute gout_eq glay_eq.
Proof. exact grid_alg_abs_blind_refuted. Qed.

(* the complement.  `lrel ab a b`: a = b, or both in the class `ab` with the same grid_row and grid_column *)
Theorem C06_grid_algorithm_abs_blind_lines :
  forall (T : Type) (N : Num T),
    (forall (ab : GStyle T -> bool), (forall s, ab s = true -> g_visible_absolute s = true) ->
       forall s st st' i, Forall2 (lrel ab) st st' ->
         ABis (GIn T) (LayoutOutput T) (GLay T) gout_eq glay_eq (abmask (GStyle T) ab st) (grid_alg s st i) (grid_alg s st' i)) /\
    (forall r c, AbsBlind (GStyle T) (GIn T) (LayoutOutput T) (GLay T) grid_alg (ab_lines r c) gout_eq glay_eq) /\
    (forall r c (s : GStyle T), ab_lines r c s = true <-> g_visible_absolute s = true /\ gs_row s = r /\ gs_column s = c).
Proof.
  intros T N. split; [intros ab Hab s st st' i Hr; apply grid_alg_abs_bis; assumption|]. split; [apply grid_alg_abs_blind_lines|].
  intros r c s. unfold ab_lines. rewrite !andb_true_iff. split.
  - intros [[A B] C]. split; [exact A|]. split; apply ln_eqb_eq; assumption.
  - intros (A & <- & <-). rewrite !ln_eqb_refl. repeat split. exact A.
Qed.

(* engines made of grid containers (sel s = true) and leaves: two trees that coincide up to content_size outside the subtrees of
   box-generating absolute nodes on the lines (r, c) stay so through any pair of evaluations, and every node that is not itself such a
   node returns the same output up to content_size.
   PARTIAL (renamed by the audit of wave 7b): the absolute nodes of ONE line class (r, c) only -- the text says "with any ... grid-placement
   styles" (the gap is the known finding C06/grid-estimate-absolute) --, plus the gaps of C06_abs_blind_engine_partial; both evaluations are
   premises (`= Some`); `grid_leaf_algo` over GStyle is evaluated by no runner (the complete engine below is) *)
Theorem C06_grid_engine_instance_partial :
  forall (T : Type) (N : Num T) (sel : GStyle T -> bool) (leaf : GStyle T -> GIn T -> LayoutOutput T) (r c : PB.Ln PB.GP)
         (mode : GIn T -> Engine.RunMode) (in_eqb : GIn T -> GIn T -> bool) (is_none : GStyle T -> bool)
         (hidden_out : LayoutOutput T) (zero_lay : GLay T),
    let algo := grid_leaf_algo sel leaf in
    forall f f' t t' i o t1 o' t1',
      asim (GStyle T) (GIn T) (LayoutOutput T) (GLay T) (ab_lines r c) gout_eq glay_eq t t' ->
      memo (GStyle T) (GIn T) (LayoutOutput T) (GLay T) mode in_eqb is_none hidden_out zero_lay algo f t i = Some (o, t1) ->
      memo (GStyle T) (GIn T) (LayoutOutput T) (GLay T) mode in_eqb is_none hidden_out zero_lay algo f' t' i = Some (o', t1') ->
      asim (GStyle T) (GIn T) (LayoutOutput T) (GLay T) (ab_lines r c) gout_eq glay_eq t1 t1' /\
      (ab_lines r c (style_of (GStyle T) (GIn T) (LayoutOutput T) (GLay T) t) = false -> gout_eq o o').
Proof.
  intros T N sel leaf r c mode in_eqb is_none hidden_out zero_lay algo f f' t t' i o t1 o' t1' Hs E E'.
  eapply (C06_abs_blind_engine_partial (GStyle T) (GIn T) (LayoutOutput T) (GLay T) mode in_eqb is_none hidden_out zero_lay algo
            (ab_lines r c) gout_eq glay_eq); eauto.
  - apply gout_eq_refl.
  - apply glay_eq_refl.
  - apply grid_leaf_algo_abs_blind_lines.
Qed.

(* ---------------------------------------------------------------------------------------------- keyed by the grid lines: all node kinds *)
From TV Require Proofs.EngineAbsKey.

(* the engine theorem with a KEY: `key s` is what a parent may read of an out-of-flow child's style.  AbsBlindK: on child-style lists that
   agree except at out-of-flow positions, where both sides are out of flow and have the same key, the resumptions are ABis-bisimilar.
   asim (keyed): the trees coincide up to oeq / leq outside the subtrees of out-of-flow nodes, whose keys agree.  With a constant key this
   is C06_abs_blind_engine; AbsBlind implies AbsBlindK for every key. *)
Theorem C06_abs_blind_engine_keyed :
  forall (S In Out Lay K : Type) (mode : In -> Engine.RunMode) (in_eqb : In -> In -> bool) (is_none : S -> bool)
         (hidden_out : Out) (zero_lay : Lay) (algo : S -> list S -> In -> Alg In Out Lay)
         (ab : S -> bool) (key : S -> K) (oeq : Out -> Out -> Prop) (leq : Lay -> Lay -> Prop),
    (forall o, oeq o o) -> (forall l, leq l l) ->
    (EngineAbsKey.AbsBlindK S In Out Lay algo ab K key oeq leq ->
     forall f f' t t' i o t1 o' t1',
       EngineAbsKey.asim S In Out Lay ab K key oeq leq t t' ->
       memo S In Out Lay mode in_eqb is_none hidden_out zero_lay algo f t i = Some (o, t1) ->
       memo S In Out Lay mode in_eqb is_none hidden_out zero_lay algo f' t' i = Some (o', t1') ->
       EngineAbsKey.asim S In Out Lay ab K key oeq leq t1 t1' /\ (ab (style_of S In Out Lay t) = false -> oeq o o')) /\
    (AbsBlind S In Out Lay algo ab oeq leq -> EngineAbsKey.AbsBlindK S In Out Lay algo ab K key oeq leq) /\
    (forall t, EngineAbsKey.asim S In Out Lay ab K key oeq leq t t) /\
    (* read pointwise: along a path without out-of-flow nodes both trees have a node, same style, leq stored layouts *)
    (forall p t t' u, EngineAbsKey.asim S In Out Lay ab K key oeq leq t t' -> EngineAbsKey.in_flow_path S In Out Lay ab t p ->
       subtree S In Out Lay t p = Some u ->
       exists u', subtree S In Out Lay t' p = Some u' /\ leq (lay_of S In Out Lay u) (lay_of S In Out Lay u') /\
                  style_of S In Out Lay u' = style_of S In Out Lay u).
Proof.
  intros S In Out Lay K mode in_eqb is_none hidden_out zero_lay algo ab key oeq leq Ho Hl. split; [|split; [|split]].
  - intros HB f f' t t' i o t1 o' t1' H E E'.
    eapply (EngineAbsKey.memo_asimK S In Out Lay mode in_eqb is_none hidden_out zero_lay algo ab K key oeq leq Ho Hl HB f f'); eauto.
  - apply EngineAbsKey.AbsBlind_K.
  - intros t. apply EngineAbsKey.asim_refl; assumption.
  - intros p t t' u. apply EngineAbsKey.asim_at.
Qed.

(* the grid algorithm: AbsBlindK for ab = box-generating and position:absolute (ALL of them), key = (grid_row, grid_column) *)
Theorem C06_grid_algorithm_abs_blind_keyed :
  forall (T : Type) (N : Num T),
    EngineAbsKey.AbsBlindK (GStyle T) (GIn T) (LayoutOutput T) (GLay T) grid_alg g_visible_absolute (PB.Ln PB.GP * PB.Ln PB.GP) g_lines gout_eq glay_eq.
Proof. intros T N. apply grid_alg_abs_blind_keyed. Qed.

(* engines made of block, flex and grid containers and leaves -- every kind of node TaffyView::compute_child_layout dispatches on: two trees
   that coincide up to content_size outside the subtrees of box-generating absolute nodes, THESE NODES HAVING THE SAME grid_row / grid_column on
   both sides, stay so through any pair of evaluations, and every node that is not itself such a node returns the same output up to
   content_size.  (Only a grid parent reads the lines; the premise on them is what the known finding C06/grid-estimate-absolute costs.)
   `disp` is ANY dispatch on (own style, number of children), `leaf` ANY leaf routine; with `taffy_dispatch`, `block_pre`,
   `abs_child_block` (AbsChildLocal: C06_block_real_absolute_routine_local), `taffy_leaf` this is the engine `vh taffytree` runs against the
   implementation on whole trees (notes/TAFFYTREE.md).
   PARTIAL (renamed by the audit of wave 7b): absolute nodes must KEEP their grid lines (the text: "with any ... grid-placement styles ...");
   the stored layout of the absolute node itself and everything below it is unconstrained (asim_abs); content_size is ignored; both
   evaluations are premises (`= Some`: no totality lemma for real_algo); ONE memoised query -- the runner evaluates
   taffy_compute_root (root input from the root style, root layout stored) over SEVERAL passes: C06_taffy_layout_pass(es)_partial at the end of this file; where the
   Rust code panics the grid branch is the stand-in of Model/GridAlgTotal.v (both sides then are the same resumption by construction).
   Computed instance: C06_taffy_engine_example. *)
Theorem C06_taffy_engine_instance_partial :
  forall (T : Type) (N : Num T) (disp : TStyle T -> nat -> TKind) (pre : BStyle T -> BIn T -> BIn T)
         (abs_child : @AbsChild T) (leaf : TStyle T -> FIn T -> LayoutOutput T)
         (mode : FIn T -> Engine.RunMode) (in_eqb : FIn T -> FIn T -> bool) (is_none : TStyle T -> bool)
         (hidden_out : LayoutOutput T) (zero_lay : FLay T),
    AbsChildLocal abs_child ->
    let algo := taffy_algo disp pre abs_child leaf in
    forall f f' t t' i o t1 o' t1',
      EngineAbsKey.asim (TStyle T) (FIn T) (LayoutOutput T) (FLay T) t_visible_absolute _ t_lines fout_eq flay_eq t t' ->
      memo (TStyle T) (FIn T) (LayoutOutput T) (FLay T) mode in_eqb is_none hidden_out zero_lay algo f t i = Some (o, t1) ->
      memo (TStyle T) (FIn T) (LayoutOutput T) (FLay T) mode in_eqb is_none hidden_out zero_lay algo f' t' i = Some (o', t1') ->
      EngineAbsKey.asim (TStyle T) (FIn T) (LayoutOutput T) (FLay T) t_visible_absolute _ t_lines fout_eq flay_eq t1 t1' /\
      (t_visible_absolute (style_of (TStyle T) (FIn T) (LayoutOutput T) (FLay T) t) = false -> fout_eq o o').
Proof.
  intros T N disp pre abs_child leaf mode in_eqb is_none hidden_out zero_lay Hloc algo f f' t t' i o t1 o' t1' Hs E E'.
  eapply (EngineAbsKey.memo_asimK (TStyle T) (FIn T) (LayoutOutput T) (FLay T) mode in_eqb is_none hidden_out zero_lay algo
            t_visible_absolute _ t_lines fout_eq flay_eq); eauto.
  - apply fout_eq_refl.
  - apply flay_eq_refl.
  - apply taffy_algo_abs_blind_keyed. exact Hloc.
Qed.

Print Assumptions C06_grid_never_placed.
Print Assumptions C06_grid_estimate_absolute_refuted.
Print Assumptions C06_grid_estimate_absolute_refuted_sibling.
Print Assumptions C06_grid_known_class.
Print Assumptions C06_abs_blind_engine_partial.
Print Assumptions C06_abs_blind_layouts_partial.
Print Assumptions C06_block_inflow_abs_blind.
Print Assumptions C06_block_inflow_delete_absolute.
Print Assumptions C06_flex_items_ignore_absolute.
Print Assumptions C06_grid_items_ignore_absolute.
Print Assumptions C06_block_items_absolute_flagged.
Print Assumptions C06_block_source_predicates.
Print Assumptions C06_block_algorithm_abs_blind.
Print Assumptions C06_block_engine_instance_partial.
Print Assumptions C06_block_real_absolute_routine_local.
Print Assumptions C06_block_engine_real_instance_partial.
Print Assumptions C06_block_resumption_runs_kernel.
Print Assumptions C06_block_content_width_ignores_absolute.
Print Assumptions C06_block_resumption_query_inputs.
Print Assumptions C06_flex_algorithm_abs_blind.
Print Assumptions C06_blockflex_engine_instance.
Print Assumptions C06_bl_algorithm_abs_blind.
Print Assumptions C06_bl_engine_real_instance_partial.
Print Assumptions C06_bl_engine_real_example.
Print Assumptions C06_grid_algorithm_abs_blind_refuted.
Print Assumptions C06_grid_algorithm_abs_blind_lines.
Print Assumptions C06_grid_engine_instance_partial.
Print Assumptions C06_abs_blind_engine_keyed.
Print Assumptions C06_grid_algorithm_abs_blind_keyed.
Print Assumptions C06_taffy_engine_instance_partial.

(* ------------------------------------------------------------------------------------------------------------ *)
(** * Computed instances of the grid-algorithm and complete-engine theorems (audit, wave 7b)

   No grid or taffy-engine theorem of this file had a computed Example: keyed `asim` / `lrel` were never exhibited on a grid. *)
From TV Require Import Model.TaffyRoot Model.TaffyKey Model.TaffyExample Model.TaffyExample2 Proofs.GridAlgExamples Proofs.BlockAbsLocal.
From TV Require Model.MeasureFamily.

(* the three heights 28 / 7 / 0 of C06_grid_algorithm_abs_blind_refuted are not the stand-in's: the Rust code does not panic on any of the
   three inputs (0 x 0 is also what `Ret panic_out` would return) *)
Example C06_grid_algorithm_abs_blind_refuted_no_panic :
  grid_no_panic gab_container [gab_child4] (gab_input Engine.ComputeSize) = true /\
  grid_no_panic gab_container [gab_child_bare] (gab_input Engine.ComputeSize) = true /\
  grid_no_panic gab_container [] (gab_input Engine.ComputeSize) = true.
Proof. repeat split; vm_compute; reflexivity. Qed.

(* grid algorithm (Proofs/GridAlgExamples.v): the baseline-aligned two-column grid with an ABSOLUTE child between its two in-flow items, on
   grid_row 1 / span 1, grid_column 2 on both sides; 40 x 15 with inset-left 3 on one side, 99 x 77 with margin 5 on the other: lrel, the lists
   differ, no panic, the 17 events before the absolute child's layout are identical, the absolute child's own box differs (13, 0, 40 x 15
   vs 15, 5, 99 x 77), the result is 20 x 30 on both sides; and ABis through the theorem *)
Example C06_grid_algorithm_abs_blind_lines_example :
  Forall2 (lrel g_visible_absolute) st_a st_b /\ st_a <> st_b /\
  grid_no_panic gns_container st_a g_pl = true /\ grid_no_panic gns_container st_b g_pl = true /\
  walk 60 (grid_alg gns_container st_a g_pl) = common_prefix ++ [ES 1 (xq 13) (xq 0) (xq 40) (xq 15); ER (xq 20) (xq 30)] /\
  walk 60 (grid_alg gns_container st_b g_pl) = common_prefix ++ [ES 1 (xq 15) (xq 5) (xq 99) (xq 77); ER (xq 20) (xq 30)] /\
  ABis (GIn XQ) (LayoutOutput XQ) (GLay XQ) gout_eq glay_eq (abmask (GStyle XQ) g_visible_absolute st_a)
       (grid_alg gns_container st_a g_pl) (grid_alg gns_container st_b g_pl).
Proof.
  assert (Hr : Forall2 (lrel g_visible_absolute) st_a st_b).
  { constructor; [left; reflexivity|]. constructor; [right; repeat split; reflexivity|]. constructor; [left; reflexivity|constructor]. }
  split; [exact Hr|].
  split; [intros E; apply (f_equal (fun l => option_map (fun s => size (gs_core s)) (nth_error l 1))) in E; vm_compute in E; discriminate|].
  split; [vm_compute; reflexivity|]. split; [vm_compute; reflexivity|]. split; [vm_compute; reflexivity|]. split; [vm_compute; reflexivity|].
  apply (proj1 (C06_grid_algorithm_abs_blind_lines XQ _) g_visible_absolute (fun _ E => E)). exact Hr.
Qed.

(* complete engine (Model/TaffyExample2.v): block root 200 > [GRID 50px 50px > [leaf 20 x 10; ABS; text leaf]; leaf 10 x 10] with ABS on
   grid_row 1 / span 1, grid_column 2 -- a 40 x 15 flex CONTAINER with a 33 x 44 child on one side, a bare 99 x 77 block leaf on the other:
   keyed asim of the fresh trees, the styles differ, the lines agree, BOTH evaluations of the engine `vh taffytree` runs succeed, the
   theorem's conclusion, output 200 x 20 on both sides, all boxes: everything but ABS and its subtree coincides *)
Notation xmemo := (Engine.memo (TStyle XQ) (FIn XQ) (LayoutOutput XQ) (FLay XQ) qi_mode (fin_eqb_with xq_seqb) t_is_none output_HIDDEN (f_with_order 0)
                      (taffy_algo taffy_dispatch BlockEngine.block_pre abs_child_block taffy_leaf)).
Notation kasim := (EngineAbsKey.asim (TStyle XQ) (FIn XQ) (LayoutOutput XQ) (FLay XQ) t_visible_absolute _ t_lines fout_eq flay_eq).
Example C06_taffy_engine_example :
  kasim (taffy_fresh ak) (taffy_fresh ak') /\ s_absa <> s_absb /\ t_lines s_absa = t_lines s_absb /\
  exists o t o' t',
    xmemo 8 (taffy_fresh ak) a_in = Some (o, t) /\
    xmemo 8 (taffy_fresh ak') a_in = Some (o', t') /\
    kasim t t' /\ fout_eq o o' /\
    xq_is (width (out_size o)) 200 && xq_is (height (out_size o)) 20 = true /\
    boxes_are (bxz t)  [(0,0,0,0); (0,0,200,10); (0,0,20,10); (50,0,40,15); (0,0,33,44); (50,0,50,10); (0,10,10,10)]%Z = true /\
    boxes_are (bxz t') [(0,0,0,0); (0,0,200,10); (0,0,20,10); (50,0,99,77); (50,0,50,10); (0,10,10,10)]%Z = true.
Proof.
  assert (Hs : kasim (taffy_fresh ak) (taffy_fresh ak')).
  { unfold ak, ak', TL, taffy_fresh. cbn [Engine.fresh map].
    apply EngineAbsKey.asim_node; [apply EngineAbsKey.crel_refl; apply fout_eq_refl|apply flay_eq_refl|].
    constructor; [|constructor; [apply EngineAbsKey.asim_refl; [apply fout_eq_refl|apply flay_eq_refl]|constructor]].
    apply EngineAbsKey.asim_node; [apply EngineAbsKey.crel_refl; apply fout_eq_refl|apply flay_eq_refl|].
    constructor; [apply EngineAbsKey.asim_refl; [apply fout_eq_refl|apply flay_eq_refl]|].
    constructor; [apply EngineAbsKey.asim_abs; reflexivity|].
    constructor; [apply EngineAbsKey.asim_refl; [apply fout_eq_refl|apply flay_eq_refl]|constructor]. }
  split; [exact Hs|].
  split; [intros E; apply (f_equal (fun s => display (t_core s))) in E; vm_compute in E; discriminate|]. split; [reflexivity|].
  assert (X : match xmemo 8 (taffy_fresh ak) a_in, xmemo 8 (taffy_fresh ak') a_in with
              | Some (o, t), Some (_, t') =>
                  xq_is (width (out_size o)) 200 && xq_is (height (out_size o)) 20 &&
                  boxes_are (bxz t)  [(0,0,0,0); (0,0,200,10); (0,0,20,10); (50,0,40,15); (0,0,33,44); (50,0,50,10); (0,10,10,10)]%Z &&
                  boxes_are (bxz t') [(0,0,0,0); (0,0,200,10); (0,0,20,10); (50,0,99,77); (50,0,50,10); (0,10,10,10)]%Z
              | _, _ => false end = true) by (vm_compute; reflexivity).
  remember (xmemo 8 (taffy_fresh ak) a_in) as r eqn:E. remember (xmemo 8 (taffy_fresh ak') a_in) as r' eqn:E'.
  destruct r as [[o t]|]; [|discriminate X]. destruct r' as [[o' t']|]; [|discriminate X].
  exists o, t, o', t'. split; [reflexivity|]. split; [reflexivity|].
  pose proof (C06_taffy_engine_instance_partial XQ _ taffy_dispatch BlockEngine.block_pre abs_child_block taffy_leaf qi_mode (fin_eqb_with xq_seqb)
                t_is_none output_HIDDEN (f_with_order 0) (abs_child_block_local (T := XQ))) as Hthm.
  cbv zeta in Hthm.
  destruct (Hthm 8%nat 8%nat (taffy_fresh ak) (taffy_fresh ak') a_in o t o' t' Hs (eq_sym E) (eq_sym E')) as [Ht Ho].
  split; [exact Ht|]. split; [apply Ho; reflexivity|].
  apply andb_true_iff in X. destruct X as [X X3]. apply andb_true_iff in X. destruct X as [X1 X2].
  repeat split; assumption.
Qed.

(* ---- what `vh taffytree` really evaluates (Model/TaffyEngineRun.v run_case = Model/TaffyRoot.v real_layout_passes): compute_root_layout -- the
   root input computed from the root style, ONE memoised query, the root's own layout stored -- and SEVERAL compute_layout calls on the same
   tree (Proofs/TaffyRootAbs.v; audit, wave 7b: C06_taffy_engine_instance_partial is about one memoised query).  Any dispatch / preprocessing /
   leaf / key equality, any LOCAL absolute routine, any `Num`, any two fuels, any trees that are keyed-asim (any cache contents) and whose
   root is not a box-generating absolute node.  PARTIAL for the reasons C06_taffy_engine_instance_partial is (absolute nodes keep their grid
   lines; their own subtree and content_size unconstrained; the passes are premises) *)
From TV Require Proofs.TaffyRootAbs.
Theorem C06_taffy_layout_pass_partial :
  forall (T : Type) (N : Num T) (teq : T -> T -> bool) (disp : TStyle T -> nat -> TKind) (pre : BStyle T -> BIn T -> BIn T)
         (abs_child : @AbsChild T) (leaf : TStyle T -> FIn T -> LayoutOutput T),
    AbsChildLocal abs_child ->
    forall f f' (t t' : Engine.tree (TStyle T) (FIn T) (LayoutOutput T) (FLay T)) avail u u',
      EngineAbsKey.asim (TStyle T) (FIn T) (LayoutOutput T) (FLay T) t_visible_absolute _ t_lines fout_eq flay_eq t t' ->
      t_visible_absolute (style_of (TStyle T) (FIn T) (LayoutOutput T) (FLay T) t) = false ->
      taffy_compute_root teq disp pre abs_child leaf f t avail = Some u ->
      taffy_compute_root teq disp pre abs_child leaf f' t' avail = Some u' ->
      EngineAbsKey.asim (TStyle T) (FIn T) (LayoutOutput T) (FLay T) t_visible_absolute _ t_lines fout_eq flay_eq u u'.
Proof. intros T N teq disp pre abs_child leaf Hloc f f' t t' avail u u'. exact (TaffyRootAbs.compute_root_asim teq disp pre abs_child leaf Hloc f f' t t' avail u u'). Qed.

Theorem C06_taffy_layout_passes_partial :
  forall (T : Type) (N : Num T) (teq : T -> T -> bool) (disp : TStyle T -> nat -> TKind) (pre : BStyle T -> BIn T -> BIn T)
         (abs_child : @AbsChild T) (leaf : TStyle T -> FIn T -> LayoutOutput T),
    AbsChildLocal abs_child ->
    forall f f' avails (t t' : Engine.tree (TStyle T) (FIn T) (LayoutOutput T) (FLay T)) ls u ls' u',
      EngineAbsKey.asim (TStyle T) (FIn T) (LayoutOutput T) (FLay T) t_visible_absolute _ t_lines fout_eq flay_eq t t' ->
      t_visible_absolute (style_of (TStyle T) (FIn T) (LayoutOutput T) (FLay T) t) = false ->
      taffy_passes teq disp pre abs_child leaf f t avails = Some (ls, u) ->
      taffy_passes teq disp pre abs_child leaf f' t' avails = Some (ls', u') ->
      EngineAbsKey.asim (TStyle T) (FIn T) (LayoutOutput T) (FLay T) t_visible_absolute _ t_lines fout_eq flay_eq u u'.
Proof. intros T N teq disp pre abs_child leaf Hloc f f' avails t t' ls u ls' u'. exact (TaffyRootAbs.passes_asim teq disp pre abs_child leaf Hloc f f' avails t t' ls u ls' u'). Qed.

(* computed: two passes (available width 300, then 150) of the REAL instance with representation keys on ak / ak' (above): both succeed; the
   boxes after the second pass coincide outside the absolute node's subtree, the root's own box (200 x 20) included *)
Example C06_taffy_layout_passes_example :
  match real_layout_passes xq_seqb 8 ak [ex_avail 300%Z; ex_avail 150%Z], real_layout_passes xq_seqb 8 ak' [ex_avail 300%Z; ex_avail 150%Z] with
  | Some (_, u), Some (_, u') =>
      boxes_are (bxz u)  [(0,0,200,20); (0,0,200,10); (0,0,20,10); (50,0,40,15); (0,0,33,44); (50,0,50,10); (0,10,10,10)]%Z
      && boxes_are (bxz u') [(0,0,200,20); (0,0,200,10); (0,0,20,10); (50,0,99,77); (50,0,50,10); (0,10,10,10)]%Z
  | _, _ => false
  end = true.
Proof. vm_compute. reflexivity. Qed.

Print Assumptions C06_grid_algorithm_abs_blind_refuted_no_panic.
Print Assumptions C06_taffy_layout_pass_partial.
Print Assumptions C06_taffy_layout_passes_partial.
Print Assumptions C06_taffy_layout_passes_example.
Print Assumptions C06_grid_algorithm_abs_blind_lines_example.
Print Assumptions C06_taffy_engine_example.
