(* A block container whose children are leaves, laid out as the root of a tree: compute_root_layout (compute/mod.rs
   l.58-153) -> compute_block_layout (block.rs l.64-122) -> compute_inner (l.125-299), with the children's
   LayoutOutputs computed by the leaf model (Model/BlockLeaf.v).  This is the class the whole-API correspondence of
   C10 runs on.  Absolutely positioned children are restricted to: all insets auto, non-auto margins (then their
   location is static position + margin; block.rs l.744-755).  Definitions only. *)
From Coq Require Import ZArith Bool List.
From TV Require Import Num.Num Gen.BlockGen Model.Block Model.BlockLeaf.
Import ListNotations.

Section Tree.
  Context {T : Type} `{Num T}.

  Definition sz_or (a b : BSize (option T)) : BSize (option T) := mkSize (o_or (s_w a) (s_w b)) (o_or (s_h a) (s_h b)).
  Definition sz_maybe_max_f (a : BSize (option T)) (b : BSize T) : BSize (option T) :=
    mkSize (o_maybe_max_f (s_w a) (s_w b)) (o_maybe_max_f (s_h a) (s_h b)).

  (* (Some(min), Some(max)) if max <= min => Some(min) *)
  Definition min_max_definite (mn mx : option T) : option T :=
    match mn, mx with
    | Some a, Some b => if leb b a then Some a else None
    | _, _ => None
    end.

  (* styled_based_known_dimensions of compute_block_layout (sizing mode InherentSize) *)
  Definition block_styled_known (st : BStyle T) (known parent : BSize (option T)) : BSize (option T) :=
    let R := block_resolve st (mkInput known parent (mkLine false false)) in
    let clamped := sz_maybe_clamp (rs_size R) (rs_min R) (rs_max R) in
    let mmd := mkSize (min_max_definite (s_w (rs_min R)) (s_w (rs_max R))) (min_max_definite (s_h (rs_min R)) (s_h (rs_max R))) in
    sz_maybe_max_f (sz_or (sz_or known mmd) clamped) (rs_pb_size R).

  (* known_dimensions computed by compute_root_layout for a block root *)
  Definition root_known (st : BStyle T) (avail : BSize (Avail T)) : BSize (option T) :=
    let parent := mkSize (avail_into_option (s_w avail)) (avail_into_option (s_h avail)) in
    let R := block_resolve st (mkInput sz_none parent (mkLine false false)) in
    let margin := rect_resolve_or_zero (st_margin st) (s_w parent) in
    let clamped := sz_maybe_clamp (rs_size R) (rs_min R) (rs_max R) in
    let mmd := mkSize (min_max_definite (s_w (rs_min R)) (s_w (rs_max R))) (min_max_definite (s_h (rs_min R)) (s_h (rs_max R))) in
    let avail_based := mkSize (o_maybe_sub_f (avail_into_option (s_w avail)) (h_sum margin)) None in
    sz_maybe_max_f (sz_or (sz_or (sz_or sz_none mmd) clamped) avail_based) (rs_pb_size R).

  (* determine_content_based_container_width over leaf children.  It lays the children out with
     `perform_child_layout` (RunMode::PerformLayout, parent size NONE); the result stays in the child's single
     final-layout cache entry and may answer the call of the final pass (tree/cache.rs `get`), so the entries are kept. *)
  Record CacheEntry := mkEntry { ce_known : BSize (option T); ce_avail_w : Avail T; ce_out : ChildOut T }.

  Definition measure_entry (avail_w : Avail T) (x : Item T * (BStyle T * Measure T)) : option CacheEntry :=
    let '(it, (st, m)) := x in
    if position_is_absolute (it_position it) then None
    else
      let known := sz_maybe_clamp (it_size it) (it_min_size it) (it_max_size it) in
      match s_w known with
      | Some _ => None
      | None =>
          let xsum := h_sum (rect_resolve_or_zero (it_margin it) (avail_into_option avail_w)) in
          Some (mkEntry known (avail_maybe_sub_f avail_w xsum) (leaf_layout st m known sz_none PerformLayout))
      end.

  Definition content_based_width (items : list (Item T * (BStyle T * Measure T))) (avail_w : Avail T) : T :=
    fold_left
      (fun mx (x : Item T * (BStyle T * Measure T)) =>
         let it := fst x in
         if position_is_absolute (it_position it) then mx
         else
           let known := sz_maybe_clamp (it_size it) (it_min_size it) (it_max_size it) in
           let width :=
             match s_w known, measure_entry avail_w x with
             | Some w, _ => w
             | None, Some e =>
                 add (s_w (co_size (ce_out e))) (h_sum (rect_resolve_or_zero (it_margin it) (avail_into_option avail_w)))
             | None, None => zero
             end in
           fmax mx (fmax width (s_w (it_pb_sum it))))
      items zero.

  Definition avail_roughly_equal (a b : Avail T) : bool :=
    match a, b with
    | Definite x, Definite y => ltb (fabs (sub x y)) epsilon
    | MinContent, MinContent => true
    | MaxContent, MaxContent => true
    | _, _ => false
    end.

  (* Cache::get for RunMode::PerformLayout against the entry left by the measuring pass; the height available
     space is MinContent in both calls *)
  Definition cache_hit (known : BSize (option T)) (avail_w : Avail T) (e : CacheEntry) : bool :=
    let cs := co_size (ce_out e) in
    andb (orb (opt_eqb (s_w known) (s_w (ce_known e))) (opt_eqb (s_w known) (Some (s_w cs))))
    (andb (orb (opt_eqb (s_h known) (s_h (ce_known e))) (opt_eqb (s_h known) (Some (s_h cs))))
          (orb (negb (o_is_none (s_w known))) (avail_roughly_equal (ce_avail_w e) avail_w))).

  Fixpoint visible_children (cs : list (BStyle T * Measure T)) : list (BStyle T * Measure T) :=
    match cs with
    | [] => []
    | c :: rest => match st_display (fst c) with DNone => visible_children rest | _ => c :: visible_children rest end
    end.

  Record TreeOut := mkTreeOut {
    to_size : BSize T;                       (* the container's LayoutOutput.size *)
    to_inflow : InflowOut T;
    to_ct : bool;
    to_margins : MarginSet T * MarginSet T;
  }.

  (* compute_inner in RunMode::PerformLayout *)
  Definition block_compute_inner (st : BStyle T) (inp : BInput T) (avail : BSize (Avail T))
             (children : list (BStyle T * Measure T)) : TreeOut :=
    let R := block_resolve st inp in
    let vis := visible_children children in
    let items := generate_item_list (map fst children) (block_node_inner_size st inp) in
    let paired := combine items vis in
    let aw := avail_maybe_sub_f (s_w avail) (h_sum (rs_cbi R)) in
    let outer_w :=
      match s_w (in_known inp) with
      | Some w => w
      | None =>
          let intrinsic := add (content_based_width paired aw) (h_sum (rs_cbi R)) in
          fmax (f_maybe_clamp intrinsic (s_w (rs_min R)) (s_w (rs_max R))) (s_w (rs_pb_size R))
      end in
    let P := block_params st inp outer_w in
    let parent_for_children := mkSize (Some outer_w) None in
    let xs := map (fun (x : Item T * (BStyle T * Measure T)) =>
                     let '(it, (cst, m)) := x in
                     (it, if position_is_absolute (it_position it) then mkOut sz_zero sz_zero ms_ZERO ms_ZERO false
                          else
                            let known := item_known_dims P it in
                            let fresh := leaf_layout cst m known parent_for_children PerformLayout in
                            match s_w (in_known inp), measure_entry aw x with
                            | None, Some e => if cache_hit known (Definite (item_avail_w P it)) e then ce_out e else fresh
                            | _, _ => fresh
                            end)) paired in
    let io := block_inflow P xs in
    let outer_h := block_outer_height st inp (io_height io) in
    mkTreeOut (mkSize outer_w outer_h) io (block_can_collapse_through st inp (io_results io)) (block_output_margins st inp io).

  (* compute_root_layout + compute_block_layout + compute_inner *)
  Definition block_root_layout (st : BStyle T) (avail : BSize (Avail T)) (children : list (BStyle T * Measure T)) : TreeOut :=
    let parent := mkSize (avail_into_option (s_w avail)) (avail_into_option (s_h avail)) in
    let known0 := root_known st avail in
    let known := block_styled_known st known0 parent in
    block_compute_inner st (mkInput known parent (mkLine false false)) avail children.
End Tree.
Arguments TreeOut : clear implicits.
