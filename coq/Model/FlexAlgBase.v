(* The tree interface as the flexbox algorithm sees it (src/tree/layout.rs LayoutInput / LayoutOutput / Layout, complete) and the
   style of a node as src/style/mod.rs `Style` gives it to compute_flexbox_layout (container AND item accessors: FlexboxContainerStyle,
   FlexboxItemStyle, CoreStyle).  Definitions only; shared by Model/FlexAlg.v (the algorithm as a resumption), Model/FlexAlgAbs.v (the
   absolute pass through the translated kernel of Gen/AbsPosGen.v) and Model/FlexAlgRun.v (the K runner).

   LayoutOutput is Model/Leaf.v `LayoutOutput` (all six fields).  calc() values are out of scope (as everywhere). *)
From Coq Require Import ZArith Bool List.
From TV Require Import Model.Common Model.Leaf Gen.FlexGen Model.Flex Model.FlexBase.
From TV Require Import Model.FiltersBase Gen.FiltersGen Model.ItemFilters.
From TV Require Model.Engine.
Import ListNotations.
Close Scope Z_scope.

(* enum AlignItems = AlignSelf (style/alignment.rs), declaration order *)
Inductive FAlign := FA_Start | FA_End | FA_FlexStart | FA_FlexEnd | FA_Center | FA_Baseline | FA_Stretch.
Definition falign_is_baseline (a : FAlign) : bool := match a with FA_Baseline => true | _ => false end.
(* Model/FlexBase.v's AlignSelf has no Baseline variant.  Every test the reused definitions make on it is `== Stretch`, and
   align_flex_items_along_cross_axis treats Baseline in a column like FlexStart; the row case is handled in Model/FlexAlg.v *)
Definition fa_to_as (a : FAlign) : AlignSelf :=
  match a with
  | FA_Start => AS_Start | FA_End => AS_End | FA_FlexStart => AS_FlexStart | FA_FlexEnd => AS_FlexEnd | FA_Center => AS_Center
  | FA_Baseline => AS_FlexStart | FA_Stretch => AS_Stretch
  end.

(* enum RequestedAxis *)
Inductive ReqAxis := AxHorizontal | AxVertical | AxBoth.

(* LayoutInput, all seven fields *)
Record FIn (T : Type) := mkFIn {
  qi_mode : Engine.RunMode;
  qi_sizing : SizingMode;
  qi_axis : ReqAxis;
  qi_known : Size (option T);
  qi_parent : Size (option T);
  qi_avail : Size (AvailableSpace T);
  qi_collapsible : Line bool;              (* vertical_margins_are_collapsible *)
}.
Arguments mkFIn {T}. Arguments qi_mode {T}. Arguments qi_sizing {T}. Arguments qi_axis {T}. Arguments qi_known {T}.
Arguments qi_parent {T}. Arguments qi_avail {T}. Arguments qi_collapsible {T}.

(* Layout, as stored by set_unrounded_layout *)
Record FLay (T : Type) := mkFLay {
  fl_order : Z; fl_location : Point T; fl_size : Size T; fl_content_size : Size T; fl_scrollbar_size : Size T;
  fl_border : Rect T; fl_padding : Rect T; fl_margin : Rect T;
}.
Arguments mkFLay {T}. Arguments fl_order {T}. Arguments fl_location {T}. Arguments fl_size {T}. Arguments fl_content_size {T}.
Arguments fl_scrollbar_size {T}. Arguments fl_border {T}. Arguments fl_padding {T}. Arguments fl_margin {T}.

(* Style: the fields the flexbox algorithm reads of the container and of its children *)
Record FStyle (T : Type) := mkFStyle {
  fs_core : Style T;                          (* Model/Leaf.v: display position box_sizing overflow scrollbar_width size min_size max_size
                                                 aspect_ratio margin padding border *)
  fs_inset : Rect (LengthPercentageAuto T);
  fs_row : bool; fs_reverse : bool;           (* flex_direction: is_row, is_reverse *)
  fs_wrap : bool; fs_wrap_reverse : bool;     (* flex_wrap: Wrap | WrapReverse, WrapReverse *)
  fs_align_items : option FAlign; fs_align_self : option FAlign;
  fs_align_content : option AlignContent; fs_justify_content : option AlignContent;
  fs_gap : Size (LengthPercentage T);
  fs_flex_basis : Dimension T; fs_grow : T; fs_shrink : T;
}.
Arguments mkFStyle {T}. Arguments fs_core {T}. Arguments fs_inset {T}. Arguments fs_row {T}. Arguments fs_reverse {T}.
Arguments fs_wrap {T}. Arguments fs_wrap_reverse {T}. Arguments fs_align_items {T}. Arguments fs_align_self {T}.
Arguments fs_align_content {T}. Arguments fs_justify_content {T}. Arguments fs_gap {T}. Arguments fs_flex_basis {T}.
Arguments fs_grow {T}. Arguments fs_shrink {T}.

Section Base.
  Context {T : Type} `{Num T}.

  (* the two accessors the item-generation pipeline and the two child loops of compute_preliminary test *)
  Definition f_position (s : FStyle T) : GPosition :=
    match position (fs_core s) with Relative => Position_Relative | Absolute => Position_Absolute end.
  Definition f_gdisplay (s : FStyle T) : GDisplay :=
    match display (fs_core s) with DBlock => Display_Block | DFlex => Display_Flex | DGrid => Display_Grid | DNone => Display_None end.
  Definition f_bgm (s : FStyle T) : GBoxGenerationMode := style_box_generation_mode (f_gdisplay s).

  Definition f_is_none (s : FStyle T) : bool := s_hidden f_bgm s.                              (* display: none *)
  Definition f_visible_absolute (s : FStyle T) : bool := s_visible_absolute f_position f_bgm s. (* box-generating and position: absolute *)

  (* the views Model/FlexBase.v works with *)
  Definition to_cstyle (s : FStyle T) : ContainerStyle T :=
    let c := fs_core s in
    mkCStyle (fs_row s) (fs_reverse s) (fs_wrap s) (fs_wrap_reverse s) (fs_justify_content s) (fs_align_content s)
             (option_map fa_to_as (fs_align_items s)) (size c) (min_size c) (max_size c) (margin c) (padding c) (border c)
             (fs_gap s) (box_sizing c) (aspect_ratio c).
  (* ch_layout is never called by what Model/FlexAlg.v uses of Model/FlexBase.v (child_info, base_env): queries are resumption steps *)
  Definition to_child (s : FStyle T) : Child T :=
    mkChild (fs_core s) (fs_flex_basis s) (fs_grow s) (fs_shrink s) (option_map fa_to_as (fs_align_self s)) (fun _ => size_ZERO).

  (* a bare display:none style: Style::DEFAULT with display None *)
  Definition lpa_auto_rect : Rect (LengthPercentageAuto T) := mkRect Auto Auto Auto Auto.
  Definition lpa_zero_rect : Rect (LengthPercentageAuto T) := mkRect (Length zero) (Length zero) (Length zero) (Length zero).
  Definition lp_zero_rect : Rect (LengthPercentage T) := mkRect (LpLength zero) (LpLength zero) (LpLength zero) (LpLength zero).
  Definition dim_auto_size : Size (Dimension T) := mkSize Auto Auto.
  Definition bare_none_fstyle : FStyle T :=
    mkFStyle (mkStyle DNone Relative BorderBox (mkPoint Visible Visible) zero dim_auto_size dim_auto_size dim_auto_size None
                      lpa_zero_rect lp_zero_rect lp_zero_rect)
             lpa_auto_rect true false false false None None None None (mkSize (LpLength zero) (LpLength zero)) Auto zero one.
  Definition f_hidden_view (s : FStyle T) : FStyle T := if f_is_none s then bare_none_fstyle else s.

  (* LayoutOutput up to content_size; Layout up to content_size *)
  Definition fout_eq (a b : LayoutOutput T) : Prop :=
    out_size a = out_size b /\ first_baselines a = first_baselines b /\ top_margin a = top_margin b /\
    bottom_margin a = bottom_margin b /\ margins_can_collapse_through a = margins_can_collapse_through b.
  Definition flay_eq (a b : FLay T) : Prop :=
    fl_order a = fl_order b /\ fl_location a = fl_location b /\ fl_size a = fl_size b /\ fl_scrollbar_size a = fl_scrollbar_size b /\
    fl_border a = fl_border b /\ fl_padding a = fl_padding b /\ fl_margin a = fl_margin b.
  (* Layout::with_order(i) *)
  Definition f_with_order (order : nat) : FLay T :=
    mkFLay (Z.of_nat order) point_ZERO size_ZERO size_ZERO size_ZERO rect_ZERO rect_ZERO rect_ZERO.
  Definition f_zeroish (l : FLay T) : Prop :=
    exists o, l = mkFLay o point_ZERO size_ZERO size_ZERO size_ZERO rect_ZERO rect_ZERO rect_ZERO.
End Base.
