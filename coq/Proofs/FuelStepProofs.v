(* Wave 9n: the class `tk_ok` (Model/FuelStepDefs.v) is an invariant of every phase of step 11.5, hence `dist_ok` holds at every call of
   distribute_space_up_to_limits made by general_batch, hence the whole step does not depend on the fuel of the inner loops.  XQ. *)
From Coq Require Import ZArith QArith Qminmax Bool List Lia Lqa.
From TV Require Import Num.Num Num.QNum Gen.GridTracksGen Model.GridTracks Model.GridIntrinsic Model.FuelDistDefs Model.FuelStepDefs
                       Proofs.GridTracksProofs Proofs.FuelNumProofs Proofs.FuelDistProofs Proofs.GridIntrinsicProofs.
Import ListNotations.
Local Open Scope Q_scope.

(* ---- a round of the loop writes the incurred increase only *)
Definition rest (t : track XQ) : track XQ := set_incurred t (Fin 0).

Section Rest.
  Variable aff : track XQ -> bool.
  Variables p prop lim : track XQ -> XQ.

  Lemma apply_rest inc : forall tracks sp, map rest (snd (apply_increase aff p prop lim inc sp tracks)) = map rest tracks.
  Proof.
    induction tracks as [|t r IH]; intro sp; [reflexivity|]. cbn [apply_increase].
    destruct (aff t).
    - match goal with |- context [if ?c then _ else _] => destruct c end.
      + match goal with |- context [apply_increase aff p prop lim inc ?s r] => specialize (IH s); destruct (apply_increase aff p prop lim inc s r) end.
        cbn [snd map] in *. rewrite IH. reflexivity.
      + specialize (IH sp). destruct (apply_increase aff p prop lim inc sp r). cbn [snd map] in *. rewrite IH. reflexivity.
    - specialize (IH sp). destruct (apply_increase aff p prop lim inc sp r). cbn [snd map] in *. rewrite IH. reflexivity.
  Qed.

  Lemma dloop_rest : forall fuel sp tracks, map rest (snd (distribute_loop aff p prop lim fuel sp tracks)) = map rest tracks.
  Proof.
    induction fuel as [|f IH]; intros sp tracks; [reflexivity|]. cbn [distribute_loop].
    destruct (distribute_step aff p prop lim sp tracks) as [[s' ts']|] eqn:Es; [|reflexivity].
    rewrite IH. unfold distribute_step in Es. destruct (ltb threshold sp); [|discriminate].
    destruct (eqb _ zero); [discriminate|]. inversion Es as [E'].
    match type of E' with apply_increase _ _ _ _ ?i _ _ = _ => pose proof (apply_rest i tracks sp) as Hm end.
    rewrite E' in Hm. exact Hm.
  Qed.
End Rest.

Lemma tk_ok_rest t : tk_ok t -> tk_ok (rest t).
Proof. destruct t; unfold tk_ok; simpl; intuition. Qed.
Lemma tk_ok_of_rest t : tk_ok (rest t) -> finite (incurred t) -> 0 <= val (incurred t) -> tk_ok t.
Proof. destruct t; unfold tk_ok; simpl; intuition. Qed.

Lemma rest_transfer (ts ts2 : list (track XQ)) : map rest ts2 = map rest ts -> Forall tk_ok ts -> Forall (fun t => tk_ok (rest t)) ts2.
Proof.
  intros E Hok. apply Forall_map. rewrite E. apply Forall_map. eapply Forall_impl; [|exact Hok]. intros t. apply tk_ok_rest.
Qed.

Lemma loop_result_ok p prop lim (ts ts2 : list (track XQ)) :
  map rest ts2 = map rest ts -> Forall tk_ok ts -> Forall (dist_ok p prop lim) ts2 -> Forall tk_ok ts2.
Proof.
  intros E Hok Hd. pose proof (rest_transfer _ _ E Hok) as Hr.
  apply Forall_forall. intros t Hin. rewrite Forall_forall in Hr, Hd. specialize (Hr t Hin). specialize (Hd t Hin).
  destruct Hd as [_ [_ [Hi [Hi0 _]]]]. apply tk_ok_of_rest; assumption.
Qed.

(* ---- the limits and proportions general_batch passes, on the class *)
Ltac fin_cases :=
  repeat match goal with
         | H : finite ?x |- _ => destruct x; simpl in H; try contradiction; clear H
         | H : fin_or_pinf ?x |- _ => destruct H as [H|H]; [|try (rewrite H in *; clear H)]
         end.

Lemma fcl_fp inner t : inner_ok inner -> tk_ok t -> fin_or_pinf (fit_content_limit inner t).
Proof.
  intros Hi [_ [_ [_ [_ [_ [_ [_ Hm]]]]]]]. unfold fit_content_limit. destruct (maxf t); simpl in Hm; try (right; reflexivity).
  - left. exact Hm.
  - destruct inner as [s|]; [|right; reflexivity]. simpl in Hi. left. destruct s, v; simpl in *; try contradiction. exact I.
Qed.

Lemma x_min_fp a b : fin_or_pinf a -> fin_or_pinf b -> fin_or_pinf (x_min a b).
Proof.
  intros Ha Hb. destruct a, b; destruct Ha as [Ha|Ha], Hb as [Hb|Hb]; simpl in *; try contradiction; try discriminate;
    unfold x_min; simpl; try destruct (negb _); solve [left; exact I | right; reflexivity].
Qed.

Lemma gl_fp t : tk_ok t -> fin_or_pinf (growth_limit t).
Proof. intros [_ [Hg _]]. exact Hg. Qed.
Lemma fclgl_fp inner t : inner_ok inner -> tk_ok t -> fin_or_pinf (fit_content_limited_growth_limit inner t).
Proof. intros Hi Ht. unfold fit_content_limited_growth_limit. xq0. apply x_min_fp; [apply gl_fp; exact Ht|apply fcl_fp; assumption]. Qed.
Lemma scroll_fp inner it t : inner_ok inner -> tk_ok t -> fin_or_pinf (scroll_limit inner it t).
Proof. intros Hi Ht. unfold scroll_limit. destruct (it_scroll it); [apply fclgl_fp; assumption|apply gl_fp; exact Ht]. Qed.

Lemma prop_ok is_flex uff t : tk_ok t ->
  finite (base_size_proportion is_flex uff t) /\ 0 <= val (base_size_proportion is_flex uff t).
Proof.
  intros [_ [_ [_ [_ [_ [_ [_ Hm]]]]]]]. unfold base_size_proportion, flex_factor.
  destruct (is_flex && uff); [|simpl; split; [exact I|lra]].
  destruct (maxf t); simpl in *; try (split; [exact I|lra]). exact Hm.
Qed.

Lemma tk_dist_base is_flex uff lim ts : (forall t, tk_ok t -> fin_or_pinf (lim t)) -> Forall tk_ok ts ->
  Forall (dist_ok (base_size_proportion is_flex uff) base_size lim) ts.
Proof.
  intros Hl Hok. eapply Forall_impl; [|exact Hok]. intros t Ht. destruct (prop_ok is_flex uff t Ht) as [P1 P2].
  pose proof (Hl t Ht) as L. destruct Ht as [Hb [_ [Hi [Hi0 _]]]]. unfold dist_ok. intuition.
Qed.

Lemma tk_dist_limit inner ts : inner_ok inner -> Forall tk_ok ts ->
  Forall (dist_ok (fun _ => one) limit_or_base (fit_content_limit inner)) ts.
Proof.
  intros Hin Hok. eapply Forall_impl; [|exact Hok]. intros t Ht. pose proof (fcl_fp inner t Hin Ht) as L.
  destruct Ht as [Hb [Hg [Hi [Hi0 _]]]]. unfold dist_ok. split; [|simpl; intuition; lra].
  unfold limit_or_base. xq0. destruct Hg as [Hg|Hg].
  - destruct (growth_limit t); simpl in Hg; try contradiction. simpl. exact I.
  - rewrite Hg. simpl. exact Hb.
Qed.

(* ---- the per-track epilogues and flushes keep the class *)
Ltac tk_field_tac :=
  unfold tk_ok, fin_or_pinf in *; simpl in *;
  repeat match goal with
         | |- context [if ?c then _ else _] => destruct c; simpl
         end; intuition.

Lemma base_epilogue_ok t : tk_ok t ->
  tk_ok (set_incurred (if ltb (base_planned t) (incurred t) then set_base_planned t (incurred t) else t) zero).
Proof. intro Ht. destruct t. tk_field_tac; lra. Qed.
Lemma limit_epilogue_ok t : tk_ok t ->
  tk_ok (set_incurred (if ltb (limit_planned t) (incurred t) then set_limit_planned t (incurred t) else t) zero).
Proof. intro Ht. destruct t. tk_field_tac; lra. Qed.

(* (b) distribute_item_space_to_base_size_inner keeps the class *)
Lemma base_inner_ok (sp : Q) (tracks : list (track XQ)) (aff : track XQ -> bool) (p lim : track XQ -> XQ) (ct : contribution_type) :
  inc_inv aff -> inc_inv p -> inc_inv lim -> Forall (dist_ok p base_size lim) tracks -> Forall tk_ok tracks ->
  Forall tk_ok (distribute_item_space_to_base_size_inner (Fin sp) tracks aff p lim ct).
Proof.
  intros Haff Hp Hlim Hok Htk. unfold distribute_item_space_to_base_size_inner. xq0.
  destruct (x_eqb (Fin sp) (Fin 0) || negb (existsb aff tracks)); [exact Htk|].
  destruct (extra_space_fin sp (map base_size tracks)) as [c Ec].
  { apply Forall_map. eapply Forall_impl; [|exact Hok]. intros t [Hb _]. exact Hb. }
  rewrite Ec.
  destruct (dist_fuel_suffices aff p base_size lim Haff Hp inc_inv_base_size Hlim c tracks Hok) as [_ [_ [R3 [R4 _]]]].
  cbv zeta in *.
  pose proof (dloop_rest aff p base_size lim (distribute_fuel tracks) (Fin c) tracks) as Hr1.
  unfold distribute_space_up_to_limits in *.
  destruct (distribute_loop aff p base_size lim (distribute_fuel tracks) (Fin c) tracks) as [extra1 ts1]. cbn [fst snd] in *.
  assert (Htk1 : Forall tk_ok ts1) by (eapply loop_result_ok; eauto).
  assert (Hfin : Forall tk_ok (if x_ltb base_threshold extra1 then
            snd (distribute_loop (base_filter2 ct aff ts1) p base_size lim (distribute_fuel ts1) extra1 ts1) else ts1)).
  { destruct (x_ltb base_threshold extra1); [|exact Htk1].
    destruct (fin_inv _ R4) as [c1 Ec1]. subst extra1.
    destruct (dist_fuel_suffices (base_filter2 ct aff ts1) p base_size lim (inc_inv_filter2 ct aff ts1) Hp inc_inv_base_size Hlim c1 ts1 R3)
      as [_ [_ [S3 _]]]. cbv zeta in S3. unfold distribute_space_up_to_limits in S3.
    eapply loop_result_ok; [apply dloop_rest|exact Htk1|exact S3]. }
  unfold base_filter2, base_filter1 in Hfin.
  apply Forall_map. eapply Forall_impl; [|exact Hfin]. intros t Ht. apply base_epilogue_ok. exact Ht.
Qed.

Lemma base_size_ok (is_flex uff : bool) (sp : Q) (tracks : list (track XQ)) (aff : track XQ -> bool) (lim : track XQ -> XQ)
      (ct : contribution_type) :
  inc_inv aff -> inc_inv lim -> (forall t, tk_ok t -> fin_or_pinf (lim t)) -> Forall tk_ok tracks ->
  (forall e1 e2, base_size_fuelled e1 e2 is_flex uff (Fin sp) tracks aff lim ct
                 = distribute_item_space_to_base_size is_flex uff (Fin sp) tracks aff lim ct) /\
  Forall tk_ok (distribute_item_space_to_base_size is_flex uff (Fin sp) tracks aff lim ct).
Proof.
  intros Haff Hlim Hl Htk. pose proof (tk_dist_base is_flex uff lim tracks Hl Htk) as Hok.
  split; [apply base_size_fuel_suffices; assumption|].
  unfold distribute_item_space_to_base_size, base_size_proportion in *.
  destruct is_flex; [destruct uff|]; cbn [andb] in Hok.
  - apply base_inner_ok; auto using inc_inv_flex_factor, inc_inv_andb, inc_inv_is_flexible.
  - apply (base_inner_ok sp tracks _ (fun _ => Fin 1) lim ct); auto using inc_inv_andb, inc_inv_is_flexible. apply inc_inv_const.
  - apply (base_inner_ok sp tracks _ (fun _ => Fin 1) lim ct); auto. apply inc_inv_const.
Qed.

(* (c) distribute_item_space_to_growth_limit keeps the class *)
Lemma growth_limit_ok (inner : option XQ) (sp : Q) (tracks : list (track XQ)) (aff : track XQ -> bool) :
  inner_ok inner -> inc_inv aff -> Forall tk_ok tracks ->
  (forall e, growth_limit_fuelled inner e (Fin sp) tracks aff = distribute_item_space_to_growth_limit inner (Fin sp) tracks aff) /\
  Forall tk_ok (distribute_item_space_to_growth_limit inner (Fin sp) tracks aff).
Proof.
  intros Hin Haff Htk. pose proof (tk_dist_limit inner tracks Hin Htk) as Hok.
  split; [apply growth_limit_fuel_suffices; assumption|].
  unfold distribute_item_space_to_growth_limit. xq0.
  destruct (x_eqb (Fin sp) (Fin 0) || Nat.eqb (length (filter aff tracks)) 0); [exact Htk|].
  destruct (extra_space_fin sp (map limit_or_base tracks)) as [c Ec].
  { apply Forall_map. eapply Forall_impl; [|exact Hok]. intros t [Hb _]. exact Hb. }
  rewrite Ec.
  apply Forall_map.
  match goal with |- Forall _ ?l => assert (Hfin : Forall (fun t => tk_ok (rest t) /\ finite (incurred t)) l) end.
  { destruct (length (filter _ tracks)) as [|k] eqn:En.
    - destruct (dist_fuel_suffices aff (fun _ => Fin 1) limit_or_base (fit_content_limit inner) Haff (inc_inv_const (Fin 1))
                  inc_inv_limit_or_base (inc_inv_fit_content_limit inner) c tracks Hok) as [_ [_ [R3 _]]].
      cbv zeta in R3. unfold distribute_space_up_to_limits in *.
      assert (Hx : Forall tk_ok (snd (distribute_loop aff (fun _ => Fin 1) limit_or_base (fit_content_limit inner) (distribute_fuel tracks) (Fin c) tracks))).
      { eapply loop_result_ok; [apply dloop_rest|exact Htk|exact R3]. }
      eapply Forall_impl; [|exact Hx]. intros t Ht. split; [apply tk_ok_rest; exact Ht|]. destruct Ht as [_ [_ [Hi _]]]. exact Hi.
    - apply Forall_map. eapply Forall_impl; [|exact Htk]. intros t Ht.
      match goal with |- context [if ?g then _ else _] => destruct g end.
      + split; [apply tk_ok_rest in Ht; destruct t; exact Ht|].
        cbn [incurred set_incurred]. unfold x_div. unfold q_sign. cbn [inject_Z Qnum Z.of_nat]. simpl. exact I.
      + split; [apply tk_ok_rest; exact Ht|]. destruct Ht as [_ [_ [Hi _]]]. exact Hi. }
  eapply Forall_impl; [|exact Hfin]. intros t [Ht Hi]. destruct t. tk_field_tac; lra.
Qed.

(* ---- slices *)
Lemma Forall_firstn_sub {A} (P : A -> Prop) n l : Forall P l -> Forall P (firstn n l).
Proof. intro Hl. apply Forall_forall. intros x Hx. rewrite Forall_forall in Hl. apply Hl. eapply In_firstn_sub; eauto. Qed.
Lemma Forall_skipn_sub {A} (P : A -> Prop) n l : Forall P l -> Forall P (skipn n l).
Proof. intro Hl. apply Forall_forall. intros x Hx. rewrite Forall_forall in Hl. apply Hl. eapply In_skipn_sub; eauto. Qed.

Lemma slice_ok (it : item XQ) ts : Forall tk_ok ts -> Forall tk_ok (item_slice it ts).
Proof. intro Hts. unfold item_slice, slice. apply Forall_firstn_sub, Forall_skipn_sub, Hts. Qed.

Lemma on_slice_ok (it : item XQ) (f g : list (track XQ) -> list (track XQ)) ts : Forall tk_ok ts ->
  (forall sl, Forall tk_ok sl -> g sl = f sl /\ Forall tk_ok (f sl)) ->
  on_slice it g ts = on_slice it f ts /\ Forall tk_ok (on_slice it f ts).
Proof.
  intros Hts Hf. unfold on_slice. destruct (Hf _ (slice_ok it ts Hts)) as [E Hk]. rewrite E. split; [reflexivity|].
  apply Forall_app; split; [apply Forall_firstn_sub; exact Hts|].
  apply Forall_app; split; [exact Hk|apply Forall_skipn_sub; exact Hts].
Qed.

Lemma fold_inv {I} (Q : I -> Prop) (f g : list (track XQ) -> I -> list (track XQ)) :
  (forall ts it, Forall tk_ok ts -> Q it -> g ts it = f ts it /\ Forall tk_ok (f ts it)) ->
  forall batch ts, Forall Q batch -> Forall tk_ok ts ->
    fold_left g batch ts = fold_left f batch ts /\ Forall tk_ok (fold_left f batch ts).
Proof.
  intros Hs. induction batch as [|it r IH]; intros ts Hb Hts; simpl; [auto|].
  inversion Hb; subst. destruct (Hs ts it Hts) as [E K]; [assumption|]. rewrite E. apply IH; assumption.
Qed.

Ltac tk_crush :=
  unfold tk_ok, fin_or_pinf in *; simpl in *;
  repeat match goal with H : _ /\ _ |- _ => destruct H end;
  repeat match goal with
         | H : finite ?x |- _ => is_var x; destruct x; simpl in H; try contradiction; clear H
         | H : finite ?x \/ ?x = PInf |- _ => destruct H
         | H : ?x = PInf |- _ => is_var x; subst x
         end; simpl in *;
  repeat match goal with |- context [if ?c then _ else _] => destruct c; simpl end;
  repeat split; auto; try lra; try (left; exact I); try (right; reflexivity).

Lemma flush_planned_base_ok ts : Forall tk_ok ts -> Forall tk_ok (flush_planned_base ts).
Proof. intro Hts. apply Forall_map. eapply Forall_impl; [|exact Hts]. intros t Ht. destruct t. tk_crush. Qed.
Lemma flush_planned_limit_ok b ts : Forall tk_ok ts -> Forall tk_ok (flush_planned_growth_limit_increases b ts).
Proof. intro Hts. apply Forall_map. eapply Forall_impl; [|exact Hts]. intros t Ht. destruct t. tk_crush. Qed.
Lemma fix_growth_limits_ok ts : Forall tk_ok ts -> Forall tk_ok (fix_growth_limits ts).
Proof. intro Hts. apply Forall_map. eapply Forall_impl; [|exact Hts]. intros t Ht. destruct t. tk_crush. Qed.

Section Steps.
  Variable contrib : item XQ -> ckind -> XQ.
  Variable inner : option XQ.
  Variable avail : avail_space XQ.
  Variables e1 e2 e3 : nat.
  Hypothesis Hin : inner_ok inner.

  Notation iok := (item_ok contrib).

  Lemma contrib_fin it : iok it ->
    finite (min_content_contribution contrib it) /\ finite (max_content_contribution contrib it) /\ finite (minimum_contribution_of contrib it).
  Proof.
    intros [Hm Hc]. unfold min_content_contribution, max_content_contribution, minimum_contribution_of. xq0.
    pose proof (Hc KMinContent). pose proof (Hc KMaxContent). pose proof (Hc KMinimum).
    destruct (it_margin it), (contrib it KMinContent), (contrib it KMaxContent), (contrib it KMinimum); simpl in *; try contradiction; auto.
  Qed.

  Definition ofin (o : option XQ) : Prop := match o with Some v => finite v | None => True end.

  Lemma deflim_fin t : tk_ok t -> ofin (definite_limit inner (maxf t)).
  Proof.
    intros [_ [_ [_ [_ [_ [_ [_ Hm]]]]]]]. destruct (maxf t); simpl in *; auto; destruct inner as [s|]; simpl in *; auto;
      destruct v, s; simpl in *; try contradiction; exact I.
  Qed.

  Lemma spanned_fin it ts : Forall tk_ok ts -> ofin (spanned_track_limit inner it ts).
  Proof.
    intro Hts. unfold spanned_track_limit. destruct (forallb _ _); [|exact I].
    match goal with |- ofin (Some (fsum ?l)) => destruct (fsum_fin l) as [s [Es _]] end.
    { apply Forall_map. eapply Forall_impl; [|apply slice_ok; exact Hts]. intros t Ht. pose proof (deflim_fin t Ht) as Hd.
      destruct (definite_limit inner (maxf t)); [exact Hd|exact I]. }
    rewrite Es. exact I.
  Qed.

  Lemma maybe_min_fin x o : finite x -> ofin o -> finite (maybe_min x o).
  Proof.
    intros Hx Ho. destruct o as [v|]; simpl in *; [|exact Hx]. destruct x, v; simpl in *; try contradiction.
    unfold x_min; simpl. destruct (negb _); exact I.
  Qed.

  Lemma x_max_finite a b : finite a -> finite b -> finite (x_max a b).
  Proof. intros Ha Hb. destruct a, b; simpl in *; try contradiction. unfold x_max; simpl. destruct (negb _); exact I. Qed.

  Lemma ims_fin it o : iok it -> ofin o -> finite (intrinsic_minimum_space contrib avail it o).
  Proof.
    intros Hit Ho. destruct (contrib_fin it Hit) as [C1 [C2 C3]]. unfold intrinsic_minimum_space.
    destruct avail; try exact C3; (destruct (negb (it_scroll it)); [|exact C3]); xq0;
      (apply x_max_finite; [apply maybe_min_fin; assumption|exact C3]).
  Qed.

  Section B.
    Variables is_flex uff : bool.

    Lemma to_base_ok it space aff lim ct ts : finite space -> inc_inv aff -> inc_inv lim ->
      (forall t, tk_ok t -> fin_or_pinf (lim t)) -> Forall tk_ok ts ->
      to_base_f e1 e2 is_flex uff it space aff lim ct ts = to_base is_flex uff it space aff lim ct ts /\
      Forall tk_ok (to_base is_flex uff it space aff lim ct ts).
    Proof.
      intros Hs Haff Hlim Hl Hts. destruct (fin_inv _ Hs) as [sp ->]. unfold to_base_f, to_base.
      destruct (ltb zero (Fin sp)); [|split; [reflexivity|exact Hts]].
      apply on_slice_ok; [exact Hts|]. intros sl Hsl.
      destruct (base_size_ok is_flex uff sp sl aff lim ct Haff Hlim Hl Hsl) as [E K]. split; [apply E|exact K].
    Qed.

    Lemma to_limit_ok it space aff ts : finite space -> inc_inv aff -> Forall tk_ok ts ->
      to_limit_f inner e3 it space aff ts = to_limit inner it space aff ts /\ Forall tk_ok (to_limit inner it space aff ts).
    Proof.
      intros Hs Haff Hts. destruct (fin_inv _ Hs) as [sp ->]. unfold to_limit_f, to_limit.
      destruct (ltb zero (Fin sp)); [|split; [reflexivity|exact Hts]].
      apply on_slice_ok; [exact Hts|]. intros sl Hsl.
      destruct (growth_limit_ok inner sp sl aff Hin Haff Hsl) as [E K]. split; [apply E|exact K].
    Qed.

    Lemma ii (f : track XQ -> bool) : (forall t v, f (set_incurred t v) = f t) -> inc_inv f.
    Proof. intro Hf. exact Hf. Qed.

    (* the phases: each is the model's phase, whatever the extra fuel, and keeps the class *)
    Lemma step_minimums_ok batch ts : Forall iok batch -> Forall tk_ok ts ->
      step_minimums_f contrib inner avail e1 e2 is_flex uff batch ts = step_minimums contrib inner avail is_flex uff batch ts /\
      Forall tk_ok (step_minimums contrib inner avail is_flex uff batch ts).
    Proof.
      intros Hb Hts. unfold step_minimums_f, step_minimums.
      match goal with |- flush_planned_base (fold_left ?g _ _) = flush_planned_base (fold_left ?f _ _) /\ _ =>
        destruct (fold_inv iok f g) with (batch := batch) (ts := ts) as [E K]; auto end.
      2: { rewrite E. split; [reflexivity|apply flush_planned_base_ok; exact K]. }
      intros ts0 it Hts0 Hit. cbv beta. destruct (it_crosses_intrinsic it); [|split; [reflexivity|exact Hts0]].
      apply to_base_ok; auto.
      - apply ims_fin; [exact Hit|apply spanned_fin; exact Hts0].
      - intros t v. reflexivity.
      - intros t v. unfold scroll_limit. destruct (it_scroll it); reflexivity.
      - intros t Ht. apply scroll_fp; assumption.
    Qed.

    Lemma step_content_minimums_ok batch ts : Forall iok batch -> Forall tk_ok ts ->
      step_content_minimums_f contrib inner e1 e2 is_flex uff batch ts = step_content_minimums contrib inner is_flex uff batch ts /\
      Forall tk_ok (step_content_minimums contrib inner is_flex uff batch ts).
    Proof.
      intros Hb Hts. unfold step_content_minimums_f, step_content_minimums.
      match goal with |- flush_planned_base (fold_left ?g _ _) = flush_planned_base (fold_left ?f _ _) /\ _ =>
        destruct (fold_inv iok f g) with (batch := batch) (ts := ts) as [E K]; auto end.
      2: { rewrite E. split; [reflexivity|apply flush_planned_base_ok; exact K]. }
      intros ts0 it Hts0 Hit. cbv beta.
      apply to_base_ok; auto.
      - apply (contrib_fin it Hit).
      - intros t v. reflexivity.
      - intros t v. unfold scroll_limit. destruct (it_scroll it); reflexivity.
      - intros t Ht. apply scroll_fp; assumption.
    Qed.

    Lemma step_max_content_minimums_ok batch ts : Forall iok batch -> Forall tk_ok ts ->
      step_max_content_minimums_f contrib inner avail e1 e2 is_flex uff batch ts = step_max_content_minimums contrib inner avail is_flex uff batch ts /\
      Forall tk_ok (step_max_content_minimums contrib inner avail is_flex uff batch ts).
    Proof.
      intros Hb Hts. unfold step_max_content_minimums_f, step_max_content_minimums.
      destruct avail; try (split; [reflexivity|exact Hts]).
      match goal with |- flush_planned_base (fold_left ?g _ _) = flush_planned_base (fold_left ?f _ _) /\ _ =>
        destruct (fold_inv iok f g) with (batch := batch) (ts := ts) as [E K]; auto end.
      2: { rewrite E. split; [reflexivity|apply flush_planned_base_ok; exact K]. }
      intros ts0 it Hts0 Hit. cbv beta zeta.
      assert (Hsp : finite (maybe_min (max_content_contribution contrib it) (spanned_track_limit inner it ts0))).
      { apply maybe_min_fin; [apply (contrib_fin it Hit)|apply spanned_fin; exact Hts0]. }
      destruct (existsb _ _); apply to_base_ok; auto; try (intros t v; reflexivity).
      - intros t Ht. right. reflexivity.
      - intros t Ht. apply fclgl_fp; assumption.
    Qed.

    Lemma step_max_content_all_ok batch ts : Forall iok batch -> Forall tk_ok ts ->
      step_max_content_all_f contrib e1 e2 is_flex uff batch ts = step_max_content_all contrib is_flex uff batch ts /\
      Forall tk_ok (step_max_content_all contrib is_flex uff batch ts).
    Proof.
      intros Hb Hts. unfold step_max_content_all_f, step_max_content_all.
      match goal with |- flush_planned_base (fold_left ?g _ _) = flush_planned_base (fold_left ?f _ _) /\ _ =>
        destruct (fold_inv iok f g) with (batch := batch) (ts := ts) as [E K]; auto end.
      2: { rewrite E. split; [reflexivity|apply flush_planned_base_ok; exact K]. }
      intros ts0 it Hts0 Hit. cbv beta.
      apply to_base_ok; auto; try (intros t v; reflexivity).
      - apply (contrib_fin it Hit).
      - intros t Ht. apply gl_fp; exact Ht.
    Qed.

    Lemma step_intrinsic_maximums_ok batch ts : Forall iok batch -> Forall tk_ok ts ->
      step_intrinsic_maximums_f contrib inner e3 batch ts = step_intrinsic_maximums contrib inner batch ts /\
      Forall tk_ok (step_intrinsic_maximums contrib inner batch ts).
    Proof.
      intros Hb Hts. unfold step_intrinsic_maximums_f, step_intrinsic_maximums.
      match goal with |- flush_planned_growth_limit_increases _ (fold_left ?g _ _) = flush_planned_growth_limit_increases _ (fold_left ?f _ _) /\ _ =>
        destruct (fold_inv iok f g) with (batch := batch) (ts := ts) as [E K]; auto end.
      2: { rewrite E. split; [reflexivity|apply flush_planned_limit_ok; exact K]. }
      intros ts0 it Hts0 Hit. cbv beta.
      apply to_limit_ok; auto; try (intros t v; reflexivity). apply (contrib_fin it Hit).
    Qed.

    Lemma step_max_content_maximums_ok batch ts : Forall iok batch -> Forall tk_ok ts ->
      step_max_content_maximums_f contrib inner e3 batch ts = step_max_content_maximums contrib inner batch ts /\
      Forall tk_ok (step_max_content_maximums contrib inner batch ts).
    Proof.
      intros Hb Hts. unfold step_max_content_maximums_f, step_max_content_maximums.
      match goal with |- flush_planned_growth_limit_increases _ (fold_left ?g _ _) = flush_planned_growth_limit_increases _ (fold_left ?f _ _) /\ _ =>
        destruct (fold_inv iok f g) with (batch := batch) (ts := ts) as [E K]; auto end.
      2: { rewrite E. split; [reflexivity|apply flush_planned_limit_ok; exact K]. }
      intros ts0 it Hts0 Hit. cbv beta.
      apply to_limit_ok; auto; try (intros t v; reflexivity). apply (contrib_fin it Hit).
    Qed.

    (* a whole batch that is not the span-1 fast path: flexible (is_flex = true) or not *)
    Theorem general_batch_ok batch ts : Forall iok batch -> Forall tk_ok ts ->
      general_batch_f contrib inner avail e1 e2 e3 is_flex uff batch ts = general_batch contrib inner avail is_flex uff batch ts /\
      Forall tk_ok (general_batch contrib inner avail is_flex uff batch ts).
    Proof.
      intros Hb Hts. unfold general_batch_f, general_batch. cbv zeta.
      destruct (step_minimums_ok batch ts Hb Hts) as [E1 K1]. rewrite E1.
      destruct (step_content_minimums_ok batch _ Hb K1) as [E2 K2]. rewrite E2.
      destruct (step_max_content_minimums_ok batch _ Hb K2) as [E3 K3]. rewrite E3.
      destruct (step_max_content_all_ok batch _ Hb K3) as [E4 K4]. rewrite E4.
      pose proof (fix_growth_limits_ok _ K4) as K5.
      destruct is_flex; [split; [reflexivity|exact K5]|].
      destruct (step_intrinsic_maximums_ok batch _ Hb K5) as [E6 K6]. rewrite E6.
      destruct (step_max_content_maximums_ok batch _ Hb K6) as [E7 K7]. rewrite E7.
      split; [reflexivity|exact K7].
    Qed.
  End B.

  (* ---- the span-1 fast path (no distribute_loop inside; it has to keep the class for the batches after it) *)
  Lemma fcl_set_base t v : fit_content_limit inner (set_base t v) = fit_content_limit inner t.
  Proof. reflexivity. Qed.

  Lemma span1_item_ok it t : iok it -> tk_ok t -> tk_ok (span1_item contrib inner avail it t).
  Proof.
    intros Hit Ht. destruct (contrib_fin it Hit) as [C1 [C2 _]].
    pose proof (ims_fin it _ Hit (deflim_fin t Ht)) as C4. pose proof (fcl_fp inner t Hin Ht) as C5.
    unfold span1_item. cbv zeta. rewrite !fcl_set_base.
    set (mc := min_content_contribution contrib it) in *. set (xc := max_content_contribution contrib it) in *.
    set (ims := intrinsic_minimum_space contrib avail it (definite_limit inner (maxf t))) in *.
    set (fl := fit_content_limit inner t) in *. clearbody mc xc ims fl.
    destruct t as [k c mn mx o b g i bp lp ig]. unfold tk_ok in Ht. cbn [base_size growth_limit incurred base_planned limit_planned minf maxf] in Ht.
    destruct Ht as [Hb [Hg [Hi [Hi0 [Hbp [Hlp [Hmn Hmx]]]]]]].
    destruct b, i, bp, lp, mc, xc, ims; simpl in Hb, Hi, Hbp, Hlp, C1, C2, C4; try contradiction.
    assert (Hfl : fl = PInf \/ exists q, fl = Fin q).
    { destruct C5 as [C5|C5]; [right; destruct fl; simpl in C5; try contradiction; eauto|left; exact C5]. }
    assert (Hgg : g = PInf \/ exists q, g = Fin q).
    { destruct Hg as [Hg|Hg]; [right; destruct g; simpl in Hg; try contradiction; eauto|left; exact Hg]. }
    clear C5 Hg.
    destruct Hfl as [->|[qf ->]]; destruct Hgg as [->|[qg ->]]; destruct (it_scroll it); destruct inner; destruct mn; destruct mx;
      simpl in Hmn, Hmx; unfold tk_ok, fin_or_pinf; simpl; unfold x_max, x_min; simpl;
      repeat match goal with |- context [if ?c then _ else _] => destruct c; simpl end;
      repeat split; auto; try tauto; try (left; exact I); try (right; reflexivity).
  Qed.

  Lemma span1_finish_ok ts : Forall tk_ok ts -> Forall tk_ok (span1_finish ts).
  Proof.
    intro Hts. apply Forall_map. eapply Forall_impl; [|exact Hts]. intros t Ht. destruct t. unfold x_max. tk_crush; unfold x_max; tk_crush.
  Qed.

  Lemma update_nth_ok (f : track XQ -> track XQ) : (forall t, tk_ok t -> tk_ok (f t)) ->
    forall ts n, Forall tk_ok ts -> Forall tk_ok (update_nth n f ts).
  Proof.
    intro Hf. induction ts as [|t r IH]; intros n Hts; [destruct n; exact Hts|]. inversion Hts; subst.
    destruct n; cbn [update_nth]; constructor; auto.
  Qed.

  Lemma span1_batch_ok batch ts : Forall iok batch -> Forall tk_ok ts -> Forall tk_ok (span1_batch contrib inner avail batch ts).
  Proof.
    intros Hb Hts. unfold span1_batch. apply span1_finish_ok.
    match goal with |- Forall _ (fold_left ?f _ _) => destruct (fold_inv iok f f) with (batch := batch) (ts := ts) as [_ K]; auto end.
    intros ts0 it Hts0 Hit. split; [reflexivity|]. apply update_nth_ok; [|exact Hts0]. intros t Ht. apply span1_item_ok; assumption.
  Qed.

  Lemma process_batch_ok ffs batch isf ts : Forall iok batch -> Forall tk_ok ts ->
    process_batch_f contrib inner avail e1 e2 e3 ffs batch isf ts = process_batch contrib inner avail ffs batch isf ts /\
    Forall tk_ok (process_batch contrib inner avail ffs batch isf ts).
  Proof.
    intros Hb Hts. unfold process_batch_f, process_batch. cbv zeta.
    destruct (negb isf && Nat.eqb _ 1); [split; [reflexivity|apply span1_batch_ok; assumption]|].
    apply general_batch_ok; assumption.
  Qed.

  Lemma batch_loop_ok : forall fuel ffs off items ts, Forall iok items -> Forall tk_ok ts ->
    batch_loop_f contrib inner avail e1 e2 e3 fuel ffs off items ts = batch_loop contrib inner avail fuel ffs off items ts /\
    Forall tk_ok (batch_loop contrib inner avail fuel ffs off items ts).
  Proof.
    induction fuel as [|f IH]; intros ffs off items ts Hit Hts; cbn [batch_loop_f batch_loop]; [split; [reflexivity|exact Hts]|].
    destruct (next_batch off items) as [[next isf]|]; [|split; [reflexivity|exact Hts]]. cbv zeta.
    assert (Hb : Forall iok (firstn (next - off) (skipn off items))) by (apply Forall_firstn_sub, Forall_skipn_sub; exact Hit).
    destruct (process_batch_ok ffs _ isf ts Hb Hts) as [E K]. rewrite E.
    destruct isf; [split; [reflexivity|exact K]|]. apply IH; assumption.
  Qed.

  Theorem resolve_intrinsic_fuel_independent items ts : Forall iok items -> Forall tk_ok ts ->
    resolve_intrinsic_f contrib inner avail e1 e2 e3 items ts = resolve_intrinsic_track_sizes contrib inner avail items ts.
  Proof.
    intros Hit Hts. unfold resolve_intrinsic_f, resolve_intrinsic_track_sizes, resolve_intrinsic_fuelled. cbv zeta.
    assert (Hs : Forall iok (sort_items items)).
    { apply Forall_forall. intros x Hx. rewrite Forall_forall in Hit. apply Hit. apply In_sort_items. exact Hx. }
    destruct (batch_loop_ok (intrinsic_fuel items) (fsum (map flex_factor ts)) 0 (sort_items items) ts Hs Hts) as [E _].
    rewrite E. reflexivity.
  Qed.
End Steps.

Lemma resolve_intrinsic_f_0 {T} `{Num T} contrib inner avail (items : list (item T)) tracks :
  resolve_intrinsic_f contrib inner avail 0 0 0 items tracks = resolve_intrinsic_track_sizes contrib inner avail items tracks.
Proof. reflexivity. Qed.

(* boolean tests of the classes, for the computed examples *)
Definition sfn_okb (f : sfn XQ) : bool :=
  match f with
  | SLength v | SPercent v | SFitPx v | SFitPct v => is_fin v
  | SFr v => is_fin v && Qle_bool 0 (val v)
  | _ => true
  end.
Definition tk_okb (t : track XQ) : bool :=
  is_fin (base_size t) && (is_fin (growth_limit t) || is_pinf (growth_limit t)) && is_fin (incurred t) && Qle_bool 0 (val (incurred t))
  && is_fin (base_planned t) && is_fin (limit_planned t) && sfn_okb (minf t) && sfn_okb (maxf t).
Lemma sfn_okb_sound f : sfn_okb f = true -> sfn_ok f.
Proof.
  destruct f; simpl; auto using is_fin_finite. intro Hb. apply andb_true_iff in Hb. destruct Hb as [H1 H2].
  split; [apply is_fin_finite; exact H1|apply Qle_bool_iff; exact H2].
Qed.
Lemma tk_okb_sound l : forallb tk_okb l = true -> Forall tk_ok l.
Proof.
  intro Hb. apply Forall_forall. intros t Hin. rewrite forallb_forall in Hb. specialize (Hb t Hin). unfold tk_okb in Hb.
  repeat (apply andb_true_iff in Hb; destruct Hb as [Hb ?]).
  unfold tk_ok. repeat split; try (apply is_fin_finite; assumption); try (apply Qle_bool_iff; assumption); try (apply sfn_okb_sound; assumption).
  match goal with Ho : (_ || _)%bool = true |- _ => apply orb_true_iff in Ho; destruct Ho as [Ho1|Ho2] end.
  - left. apply is_fin_finite. exact Ho1.
  - right. destruct (growth_limit t); simpl in Ho2; try discriminate. reflexivity.
Qed.
