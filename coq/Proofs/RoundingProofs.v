(* C13 -- lemmas about the pixel-rounding pass (Model/Rounding.v over Gen/RoundingGen.v), exact instance XQ. *)
From Coq Require Import ZArith QArith Qround Qabs Bool List Lia Lqa.
From TV Require Import Num.Num Num.QNum Model.Rounding.
Import ListNotations.
Open Scope Q_scope.

(* ------------------------------------------------------------------------------------------------------------
   1. round half away from zero on Q *)

(* q lies exactly on a half pixel *)
Definition half (q : Q) : Prop := exists z : Z, q == inject_Z z + (1 # 2).

Lemma Qfloor_bounds q : inject_Z (Qfloor q) <= q /\ q < inject_Z (Qfloor q) + 1.
Proof.
  split; [apply Qfloor_le|].
  pose proof (Qlt_floor q) as H. rewrite inject_Z_plus in H. exact H.
Qed.

Lemma Qfloor_unique q z : inject_Z z <= q -> q < inject_Z z + 1 -> Qfloor q = z.
Proof.
  intros H1 H2. destruct (Qfloor_bounds q) as [F1 F2].
  assert (A : (z < Qfloor q + 1)%Z).
  { rewrite Zlt_Qlt, inject_Z_plus. change (inject_Z 1) with 1. lra. }
  assert (B : (Qfloor q < z + 1)%Z).
  { rewrite Zlt_Qlt, inject_Z_plus. change (inject_Z 1) with 1. lra. }
  lia.
Qed.

Lemma Qfloor_shift z q : Qfloor (inject_Z z + q) = (z + Qfloor q)%Z.
Proof.
  destruct (Qfloor_bounds q) as [F1 F2].
  apply Qfloor_unique; rewrite inject_Z_plus; lra.
Qed.

Lemma q_sign_lt q : q_sign q = Lt <-> q < 0.
Proof.
  unfold q_sign, Qlt. simpl. rewrite Z.mul_1_r. apply Z.compare_lt_iff.
Qed.

Lemma q_round_neg q : q < 0 -> q_round q = (- Qfloor (- q + (1 # 2)))%Z.
Proof. intros H. apply q_sign_lt in H. unfold q_round. rewrite H. reflexivity. Qed.

Lemma q_round_nonneg q : 0 <= q -> q_round q = Qfloor (q + (1 # 2)).
Proof.
  intros H. unfold q_round. destruct (q_sign q) eqn:E; try reflexivity.
  apply q_sign_lt in E. lra.
Qed.

Lemma q_round_err q : - (1 # 2) <= inject_Z (q_round q) - q /\ inject_Z (q_round q) - q <= 1 # 2.
Proof.
  destruct (Qlt_le_dec q 0) as [N | P].
  - rewrite (q_round_neg q N), inject_Z_opp.
    destruct (Qfloor_bounds (- q + (1 # 2))). lra.
  - rewrite (q_round_nonneg q P).
    destruct (Qfloor_bounds (q + (1 # 2))). lra.
Qed.

Lemma q_round_err_strict q : ~ half q -> - (1 # 2) < inject_Z (q_round q) - q /\ inject_Z (q_round q) - q < 1 # 2.
Proof.
  intros NH. destruct (Qlt_le_dec q 0) as [N | P].
  - rewrite (q_round_neg q N), inject_Z_opp.
    destruct (Qfloor_bounds (- q + (1 # 2))) as [F1 F2]. split; [|lra].
    destruct (Qlt_le_dec (- (1 # 2)) (- inject_Z (Qfloor (- q + (1 # 2))) - q)) as [L | G]; [exact L|].
    exfalso. apply NH. exists (- Qfloor (- q + (1 # 2)))%Z. rewrite inject_Z_opp. lra.
  - rewrite (q_round_nonneg q P).
    destruct (Qfloor_bounds (q + (1 # 2))) as [F1 F2]. split; [lra|].
    destruct (Qlt_le_dec (inject_Z (Qfloor (q + (1 # 2))) - q) (1 # 2)) as [L | G]; [exact L|].
    exfalso. apply NH. exists (Qfloor (q + (1 # 2)) - 1)%Z.
    unfold Z.sub. rewrite inject_Z_plus, inject_Z_opp. change (inject_Z 1) with 1. lra.
Qed.

Lemma q_round_unique q r : - (1 # 2) < inject_Z r - q -> inject_Z r - q < 1 # 2 -> q_round q = r.
Proof.
  intros H1 H2. destruct (Qlt_le_dec q 0) as [N | P].
  - rewrite (q_round_neg q N).
    assert (E : Qfloor (- q + (1 # 2)) = (- r)%Z).
    { apply Qfloor_unique; rewrite inject_Z_opp; lra. }
    rewrite E. lia.
  - rewrite (q_round_nonneg q P). apply Qfloor_unique; lra.
Qed.

Lemma q_round_int z : q_round (inject_Z z) = z.
Proof. apply q_round_unique; lra. Qed.

Lemma q_round_comp x y : x == y -> q_round x = q_round y.
Proof.
  intros E. destruct (Qlt_le_dec x 0) as [N | P].
  - rewrite (q_round_neg x N), (q_round_neg y) by lra.
    f_equal. apply Qfloor_comp. rewrite E. reflexivity.
  - rewrite (q_round_nonneg x P), (q_round_nonneg y) by lra.
    apply Qfloor_comp. rewrite E. reflexivity.
Qed.

Lemma half_shift z x : half x -> half (inject_Z z + x).
Proof.
  intros [w Hw]. exists (z + w)%Z. rewrite inject_Z_plus, Hw. ring.
Qed.

(* rounding commutes with an integer translation -- off half pixels ... *)
Lemma q_round_shift z x : ~ half (inject_Z z + x) -> q_round (inject_Z z + x) = (z + q_round x)%Z.
Proof.
  intros NH.
  assert (NHx : ~ half x) by (intro Hx; apply NH, half_shift, Hx).
  destruct (q_round_err_strict x NHx) as [E1 E2].
  apply q_round_unique; rewrite inject_Z_plus; lra.
Qed.

(* ... and also on half pixels as long as the translation does not cross zero *)
Lemma q_round_shift_nonneg z x : 0 <= x -> 0 <= inject_Z z + x -> q_round (inject_Z z + x) = (z + q_round x)%Z.
Proof.
  intros H1 H2. rewrite (q_round_nonneg _ H2), (q_round_nonneg _ H1), <- Qfloor_shift.
  apply Qfloor_comp. ring.
Qed.

Lemma q_round_shift_neg z x : x < 0 -> inject_Z z + x < 0 -> q_round (inject_Z z + x) = (z + q_round x)%Z.
Proof.
  intros H1 H2. rewrite (q_round_neg _ H2), (q_round_neg _ H1).
  assert (E : Qfloor (- (inject_Z z + x) + (1 # 2)) = (- z + Qfloor (- x + (1 # 2)))%Z).
  { rewrite <- Qfloor_shift. apply Qfloor_comp. rewrite inject_Z_opp. ring. }
  rewrite E. lia.
Qed.

Lemma q_round_mono x y : x <= y -> (q_round x <= q_round y)%Z.
Proof.
  intros L.
  destruct (Qlt_le_dec x 0) as [Nx | Px]; destruct (Qlt_le_dec y 0) as [Ny | Py].
  - rewrite (q_round_neg x Nx), (q_round_neg y Ny).
    assert (Qfloor (- y + (1 # 2)) <= Qfloor (- x + (1 # 2)))%Z by (apply Qfloor_resp_le; lra). lia.
  - rewrite (q_round_neg x Nx), (q_round_nonneg y Py).
    assert (0 <= Qfloor (- x + (1 # 2)))%Z by (change 0%Z with (Qfloor 0); apply Qfloor_resp_le; lra).
    assert (0 <= Qfloor (y + (1 # 2)))%Z by (change 0%Z with (Qfloor 0); apply Qfloor_resp_le; lra). lia.
  - lra.
  - rewrite (q_round_nonneg x Px), (q_round_nonneg y Py). apply Qfloor_resp_le. lra.
Qed.

(* the error of an edge difference: two roundings, each off by at most half a pixel *)
Lemma two_round_within e1 e2 d : e1 - e2 == d ->
  Qabs (inject_Z (q_round e1) + - inject_Z (q_round e2) - d) <= 1.
Proof.
  intros E. destruct (q_round_err e1), (q_round_err e2).
  apply Qabs_Qle_condition. split; lra.
Qed.

Lemma two_round_within_strict e1 e2 d : e1 - e2 == d -> ~ half e1 \/ ~ half e2 ->
  Qabs (inject_Z (q_round e1) + - inject_Z (q_round e2) - d) < 1.
Proof.
  intros E NH. destruct (q_round_err e1), (q_round_err e2).
  apply Qabs_Qlt_condition.
  destruct NH as [NH | NH]; destruct (q_round_err_strict _ NH); split; lra.
Qed.

Lemma one_round_within e : Qabs (inject_Z (q_round e) - e) <= 1 # 2.
Proof. destruct (q_round_err e). apply Qabs_Qle_condition. split; lra. Qed.

(* ------------------------------------------------------------------------------------------------------------
   2. the exact instance *)

Definition integral (x : XQ) : Prop := match x with Fin q => exists z : Z, q == inject_Z z | _ => False end.
Definition on_half (x : XQ) : Prop := match x with Fin q => half q | _ => False end.

Lemma fin_add (a b : XQ) : finite a -> finite b -> finite (add a b).
Proof. destruct a, b; simpl; tauto. Qed.
Lemma fin_sub (a b : XQ) : finite a -> finite b -> finite (sub a b).
Proof. destruct a, b; simpl; tauto. Qed.
Lemma fin_round (a : XQ) : finite a -> finite (fround a).
Proof. destruct a; simpl; tauto. Qed.
Lemma fin_zero : finite (zero : XQ).
Proof. exact I. Qed.
Lemma integral_fin (a : XQ) : integral a -> finite a.
Proof. destruct a; simpl; tauto. Qed.

Lemma val_add (a b : XQ) : finite a -> finite b -> val (add a b) = val a + val b.
Proof. destruct a, b; simpl; tauto. Qed.
Lemma val_sub (a b : XQ) : finite a -> finite b -> val (sub a b) = val a + - val b.
Proof. destruct a, b; simpl; tauto. Qed.
Lemma val_round (a : XQ) : finite a -> val (fround a) = inject_Z (q_round (val a)).
Proof. destruct a; simpl; tauto. Qed.

Lemma integral_val (a : XQ) : integral a <-> finite a /\ exists z, val a == inject_Z z.
Proof. destruct a; simpl; tauto. Qed.
Lemma on_half_val (a : XQ) : finite a -> (on_half a <-> half (val a)).
Proof. destruct a; simpl; tauto. Qed.
Lemma xeq_val (a b : XQ) : finite a -> finite b -> (xeq a b <-> val a == val b).
Proof. destruct a, b; simpl; tauto. Qed.

Lemma int_round (a : XQ) : finite a -> integral (fround a).
Proof. destruct a; simpl; try tauto. intros _. eexists. reflexivity. Qed.
Lemma int_sub (a b : XQ) : integral a -> integral b -> integral (sub a b).
Proof.
  destruct a, b; simpl; try tauto. intros [x Hx] [y Hy]. exists (x - y)%Z.
  unfold Z.sub. rewrite inject_Z_plus, inject_Z_opp, Hx, Hy. reflexivity.
Qed.

Ltac fin := auto 8 using fin_add, fin_sub, fin_round, fin_zero, integral_fin.
Ltac push_val :=
  repeat first [rewrite val_sub by fin | rewrite val_add by fin | rewrite val_round by fin].

(* ------------------------------------------------------------------------------------------------------------
   3. what the (generated) per-node body computes, field by field.  Every lemma is `reflexivity` against
   Gen.RoundingGen.round_layout_inner_node: when the source formulas change, this is where the proofs stop. *)
Section Shape.
  Context {T : Type} `{Num T}.
  Variables (cx cy : T) (u : layout T).
  Let ax := add cx (location_x u).      (* cumulative_x after adding the node's own location: its absolute left edge *)
  Let ay := add cy (location_y u).

  Lemma rn_order : order (round_node cx cy u) = order u. Proof. reflexivity. Qed.
  Lemma rn_location_x : location_x (round_node cx cy u) = fround (location_x u). Proof. reflexivity. Qed.
  Lemma rn_location_y : location_y (round_node cx cy u) = fround (location_y u). Proof. reflexivity. Qed.
  Lemma rn_size_width : size_width (round_node cx cy u) = sub (fround (add ax (size_width u))) (fround ax).
  Proof. reflexivity. Qed.
  Lemma rn_size_height : size_height (round_node cx cy u) = sub (fround (add ay (size_height u))) (fround ay).
  Proof. reflexivity. Qed.
  Lemma rn_content_size_width :
    content_size_width (round_node cx cy u) = sub (fround (add ax (content_size_width u))) (fround ax).
  Proof. reflexivity. Qed.
  Lemma rn_content_size_height :
    content_size_height (round_node cx cy u) = sub (fround (add ay (content_size_height u))) (fround ay).
  Proof. reflexivity. Qed.
  Lemma rn_scrollbar_size_width : scrollbar_size_width (round_node cx cy u) = fround (scrollbar_size_width u).
  Proof. reflexivity. Qed.
  Lemma rn_scrollbar_size_height : scrollbar_size_height (round_node cx cy u) = fround (scrollbar_size_height u).
  Proof. reflexivity. Qed.
  Lemma rn_border_left : border_left (round_node cx cy u) = sub (fround (add ax (border_left u))) (fround ax).
  Proof. reflexivity. Qed.
  Lemma rn_border_right : border_right (round_node cx cy u) =
    sub (fround (add ax (size_width u))) (fround (sub (add ax (size_width u)) (border_right u))).
  Proof. reflexivity. Qed.
  Lemma rn_border_top : border_top (round_node cx cy u) = sub (fround (add ay (border_top u))) (fround ay).
  Proof. reflexivity. Qed.
  Lemma rn_border_bottom : border_bottom (round_node cx cy u) =
    sub (fround (add ay (size_height u))) (fround (sub (add ay (size_height u)) (border_bottom u))).
  Proof. reflexivity. Qed.
  Lemma rn_padding_left : padding_left (round_node cx cy u) = sub (fround (add ax (padding_left u))) (fround ax).
  Proof. reflexivity. Qed.
  Lemma rn_padding_right : padding_right (round_node cx cy u) =
    sub (fround (add ax (size_width u))) (fround (sub (add ax (size_width u)) (padding_right u))).
  Proof. reflexivity. Qed.
  Lemma rn_padding_top : padding_top (round_node cx cy u) = sub (fround (add ay (padding_top u))) (fround ay).
  Proof. reflexivity. Qed.
  Lemma rn_padding_bottom : padding_bottom (round_node cx cy u) =
    sub (fround (add ay (size_height u))) (fround (sub (add ay (size_height u)) (padding_bottom u))).
  Proof. reflexivity. Qed.
  Lemma rn_margin : margin_left (round_node cx cy u) = margin_left u /\ margin_right (round_node cx cy u) = margin_right u
    /\ margin_top (round_node cx cy u) = margin_top u /\ margin_bottom (round_node cx cy u) = margin_bottom u.
  Proof. repeat split; reflexivity. Qed.
  (* children are entered with the node's absolute position *)
  Lemma child_cum_eq : child_cum cx cy u = (ax, ay). Proof. reflexivity. Qed.
End Shape.

Lemma round_layout_eq {T : Type} `{Num T} (t : tree T) : round_layout t = round_tree zero zero t.
Proof. reflexivity. Qed.

Ltac rn_rewrite :=
  rewrite ?rn_location_x, ?rn_location_y, ?rn_size_width, ?rn_size_height, ?rn_content_size_width,
    ?rn_content_size_height, ?rn_scrollbar_size_width, ?rn_scrollbar_size_height, ?rn_border_left, ?rn_border_right,
    ?rn_border_top, ?rn_border_bottom, ?rn_padding_left, ?rn_padding_right, ?rn_padding_top, ?rn_padding_bottom.

(* ------------------------------------------------------------------------------------------------------------
   4. one node, exact arithmetic *)

Ltac fields H :=
  cbv [all_fields all_in layout_floats fold_right] in H;
  destruct H as (? & ? & ? & ? & ? & ? & ? & ? & ? & ? & ? & ? & ? & ? & ? & ? & ? & ? & ? & ? & _).

Lemma round_node_integral (cx cy : XQ) (u : layout XQ) :
  finite cx -> finite cy -> all_fields finite u -> all_in integral (reported_floats (round_node cx cy u)).
Proof.
  intros Hx Hy Hu. fields Hu.
  cbv [all_in reported_floats fold_right]. rn_rewrite.
  repeat split; auto 8 using int_round, int_sub, fin_add, fin_sub.
Qed.

Lemma round_node_finite (cx cy : XQ) (u : layout XQ) :
  finite cx -> finite cy -> all_fields finite u -> all_fields finite (round_node cx cy u).
Proof.
  intros Hx Hy Hu. fields Hu.
  cbv [all_fields all_in layout_floats fold_right]. rn_rewrite.
  destruct (rn_margin cx cy u) as (-> & -> & -> & ->).
  repeat split; fin.
Qed.

Definition within (d : Q) (p : XQ * XQ) : Prop := finite (snd p) /\ Qabs (val (snd p) - val (fst p)) <= d.

Lemma round_node_within_one (cx cy : XQ) (u : layout XQ) :
  finite cx -> finite cy -> all_fields finite u -> all_in (within 1) (length_pairs u (round_node cx cy u)).
Proof.
  intros Hx Hy Hu. fields Hu.
  cbv [all_in length_pairs fold_right within fst snd]. rn_rewrite.
  repeat split; try solve [fin]; push_val; apply two_round_within; ring.
Qed.

Lemma round_node_within_half (cx cy : XQ) (u : layout XQ) :
  finite cx -> finite cy -> all_fields finite u -> all_in (within (1 # 2)) (point_pairs u (round_node cx cy u)).
Proof.
  intros Hx Hy Hu. fields Hu.
  cbv [all_in point_pairs fold_right within fst snd]. rn_rewrite.
  repeat split; try solve [fin]; push_val; apply one_round_within.
Qed.

Lemma round_node_size_strict (cx cy : XQ) (u : layout XQ) :
  finite cx -> finite cy -> all_fields finite u ->
  let ax := add cx (location_x u) in
  let ay := add cy (location_y u) in
  (~ on_half ax \/ ~ on_half (add ax (size_width u)) ->
     Qabs (val (size_width (round_node cx cy u)) - val (size_width u)) < 1) /\
  (~ on_half ay \/ ~ on_half (add ay (size_height u)) ->
     Qabs (val (size_height (round_node cx cy u)) - val (size_height u)) < 1).
Proof.
  intros Hx Hy Hu ax ay. fields Hu. subst ax ay. rn_rewrite.
  split; intros NH; push_val; (apply two_round_within_strict; [ring|]);
    rewrite !on_half_val in NH by fin; revert NH; push_val; tauto.
Qed.

(* ------------------------------------------------------------------------------------------------------------
   5. the recursion: which cumulative coordinates a node is entered with *)
Section TreeFacts.
  Context {T : Type} `{Num T}.

  Definition addx (a : T) (l : layout T) : T := add a (location_x l).
  Definition addy (a : T) (l : layout T) : T := add a (location_y l).

  Lemma sum_x_eq ls : sum_x ls = fold_left addx ls zero. Proof. reflexivity. Qed.
  Lemma sum_y_eq ls : sum_y ls = fold_left addy ls zero. Proof. reflexivity. Qed.

  (* the rounded node at path p is the per-node function applied to the unrounded node at p, entered with the
     sum of its proper ancestors' unrounded locations *)
  Lemma node_at_round_tree : forall p (t : tree T) cx cy,
    node_at (round_tree cx cy t) p =
    option_map (round_node (fold_left addx (ancestors t p) cx) (fold_left addy (ancestors t p) cy)) (node_at t p).
  Proof.
    induction p as [|i p IH]; intros [l cs] cx cy.
    - reflexivity.
    - cbn [round_tree node_at ancestors]. rewrite nth_error_map.
      destruct (nth_error cs i) as [c|]; cbn [option_map]; [|reflexivity].
      rewrite IH, child_cum_eq. reflexivity.
  Qed.

  Fixpoint round_anc (cx cy : T) (ls : list (layout T)) : list (layout T) :=
    match ls with
    | [] => []
    | l :: ls' => round_node cx cy l :: round_anc (addx cx l) (addy cy l) ls'
    end.

  Lemma ancestors_round_tree : forall p (t : tree T) cx cy,
    ancestors (round_tree cx cy t) p = round_anc cx cy (ancestors t p).
  Proof.
    induction p as [|i p IH]; intros [l cs] cx cy.
    - reflexivity.
    - cbn [round_tree ancestors]. rewrite nth_error_map.
      destruct (nth_error cs i) as [c|]; cbn [option_map round_anc]; [|reflexivity].
      rewrite IH, child_cum_eq. reflexivity.
  Qed.

  (* unconditionally (any ancestors, any Num instance): a reported size is the difference of the two rounded *absolute*
     edges, the cumulative coordinate being the sum of all ancestors' unrounded locations plus the node's own *)
  Lemma size_from_absolute_edges (t : tree T) p u r :
    node_at t p = Some u -> node_at (round_layout t) p = Some r ->
    let ax := add (sum_x (ancestors t p)) (location_x u) in
    let ay := add (sum_y (ancestors t p)) (location_y u) in
    size_width r = sub (fround (add ax (size_width u))) (fround ax) /\
    size_height r = sub (fround (add ay (size_height u))) (fround ay) /\
    location_x r = fround (location_x u) /\ location_y r = fround (location_y u).
  Proof.
    intros Nu Nr. rewrite round_layout_eq, node_at_round_tree, Nu in Nr. cbn [option_map] in Nr.
    inversion Nr; subst r. repeat split.
  Qed.

  Lemma tree_all_node_at (P : layout T -> Prop) : forall p (t : tree T) u,
    tree_all P t -> node_at t p = Some u -> P u.
  Proof.
    induction p as [|i p IH]; intros [l cs] u Ht E; inversion Ht; subst; cbn [node_at] in E.
    - inversion E; subst; assumption.
    - destruct (nth_error cs i) as [c|] eqn:N; [|discriminate].
      apply (IH c); [|exact E].
      rewrite Forall_forall in H3. apply H3. eapply nth_error_In; eassumption.
  Qed.

  Lemma tree_all_ancestors (P : layout T -> Prop) : forall p (t : tree T),
    tree_all P t -> Forall P (ancestors t p).
  Proof.
    induction p as [|i p IH]; intros [l cs] Ht; inversion Ht; subst; cbn [ancestors].
    - constructor.
    - destruct (nth_error cs i) as [c|] eqn:N; [|constructor].
      constructor; [assumption|]. apply IH.
      rewrite Forall_forall in H3. apply H3. eapply nth_error_In; eassumption.
  Qed.
End TreeFacts.

Definition fin_layout (l : layout XQ) : Prop := all_fields finite l.

Lemma fin_location (l : layout XQ) : fin_layout l -> finite (location_x l) /\ finite (location_y l).
Proof. intros Hl. unfold fin_layout in Hl. fields Hl. split; assumption. Qed.

Lemma fold_fin_x ls : forall acc : XQ, finite acc -> Forall fin_layout ls -> finite (fold_left addx ls acc).
Proof.
  induction ls as [|l ls IH]; intros acc Ha Hl; cbn [fold_left]; [assumption|].
  inversion Hl; subst. apply IH; [|assumption].
  apply fin_add; [assumption | apply fin_location; assumption].
Qed.
Lemma fold_fin_y ls : forall acc : XQ, finite acc -> Forall fin_layout ls -> finite (fold_left addy ls acc).
Proof.
  induction ls as [|l ls IH]; intros acc Ha Hl; cbn [fold_left]; [assumption|].
  inversion Hl; subst. apply IH; [|assumption].
  apply fin_add; [assumption | apply fin_location; assumption].
Qed.

Lemma int_add (a b : XQ) : integral a -> integral b -> integral (add a b).
Proof.
  destruct a, b; simpl; try tauto. intros [x Hx] [y Hy]. exists (x + y)%Z.
  rewrite inject_Z_plus, Hx, Hy. reflexivity.
Qed.
Lemma int_zero : integral (zero : XQ).
Proof. exists 0%Z. reflexivity. Qed.

Lemma fold_int_x ls : forall acc : XQ, integral acc -> Forall (fun a => integral (location_x a)) ls ->
  integral (fold_left addx ls acc).
Proof.
  induction ls as [|l ls IH]; intros acc Ha Hl; cbn [fold_left]; [assumption|].
  inversion Hl; subst. apply IH; [|assumption]. apply int_add; assumption.
Qed.
Lemma fold_int_y ls : forall acc : XQ, integral acc -> Forall (fun a => integral (location_y a)) ls ->
  integral (fold_left addy ls acc).
Proof.
  induction ls as [|l ls IH]; intros acc Ha Hl; cbn [fold_left]; [assumption|].
  inversion Hl; subst. apply IH; [|assumption]. apply int_add; assumption.
Qed.

Lemma val_round_int (a : XQ) : integral a -> val (fround a) == val a.
Proof.
  destruct a; simpl; try tauto. intros [z Hz].
  rewrite (q_round_comp _ _ Hz), q_round_int, Hz. reflexivity.
Qed.

(* summing the *rounded* locations of ancestors that sit at integral offsets gives the unrounded sum *)
Lemma fold_round_anc_x ls : forall (cx cy acc1 acc2 : XQ),
  Forall (fun a => integral (location_x a)) ls -> finite acc1 -> finite acc2 -> val acc1 == val acc2 ->
  finite (fold_left addx (round_anc cx cy ls) acc1) /\
  val (fold_left addx (round_anc cx cy ls) acc1) == val (fold_left addx ls acc2).
Proof.
  induction ls as [|l ls IH]; intros cx cy acc1 acc2 Hl F1 F2 E; cbn [round_anc fold_left].
  - split; assumption.
  - inversion Hl; subst. apply IH; try assumption.
    + unfold addx. rewrite rn_location_x. fin.
    + unfold addx. fin.
    + unfold addx. rewrite rn_location_x. push_val. rewrite <- val_round by fin.
      rewrite (val_round_int _ H1), E. reflexivity.
Qed.
Lemma fold_round_anc_y ls : forall (cx cy acc1 acc2 : XQ),
  Forall (fun a => integral (location_y a)) ls -> finite acc1 -> finite acc2 -> val acc1 == val acc2 ->
  finite (fold_left addy (round_anc cx cy ls) acc1) /\
  val (fold_left addy (round_anc cx cy ls) acc1) == val (fold_left addy ls acc2).
Proof.
  induction ls as [|l ls IH]; intros cx cy acc1 acc2 Hl F1 F2 E; cbn [round_anc fold_left].
  - split; assumption.
  - inversion Hl; subst. apply IH; try assumption.
    + unfold addy. rewrite rn_location_y. fin.
    + unfold addy. fin.
    + unfold addy. rewrite rn_location_y. push_val. rewrite <- val_round by fin.
      rewrite (val_round_int _ H1), E. reflexivity.
Qed.

(* a rounded node, characterised *)
Lemma rounded_node (t : tree XQ) p r :
  tree_all fin_layout t -> node_at (round_layout t) p = Some r ->
  exists u, node_at t p = Some u /\ fin_layout u /\
            finite (sum_x (ancestors t p)) /\ finite (sum_y (ancestors t p)) /\
            r = round_node (sum_x (ancestors t p)) (sum_y (ancestors t p)) u.
Proof.
  intros Ht E. rewrite round_layout_eq, node_at_round_tree in E.
  destruct (node_at t p) as [u|] eqn:N; [|discriminate]. cbn [option_map] in E. inversion E; subst.
  exists u. split; [reflexivity|]. split; [|split; [|split; [|reflexivity]]].
  - eapply tree_all_node_at; eassumption.
  - apply fold_fin_x; [exact I | apply tree_all_ancestors; assumption].
  - apply fold_fin_y; [exact I | apply tree_all_ancestors; assumption].
Qed.

(* ------------------------------------------------------------------------------------------------------------
   6. the clauses over the whole tree *)

Lemma integral_all (t : tree XQ) p r :
  tree_all fin_layout t -> node_at (round_layout t) p = Some r -> all_in integral (reported_floats r).
Proof.
  intros Ht E. destruct (rounded_node t p r Ht E) as (u & _ & Fu & Fx & Fy & ->).
  apply round_node_integral; assumption.
Qed.

Lemma within_one_all (t : tree XQ) p u r :
  tree_all fin_layout t -> node_at t p = Some u -> node_at (round_layout t) p = Some r ->
  all_in (within 1) (length_pairs u r) /\ all_in (within (1 # 2)) (point_pairs u r).
Proof.
  intros Ht N E. destruct (rounded_node t p r Ht E) as (u' & N' & Fu & Fx & Fy & ->).
  rewrite N in N'. inversion N'; subst u'.
  split; [apply round_node_within_one | apply round_node_within_half]; assumption.
Qed.

Lemma within_one_strict_all (t : tree XQ) p u r :
  tree_all fin_layout t -> node_at t p = Some u -> node_at (round_layout t) p = Some r ->
  let ax := add (sum_x (ancestors t p)) (location_x u) in
  let ay := add (sum_y (ancestors t p)) (location_y u) in
  (~ on_half ax \/ ~ on_half (add ax (size_width u)) -> Qabs (val (size_width r) - val (size_width u)) < 1) /\
  (~ on_half ay \/ ~ on_half (add ay (size_height u)) -> Qabs (val (size_height r) - val (size_height u)) < 1).
Proof.
  intros Ht N E. destruct (rounded_node t p r Ht E) as (u' & N' & Fu & Fx & Fy & ->).
  rewrite N in N'. inversion N'; subst u'.
  apply round_node_size_strict; assumption.
Qed.

(* ------------------------------------------------------------------------------------------------------------
   7. edges.  One axis at a time, on scalars: A = sum of the ancestors' unrounded locations, RA = sum of their
   rounded locations, lx = the node's own location, w its size, b1 / b2 insets from the near / far edge. *)
Lemma edge_scalar (A RA lx w b1 b2 : XQ) :
  finite A -> finite RA -> finite lx -> finite w -> finite b1 -> finite b2 ->
  val RA == val A ->
  val (fround (add A lx)) == val A + val (fround lx) ->
  let ax := add A lx in
  let rx := add RA (fround lx) in
  let rw := sub (fround (add ax w)) (fround ax) in
  finite rx /\ val rx == val (fround ax) /\
  val (add rx rw) == val (fround (add ax w)) /\
  val (add rx (sub (fround (add ax b1)) (fround ax))) == val (fround (add ax b1)) /\
  val (sub (add rx rw) (sub (fround (add ax w)) (fround (sub (add ax w) b2)))) == val (fround (sub (add ax w) b2)).
Proof.
  intros FA FRA Fl Fw F1 F2 E S ax rx rw. subst ax rx rw.
  split; [fin|]. revert S. push_val. intros S.
  repeat split; lra.
Qed.

Lemma half_comp x y : x == y -> half x -> half y.
Proof. intros E [z Hz]. exists z. rewrite <- E. exact Hz. Qed.

(* when does rounding the absolute position agree with "integral ancestor offset + rounded own location"? *)
Lemma shift_from_nohalf (A lx : XQ) :
  integral A -> finite lx -> ~ on_half (add A lx) -> val (fround (add A lx)) == val A + val (fround lx).
Proof.
  intros IA Fl NH. apply integral_val in IA. destruct IA as [FA [z Hz]].
  rewrite on_half_val in NH by fin. revert NH. push_val. intros NH.
  rewrite (q_round_comp (val A + val lx) (inject_Z z + val lx)) by (rewrite Hz; reflexivity).
  rewrite q_round_shift.
  - rewrite inject_Z_plus, Hz. reflexivity.
  - intros Hh. apply NH. eapply half_comp; [|exact Hh]. rewrite Hz. reflexivity.
Qed.

Lemma shift_from_nonneg (A lx : XQ) :
  integral A -> finite lx -> 0 <= val lx -> 0 <= val (add A lx) -> val (fround (add A lx)) == val A + val (fround lx).
Proof.
  intros IA Fl P1 P2. apply integral_val in IA. destruct IA as [FA [z Hz]].
  revert P2. push_val. intros P2.
  rewrite (q_round_comp (val A + val lx) (inject_Z z + val lx)) by (rewrite Hz; reflexivity).
  rewrite q_round_shift_nonneg; [| assumption | rewrite <- Hz; assumption].
  rewrite inject_Z_plus, Hz. reflexivity.
Qed.

Section Edges.
  Variables (t : tree XQ) (p : list nat) (u r : layout XQ).
  Hypothesis Ht : tree_all fin_layout t.
  Hypothesis Nu : node_at t p = Some u.
  Hypothesis Nr : node_at (round_layout t) p = Some r.

  Let A := ancestors t p.
  Let RA := ancestors (round_layout t) p.
  Let ax := add (sum_x A) (location_x u).
  Let ay := add (sum_y A) (location_y u).
  Let rx := add (sum_x RA) (location_x r).
  Let ry := add (sum_y RA) (location_y r).

  Lemma edges_x_core :
    Forall (fun a => integral (location_x a)) A ->
    val (fround ax) == val (sum_x A) + val (fround (location_x u)) ->
    finite rx /\ val rx == val (fround ax) /\
    val (add rx (size_width r)) == val (fround (add ax (size_width u))) /\
    val (add rx (border_left r)) == val (fround (add ax (border_left u))) /\
    val (sub (add rx (size_width r)) (border_right r)) == val (fround (sub (add ax (size_width u)) (border_right u))) /\
    val (add rx (padding_left r)) == val (fround (add ax (padding_left u))) /\
    val (sub (add rx (size_width r)) (padding_right r)) == val (fround (sub (add ax (size_width u)) (padding_right u))).
  Proof.
    intros IA S. subst ax rx RA.
    destruct (rounded_node t p r Ht Nr) as (u' & N' & Fu & Fx & Fy & Er).
    rewrite Nu in N'. inversion N'; subst u'. clear N'.
    rewrite round_layout_eq, ancestors_round_tree, (sum_x_eq (round_anc _ _ _)).
    destruct (fold_round_anc_x A zero zero zero zero IA fin_zero fin_zero (Qeq_refl _)) as [FR ER].
    rewrite <- sum_x_eq in ER. fold A in Fx, Fy, Er.
    unfold fin_layout in Fu. fields Fu.
    rewrite Er. rn_rewrite.
    destruct (edge_scalar (sum_x A) (fold_left addx (round_anc zero zero A) zero) (location_x u) (size_width u)
                (border_left u) (border_right u)) as (G0 & G1 & G2 & G3 & G4); try assumption.
    destruct (edge_scalar (sum_x A) (fold_left addx (round_anc zero zero A) zero) (location_x u) (size_width u)
                (padding_left u) (padding_right u)) as (_ & _ & _ & G5 & G6); try assumption.
    repeat split; assumption.
  Qed.

  Lemma edges_y_core :
    Forall (fun a => integral (location_y a)) A ->
    val (fround ay) == val (sum_y A) + val (fround (location_y u)) ->
    finite ry /\ val ry == val (fround ay) /\
    val (add ry (size_height r)) == val (fround (add ay (size_height u))) /\
    val (add ry (border_top r)) == val (fround (add ay (border_top u))) /\
    val (sub (add ry (size_height r)) (border_bottom r)) == val (fround (sub (add ay (size_height u)) (border_bottom u))) /\
    val (add ry (padding_top r)) == val (fround (add ay (padding_top u))) /\
    val (sub (add ry (size_height r)) (padding_bottom r)) == val (fround (sub (add ay (size_height u)) (padding_bottom u))).
  Proof.
    intros IA S. subst ay ry RA.
    destruct (rounded_node t p r Ht Nr) as (u' & N' & Fu & Fx & Fy & Er).
    rewrite Nu in N'. inversion N'; subst u'. clear N'.
    rewrite round_layout_eq, ancestors_round_tree, (sum_y_eq (round_anc _ _ _)).
    destruct (fold_round_anc_y A zero zero zero zero IA fin_zero fin_zero (Qeq_refl _)) as [FR ER].
    rewrite <- sum_y_eq in ER. fold A in Fx, Fy, Er.
    unfold fin_layout in Fu. fields Fu.
    rewrite Er. rn_rewrite.
    destruct (edge_scalar (sum_y A) (fold_left addy (round_anc zero zero A) zero) (location_y u) (size_height u)
                (border_top u) (border_bottom u)) as (G0 & G1 & G2 & G3 & G4); try assumption.
    destruct (edge_scalar (sum_y A) (fold_left addy (round_anc zero zero A) zero) (location_y u) (size_height u)
                (padding_top u) (padding_bottom u)) as (_ & _ & _ & G5 & G6); try assumption.
    repeat split; assumption.
  Qed.

  Lemma node_fin : fin_layout u /\ finite (sum_x A) /\ finite (sum_y A).
  Proof.
    destruct (rounded_node t p r Ht Nr) as (u' & N' & Fu & Fx & Fy & Er).
    rewrite Nu in N'. inversion N'; subst u'. auto.
  Qed.

  Lemma sum_int_x : Forall (fun a => integral (location_x a)) A -> integral (sum_x A).
  Proof. intros IA. rewrite sum_x_eq. apply fold_int_x; [apply int_zero | assumption]. Qed.
  Lemma sum_int_y : Forall (fun a => integral (location_y a)) A -> integral (sum_y A).
  Proof. intros IA. rewrite sum_y_eq. apply fold_int_y; [apply int_zero | assumption]. Qed.
End Edges.

Lemma rounded_fin (t : tree XQ) p r :
  tree_all fin_layout t -> node_at (round_layout t) p = Some r -> fin_layout r.
Proof.
  intros Ht E. destruct (rounded_node t p r Ht E) as (u & _ & Fu & Fx & Fy & ->).
  apply round_node_finite; assumption.
Qed.

Ltac edge_ctx Ht Nu Nr :=
  let Fu := fresh "Fu" in let Fr := fresh "Fr" in let Fx := fresh "Fx" in let Fy := fresh "Fy" in
  destruct (node_fin _ _ _ _ Ht Nu Nr) as (Fu & Fx & Fy);
  pose proof (rounded_fin _ _ _ Ht Nr) as Fr;
  unfold fin_layout in Fu, Fr; fields Fu; fields Fr.

(* C13_edges *)
Theorem edges_thm (t : tree XQ) p u r :
  tree_all fin_layout t -> node_at t p = Some u -> node_at (round_layout t) p = Some r ->
  let A := ancestors t p in
  let RA := ancestors (round_layout t) p in
  let ax := add (sum_x A) (location_x u) in
  let ay := add (sum_y A) (location_y u) in
  let rx := add (sum_x RA) (location_x r) in
  let ry := add (sum_y RA) (location_y r) in
  (Forall (fun a => integral (location_x a)) A -> ~ on_half ax ->
     xeq rx (fround ax) /\ xeq (add rx (size_width r)) (fround (add ax (size_width u)))) /\
  (Forall (fun a => integral (location_y a)) A -> ~ on_half ay ->
     xeq ry (fround ay) /\ xeq (add ry (size_height r)) (fround (add ay (size_height u)))).
Proof.
  intros Ht Nu Nr A RA ax ay rx ry. subst A RA ax ay rx ry. edge_ctx Ht Nu Nr. split; intros IA NH.
  - destruct (edges_x_core t p u r Ht Nu Nr IA) as (F & E1 & E2 & _).
    { apply shift_from_nohalf; [eapply sum_int_x; eassumption | assumption | exact NH]. }
    split; (apply xeq_val; [fin | fin | assumption]).
  - destruct (edges_y_core t p u r Ht Nu Nr IA) as (F & E1 & E2 & _).
    { apply shift_from_nohalf; [eapply sum_int_y; eassumption | assumption | exact NH]. }
    split; (apply xeq_val; [fin | fin | assumption]).
Qed.

(* the same without the half-pixel premise when neither the offset nor the absolute position is negative *)
Theorem edges_nonneg_thm (t : tree XQ) p u r :
  tree_all fin_layout t -> node_at t p = Some u -> node_at (round_layout t) p = Some r ->
  let A := ancestors t p in
  let RA := ancestors (round_layout t) p in
  let ax := add (sum_x A) (location_x u) in
  let ay := add (sum_y A) (location_y u) in
  let rx := add (sum_x RA) (location_x r) in
  let ry := add (sum_y RA) (location_y r) in
  (Forall (fun a => integral (location_x a)) A -> 0 <= val (location_x u) -> 0 <= val ax ->
     xeq rx (fround ax) /\ xeq (add rx (size_width r)) (fround (add ax (size_width u)))) /\
  (Forall (fun a => integral (location_y a)) A -> 0 <= val (location_y u) -> 0 <= val ay ->
     xeq ry (fround ay) /\ xeq (add ry (size_height r)) (fround (add ay (size_height u)))).
Proof.
  intros Ht Nu Nr A RA ax ay rx ry. subst A RA ax ay rx ry. edge_ctx Ht Nu Nr. split; intros IA P1 P2.
  - destruct (edges_x_core t p u r Ht Nu Nr IA) as (F & E1 & E2 & _).
    { apply shift_from_nonneg; [eapply sum_int_x; eassumption | assumption | exact P1 | exact P2]. }
    split; (apply xeq_val; [fin | fin | assumption]).
  - destruct (edges_y_core t p u r Ht Nu Nr IA) as (F & E1 & E2 & _).
    { apply shift_from_nonneg; [eapply sum_int_y; eassumption | assumption | exact P1 | exact P2]. }
    split; (apply xeq_val; [fin | fin | assumption]).
Qed.

(* C13_inner_edges: the border and padding insets are rounded as absolute edges too (measured from the outer edges) *)
Theorem inner_edges_thm (t : tree XQ) p u r :
  tree_all fin_layout t -> node_at t p = Some u -> node_at (round_layout t) p = Some r ->
  let A := ancestors t p in
  let RA := ancestors (round_layout t) p in
  let ax := add (sum_x A) (location_x u) in
  let ay := add (sum_y A) (location_y u) in
  let rx := add (sum_x RA) (location_x r) in
  let ry := add (sum_y RA) (location_y r) in
  (Forall (fun a => integral (location_x a)) A -> ~ on_half ax ->
     xeq (add rx (border_left r)) (fround (add ax (border_left u))) /\
     xeq (sub (add rx (size_width r)) (border_right r)) (fround (sub (add ax (size_width u)) (border_right u))) /\
     xeq (add rx (padding_left r)) (fround (add ax (padding_left u))) /\
     xeq (sub (add rx (size_width r)) (padding_right r)) (fround (sub (add ax (size_width u)) (padding_right u)))) /\
  (Forall (fun a => integral (location_y a)) A -> ~ on_half ay ->
     xeq (add ry (border_top r)) (fround (add ay (border_top u))) /\
     xeq (sub (add ry (size_height r)) (border_bottom r)) (fround (sub (add ay (size_height u)) (border_bottom u))) /\
     xeq (add ry (padding_top r)) (fround (add ay (padding_top u))) /\
     xeq (sub (add ry (size_height r)) (padding_bottom r)) (fround (sub (add ay (size_height u)) (padding_bottom u)))).
Proof.
  intros Ht Nu Nr A RA ax ay rx ry. subst A RA ax ay rx ry. edge_ctx Ht Nu Nr. split; intros IA NH.
  - destruct (edges_x_core t p u r Ht Nu Nr IA) as (F & _ & _ & E3 & E4 & E5 & E6).
    { apply shift_from_nohalf; [eapply sum_int_x; eassumption | assumption | exact NH]. }
    repeat split; (apply xeq_val; [fin | fin | assumption]).
  - destruct (edges_y_core t p u r Ht Nu Nr IA) as (F & _ & _ & E3 & E4 & E5 & E6).
    { apply shift_from_nohalf; [eapply sum_int_y; eassumption | assumption | exact NH]. }
    repeat split; (apply xeq_val; [fin | fin | assumption]).
Qed.

Lemma xeq_round (a b : XQ) : finite a -> finite b -> xeq a b -> xeq (fround a) (fround b).
Proof.
  destruct a, b; simpl; try tauto. intros _ _ E. rewrite (q_round_comp _ _ E). reflexivity.
Qed.
Lemma xeq_trans (a b c : XQ) : xeq a b -> xeq b c -> xeq a c.
Proof. destruct a, b, c; simpl; try tauto. intros E1 E2. rewrite E1. exact E2. Qed.
Lemma xeq_sym (a b : XQ) : xeq a b -> xeq b a.
Proof. destruct a, b; simpl; try tauto. intros E. symmetry. exact E. Qed.

(* C13_no_seam: the far edge of box 1 coincides with the near edge of box 2 before rounding => also afterwards *)
Theorem no_seam_thm (t : tree XQ) p1 u1 r1 p2 u2 r2 :
  tree_all fin_layout t ->
  node_at t p1 = Some u1 -> node_at (round_layout t) p1 = Some r1 ->
  node_at t p2 = Some u2 -> node_at (round_layout t) p2 = Some r2 ->
  let ax1 := add (sum_x (ancestors t p1)) (location_x u1) in
  let ay1 := add (sum_y (ancestors t p1)) (location_y u1) in
  let rx1 := add (sum_x (ancestors (round_layout t) p1)) (location_x r1) in
  let ry1 := add (sum_y (ancestors (round_layout t) p1)) (location_y r1) in
  let ax2 := add (sum_x (ancestors t p2)) (location_x u2) in
  let ay2 := add (sum_y (ancestors t p2)) (location_y u2) in
  let rx2 := add (sum_x (ancestors (round_layout t) p2)) (location_x r2) in
  let ry2 := add (sum_y (ancestors (round_layout t) p2)) (location_y r2) in
  (Forall (fun a => integral (location_x a)) (ancestors t p1) -> Forall (fun a => integral (location_x a)) (ancestors t p2) ->
   ~ on_half ax1 -> ~ on_half ax2 ->
   xeq (add ax1 (size_width u1)) ax2 -> xeq (add rx1 (size_width r1)) rx2) /\
  (Forall (fun a => integral (location_y a)) (ancestors t p1) -> Forall (fun a => integral (location_y a)) (ancestors t p2) ->
   ~ on_half ay1 -> ~ on_half ay2 ->
   xeq (add ay1 (size_height u1)) ay2 -> xeq (add ry1 (size_height r1)) ry2).
Proof.
  intros Ht Nu1 Nr1 Nu2 Nr2 ax1 ay1 rx1 ry1 ax2 ay2 rx2 ry2.
  destruct (edges_thm t p1 u1 r1 Ht Nu1 Nr1) as [X1 Y1].
  destruct (edges_thm t p2 u2 r2 Ht Nu2 Nr2) as [X2 Y2].
  destruct (node_fin _ _ _ _ Ht Nu1 Nr1) as (Fu1 & Fx1 & Fy1).
  destruct (node_fin _ _ _ _ Ht Nu2 Nr2) as (Fu2 & Fx2 & Fy2).
  unfold fin_layout in Fu1, Fu2. fields Fu1. fields Fu2.
  split; intros Ia Ib Ha Hb E.
  - destruct (X1 Ia Ha) as [_ R1]. destruct (X2 Ib Hb) as [L2 _].
    eapply xeq_trans; [exact R1|]. eapply xeq_trans; [|apply xeq_sym; exact L2].
    apply xeq_round; [subst ax1; fin | subst ax2; fin | exact E].
  - destruct (Y1 Ia Ha) as [_ R1]. destruct (Y2 Ib Hb) as [L2 _].
    eapply xeq_trans; [exact R1|]. eapply xeq_trans; [|apply xeq_sym; exact L2].
    apply xeq_round; [subst ay1; fin | subst ay2; fin | exact E].
Qed.

(* disjoint boxes stay disjoint: far edge of box 1 <= near edge of box 2 before rounding => also afterwards *)
Theorem no_overlap_thm (t : tree XQ) p1 u1 r1 p2 u2 r2 :
  tree_all fin_layout t ->
  node_at t p1 = Some u1 -> node_at (round_layout t) p1 = Some r1 ->
  node_at t p2 = Some u2 -> node_at (round_layout t) p2 = Some r2 ->
  let ax1 := add (sum_x (ancestors t p1)) (location_x u1) in
  let rx1 := add (sum_x (ancestors (round_layout t) p1)) (location_x r1) in
  let ax2 := add (sum_x (ancestors t p2)) (location_x u2) in
  let rx2 := add (sum_x (ancestors (round_layout t) p2)) (location_x r2) in
  Forall (fun a => integral (location_x a)) (ancestors t p1) -> Forall (fun a => integral (location_x a)) (ancestors t p2) ->
  ~ on_half ax1 -> ~ on_half ax2 ->
  val (add ax1 (size_width u1)) <= val ax2 -> val (add rx1 (size_width r1)) <= val rx2.
Proof.
  intros Ht Nu1 Nr1 Nu2 Nr2 ax1 rx1 ax2 rx2 I1 I2 H1 H2 L.
  destruct (edges_x_core t p1 u1 r1 Ht Nu1 Nr1 I1) as (_ & _ & E1 & _).
  { destruct (node_fin _ _ _ _ Ht Nu1 Nr1) as (Fu & Fx & Fy). unfold fin_layout in Fu. fields Fu.
    apply shift_from_nohalf; [eapply sum_int_x; eassumption | assumption | exact H1]. }
  destruct (edges_x_core t p2 u2 r2 Ht Nu2 Nr2 I2) as (_ & E2 & _).
  { destruct (node_fin _ _ _ _ Ht Nu2 Nr2) as (Fu & Fx & Fy). unfold fin_layout in Fu. fields Fu.
    apply shift_from_nohalf; [eapply sum_int_x; eassumption | assumption | exact H2]. }
  destruct (node_fin _ _ _ _ Ht Nu1 Nr1) as (Fu1 & Fx1 & Fy1).
  destruct (node_fin _ _ _ _ Ht Nu2 Nr2) as (Fu2 & Fx2 & Fy2).
  unfold fin_layout in Fu1, Fu2. fields Fu1. fields Fu2.
  fold rx1 in E1. fold ax1 in E1. fold rx2 in E2. fold ax2 in E2.
  rewrite E1, E2. rewrite !val_round by (subst ax1 ax2; fin).
  rewrite <- Zle_Qle. apply q_round_mono. exact L.
Qed.

(* ------------------------------------------------------------------------------------------------------------
   8. the rounding flag: any Num instance (in particular binary32) *)
Section Flag.
  Context {T : Type} `{Num T}.

  (* every compute_layout event of the history leaves the same unrounded tree u (unchanged styles and available
     space: C01) *)
  Definition computes (u : tree T) (o : op T) : Prop :=
    match o with ComputeLayout u' => u' = u | _ => True end.

  Lemma step_unrounded (s : state T) (o : op T) :
    unrounded_layout (step s o) = match o with ComputeLayout u => u | _ => unrounded_layout s end.
  Proof. destruct o; reflexivity. Qed.

  Lemma step_final (s : state T) (o : op T) :
    final_layout (step s o) = final_layout s \/
    exists u, o = ComputeLayout u /\ use_rounding s = true /\ final_layout (step s o) = round_layout u.
  Proof.
    destruct o; cbn [step final_layout]; auto.
    unfold compute_rounds. destruct (use_rounding s); [right; exists u; auto | left; reflexivity].
  Qed.

  Lemma first_pass (s : state T) (u : tree T) :
    use_rounding s = true ->
    unrounded_layout (step s (ComputeLayout u)) = u /\ final_layout (step s (ComputeLayout u)) = round_layout u /\
    use_rounding (step s (ComputeLayout u)) = true.
  Proof. intros E. cbn [step unrounded_layout final_layout use_rounding]. unfold compute_rounds. rewrite E. auto. Qed.

  Lemma no_drift (u : tree T) : forall (ops : list (op T)) (s : state T),
    Forall (computes u) ops -> unrounded_layout s = u -> final_layout s = round_layout u ->
    unrounded_layout (run s ops) = u /\ final_layout (run s ops) = round_layout u.
  Proof.
    induction ops as [|o ops IH]; intros s Hc Hu Hf; cbn [run fold_left].
    - auto.
    - inversion Hc; subst. apply IH; [assumption| |].
      + destruct o as [| |u']; cbn [step unrounded_layout]; auto.
      + destruct o as [| |u']; cbn [step final_layout]; auto.
        cbn [computes] in H2. subst u'. destruct (compute_rounds (use_rounding s)); auto.
  Qed.

  Lemma layout_of_spec (s : state T) :
    layout_of s = if use_rounding s then final_layout s else unrounded_layout s.
  Proof. unfold layout_of, layout_reads_final. destruct (use_rounding s); reflexivity. Qed.

  (* a new tree (rounding enabled by default), one compute_layout, then any history *)
  Lemma no_drift_from_new (s0 : state T) (u : tree T) (ops : list (op T)) :
    use_rounding s0 = default_use_rounding -> Forall (computes u) ops ->
    let s := run s0 (ComputeLayout u :: ops) in
    unrounded_layout s = u /\ final_layout s = round_layout u /\
    layout_of s = if use_rounding s then round_layout u else u.
  Proof.
    intros E Hc s. subst s. cbn [run fold_left].
    destruct (first_pass s0 u E) as (A & B & _).
    destruct (no_drift u ops _ Hc A B) as [C D]. fold (run (step s0 (ComputeLayout u)) ops).
    rewrite layout_of_spec. unfold run in *. rewrite C, D. auto.
  Qed.

  (* the pitfall: enable_rounding does not round; layout() reads whatever final_layout held *)
  Lemma enable_is_stale (s : state T) :
    layout_of (step s EnableRounding) = final_layout s.
  Proof. reflexivity. Qed.
End Flag.

(* ------------------------------------------------------------------------------------------------------------
   9. concrete trees (non-vacuity, and the half-pixel counterexample) *)
Definition qbox (x y w h : Q) (b p : Q) : layout XQ :=
  mk_layout 0 (Fin x) (Fin y) (Fin w) (Fin h) (Fin w) (Fin h) (Fin 0) (Fin 0)
            (Fin b) (Fin b) (Fin b) (Fin b) (Fin p) (Fin p) (Fin p) (Fin p) (Fin 0) (Fin 0) (Fin 0) (Fin 0).

(* root at 0; a container at the integral offset (3, 2); two children that touch at x = 3 + 0.4 + 0.4 = 3.8 *)
Definition ex_tree : tree XQ :=
  Node (qbox 0 0 40 20 0 0)
    [Node (qbox 3 2 (203 # 10) 10 (3 # 10) (12 # 10))
       [Node (qbox (4 # 10) (3 # 10) (4 # 10) (5 # 2) 0 0) [];
        Node (qbox (8 # 10) (3 # 10) (31 # 10) (5 # 2) (1 # 4) (1 # 3)) []]].

(* parent at x = 2; A at -3.5 (width 3) and B at -0.5 touch at the absolute half pixel 1.5 *)
Definition half_tree : tree XQ :=
  Node (qbox 0 0 40 10 0 0)
    [Node (qbox 2 0 20 10 0 0)
       [Node (qbox (- (7 # 2)) 0 3 10 0 0) [];
        Node (qbox (- (1 # 2)) 0 3 10 0 0) []]].

Definition abs_right (t : tree XQ) (p : list nat) : XQ :=
  match node_at t p with
  | Some l => add (add (sum_x (ancestors t p)) (location_x l)) (size_width l)
  | None => XNaN
  end.
Definition abs_left (t : tree XQ) (p : list nat) : XQ :=
  match node_at t p with
  | Some l => add (sum_x (ancestors t p)) (location_x l)
  | None => XNaN
  end.

Lemma ex_tree_fin : tree_all fin_layout ex_tree.
Proof. repeat (constructor; try (cbv; tauto)). Qed.
Lemma half_tree_fin : tree_all fin_layout half_tree.
Proof. repeat (constructor; try (cbv; tauto)). Qed.

Lemma ex_premises :
  Forall (fun a => integral (location_x a)) (ancestors ex_tree [0; 0]%nat) /\
  ~ on_half (abs_left ex_tree [0; 0]%nat) /\ ~ on_half (abs_left ex_tree [0; 1]%nat) /\
  xeq (abs_right ex_tree [0; 0]%nat) (abs_left ex_tree [0; 1]%nat) /\
  xeq (x_red (abs_left ex_tree [0; 1]%nat)) (Fin (19 # 5)) /\
  x_red (abs_right (round_layout ex_tree) [0; 0]%nat) = Fin 4 /\
  x_red (abs_left (round_layout ex_tree) [0; 1]%nat) = Fin 4.
Proof.
  split; [|split; [|split; [|split; [|split; [|split]]]]].
  - repeat constructor; [exists 0%Z | exists 3%Z]; reflexivity.
  - intros Hh. unfold on_half in Hh. set (v := abs_left ex_tree [0; 0]%nat) in Hh. vm_compute in v. subst v.
    cbv beta iota in Hh. destruct Hh as [z Hz]. unfold Qeq in Hz. simpl in Hz. lia.
  - intros Hh. unfold on_half in Hh. set (v := abs_left ex_tree [0; 1]%nat) in Hh. vm_compute in v. subst v.
    cbv beta iota in Hh. destruct Hh as [z Hz]. unfold Qeq in Hz. simpl in Hz. lia.
  - vm_compute. reflexivity.
  - vm_compute. reflexivity.
  - vm_compute. reflexivity.
  - vm_compute. reflexivity.
Qed.

(* without the half-pixel premise the conclusion of C13_edges / C13_no_seam fails in exact arithmetic: all ancestors
   at integral offsets, A's right edge = B's left edge = 1.5, but after rounding A ends at 2 and B starts at 1 *)
Lemma half_counterexample :
  Forall (fun a => integral (location_x a)) (ancestors half_tree [0; 0]%nat) /\
  Forall (fun a => integral (location_x a)) (ancestors half_tree [0; 1]%nat) /\
  xeq (abs_right half_tree [0; 0]%nat) (abs_left half_tree [0; 1]%nat) /\
  on_half (abs_left half_tree [0; 1]%nat) /\
  x_red (abs_right (round_layout half_tree) [0; 0]%nat) = Fin 2 /\
  x_red (abs_left (round_layout half_tree) [0; 1]%nat) = Fin 1 /\
  x_red (fround (abs_left half_tree [0; 1]%nat)) = Fin 2.
Proof.
  split; [|split; [|split; [|split; [|split; [|split]]]]].
  - repeat constructor; [exists 0%Z | exists 2%Z]; reflexivity.
  - repeat constructor; [exists 0%Z | exists 2%Z]; reflexivity.
  - vm_compute. reflexivity.
  - exists 1%Z. vm_compute. reflexivity.
  - vm_compute. reflexivity.
  - vm_compute. reflexivity.
  - vm_compute. reflexivity.
Qed.
