(* The last part of compute_preliminary is relational (Model/FlexAlgRel.v) -- align_flex_lines_per_align_content, final_layout_pass (one
   PerformLayout query and one stored layout per item, the walk order, relative insets, baselines, content sizes), the absolute pass
   (through the translated kernel: Proofs/ScaleAbsProofs.v), the hidden pass -- and the whole: `flex_alg_t_rel`.

     flex_alg_t_rel     for any style relation SR implying `fstyle_wrel k`, a floor tau' that is the floor tau scaled by k (tau > 0),
                        related container styles, child styles and inputs: the resumptions `flex_alg_t tau s st i` and
                        `flex_alg_t tau' s' st' i'` run in lockstep -- the same children are queried with related inputs, get related
                        stored layouts, related outputs are returned -- given related answers.  EVERY phase of compute_flexbox_layout.
     flex_alg_t_one     flex_alg_t one = flex_alg (reflexivity)
     flex_alg_rel_k1    k = 1: the floor is unchanged, so flex_alg itself is relational for every SR (the form C12 uses)
     flex_alg_t_definite   when the container's main size is not intrinsic (flex_main_not_intrinsic) flex_alg_t does not depend on the floor *)
From Coq Require Import QArith Qabs Lqa Bool List ZArith Lia.
From TV Require Import Num.Num Num.QNum Model.Common Model.Leaf Gen.FlexGen Model.Flex Model.FlexLines Model.FlexBase Model.FlexContainer Model.FlexFraction.
From TV Require Import Model.FiltersBase Gen.FiltersGen Model.ItemFilters Model.FlexAlgBase Model.FlexAlgAbs Model.FlexAlg Model.FlexAlgT.
From TV Require Import Model.Scale Model.ScaleFlex Model.Engine Model.EngineRel Model.FlexAlgRel.
From TV Require Model.AbsPosBase Gen.AbsPosEnums Gen.AbsPosGen Model.ScaleAbs Proofs.ScaleAbsProofs.
From TV Require Import Proofs.ScaleProofs Proofs.ScaleKit Proofs.ScaleFlex Proofs.FlexAlgStruct Proofs.FlexStyleRel Proofs.FlexRelKit Proofs.FlexRelItems
  Proofs.FlexRelCross.
Import ListNotations.
Close Scope Z_scope.

Lemma rel_map_first2 {X Y} (RX : X -> X -> Prop) (RY : Y -> Y -> Prop) (f f' g g' : X -> Y) l l' :
  (forall x x', RX x x' -> RY (f x) (f' x')) -> (forall x x', RX x x' -> RY (g x) (g' x')) -> Forall2 RX l l' ->
  Forall2 RY (map_first f g l) (map_first f' g' l').
Proof. intros Hf Hg Hl. destruct Hl; cbn [map_first]; constructor; [auto|]. apply (rel_map RX RY); assumption. Qed.

Section Final.
  Variable k : Q.
  Hypothesis Hk : 0 < k.
  Variable SR : FStyle XQ -> FStyle XQ -> Prop.
  Variable crow : bool.        (* the direction of the container *)
  Hypothesis SR_weak : forall s s', SR s s' -> fstyle_wrel k crow s s'.
  Notation L := (sc k).
  Notation O := (op_rel (sc k)).
  Notation A := (av_rel (sc k)).
  Notation WR := (witem_rel k SR).
  Notation Alg := (Engine.Alg (FIn XQ) (LayoutOutput XQ) (FLay XQ)).
  Notation AR := (AlgRel (FIn XQ) (LayoutOutput XQ) (FLay XQ) (fin_rel k) (output_rel k) (flay_rel k)).

  (* ---- align_flex_lines_per_align_content *)
  Lemma rel_align_flex_lines kc kc' ic ic' tot tot' n (us : list unit) : kconst_rel k kc kc' -> L ic ic' -> L tot tot' ->
    Forall2 L (align_flex_lines kc ic tot n us) (align_flex_lines kc' ic' tot' n us).
  Proof.
    intros Hc Hic Htot. kconst_open Hc. unfold align_flex_lines. rewrite Ekr, Ekac, Ekwr.
    pose proof (rel_s_cross L (k_row kc) _ _ Hkgap) as Hg.
    assert (Hfs : L (ic - tot - sum_axis_gaps (s_cross (k_row kc) (k_gap kc)) n)%num (ic' - tot' - sum_axis_gaps (s_cross (k_row kc) (k_gap kc')) n)%num)
      by (apply sc_sub; [apply sc_sub; assumption|apply (rel_sum_axis_gaps k Hk); exact Hg]).
    set (fs := (ic - tot - _)%num) in *. set (fs' := (ic' - tot' - _)%num) in *. clearbody fs fs'.
    rewrite (rel_apply_alignment_fallback k Hk _ _ _ _ _ Hfs).
    assert (Hus : Forall2 (@eq unit) us us) by (induction us; constructor; auto).
    assert (J : forall b (x x' : unit), x = x' ->
              L (compute_alignment_offset fs n (s_cross (k_row kc) (k_gap kc)) (apply_alignment_fallback fs n (k_align_content kc) false) (k_wrap_reverse kc) b)
                (compute_alignment_offset fs' n (s_cross (k_row kc) (k_gap kc')) (apply_alignment_fallback fs n (k_align_content kc) false) (k_wrap_reverse kc) b))
      by (intros; apply (rel_compute_alignment_offset k Hk); assumption).
    destruct (k_wrap_reverse kc).
    - apply rel_rev. apply (rel_map_first2 (@eq unit) L); [apply J|apply J|apply rel_rev; exact Hus].
    - apply (rel_map_first2 (@eq unit) L); [apply J|apply J|exact Hus].
  Qed.

  Lemma units_eq {X} (R : X -> X -> Prop) l l' : Forall2 R l l' -> map (fun _ => tt) l' = map (fun _ => tt) l.
  Proof. induction 1; cbn [map]; congruence. Qed.

  (* ---- the walk of final_layout_pass *)
  Definition walk_rel (x x' : @WalkItem XQ) : Prop :=
    WR (wk_item x) (wk_item x') /\ L (wk_line_offset x) (wk_line_offset x') /\ L (wk_total_cross x) (wk_total_cross x') /\
    wk_first x' = wk_first x /\ wk_first_line x' = wk_first_line x.

  Lemma rel_walk_line kc kc' fl lo lo' tc tc' ln ln' : kconst_rel k kc kc' -> L lo lo' -> L tc tc' -> Forall2 WR ln ln' ->
    Forall2 walk_rel (walk_line kc fl lo tc ln) (walk_line kc' fl lo' tc' ln').
  Proof.
    intros Hc Hlo Htc Hln. kconst_open Hc. unfold walk_line. rewrite Ekrev.
    pose proof (maybe_rev_rel WR (k_reverse kc) _ _ Hln) as Hr. destruct Hr as [|w w' r r' Hw Hr]; [constructor|].
    assert (J : forall b y y', WR y y' -> walk_rel (mkWalk y lo tc b fl) (mkWalk y' lo' tc' b fl)).
    { intros b y y' Hy. unfold walk_rel. cbn [wk_item wk_line_offset wk_total_cross wk_first wk_first_line].
      repeat match goal with |- _ /\ _ => split end; first [assumption|reflexivity]. }
    constructor; [apply J; exact Hw|]. apply (rel_map WR walk_rel); [|exact Hr]. intros y y' Hy. apply J. exact Hy.
  Qed.

  Lemma rel_nth_or l l' i : Forall2 L l l' -> L (nth_or l i) (nth_or l' i).
  Proof. intros Hl. unfold nth_or. apply (rel_nth L); [exact Hl|apply sc_zero]. Qed.

  Lemma rel_walk_lines_from kc kc' offs offs' sts sts' : kconst_rel k kc kc' -> Forall2 L offs offs' -> Forall2 L sts sts' ->
    forall lines lines' i, Forall2 (Forall2 WR) lines lines' ->
      Forall2 (Forall2 walk_rel) (walk_lines_from kc i lines offs sts) (walk_lines_from kc' i lines' offs' sts').
  Proof.
    intros Hc Ho Hs lines lines' i Hl. revert i. induction Hl as [|ln ln' r r' Hln Hr IH]; intros i; cbn [walk_lines_from]; constructor; [|apply IH].
    apply rel_walk_line; try assumption; apply rel_nth_or; assumption.
  Qed.

  Definition pair_rel (p p' : XQ * XQ) : Prop := L (fst p) (fst p') /\ L (snd p) (snd p').
  Lemma rel_combine l l' m m' : Forall2 L l l' -> Forall2 L m m' -> Forall2 pair_rel (combine l m) (combine l' m').
  Proof. intros Hl. revert m m'. induction Hl; intros m m' Hm; cbn [combine]; [constructor|]. destruct Hm; constructor; [split; assumption|auto]. Qed.
  Lemma rel_line_starts l l' : Forall2 pair_rel l l' -> forall t t', L t t' -> Forall2 L (line_starts t l) (line_starts t' l').
  Proof.
    induction 1 as [|[a b] [a' b'] r r' [H1 H2] Hr IH]; intros t t' Ht; cbn [line_starts]; constructor; [exact Ht|].
    apply IH. cbn [fst snd] in H1, H2. repeat apply sc_add; assumption.
  Qed.

  Lemma rel_final_walk kc kc' lines lines' offs offs' cs cs' : kconst_rel k kc kc' -> Forall2 (Forall2 WR) lines lines' ->
    Forall2 L offs offs' -> Forall2 L cs cs' -> Forall2 walk_rel (final_walk kc lines offs cs) (final_walk kc' lines' offs' cs').
  Proof.
    intros Hc Hl Ho Hcs. pose proof Hc as Hc0. kconst_open Hc. unfold final_walk. rewrite Ekr, Ekwr.
    pose proof (rel_r_cross_start L (k_row kc) _ _ Hkin) as Hst. pose proof (rel_combine _ _ _ _ Ho Hcs) as Hw.
    apply concat_rel. apply maybe_rev_rel. apply rel_walk_lines_from; try assumption.
    destruct (k_wrap_reverse kc); [apply rel_rev|]; apply rel_line_starts; try assumption. apply rel_rev. exact Hw.
  Qed.

  (* ---- calculate_flex_item *)
  Definition base_rel (e e' : nat * bool * XQ) : Prop := fst (fst e') = fst (fst e) /\ snd (fst e') = snd (fst e) /\ L (snd e) (snd e').
  Definition core_rel (c c' : @FinalCore XQ) : Prop :=
    L (fc_total_offset_main c) (fc_total_offset_main c') /\ Forall2 base_rel (fc_baselines c) (fc_baselines c').
  Definition fstate_rel (s s' : @FinalState XQ) : Prop := core_rel (fst s) (fst s') /\ sz_rel L (snd s) (snd s').

  Lemma rel_final_input kc kc' cs cs' x x' : kconst_rel k kc kc' -> sz_rel L cs cs' -> walk_rel x x' -> fin_rel k (final_input kc cs x) (final_input kc' cs' x').
  Proof.
    intros Hc Hcs (Hw & _). kconst_open Hc. w_open Hw. item_open Hwfi. cross_open Hwx. unfold final_input. rewrite Ekr.
    apply fin_rel_mk; [|exact Hki|].
    - apply rel_s_of_mc; cbn [op_rel]; assumption.
    - destruct Hcs. split; cbn [size_map width height av_rel]; assumption.
  Qed.

  Lemma rel_final_place kc kc' x x' c c' a a' : kconst_rel k kc kc' -> walk_rel x x' -> core_rel c c' -> ans_rel k a a' ->
    pt_rel L (fst (final_place kc x c a)) (fst (final_place kc' x' c' a')) /\ core_rel (snd (final_place kc x c a)) (snd (final_place kc' x' c' a')).
  Proof.
    intros Hc (Hw & Hlo & Htc & Ef & Efl) (Hct & Hcb) (Has & Hab). kconst_open Hc. w_open Hw. item_open Hwfi. cross_open Hwx.
    unfold final_place. cbn [fst snd]. rewrite Ekr, Ef, Efl, Ewn, Ewba. set (row := k_row kc).
    pose proof (rel_r_main_start L row _ _ Hkin) as Hms0. pose proof (rel_r_cross_start O row _ _ Hwin) as Hics. pose proof (rel_r_cross_end O row _ _ Hwin) as Hice.
    pose proof (rel_s_main L row _ _ Has) as Hsm. destruct Has as [Hsw Hsh].
    assert (Htom : L (if wk_first x then r_main_start row (k_inset kc) else fc_total_offset_main c)
                     (if wk_first x then r_main_start row (k_inset kc') else fc_total_offset_main c')) by (destruct (wk_first x); assumption).
    set (tom := if wk_first x then _ else _) in *. set (tom' := if wk_first x then r_main_start row (k_inset kc') else _) in *. clearbody tom tom'.
    assert (Hic : L (opt_unwrap_or (opt_or (r_cross_start row (w_inset (wk_item x))) (option_map neg (r_cross_end row (w_inset (wk_item x))))) zero)
                    (opt_unwrap_or (opt_or (r_cross_start row (w_inset (wk_item x'))) (option_map neg (r_cross_end row (w_inset (wk_item x'))))) zero)).
    { hm k Hk. }
    set (ic := opt_unwrap_or _ zero) in *. set (ic' := opt_unwrap_or (opt_or (r_cross_start row (w_inset (wk_item x'))) _) zero) in *. clearbody ic ic'.
    assert (Hinb : L (opt_unwrap_or (snd a) (height (fst a))) (opt_unwrap_or (snd a') (height (fst a')))) by hm k Hk.
    set (ib := opt_unwrap_or (snd a) _) in *. set (ib' := opt_unwrap_or (snd a') _) in *. clearbody ib ib'.
    assert (Hmsum : L (margin_sum (w_fi (wk_item x))) (margin_sum (w_fi (wk_item x')))) by (apply (rel_margin_sum k); assumption).
    split.
    - destruct row; split; cbn [px py]; repeat apply sc_add; assumption.
    - split; cbn [fc_total_offset_main fc_baselines].
      + repeat apply sc_add; assumption.
      + destruct (wk_first_line x); [|exact Hcb]. apply rel_app; [exact Hcb|]. constructor; [|constructor].
        split; [reflexivity|]. split; [reflexivity|]. cbn [snd]. destruct row; repeat apply sc_add; assumption.
  Qed.

  Lemma ans_of_rel o o' : output_rel k o o' -> ans_rel k (ans_of o) (ans_of o').
  Proof. intros (Hs & _ & [_ Hb] & _). split; assumption. Qed.

  Lemma rel_item_scrollbar_size s s' : fstyle_wrel k crow s s' -> sz_rel L (item_scrollbar_size s) (item_scrollbar_size s').
  Proof.
    intros Ws. wstyle_open Ws. unfold item_scrollbar_size. rewrite Wov.
    split; cbn [width height]; match goal with |- context [if ?b then _ else _] => destruct b end; auto using sc_zero.
  Qed.

  Lemma rel_item_margin kc kc' w w' : kconst_rel k kc kc' -> WR w w' -> rc_rel L (item_margin kc w) (item_margin kc' w').
  Proof.
    intros Hc Hw. kconst_open Hc. w_open Hw. item_open Hwfi. cross_open Hwx. unfold item_margin. rewrite Ekr.
    destruct (k_row kc); repeat split; assumption.
  Qed.

  Lemma rel_final_layout kc kc' x x' st st' o o' : kconst_rel k kc kc' -> walk_rel x x' -> fstate_rel st st' -> output_rel k o o' ->
    flay_rel k (final_layout kc x st o) (final_layout kc' x' st' o').
  Proof.
    intros Hc Hx [Hcore _] Ho. destruct (rel_final_place _ _ _ _ _ _ _ _ Hc Hx Hcore (ans_of_rel _ _ Ho)) as [Hloc _].
    pose proof Hx as (Hw & _). w_open Hw. ci_open Hwci. destruct Ho as (Hos & Hoc & _).
    unfold final_layout, flay_rel. cbn [fl_order fl_location fl_size fl_content_size fl_scrollbar_size fl_border fl_padding fl_margin].
    rewrite Ewn. repeat match goal with |- _ /\ _ => split end; try reflexivity; try assumption.
    - apply rel_item_scrollbar_size. apply SR_weak. exact Hwst.
    - apply rel_item_margin; assumption.
  Qed.

  Lemma rel_content_size_contribution loc loc' s s' c c' ov : pt_rel L loc loc' -> sz_rel L s s' -> sz_rel L c c' ->
    sz_rel L (content_size_contribution loc s c ov) (content_size_contribution loc' s' c' ov).
  Proof.
    intros [Hx Hy] [Hsw Hsh] [Hcw Hch]. unfold content_size_contribution.
    assert (Hw : L (match px ov with Visible => fmax (width s) (width c) | _ => width s end) (match px ov with Visible => fmax (width s') (width c') | _ => width s' end))
      by (destruct (px ov); try assumption; apply (sc_max k); assumption).
    assert (Hh : L (match py ov with Visible => fmax (height s) (height c) | _ => height s end) (match py ov with Visible => fmax (height s') (height c') | _ => height s' end))
      by (destruct (py ov); try assumption; apply (sc_max k); assumption).
    set (w := match px ov with Visible => _ | _ => width s end) in *. set (w' := match px ov with Visible => _ | _ => width s' end) in *.
    set (h := match py ov with Visible => _ | _ => height s end) in *. set (h' := match py ov with Visible => _ | _ => height s' end) in *.
    clearbody w w' h h'.
    rewrite (sc_gtb k _ _ zero zero Hk Hw (sc_zero k)), (sc_gtb k _ _ zero zero Hk Hh (sc_zero k)).
    destruct (gtb w zero && gtb h zero)%bool; [|apply (rel_size_ZERO k)]. split; cbn [width height]; apply sc_add; assumption.
  Qed.
  Lemma rel_size_f32_max a a' b b' : sz_rel L a a' -> sz_rel L b b' -> sz_rel L (size_f32_max a b) (size_f32_max a' b').
  Proof. intros [H1 H2] [H3 H4]. split; cbn [width height]; apply (sc_max k); assumption. Qed.

  Lemma rel_final_step kc kc' x x' st st' o o' : kconst_rel k kc kc' -> walk_rel x x' -> fstate_rel st st' -> output_rel k o o' ->
    fstate_rel (final_step kc x st o) (final_step kc' x' st' o').
  Proof.
    intros Hc Hx [Hcore Hcont] Ho. destruct (rel_final_place _ _ _ _ _ _ _ _ Hc Hx Hcore (ans_of_rel _ _ Ho)) as [Hloc Hcore2].
    pose proof Hx as (Hw & _). w_open Hw. pose proof (SR_weak _ _ Hwst) as Wst. wstyle_open Wst. destruct Ho as (Hos & Hoc & _).
    unfold final_step. split; cbn [fst snd]; [exact Hcore2|]. rewrite Wov. apply rel_size_f32_max; [exact Hcont|].
    apply rel_content_size_contribution; assumption.
  Qed.

  Lemma rel_inflow_content_size kc kc' g g' c c' : kconst_rel k kc kc' -> pt_rel L g g' -> sz_rel L c c' ->
    sz_rel L (inflow_content_size kc g c) (inflow_content_size kc' g' c').
  Proof.
    intros Hc [Hgx Hgy] [Hcw Hch]. kconst_open Hc. destruct Hkin as (_ & Hir & _ & Hib). destruct Hkbor as (_ & Hbr & _ & Hbb).
    unfold inflow_content_size. split; cbn [width height]; hm k Hk.
  Qed.

  (* ---- 8.5 the container's first baseline *)
  Lemma rel_pick_min_node l l' : Forall2 base_rel l l' -> op_rel base_rel (pick_min_node l) (pick_min_node l').
  Proof.
    intros Hl. unfold pick_min_node. apply (rel_fold_left base_rel (op_rel base_rel)); [|exact Hl|exact I].
    intros b b' e e' Hb He. destruct b as [a|], b' as [a'|]; cbn [op_rel] in Hb; try contradiction; [|exact He].
    pose proof Hb as (Ea & _). pose proof He as (Ee & _). rewrite Ea, Ee. destruct (Nat.ltb (fst (fst e)) (fst (fst a))); cbn [op_rel]; assumption.
  Qed.
  Lemma rel_first_vertical_baseline c c' : core_rel c c' -> O (first_vertical_baseline c) (first_vertical_baseline c').
  Proof.
    intros [_ Hb]. unfold first_vertical_baseline.
    assert (Hf : Forall2 base_rel (filter (fun e => snd (fst e)) (fc_baselines c)) (filter (fun e => snd (fst e)) (fc_baselines c'))).
    { apply rel_filter; [|exact Hb]. intros e e' (_ & E & _). exact E. }
    pose proof (rel_pick_min_node _ _ Hf) as H1. pose proof (rel_pick_min_node _ _ Hb) as H2.
    destruct (pick_min_node (filter _ (fc_baselines c))), (pick_min_node (filter _ (fc_baselines c'))); cbn [op_rel] in H1; try contradiction.
    - cbn [op_rel]. apply H1.
    - destruct (pick_min_node (fc_baselines c)), (pick_min_node (fc_baselines c')); cbn [op_rel] in H2; try contradiction; cbn [option_map op_rel]; [apply H2|exact I].
  Qed.

  (* ---- the absolute pass *)
  Notation AS := ScaleAbs.asz_rel.
  Lemma rel_abs_constants cs cs' b b' i i' g g' row rev wr jc ai : sz_rel L cs cs' -> rc_rel L b b' -> rc_rel L i i' -> pt_rel L g g' ->
    ScaleAbs.flexc_rel k (abs_constants cs b i g row rev wr jc ai) (abs_constants cs' b' i' g' row rev wr jc ai).
  Proof.
    intros [C1 C2] (B1 & B2 & B3 & B4) (I1 & I2 & I3 & I4) [G1 G2]. unfold abs_constants, ScaleAbs.flexc_rel.
    cbn [AbsPosBase.fc_container_size AbsPosBase.fc_border AbsPosBase.fc_scrollbar_gutter AbsPosBase.fc_content_box_inset AbsPosBase.fc_dir
         AbsPosBase.fc_is_row AbsPosBase.fc_is_wrap_reverse AbsPosBase.fc_justify_content AbsPosBase.fc_align_items].
    repeat match goal with |- _ /\ _ => split end; try reflexivity;
      unfold ScaleAbs.asz_rel, ScaleAbs.arc_rel, ScaleAbs.apt_rel, a_size, a_rect, a_point;
      cbn [AbsPosBase.s_width AbsPosBase.s_height AbsPosBase.r_left AbsPosBase.r_right AbsPosBase.r_top AbsPosBase.r_bottom AbsPosBase.p_x AbsPosBase.p_y];
      repeat match goal with |- _ /\ _ => split end; assumption.
  Qed.

  Lemma rel_abs_min_size i i' : ScaleAbs.absin_rel k i i' -> AS O (abs_min_size i) (abs_min_size i').
  Proof.
    intros (_ & _ & _ & _ & _ & [Hpw Hph] & _ & [Hmw Hmh] & _).
    unfold abs_min_size, AbsPosBase.size_zip2, AbsPosBase.size_or, AbsPosBase.size_map. cbn [AbsPosBase.s_width AbsPosBase.s_height].
    split; cbn [AbsPosBase.s_width AbsPosBase.s_height]; apply (ScaleAbsProofs.rel_maybe_max_OF k Hk); try assumption;
      apply (ScaleAbsProofs.arel_opt_or L); cbn [op_rel]; assumption.
  Qed.

  Lemma rel_abs_query_input ac ac' nis nis' s s' : ScaleAbs.flexc_rel k ac ac' -> sz_rel O nis nis' -> fstyle_wrel k crow s s' ->
    fin_rel k (abs_query_input ac nis s) (abs_query_input ac' nis' s').
  Proof.
    intros Hac Hn Ws. wstyle_open Ws. pose proof (Wabs _ _ Hac) as Hi. unfold abs_query_input.
    set (i := AbsPosGen.flex_resolve ac (abs_style s)) in *. set (i' := AbsPosGen.flex_resolve ac' (abs_style s')) in *. clearbody i i'.
    pose proof (ScaleAbsProofs.rel_flex_known k Hk _ _ _ _ Hac Hi) as [Hkw Hkh]. pose proof (rel_abs_min_size _ _ Hi) as [Hmnw Hmnh].
    pose proof Hi as (_ & _ & _ & _ & _ & _ & _ & _ & [Hmxw Hmxh] & _). pose proof Hac as ([Hcw Hch] & _).
    apply fin_rel_mk; [split; assumption|exact Hn|].
    split; cbn [width height av_rel]; apply (ScaleAbsProofs.rel_maybe_clamp_FOO k Hk); assumption.
  Qed.

  Lemma rel_abs_layout ac ac' s s' order m m' c c' : ScaleAbs.flexc_rel k ac ac' -> fstyle_wrel k crow s s' -> sz_rel L m m' -> sz_rel L c c' ->
    flay_rel k (abs_layout ac s order m c) (abs_layout ac' s' order m' c').
  Proof.
    intros Hac Ws [Hmw Hmh] Hc. wstyle_open Ws. pose proof (Wabs _ _ Hac) as Hi. unfold abs_layout.
    set (i := AbsPosGen.flex_resolve ac (abs_style s)) in *. set (i' := AbsPosGen.flex_resolve ac' (abs_style s')) in *. clearbody i i'.
    assert (Hm : AS L (a_size m) (a_size m')) by (split; assumption).
    pose proof (ScaleAbsProofs.rel_flex_place k Hk _ _ _ _ _ _ Hac Hi Hm) as ([Hlx Hly] & [Hosw Hosh] & (M1 & M2 & M3 & M4)).
    pose proof Hi as (_ & _ & _ & (P1 & P2 & P3 & P4) & (B1 & B2 & B3 & B4) & _).
    unfold flay_rel. cbn [fl_order fl_location fl_size fl_content_size fl_scrollbar_size fl_border fl_padding fl_margin]. rewrite Wov.
    repeat match goal with |- _ /\ _ => split end; try reflexivity; try exact Hc;
      unfold pt_rel, sz_rel, rc_rel; cbn [c_point c_size c_rect px py width height r_left r_right r_top r_bottom];
      repeat match goal with |- _ /\ _ => split end; try assumption;
      match goal with |- context [if ?b then _ else _] => destruct b end; auto using sc_zero.
  Qed.

  Lemma rel_abs_step ac ac' x x' c c' o o' : ScaleAbs.flexc_rel k ac ac' -> absc_rel SR x x' -> sz_rel L c c' -> output_rel k o o' ->
    sz_rel L (abs_step ac x c o) (abs_step ac' x' c' o').
  Proof.
    intros Hac [En Hs] Hc (Hos & Hoc & _). pose proof (SR_weak _ _ Hs) as Ws. unfold abs_step. rewrite En.
    pose proof (rel_abs_layout ac ac' _ _ (fst x) _ _ _ _ Hac Ws Hos Hoc) as Hl.
    set (l := abs_layout ac (snd x) (fst x) (out_size o) (out_content_size o)) in *.
    set (l' := abs_layout ac' (snd x') (fst x) (out_size o') (out_content_size o')) in *. clearbody l l'.
    destruct Hl as (_ & [Hlx Hly] & [Hsw Hsh] & [Hcw Hch] & _). wstyle_open Ws. unfold abs_contribution. rewrite Wov.
    assert (Hw : L (match px (overflow (fs_core (snd x))) with Visible => fmax (width (fl_size l)) (width (fl_content_size l)) | _ => width (fl_size l) end)
                   (match px (overflow (fs_core (snd x))) with Visible => fmax (width (fl_size l')) (width (fl_content_size l')) | _ => width (fl_size l') end))
      by (destruct (px (overflow (fs_core (snd x)))); try assumption; apply (sc_max k); assumption).
    assert (Hh : L (match py (overflow (fs_core (snd x))) with Visible => fmax (height (fl_size l)) (height (fl_content_size l)) | _ => height (fl_size l) end)
                   (match py (overflow (fs_core (snd x))) with Visible => fmax (height (fl_size l')) (height (fl_content_size l')) | _ => height (fl_size l') end))
      by (destruct (py (overflow (fs_core (snd x)))); try assumption; apply (sc_max k); assumption).
    set (w := match px _ with Visible => _ | _ => width (fl_size l) end) in *. set (w' := match px _ with Visible => _ | _ => width (fl_size l') end) in *.
    set (h := match py _ with Visible => _ | _ => height (fl_size l) end) in *. set (h' := match py _ with Visible => _ | _ => height (fl_size l') end) in *.
    clearbody w w' h h'.
    rewrite (sc_gtb k _ _ zero zero Hk Hw (sc_zero k)), (sc_gtb k _ _ zero zero Hk Hh (sc_zero k)).
    destruct (gtb w zero && gtb h zero)%bool; [|exact Hc]. apply rel_size_f32_max; [exact Hc|]. split; cbn [width height]; apply sc_add; assumption.
  Qed.

  (* ---- outputs *)
  Lemma rel_mset_ZERO : mset_rel k margin_set_ZERO margin_set_ZERO.
  Proof. split; apply sc_zero. Qed.
  Lemma rel_out_of_sizes s s' c c' b b' : sz_rel L s s' -> sz_rel L c c' -> O b b' -> output_rel k (out_of_sizes s c b) (out_of_sizes s' c' b').
  Proof.
    intros Hs Hc Hb. unfold out_of_sizes, output_rel. cbn [out_size out_content_size first_baselines top_margin bottom_margin margins_can_collapse_through].
    split; [exact Hs|]. split; [exact Hc|]. split; [split; [exact I|exact Hb]|]. split; [apply rel_mset_ZERO|]. split; [apply rel_mset_ZERO|reflexivity].
  Qed.
  Lemma rel_from_outer_size s s' : sz_rel L s s' -> output_rel k (from_outer_size s) (from_outer_size s').
  Proof. intros Hs. unfold from_outer_size. apply rel_out_of_sizes; [exact Hs|apply (rel_size_ZERO k)|exact I]. Qed.
  Lemma rel_hidden_child_input : fin_rel k hidden_child_input hidden_child_input.
  Proof. unfold hidden_child_input. apply fin_rel_mk; split; exact I. Qed.
  Lemma rel_f_with_order n : flay_rel k (f_with_order n) (f_with_order n).
  Proof. unfold f_with_order, flay_rel. cbn. repeat split; apply sc_zero. Qed.
End Final.

(* ------------------------------------------------------------------------------------------------ the whole algorithm *)
Section Whole.
  Variable k : Q.
  Hypothesis Hk : 0 < k.
  Variable SR : FStyle XQ -> FStyle XQ -> Prop.
  Variable crow : bool.        (* the direction of the container *)
  Hypothesis SR_weak : forall s s', SR s s' -> fstyle_wrel k crow s s'.
  Variables tau tau' : XQ.
  Variable prow : bool.        (* the direction of the container's own parent: irrelevant, nothing reads the container's flex_basis *)
  Notation L := (sc k).
  Notation O := (op_rel (sc k)).
  Notation A := (av_rel (sc k)).
  Notation WR := (witem_rel k SR).
  Notation Alg := (Engine.Alg (FIn XQ) (LayoutOutput XQ) (FLay XQ)).
  Notation AR := (AlgRel (FIn XQ) (LayoutOutput XQ) (FLay XQ) (fin_rel k) (output_rel k) (flay_rel k)).

  (* the floor is a length (and positive) -- or it cannot be reached: the main size of the container is not intrinsic *)
  Definition floor_ok (kc : Constants XQ) (av : Size (AvailableSpace XQ)) : Prop :=
    (sc k tau tau' /\ gtb tau zero = true) \/
    match s_main (k_row kc) (k_inner kc) with
    | Some _ => true
    | None => match main_branch kc av with MB_Intrinsic => false | _ => true end
    end = true.

  Ltac ap lem :=
    first [eapply (lem k Hk SR crow SR_weak) | eapply (lem k SR crow SR_weak) | eapply (lem k Hk SR SR_weak) | eapply (lem k Hk SR) | eapply (lem k SR SR_weak)
          | eapply (lem k SR) | eapply (lem k Hk) | eapply (lem k) | eapply lem].

  Lemma rel_determine_available_space kd kd' av av' kc kc' : sz_rel O kd kd' -> sz_rel A av av' -> kconst_rel k kc kc' ->
    sz_rel A (determine_available_space kd av kc) (determine_available_space kd' av' kc').
  Proof.
    intros [Hkw Hkh] [Haw Hah] Hc. kconst_open Hc. unfold determine_available_space.
    destruct Hkin as (I1 & I2 & I3 & I4). destruct Hkmar as (M1 & M2 & M3 & M4). unfold horizontal_axis_sum, vertical_axis_sum.
    split; cbn [width height]; hm k Hk.
  Qed.

  (* steps 6 .. end *)
  Lemma flex_after_main_size_rel s s' absl absl' flags inp inp' kc kc' av av' lens om om' im im' ws ws' :
    fstyle_wrel k prow s s' -> Forall2 (absc_rel SR) absl absl' -> fin_rel k inp inp' -> kconst_rel k kc kc' -> sz_rel A av av' ->
    L om om' -> L im im' -> Forall2 WR ws ws' ->
    AR (flex_after_main_size s absl flags inp kc av lens om im ws) (flex_after_main_size s' absl' flags inp' kc' av' lens om' im' ws').
  Proof.
    intros Ws Habs Hinp Hc Hav Hom Him Hws. unfold flex_after_main_size.
    pose proof Hinp as (Emode & Esz & Eax & Hkd & Hps & Hiav & Ecol). pose proof Hc as Hc0. kconst_open Hc. rewrite Ekr, Ekrev, Ekwr, Ekj.
    pose proof Ws as Ws0. wstyle_open Ws. pose proof (rel_scrollbar_gutter k s s' Wov Wsw) as Hgut.
    (* 6 *)
    assert (H6 : Forall2 WR (per_line lens (fun _ => resolve_line kc) ws) (per_line lens (fun _ => resolve_line kc') ws')).
    { apply per_line_rel; [|exact Hws]. intros _ ln ln' Hln. ap rel_resolve_line; assumption. }
    (* 7 *)
    apply (qmap_rel (fin_rel k) (output_rel k) (flay_rel k) (ans_rel k) (ans_of_rel k) WR w_node); try exact H6.
    { apply wr_node. }
    { intros w w' Hw. ap rel_hyp_cross_asks; assumption. }
    { intros w w' a a' Hw Ha. ap rel_hyp_cross_upd; assumption. }
    intros ws7 ws7' H7.
    (* calculate_children_base_lines *)
    assert (H7b : Forall2 WR (per_line lens (fun _ => mark_baseline_line kc) ws7) (per_line lens (fun _ => mark_baseline_line kc') ws7')).
    { apply per_line_rel; [|exact H7]. intros _ ln ln' Hln. ap rel_mark_baseline_line; assumption. }
    apply (qmap_rel (fin_rel k) (output_rel k) (flay_rel k) (ans_rel k) (ans_of_rel k) WR w_node); try exact H7b.
    { apply wr_node. }
    { intros w w' Hw. ap rel_baseline_asks; assumption. }
    { intros w w' a a' Hw Ha. ap rel_baseline_upd; assumption. }
    intros ws8 ws8' H8.
    (* 8, 9 *)
    pose proof (rel_calc_cross_sizes k Hk SR _ _ _ _ _ _ Hc0 Hkd (regroup_rel WR lens _ _ H8)) as Hcs0.
    pose proof (rel_handle_align_content_stretch k Hk _ _ _ _ _ _ Hc0 Hkd Hcs0) as Hcs.
    set (cs := handle_align_content_stretch kc (qi_known inp) _) in *. set (cs' := handle_align_content_stretch kc' (qi_known inp') _) in *.
    clearbody cs cs'. clear Hcs0.
    (* 11 *)
    assert (H11 : Forall2 WR (per_line lens (fun i => map (used_cross_upd kc (nth_or cs i))) ws8)
                             (per_line lens (fun i => map (used_cross_upd kc' (nth_or cs' i))) ws8')).
    { apply per_line_rel; [|exact H8]. intros i ln ln' Hln. apply (rel_map WR WR); [|exact Hln]. intros w w' Hw.
      ap rel_used_cross_upd; try assumption. apply rel_nth_or. exact Hcs. }
    set (ws11 := per_line lens (fun i => map (used_cross_upd kc (nth_or cs i))) ws8) in *.
    set (ws11' := per_line lens (fun i => map (used_cross_upd kc' (nth_or cs' i))) ws8') in *. clearbody ws11 ws11'.
    (* 12 *)
    assert (H12 : Forall2 WR (per_line lens (fun _ => distribute_line kc im) ws11) (per_line lens (fun _ => distribute_line kc' im') ws11')).
    { apply per_line_rel; [|exact H11]. intros _ ln ln' Hln. ap rel_distribute_line; assumption. }
    set (ws12 := per_line lens (fun _ => distribute_line kc im) ws11) in *.
    set (ws12' := per_line lens (fun _ => distribute_line kc' im') ws11') in *. clearbody ws12 ws12'.
    (* 13, 14 *)
    assert (H13 : Forall2 WR (per_line lens (fun i ln => map (cross_margins_upd kc (nth_or cs i) (max_baseline_of ln)) ln) ws12)
                             (per_line lens (fun i ln => map (cross_margins_upd kc' (nth_or cs' i) (max_baseline_of ln)) ln) ws12')).
    { apply per_line_rel; [|exact H12]. intros i ln ln' Hln. apply (rel_map WR WR); [|exact Hln]. intros w w' Hw.
      ap rel_cross_margins_upd; try assumption; [apply rel_nth_or; exact Hcs|ap rel_max_baseline_of; exact Hln]. }
    set (ws13 := per_line lens (fun i ln => map (cross_margins_upd kc (nth_or cs i) (max_baseline_of ln)) ln) ws12) in *.
    set (ws13' := per_line lens (fun i ln => map (cross_margins_upd kc' (nth_or cs' i) (max_baseline_of ln)) ln) ws12') in *. clearbody ws13 ws13'.
    (* 15 *)
    destruct (rel_container_cross_size k Hk _ _ _ _ _ _ _ _ Hc0 Hgut Hkd Hcs) as (Hoc & Hic & Htl).
    destruct (container_cross_size kc (scrollbar_gutter s) (qi_known inp) cs) as [[oc ic] tl].
    destruct (container_cross_size kc' (scrollbar_gutter s') (qi_known inp') cs') as [[oc' ic'] tl']. cbn [fst snd] in Hoc, Hic, Htl.
    assert (Hsize : sz_rel L (s_of_mc (k_row kc) om oc) (s_of_mc (k_row kc) om' oc')) by (apply rel_s_of_mc; assumption).
    rewrite Emode. destruct (is_compute_size (qi_mode inp)); [apply AR_ret; apply rel_from_outer_size; exact Hsize|].
    (* 16 *)
    pose proof (regroup_rel WR lens _ _ H13) as Hlines.
    rewrite (units_eq (Forall2 WR) _ _ Hlines), (rel_zlen (Forall2 WR) _ _ Hlines).
    pose proof (rel_align_flex_lines k Hk _ _ _ _ _ _ (zlen (regroup lens ws13)) (map (fun _ => tt) (regroup lens ws13)) Hc0 Hic Htl) as Hoffs.
    pose proof (rel_final_walk k SR _ _ _ _ _ _ _ _ Hc0 Hlines Hoffs Hcs) as Hwalk.
    (* final_layout_pass *)
    apply (qsloop_rel (fin_rel k) (output_rel k) (flay_rel k) (walk_rel k SR) (fstate_rel k) wk_node); try exact Hwalk.
    { intros x x' (Hw & _). unfold wk_node. ap wr_node. exact Hw. }
    { intros x x' st st' Hx Hst. ap rel_final_input; assumption. }
    { intros x x' st st' o o' Hx Hst Ho. ap rel_final_layout; assumption. }
    { intros x x' st st' o o' Hx Hst Ho. ap rel_final_step; assumption. }
    { split; cbn [fst snd]; [split; cbn [fc_total_offset_main fc_baselines]; [apply sc_zero|constructor]|ap rel_size_ZERO]. }
    intros fin fin' [Hcore Hcont].
    pose proof (rel_inflow_content_size k _ _ _ _ _ _ Hc0 Hgut Hcont) as Hinflow.
    (* the absolute pass *)
    assert (Hac : ScaleAbs.flexc_rel k (abs_constants (s_of_mc (k_row kc) om oc) (k_border kc) (k_inset kc) (scrollbar_gutter s) (k_row kc) (k_reverse kc)
                                                       (k_wrap_reverse kc) (k_justify kc) (container_align_items s))
                                       (abs_constants (s_of_mc (k_row kc) om' oc') (k_border kc') (k_inset kc') (scrollbar_gutter s') (k_row kc) (k_reverse kc)
                                                       (k_wrap_reverse kc) (k_justify kc) (container_align_items s'))).
    { unfold container_align_items. rewrite Wai. apply rel_abs_constants; assumption. }
    set (ac := abs_constants _ (k_border kc) _ _ _ _ _ _ _) in *. set (ac' := abs_constants _ (k_border kc') _ _ _ _ _ _ _) in *. clearbody ac ac'.
    apply (qsloop_rel (fin_rel k) (output_rel k) (flay_rel k) (absc_rel SR) (sz_rel L) fst); try exact Habs.
    { intros x x' [E _]. exact E. }
    { intros x x' st st' [_ Hx] _. ap rel_abs_query_input; [exact Hac|exact Hki|apply SR_weak; exact Hx]. }
    { intros x x' st st' o o' [E Hx] _ (Hos & Hoc2 & _). rewrite E. ap rel_abs_layout; [exact Hac|apply SR_weak; exact Hx|exact Hos|exact Hoc2]. }
    { intros x x' st st' o o' Hx Hst Ho. ap rel_abs_step; assumption. }
    { ap rel_size_ZERO. }
    intros absc absc' Habsc.
    (* the hidden pass *)
    apply hidden_pass_rel; [apply rel_hidden_child_input|apply rel_f_with_order|].
    apply AR_ret. apply rel_out_of_sizes; [exact Hsize|apply rel_size_f32_max; assumption|apply rel_first_vertical_baseline; exact Hcore].
  Qed.

  Lemma flex_core_t_rel s s' inp inp' kc kc' items items' absl absl' flags :
    floor_ok kc (determine_available_space (qi_known inp) (qi_avail inp) kc) -> k_row kc = crow ->
    fstyle_wrel k prow s s' -> fin_rel k inp inp' -> kconst_rel k kc kc' -> Forall2 WR items items' -> Forall2 (absc_rel SR) absl absl' ->
    AR (flex_core_t tau s inp kc items absl flags) (flex_core_t tau' s' inp' kc' items' absl' flags).
  Proof.
    intros Hfloor Ecrow Ws Hinp Hc Hit Habs. unfold flex_core_t.
    pose proof Hinp as (Emode & Esz & Eax & Hkd & Hps & Hiav & Ecol). pose proof Hc as Hc0. kconst_open Hc. rewrite Ekr, Ekw.
    pose proof Ws as Ws0. wstyle_open Ws. pose proof (rel_scrollbar_gutter k s s' Wov Wsw) as Hgut.
    pose proof (rel_determine_available_space _ _ _ _ _ _ Hkd Hiav Hc0) as Hav.
    unfold floor_ok in Hfloor.
    set (av := determine_available_space (qi_known inp) (qi_avail inp) kc) in *.
    set (av' := determine_available_space (qi_known inp') (qi_avail inp') kc') in *. clearbody av av'.
    (* 3 *)
    apply (qmap_rel (fin_rel k) (output_rel k) (flay_rel k) (ans_rel k) (ans_of_rel k) WR w_node); try exact Hit.
    { apply wr_node. }
    { intros w w' Hw. ap rel_base_asks; assumption. }
    { intros w w' a a' Hw Ha. ap rel_base_upd; assumption. }
    intros ws ws' Hws.
    (* 5 *)
    assert (Hlines : Forall2 (Forall2 WR)
              (collect_flex_lines (fun w => fi_hyp_outer (w_fi w)) (k_wrap kc) (s_main (k_row kc) (k_max kc)) (s_main (k_row kc) (k_min kc))
                                  (s_main (k_row kc) av) (s_main (k_row kc) (k_gap kc)) ws)
              (collect_flex_lines (fun w => fi_hyp_outer (w_fi w)) (k_wrap kc) (s_main (k_row kc) (k_max kc')) (s_main (k_row kc) (k_min kc'))
                                  (s_main (k_row kc) av') (s_main (k_row kc) (k_gap kc')) ws')).
    { apply (rel_collect_flex_lines k Hk WR); try (apply rel_s_main; assumption); [|exact Hws].
      intros w w' Hw. w_open Hw. item_open Hwfi. assumption. }
    rewrite (Forall2_lengths WR _ _ Hlines).
    set (lens := map (@length WItem) (collect_flex_lines _ (k_wrap kc) (s_main (k_row kc) (k_max kc)) _ _ _ ws)). clearbody lens. clear Hlines.
    pose proof (rel_s_main O (k_row kc) _ _ Hki) as Him.
    destruct (s_main (k_row kc) (k_inner kc)) as [im|], (s_main (k_row kc) (k_inner kc')) as [im'|]; cbn [op_rel] in Him; try contradiction.
    - apply flex_after_main_size_rel; try assumption. apply sc_add; [exact Him|]. ap rel_main_axis_sum. exact Hkin.
    - pose proof (rel_main_axis_sum k (k_row kc) _ _ Hkin) as Hinset.
      assert (Hcont : forall ws ws' o o', Forall2 WR ws ws' -> L o o' ->
                AR (let '(outer_main, inner_main) := finish_main_size kc (scrollbar_gutter s) o in
                    flex_after_main_size s absl flags inp (with_main_size s kc outer_main inner_main) av lens outer_main inner_main ws)
                   (let '(outer_main, inner_main) := finish_main_size kc' (scrollbar_gutter s') o' in
                    flex_after_main_size s' absl' flags inp' (with_main_size s' kc' outer_main inner_main) av' lens outer_main inner_main ws')).
      { intros xs xs' o o' Hxs Ho. destruct (rel_finish_main_size k Hk _ _ _ _ _ _ Hc0 Hgut Ho) as [H1 H2].
        destruct (finish_main_size kc (scrollbar_gutter s) o) as [a b], (finish_main_size kc' (scrollbar_gutter s') o') as [a' b']. cbn [fst snd] in H1, H2.
        apply flex_after_main_size_rel; try assumption. ap rel_with_main_size; eassumption. }
      pose proof (rel_main_branch k _ _ _ _ Hc0 Hav) as Hmb.
      destruct (main_branch kc av) as [a| |], (main_branch kc' av') as [a'| |]; cbn [mb_rel] in Hmb; try contradiction.
      + pose proof (regroup_rel WR lens _ _ Hws) as Hl. apply Hcont; [exact Hws|]. rewrite (rel_length (Forall2 WR) _ _ Hl).
        assert (Hsz : L (longest_line_length kc (regroup lens ws) + main_axis_sum (k_row kc) (k_inset kc))%num
                        (longest_line_length kc' (regroup lens ws') + main_axis_sum (k_row kc) (k_inset kc'))%num)
          by (apply sc_add; [ap rel_longest_line_length; assumption|exact Hinset]).
        destruct (Nat.ltb 1 (length (regroup lens ws))); [apply (sc_max k); assumption|exact Hsz].
      + apply Hcont; [exact Hws|]. apply sc_add; [|exact Hinset]. ap rel_longest_line_length; [exact Hc0|]. apply regroup_rel. exact Hws.
      + destruct Hfloor as [[Htau Htau_pos]|Hni]; [|discriminate Hni].
        apply (qmap_rel (fin_rel k) (output_rel k) (flay_rel k) (ans_rel k) (ans_of_rel k) WR w_node); try exact Hws.
        { apply wr_node. }
        { intros w w' Hw. ap rel_intrinsic_asks; assumption. }
        { intros w w' a a' Hw Ha. apply (rel_intrinsic_upd k Hk SR crow SR_weak tau tau' Htau Htau_pos); assumption. }
        intros xs xs' Hxs. apply Hcont; [exact Hxs|]. apply sc_add; [|exact Hinset].
        ap rel_intrinsic_main_size; [exact Hc0|]. apply regroup_rel. exact Hxs.
  Qed.

  Theorem flex_alg_t_rel s s' st st' i i' :
    (sc k tau tau' /\ gtb tau zero = true) \/ flex_main_not_intrinsic s i = true -> fs_row s = crow ->
    fstyle_wrel k prow s s' -> Forall2 SR st st' -> fin_rel k i i' ->
    AR (flex_alg_t tau s st i) (flex_alg_t tau' s' st' i').
  Proof.
    intros Hfloor Ecrow Ws Hst Hi. unfold flex_main_not_intrinsic in Hfloor. pose proof Ws as Ws0. wstyle_open Ws.
    pose proof Hi as (Emode & Esz & Eax & Hkd & Hps & Hiav & Ecol). unfold flex_alg_t. rewrite Emode, Esz.
    pose proof (Wkd _ _ _ _ (qi_sizing i) Hkd Hps) as Hskd.
    set (kd := styled_known_dimensions (to_cstyle s) (qi_known i) (qi_parent i) (qi_sizing i)) in *.
    set (kd' := styled_known_dimensions (to_cstyle s') (qi_known i') (qi_parent i') (qi_sizing i)) in *. clearbody kd kd'.
    cbv zeta in Hfloor.
    assert (Hprel : AR (flex_preliminary_t tau s st (mkFIn (qi_mode i) (qi_sizing i) (qi_axis i) kd (qi_parent i) (qi_avail i) (qi_collapsible i)))
                       (flex_preliminary_t tau' s' st' (mkFIn (qi_mode i) (qi_sizing i) (qi_axis i') kd' (qi_parent i') (qi_avail i') (qi_collapsible i')))).
    { unfold flex_preliminary_t. cbn [qi_known qi_parent]. pose proof (Wconst _ _ _ _ Hskd Hps) as Hc.
      unfold container_align_items. rewrite Wai, (rel_hidden_flags k SR crow SR_weak _ _ Hst).
      apply flex_core_t_rel; try assumption.
      - rewrite Eax, Ecol. apply fin_rel_mk; assumption.
      - ap rel_flex_items; assumption.
      - ap rel_abs_children. exact Hst. }
    destruct Hskd as [Hw Hh].
    destruct (is_compute_size (qi_mode i)); [|exact Hprel].
    destruct (width kd) as [w|], (width kd') as [w'|]; cbn [op_rel] in Hw; try contradiction; [|exact Hprel].
    destruct (height kd) as [h|], (height kd') as [h'|]; cbn [op_rel] in Hh; try contradiction; [|exact Hprel].
    apply AR_ret. apply rel_from_outer_size. split; assumption.
  Qed.
End Whole.

(* the model's function is the floor-parametrised one at the source's constant *)
Lemma flex_alg_t_one {T} `{Num T} (s : FStyle T) st i : flex_alg_t one s st i = flex_alg s st i.
Proof. reflexivity. Qed.
