(* The flex resumption (Model/FlexAlg.v `flex_alg`) satisfies the interface premises of the engine-level theorems of C05 / C06:

     flex_alg_hidden_blind   HiddenBlind (Proofs/EngineBlind.v): it reads its children's styles through `f_hidden_view`, which sends
                             every display:none style to ONE bare display:none style
     flex_alg_abs_blind      AbsBlind (Proofs/EngineAbs.v) for ab = "box-generating and position:absolute", oeq / leq = equality up to
                             content_size: on child-style lists that agree except at such children the two runs are bisimilar -- the same
                             queries with the same inputs to every other child, answer for answer up to content_size; the same stored
                             layouts up to content_size; outputs equal up to content_size; arbitrary traffic with the absolute children
                             themselves

   Any `Num` instance; no arithmetic fact is used: the two runs share the item list (the translated pipeline drops absolute and
   display:none children before anything is computed), and the answers enter the in-flow computation only through `ans_of`. *)
From Coq Require Import ZArith Bool List Lia.
From TV Require Import Model.Common Model.Leaf Gen.FlexGen Model.Flex Model.FlexLines Model.FlexBase Model.FlexContainer.
From TV Require Import Model.FiltersBase Gen.FiltersGen Model.ItemFilters Model.FlexAlgBase Model.FlexAlgAbs Model.FlexAlg.
From TV Require Import Proofs.FlexAlgStruct Proofs.FlexAlgShape.
From TV Require Import Model.Engine Proofs.EngineMemo Proofs.EngineBlind Proofs.EngineAbs.
Import ListNotations.
Close Scope Z_scope.

Section FlexBlind.
  Context {T : Type} `{Num T}.
  Notation Out := (LayoutOutput T).
  Notation FS := (FStyle T).
  Notation W := (@WItem T).
  Notation Alg := (Engine.Alg (FIn T) Out (FLay T)).
  Notation Ret := (Engine.Ret (FIn T) Out (FLay T)).
  Notation Query := (Engine.Query (FIn T) Out (FLay T)).
  Notation SetLayout := (Engine.SetLayout (FIn T) Out (FLay T)).
  Notation Bis := (ABis (FIn T) Out (FLay T) fout_eq flay_eq).

  Lemma fout_eq_refl (o : Out) : fout_eq o o.
  Proof. repeat split. Qed.
  Lemma flay_eq_refl (l : FLay T) : flay_eq l l.
  Proof. repeat split. Qed.
  Lemma fout_eq_ans (o o' : Out) : fout_eq o o' -> ans_of o = ans_of o'.
  Proof. intros (A & B & _). unfold ans_of. rewrite A, B. reflexivity. Qed.

  (* ------------------------------------------------------------------ what flex_alg derives from the child-style list *)

  (* styles a flex parent may not distinguish: display:none on both sides (C05) / box-generating absolute on both sides (C06) *)
  Definition fnone_rel (a b : FS) : Prop := a = b \/ (f_is_none a = true /\ f_is_none b = true).
  Definition fva_rel (a b : FS) : Prop := a = b \/ (f_visible_absolute a = true /\ f_visible_absolute b = true).

  Lemma fva_not_none (s : FS) : f_visible_absolute s = true -> s_hidden f_bgm s = false.
  Proof. unfold f_visible_absolute, s_visible_absolute. destruct (s_hidden f_bgm s); [discriminate|reflexivity]. Qed.
  Lemma fva_absolute (s : FS) : f_visible_absolute s = true -> s_absolute f_position s = true.
  Proof. unfold f_visible_absolute, s_visible_absolute. destruct (s_hidden f_bgm s); [discriminate|]. cbn. intros ->. reflexivity. Qed.

  Lemma in_flow_enum_none_rel (st st' : list FS) : Forall2 fnone_rel st st' ->
    forall n, in_flow_enum (@f_position T) (@f_bgm T) (fun s => s) n st = in_flow_enum (@f_position T) (@f_bgm T) (fun s => s) n st'.
  Proof.
    unfold in_flow_enum. induction 1 as [|a b l l' Hab Hl IH]; intros n; [reflexivity|].
    cbn [g_enumerate_from filter snd]. destruct Hab as [<-|[A B]]; [rewrite IH; reflexivity|].
    unfold f_is_none in A, B. unfold s_in_flow. rewrite A, B. cbn [negb andb]. apply IH.
  Qed.
  Lemma in_flow_enum_va_rel (st st' : list FS) : Forall2 fva_rel st st' ->
    forall n, in_flow_enum (@f_position T) (@f_bgm T) (fun s => s) n st = in_flow_enum (@f_position T) (@f_bgm T) (fun s => s) n st'.
  Proof.
    unfold in_flow_enum. induction 1 as [|a b l l' Hab Hl IH]; intros n; [reflexivity|].
    cbn [g_enumerate_from filter snd]. destruct Hab as [<-|[A B]]; [rewrite IH; reflexivity|].
    unfold s_in_flow. rewrite (fva_absolute _ A), (fva_absolute _ B), !andb_false_r. apply IH.
  Qed.

  Lemma flex_items_none_rel k ai (st st' : list FS) : Forall2 fnone_rel st st' -> flex_items k ai st = flex_items k ai st'.
  Proof.
    intros Hr. unfold flex_items. rewrite !(flex_generate_items_nf (@f_position T) (@f_bgm T)), (in_flow_enum_none_rel st st' Hr). reflexivity.
  Qed.
  Lemma flex_items_va_rel k ai (st st' : list FS) : Forall2 fva_rel st st' -> flex_items k ai st = flex_items k ai st'.
  Proof.
    intros Hr. unfold flex_items. rewrite !(flex_generate_items_nf (@f_position T) (@f_bgm T)), (in_flow_enum_va_rel st st' Hr). reflexivity.
  Qed.

  Lemma hidden_flags_none_rel (st st' : list FS) : Forall2 fnone_rel st st' -> hidden_flags st = hidden_flags st'.
  Proof.
    unfold hidden_flags. induction 1 as [|a b l l' Hab Hl IH]; [reflexivity|]. cbn [map]. rewrite IH.
    destruct Hab as [<-|[A B]]; [reflexivity|]. unfold f_is_none in A, B. rewrite A, B. reflexivity.
  Qed.
  Lemma hidden_flags_va_rel (st st' : list FS) : Forall2 fva_rel st st' -> hidden_flags st = hidden_flags st'.
  Proof.
    unfold hidden_flags. induction 1 as [|a b l l' Hab Hl IH]; [reflexivity|]. cbn [map]. rewrite IH.
    destruct Hab as [<-|[A B]]; [reflexivity|]. rewrite (fva_not_none _ A), (fva_not_none _ B). reflexivity.
  Qed.

  Lemma abs_children_none_rel (st st' : list FS) : Forall2 fnone_rel st st' -> abs_children st = abs_children st'.
  Proof.
    unfold abs_children, g_enumerate. generalize 0. intros n Hr. revert n.
    induction Hr as [|a b l l' Hab Hl IH]; intros n; [reflexivity|].
    cbn [g_enumerate_from filter snd]. destruct Hab as [<-|[A B]]; [rewrite IH; reflexivity|].
    unfold f_is_none in A, B. rewrite A, B. cbn [orb negb]. apply IH.
  Qed.
  (* the absolute pass visits the same positions on both sides (with possibly different styles) *)
  Lemma abs_children_va_rel (st st' : list FS) : Forall2 fva_rel st st' ->
    Forall2 (fun x y => fst x = fst y) (abs_children st) (abs_children st').
  Proof.
    unfold abs_children, g_enumerate. generalize 0. intros n Hr. revert n.
    induction Hr as [|a b l l' Hab Hl IH]; intros n; [constructor|].
    cbn [g_enumerate_from filter snd]. destruct Hab as [<-|[A B]].
    - destruct (negb _); [constructor; [reflexivity|apply IH]|apply IH].
    - rewrite (fva_not_none _ A), (fva_not_none _ B), (fva_absolute _ A), (fva_absolute _ B). cbn [orb negb].
      constructor; [reflexivity|apply IH].
  Qed.

  (* ------------------------------------------------------------------ the two child loops of the model ARE the source's *)

  (* Model/FlexAlg.v `hidden_flags` / `abs_children` are the predicates TRANSLATED from the hidden loop of compute_preliminary and from
     the `continue` test of perform_absolute_layout_on_absolute_children; the translator also checks (syntactically) that the hidden loop's
     calls are the canonical query + with_order(order), and that every other tree call of flexbox.rs addresses `<item>.node` *)
  Lemma flex_loops_are_generated (st : list FS) :
    hidden_flags st = map (fun s => flex_hidden_pass_visits (f_bgm s) (f_position s)) st /\
    abs_children st = filter (fun c => negb (flex_absolute_pass_skips (@f_position T) (@f_bgm T) (snd c))) (g_enumerate st) /\
    flex_hidden_pass_is_canonical = true /\ flex_tree_calls_address_item_only = true.
  Proof.
    split; [|split; [|split; reflexivity]].
    - unfold hidden_flags. apply map_ext. intros s. unfold s_hidden, g_is_none, flex_hidden_pass_visits. reflexivity.
    - unfold abs_children. apply filter_ext. intros c. unfold s_hidden, s_absolute, g_is_none, g_is_absolute, flex_absolute_pass_skips.
      reflexivity.
  Qed.

  (* ------------------------------------------------------------------ C05: HiddenBlind *)

  Lemma bare_none_is_none : f_is_none (bare_none_fstyle (T := T)) = true.
  Proof. reflexivity. Qed.

  Lemma f_hidden_view_rel (st : list FS) : Forall2 fnone_rel st (map f_hidden_view st).
  Proof.
    induction st as [|s l IH]; [constructor|]. cbn [map]. constructor; [|exact IH].
    unfold f_hidden_view. destruct (f_is_none s) eqn:E; [right; split; [exact E|apply bare_none_is_none]|left; reflexivity].
  Qed.

  Lemma flex_alg_none_rel s (st st' : list FS) i : Forall2 fnone_rel st st' -> flex_alg s st i = flex_alg s st' i.
  Proof.
    intros Hr. unfold flex_alg, flex_preliminary.
    rewrite !(flex_items_none_rel _ _ st st' Hr), (abs_children_none_rel st st' Hr), (hidden_flags_none_rel st st' Hr). reflexivity.
  Qed.

  Theorem flex_alg_hidden_blind : HiddenBlind FS (FIn T) Out (FLay T) f_is_none flex_alg.
  Proof.
    exists FS, f_hidden_view, flex_alg. split.
    - intros a b Ha Hb. unfold f_hidden_view. rewrite Ha, Hb. reflexivity.
    - intros s st i. apply flex_alg_none_rel. apply f_hidden_view_rel.
  Qed.

  (* ------------------------------------------------------------------ C06: AbsBlind *)

  Section Bisim.
    Variable m : nat -> bool.                 (* which children are out of flow (abmask) *)

    Lemma qseq_bis c (Hc : m c = false) : forall is acc (k k' : list Ans -> Alg),
      (forall answers, Bis m (k answers) (k' answers)) -> Bis m (qseq c is acc k) (qseq c is acc k').
    Proof.
      induction is as [|i r IH]; intros acc k k' Hk; cbn [qseq]; [apply Hk|].
      apply AB_query; [exact Hc|]. intros o o' Ho. rewrite (fout_eq_ans o o' Ho). apply IH. exact Hk.
    Qed.

    Definition NodesOK (ws : list W) : Prop := Forall (fun w => m (w_node w) = false) ws.

    Lemma nodes_ok_keys (ws ws' : list W) : map w_key ws' = map w_key ws -> NodesOK ws -> NodesOK ws'.
    Proof.
      intros E Hws. apply keys_nodes in E. unfold NodesOK in *. rewrite Forall_forall in *. intros w Hw.
      assert (Hin : In (w_node w) (map w_node ws)) by (rewrite <- E; apply in_map; exact Hw).
      apply in_map_iff in Hin. destruct Hin as [w0 [E0 Hw0]]. rewrite <- E0. apply Hws. exact Hw0.
    Qed.

    Lemma qmap_bis (asks : W -> list (FIn T)) (upd : W -> list Ans -> W) : (forall w a, w_key (upd w a) = w_key w) ->
      forall ws (k k' : list W -> Alg),
      NodesOK ws -> (forall r, map w_key r = map w_key ws -> Bis m (k r) (k' r)) ->
      Bis m (qmap w_node asks upd ws k) (qmap w_node asks upd ws k').
    Proof.
      intros Hupd. induction ws as [|w r IH]; intros k k' Hm Hk; cbn [qmap]; [apply Hk; reflexivity|].
      inversion Hm as [|? ? Hm1 Hmr]; subst. apply qseq_bis; [exact Hm1|]. intros answers. apply IH; [exact Hmr|].
      intros r' Hr'. apply Hk. cbn [map]. rewrite Hupd, Hr'. reflexivity.
    Qed.

    (* the final pass: the geometry (core) is the same on both sides, the content-size accumulator may differ *)
    Lemma final_bis kc container_size : forall (ws : list (@WalkItem T)) (st st' : FinalState) (k k' : FinalState -> Alg),
      Forall (fun x => m (wk_node x) = false) ws -> fst st = fst st' ->
      (forall f f', fst f = fst f' -> Bis m (k f) (k' f')) ->
      Bis m (qsloop wk_node (fun x _ => final_input kc container_size x) (final_layout kc) (final_step kc) ws st k)
            (qsloop wk_node (fun x _ => final_input kc container_size x) (final_layout kc) (final_step kc) ws st' k').
    Proof.
      induction ws as [|x r IH]; intros st st' k k' Hm Hst Hk; cbn [qsloop]; [apply Hk; exact Hst|].
      inversion Hm as [|? ? Hm1 Hmr]; subst.
      apply AB_query; [exact Hm1|]. intros o o' Ho. pose proof (fout_eq_ans o o' Ho) as Ea. destruct Ho as (Es & _).
      apply AB_set; [exact Hm1| |].
      - unfold final_layout, flay_eq. cbn [fl_order fl_location fl_size fl_scrollbar_size fl_border fl_padding fl_margin].
        rewrite Hst, Ea, Es. repeat split.
      - apply IH; [exact Hmr| |exact Hk]. unfold final_step. cbn [fst]. rewrite Hst, Ea. reflexivity.
    Qed.

    (* the absolute pass: arbitrary traffic with out-of-flow children on both sides *)
    Lemma abs_bis (ask ask' : nat * FS -> Size T -> FIn T) lay lay' step step' :
      forall (l l' : list (nat * FS)), Forall2 (fun x y => fst x = fst y) l l' -> Forall (fun x => m (fst x) = true) l ->
      forall (k k' : Size T -> Alg), (forall v v', Bis m (k v) (k' v')) -> forall c c',
      Bis m (qsloop fst ask lay step l c k) (qsloop fst ask' lay' step' l' c' k').
    Proof.
      induction 1 as [|x y l l' Hxy Hl IH]; intros Hm k k' Hk c c'; cbn [qsloop]; [apply Hk|].
      inversion Hm as [|? ? Hm1 Hmr]; subst.
      apply AB_query_l; [exact Hm1|]. intros o. apply AB_set_l; [exact Hm1|].
      apply AB_query_r; [rewrite <- Hxy; exact Hm1|]. intros o'. apply AB_set_r; [rewrite <- Hxy; exact Hm1|].
      apply IH; assumption.
    Qed.

    (* the hidden pass: the same canonical traffic with the display:none children, which are not out of flow *)
    Lemma hidden_pass_bis (k k' : Alg) : Bis m k k' -> forall flags order,
      (forall i, nth_error flags i = Some true -> m (order + i) = false) ->
      Bis m (hidden_pass flags order k) (hidden_pass flags order k').
    Proof.
      intros Hk. induction flags as [|h flags IH]; intros order Hm; cbn [hidden_pass]; [exact Hk|].
      assert (Hm' : forall i, nth_error flags i = Some true -> m (Datatypes.S order + i) = false).
      { intros i Hi. replace (Datatypes.S order + i) with (order + Datatypes.S i) by lia. apply Hm. exact Hi. }
      destruct h; [|apply IH; exact Hm'].
      assert (M : m order = false) by (replace order with (order + 0) by lia; apply Hm; reflexivity).
      apply AB_query; [exact M|]. intros _ _ _. apply AB_set; [exact M|apply flay_eq_refl|]. apply IH. exact Hm'.
    Qed.

    Lemma flex_after_main_size_bis s absl absl' flags inp k av lens om im (ws : list W) :
      NodesOK ws ->
      Forall2 (fun x y => fst x = fst y) absl absl' -> Forall (fun x => m (fst x) = true) absl ->
      (forall i, nth_error flags i = Some true -> m (0 + i) = false) ->
      Bis m (flex_after_main_size s absl flags inp k av lens om im ws) (flex_after_main_size s absl' flags inp k av lens om im ws).
    Proof.
      intros Hws Habs Hma Hfl. unfold flex_after_main_size.
      set (ws1 := per_line lens (fun _ => resolve_line k) ws).
      assert (G1 : NodesOK ws1).
      { eapply nodes_ok_keys; [|exact Hws]. apply map_per_line. intros _ ln. apply keys_resolve_line. }
      apply qmap_bis; [apply key_hyp_cross_upd|exact G1|]. intros ws2 E2.
      assert (G2 : NodesOK ws2) by (eapply nodes_ok_keys; eassumption).
      set (ws3 := per_line lens (fun _ => mark_baseline_line k) ws2).
      assert (G3 : NodesOK ws3).
      { eapply nodes_ok_keys; [|exact G2]. apply map_per_line. intros _ ln. apply keys_mark_baseline_line. }
      apply qmap_bis; [apply key_baseline_upd|exact G3|]. intros ws4 E4.
      assert (G4 : NodesOK ws4) by (eapply nodes_ok_keys; eassumption).
      cbv zeta.
      set (cs := handle_align_content_stretch k (qi_known inp) (calc_cross_sizes k (qi_known inp) (regroup lens ws4))).
      set (ws5 := per_line lens (fun i0 => map (used_cross_upd k (nth_or cs i0))) ws4).
      assert (G5 : NodesOK ws5).
      { eapply nodes_ok_keys; [|exact G4]. apply map_per_line. intros i0 ln. apply keys_map_used_cross. }
      set (ws6 := per_line lens (fun _ => distribute_line k im) ws5).
      assert (G6 : NodesOK ws6).
      { eapply nodes_ok_keys; [|exact G5]. apply map_per_line. intros _ ln. apply keys_distribute_line. }
      set (ws7 := per_line lens (fun i0 ln => map (cross_margins_upd k (nth_or cs i0) (max_baseline_of ln)) ln) ws6).
      assert (G7 : NodesOK ws7).
      { eapply nodes_ok_keys; [|exact G6]. apply map_per_line. intros i0 ln. apply keys_map_cross_margins. }
      destruct (container_cross_size k (scrollbar_gutter s) (qi_known inp) cs) as [[outer_cross inner_cross] total].
      destruct (is_compute_size (qi_mode inp)); [apply AB_ret; apply fout_eq_refl|].
      apply final_bis; [|reflexivity|].
      { apply Forall_forall. intros x Hx.
        assert (Hin : In (wk_node x) (map w_node (concat (regroup lens ws7)))) by (eapply final_walk_nodes; apply in_map; exact Hx).
        rewrite concat_regroup in Hin. apply in_map_iff in Hin. destruct Hin as [w [E Hw]]. rewrite <- E.
        unfold NodesOK in G7. rewrite Forall_forall in G7. apply G7. exact Hw. }
      intros f f' Ef. apply abs_bis; [exact Habs|exact Hma|]. intros v v'.
      apply hidden_pass_bis; [|exact Hfl].
      apply AB_ret. unfold fout_eq, out_of_sizes. cbn. rewrite Ef. repeat split.
    Qed.

    Lemma flex_core_bis s inp k items absl absl' flags :
      NodesOK items ->
      Forall2 (fun x y => fst x = fst y) absl absl' -> Forall (fun x => m (fst x) = true) absl ->
      (forall i, nth_error flags i = Some true -> m (0 + i) = false) ->
      Bis m (flex_core s inp k items absl flags) (flex_core s inp k items absl' flags).
    Proof.
      intros Hit Habs Hma Hfl. unfold flex_core.
      apply qmap_bis; [apply key_base_upd|exact Hit|]. intros ws1 E1.
      assert (G1 : NodesOK ws1) by (eapply nodes_ok_keys; eassumption).
      cbv zeta.
      destruct (s_main (k_row k) (k_inner k)) as [inner|]; [apply flex_after_main_size_bis; assumption|].
      destruct (main_branch k _) as [a| |].
      - destruct (finish_main_size k (scrollbar_gutter s) _) as [om im]. apply flex_after_main_size_bis; assumption.
      - destruct (finish_main_size k (scrollbar_gutter s) _) as [om im]. apply flex_after_main_size_bis; assumption.
      - apply qmap_bis; [apply key_intrinsic_upd|exact G1|]. intros ws2 E2.
        assert (G2 : NodesOK ws2) by (eapply nodes_ok_keys; eassumption).
        destruct (finish_main_size k (scrollbar_gutter s) _) as [om im]. apply flex_after_main_size_bis; assumption.
    Qed.
  End Bisim.

  Notation fmask := (abmask FS f_visible_absolute).

  Lemma mask_in_flow (st : list FS) c : in_flow_at st c -> fmask st c = false.
  Proof.
    intros (sc & E & A & B). unfold abmask. rewrite E. unfold f_visible_absolute, s_visible_absolute. rewrite A, B. reflexivity.
  Qed.

  Lemma flex_preliminary_bis s (st st' : list FS) inp : Forall2 fva_rel st st' ->
    Bis (fmask st) (flex_preliminary s st inp) (flex_preliminary s st' inp).
  Proof.
    intros Hr. unfold flex_preliminary.
    rewrite <- (flex_items_va_rel _ _ st st' Hr), <- (hidden_flags_va_rel st st' Hr).
    apply flex_core_bis.
    - apply Forall_forall. intros w Hw. apply mask_in_flow.
      eapply (proj1 (flex_items_good s _ st)). apply in_map. exact Hw.
    - apply abs_children_va_rel. exact Hr.
    - apply Forall_forall. intros x Hx. destruct (abs_children_sound st x Hx) as (E & A & B).
      unfold abmask. rewrite E. unfold f_visible_absolute, s_visible_absolute. rewrite A, B. reflexivity.
    - intros j Hj. cbn [Nat.add]. unfold abmask. unfold hidden_flags in Hj. rewrite nth_error_map in Hj.
      destruct (nth_error st j) as [sc|]; [|reflexivity]. cbn in Hj. injection Hj as Hj.
      unfold f_visible_absolute, s_visible_absolute. rewrite Hj. reflexivity.
  Qed.

  Theorem flex_alg_abs_bis s (st st' : list FS) i : Forall2 fva_rel st st' -> Bis (fmask st) (flex_alg s st i) (flex_alg s st' i).
  Proof.
    intros Hr. unfold flex_alg.
    set (kd := styled_known_dimensions (to_cstyle s) (qi_known i) (qi_parent i) (qi_sizing i)).
    destruct (is_compute_size (qi_mode i)), (width kd), (height kd);
      first [apply AB_ret; apply fout_eq_refl | apply flex_preliminary_bis; exact Hr].
  Qed.

  Theorem flex_alg_abs_blind : AbsBlind FS (FIn T) Out (FLay T) flex_alg f_visible_absolute fout_eq flay_eq.
  Proof.
    intros s st st' i Hr. apply flex_alg_abs_bis.
    clear -Hr. induction Hr as [|a b l l' Hab Hl IH]; constructor; [|exact IH].
    destruct Hab as [->|[A B]]; [left; reflexivity|right; split; assumption].
  Qed.
End FlexBlind.
