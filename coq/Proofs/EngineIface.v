(* The interface hypotheses of the engine theorems of C01 / C15 (WFAlg, Visits = H1, SetsLast = H3, NoHiddenSize = HQ, SizeOnly = NS),
   generically: monotonicity in the pending set, the "one PerformLayout query, then the layout is stored" step, and transport along
   the constructions that assemble Model/TaffyEngine.v `taffy_algo` from the three container algorithms -- `lift` (another presentation
   of the tree interface), `style_comap` (a richer style type) and a dispatch on (own style, number of children). *)
From Coq Require Import Bool List Arith Lia.
From TV Require Import Model.Engine Model.EngineLayouts Model.EngineLift Proofs.EngineDirty Proofs.EngineNoScribble.
Import ListNotations.

Lemma incl_remove_nat (p p' : list nat) c : incl p' p -> incl (remove Nat.eq_dec c p') (remove Nat.eq_dec c p).
Proof. intros Hi x Hx. apply in_remove in Hx. destruct Hx as [Hx Hne]. apply in_in_remove; [exact Hne|apply Hi; exact Hx]. Qed.

Section Iface.
  Variables (In Out Lay : Type).
  Variable mode : In -> RunMode.
  Notation Alg := (Alg In Out Lay).
  Notation Vis := (Visits In Out Lay mode).
  Notation SL := (SetsLast In Out Lay).

  Lemma Vis_anti (a : Alg) : forall p, Vis p a -> forall p', incl p' p -> Vis p' a.
  Proof.
    induction a as [o|c i k IH|c l k IH]; intros p Hv p' Hi.
    - inversion Hv; subst. destruct p' as [|x r]; [apply Vis_ret|]. exfalso. apply (Hi x). left. reflexivity.
    - inversion Hv as [|? ? ? ? Hk|]; subst. apply Vis_query. intros o. eapply IH; [apply Hk|].
      destruct (mode i); [apply incl_remove_nat; exact Hi|exact Hi|exact Hi].
    - inversion Hv; subst. apply Vis_set. eapply IH; eassumption.
  Qed.

  (* a query never hurts *)
  Lemma Vis_query_any p c i k : (forall o, Vis p (k o)) -> Vis p (Query In Out Lay c i k).
  Proof.
    intros Hk. apply Vis_query. intros o. destruct (mode i); try apply Hk.
    eapply Vis_anti; [apply Hk|]. intros x Hx. apply in_remove in Hx. tauto.
  Qed.

  (* a PerformLayout query to c, then c's layout is stored *)
  Lemma Vis_qs p c i k : mode i = PerformLayout ->
    (forall o, exists l k', k o = SetLayout In Out Lay c l k' /\ Vis (remove Nat.eq_dec c p) k') -> Vis p (Query In Out Lay c i k).
  Proof. intros Em Hk. apply Vis_query. intros o. rewrite Em. destruct (Hk o) as (l & k' & -> & Hv). apply Vis_set. exact Hv. Qed.

  Lemma SL_anti none (a : Alg) : forall p, SL none p a -> forall p', incl p' p -> SL none p' a.
  Proof.
    induction a as [o|c i k IH|c l k IH]; intros p Hv p' Hi.
    - inversion Hv; subst. destruct p' as [|x r]; [apply SL_ret|]. exfalso. apply (Hi x). left. reflexivity.
    - inversion Hv as [|? ? ? ? Hk|]; subst. apply SL_query. intros o. eapply IH; [apply Hk|].
      destruct (none c); [|exact Hi]. intros x [<-|Hx]; [left; reflexivity|right; apply Hi; exact Hx].
    - inversion Hv; subst. apply SL_set. eapply IH; [eassumption|]. apply incl_remove_nat. exact Hi.
  Qed.

  (* a query to a child that is not display:none leaves the pending set alone *)
  Lemma SL_query_visible none p c i k : none c = false -> (forall o, SL none p (k o)) -> SL none p (Query In Out Lay c i k).
  Proof. intros En Hk. apply SL_query. intros o. rewrite En. apply Hk. Qed.

  Lemma SL_qs none p c i k :
    (forall o, exists l k', k o = SetLayout In Out Lay c l k' /\ SL none (remove Nat.eq_dec c p) k') -> SL none p (Query In Out Lay c i k).
  Proof.
    intros Hk. apply SL_query. intros o. destruct (Hk o) as (l & k' & -> & Hv). apply SL_set.
    replace (remove Nat.eq_dec c (if none c then c :: p else p)) with (remove Nat.eq_dec c p); [exact Hv|].
    destruct (none c); [|reflexivity]. cbn [remove]. destruct (Nat.eq_dec c c) as [_|Hne]; [reflexivity|contradiction].
  Qed.

  Lemma SL_none_ext none none' (a : Alg) : (forall c, none c = none' c) -> forall p, SL none p a -> SL none' p a.
  Proof.
    intros E. induction a as [o|c i k IH|c l k IH]; intros p Hv.
    - inversion Hv; subst. apply SL_ret.
    - inversion Hv as [|? ? ? ? Hk|]; subst. apply SL_query. intros o. rewrite <- E. apply IH. apply Hk.
    - inversion Hv; subst. apply SL_set. apply IH. assumption.
  Qed.

  Lemma NHS_none_ext none none' (a : Alg) : (forall c, none c = none' c) ->
    NoHiddenSize In Out Lay mode none a -> NoHiddenSize In Out Lay mode none' a.
  Proof.
    intros E. induction 1 as [o|c i k Hc Hk IH|c l k Hk IH]; [apply NHS_ret|apply NHS_query; [rewrite <- E; exact Hc|exact IH]|apply NHS_set; exact IH].
  Qed.
End Iface.

(* ---------------------------------------------------------------------------------------------- lift *)
Section LiftIface.
  Variables (In1 Out1 Lay1 In2 Out2 Lay2 : Type).
  Variable fi : In1 -> In2.
  Variable po : Out2 -> Out1.
  Variable eo : Out1 -> Out2.
  Variable el : Lay1 -> Lay2.
  Variable mode1 : In1 -> RunMode.
  Variable mode2 : In2 -> RunMode.
  Hypothesis mode_fi : forall i, mode2 (fi i) = mode1 i.
  Notation lift := (lift In1 Out1 Lay1 In2 Out2 Lay2 fi po eo el).

  Lemma WF_lift a : WFAlg In1 Out1 Lay1 mode1 a -> WFAlg In2 Out2 Lay2 mode2 (lift a).
  Proof.
    induction 1 as [o|c i k Hm Hk IH|c l k Hk IH]; cbn [EngineLift.lift]; [apply WF_ret|apply WF_query; [rewrite mode_fi; exact Hm|intros o; apply IH]|apply WF_set; exact IH].
  Qed.

  Lemma Vis_lift a : forall p, Visits In1 Out1 Lay1 mode1 p a -> Visits In2 Out2 Lay2 mode2 p (lift a).
  Proof.
    induction a as [o|c i k IH|c l k IH]; intros p Hv; cbn [EngineLift.lift].
    - inversion Hv; subst. apply Vis_ret.
    - inversion Hv as [|? ? ? ? Hk|]; subst. apply Vis_query. intros o. rewrite mode_fi. apply IH. apply Hk.
    - inversion Hv; subst. apply Vis_set. apply IH. assumption.
  Qed.

  Lemma SL_lift none a : forall p, SetsLast In1 Out1 Lay1 none p a -> SetsLast In2 Out2 Lay2 none p (lift a).
  Proof.
    induction a as [o|c i k IH|c l k IH]; intros p Hv; cbn [EngineLift.lift].
    - inversion Hv; subst. apply SL_ret.
    - inversion Hv as [|? ? ? ? Hk|]; subst. apply SL_query. intros o. apply IH. apply Hk.
    - inversion Hv; subst. apply SL_set. apply IH. assumption.
  Qed.

  Lemma NHS_lift none a : NoHiddenSize In1 Out1 Lay1 mode1 none a -> NoHiddenSize In2 Out2 Lay2 mode2 none (lift a).
  Proof.
    induction 1 as [o|c i k Hc Hk IH|c l k Hk IH]; cbn [EngineLift.lift];
      [apply NHS_ret|apply NHS_query; [rewrite mode_fi; exact Hc|intros o; apply IH]|apply NHS_set; exact IH].
  Qed.
End LiftIface.

(* ---------------------------------------------------------------------------------------------- style_comap *)
Section ComapIface.
  Variables (S1 S2 : Type).
  Variable g : S2 -> S1.
  Variables (is_none1 : S1 -> bool) (is_none2 : S2 -> bool).
  Hypothesis none_g : forall s, is_none1 (g s) = is_none2 s.

  Lemma nones_comap (st : list S2) c : nones S1 is_none1 (map g st) c = nones S2 is_none2 st c.
  Proof.
    unfold nones. rewrite nth_error_map. destruct (nth_error st c); cbn [option_map]; [apply none_g|reflexivity].
  Qed.
End ComapIface.
