(* compute_root_layout over the block engine (Model/BlockRoot.v: the root's known dimensions, the one memoised query on the
   root, the root's own stored layout) is relational: whole LAYOUT PASSES -- `TaffyTree::compute_layout` on a fresh tree, or a
   sequence of them on the same tree -- of two related trees under related available spaces both fail or both succeed, with
   related stored layouts at EVERY node, the root included.

     generic      any node relation RN for which the root preprocessing (H_known), the root layout assembly (H_lay) and the
                  memoised evaluation (H_memo: the whole-tree theorems of Proofs/EngineHomog.v / EngineBoxSizing.v) are relational
     C04          RN = bnode_rel k: H_known / H_lay are Proofs/ScaleProofs.v rel_root_known_dimensions / rel_root_assemble
                  (C04_root_leaf's ingredients) through the style adapter
     C12          RN = any subset of eligible nodes rewritten, k = 1: H_known is Proofs/BoxSizingProofs.v
                  root_known_dimensions_invariant (C12_root) composed with C04 at k = 1; the root layout assembly reads no
                  box-sizing field at all *)
From Coq Require Import QArith Qabs Lqa Bool List ZArith Lia.
From TV Require Import Num.Num Num.QNum.
From TV Require Model.Types Model.Common Model.Leaf Model.Root Model.Scale Model.BoxSizing Proofs.ScaleProofs Proofs.LeafAxis Proofs.BoxSizingProofs.
From TV Require Import Gen.BlockGen Model.Block Model.Engine Model.EngineRel.
From TV Require Import Model.FiltersBase Gen.FiltersGen Model.ItemFilters Model.BlockAlg Model.ScaleBlock Model.BlockEngine Model.BlockEngineRel.
From TV Require Import Model.BlockAbs Model.BlockRoot.
From TV Require Import Proofs.ScaleKit Proofs.ScaleBlock Proofs.EngineRelProofs Proofs.BlockAlgBlind Proofs.BlockAlgRel Proofs.EngineHomog
  Proofs.EngineBoxSizing Proofs.BlockAbsRel.
Import ListNotations.
Close Scope Z_scope.

(* ------------------------------------------------------------------------------------------------------------ *)
(** * Generic: from the three relational pieces to whole passes *)

Section RootGeneric.
  Variable k : Q.
  Hypothesis Hk : 0 < k.
  Variable RN : BNode XQ -> BNode XQ -> Prop.
  Variable pre : BStyle XQ -> BIn XQ -> BIn XQ.
  Variable abs_child : @AbsChild XQ.
  Notation L := (sc k).
  Notation O := (op_rel (sc k)).
  Notation AV := (bsz_rel (bav_rel k)).
  Notation trelk := (trel (BNode XQ) (BIn XQ) (ChildOut XQ) (BLayout XQ) RN (bin_rel k) (bout_rel k) (blay_rel k)).
  Notation res_relk := (res_rel (BNode XQ) (BIn XQ) (ChildOut XQ) (BLayout XQ) RN (bin_rel k) (bout_rel k) (blay_rel k)).
  Notation blays := (lays (BNode XQ) (BIn XQ) (ChildOut XQ) (BLayout XQ)).

  Hypothesis H_known : forall n n' av av', RN n n' -> AV av av' ->
    bsz_rel O (block_root_known (bn_style n) av) (block_root_known (bn_style n') av').
  Hypothesis H_lay : forall n n' av av' o o', RN n n' -> AV av av' -> bout_rel k o o' ->
    blay_rel k (block_root_layout (bn_style n) av o) (block_root_layout (bn_style n') av' o').
  Hypothesis H_memo : forall f t t' i i', trelk t t' -> bin_rel k i i' ->
    oprel res_relk (bl_memo pre abs_child f t i) (bl_memo pre abs_child f t' i').

  Lemma root_bin_rel kn kn' av av' : bsz_rel O kn kn' -> AV av av' -> bin_rel k (root_bin kn av) (root_bin kn' av').
  Proof.
    intros Hkn [Haw Hah]. unfold root_bin, bin_rel. cbn [bi_mode bi_inherent bi_known bi_parent bi_avail bi_collapsible].
    split; [reflexivity|]. split; [reflexivity|]. split; [exact Hkn|].
    split; [split; cbn [s_w s_h]; apply (rel_avail_into_option k); assumption|]. split; [split; assumption|reflexivity].
  Qed.

  Theorem block_compute_root_rel f t t' av av' : trelk t t' -> AV av av' ->
    oprel trelk (block_compute_root pre abs_child f t av) (block_compute_root pre abs_child f t' av').
  Proof.
    intros Ht Hav. unfold block_compute_root.
    pose proof (trel_style (BNode XQ) (BIn XQ) (ChildOut XQ) (BLayout XQ) RN (bin_rel k) (bout_rel k) (blay_rel k) _ _ Ht) as Hn.
    pose proof (H_memo f t t' _ _ Ht (root_bin_rel _ _ _ _ (H_known _ _ _ _ Hn Hav) Hav)) as Hm.
    unfold oprel in Hm.
    destruct (bl_memo pre abs_child f t (root_bin (block_root_known (bn_style (style_of (BNode XQ) (BIn XQ) (ChildOut XQ) (BLayout XQ) t)) av) av))
      as [[o t1]|],
      (bl_memo pre abs_child f t' (root_bin (block_root_known (bn_style (style_of (BNode XQ) (BIn XQ) (ChildOut XQ) (BLayout XQ) t')) av') av'))
      as [[o' t1']|]; try contradiction; [|exact I].
    destruct Hm as [Ho Ht1]. cbn [fst snd] in Ho, Ht1. cbn [oprel].
    apply (trel_set_lay (BNode XQ) (BIn XQ) (ChildOut XQ) (BLayout XQ) RN (bin_rel k) (bout_rel k) (blay_rel k)); [exact Ht1|].
    apply H_lay; assumption.
  Qed.

  Theorem block_passes_rel f avs avs' : Forall2 AV avs avs' -> forall t t', trelk t t' ->
    oprel (Forall2 (Forall2 (blay_rel k))) (block_passes pre abs_child f t avs) (block_passes pre abs_child f t' avs').
  Proof.
    induction 1 as [|av av' avs avs' Hav Havs IH]; intros t t' Ht; cbn [block_passes]; [constructor|].
    pose proof (block_compute_root_rel f t t' av av' Ht Hav) as H1. unfold oprel in H1.
    destruct (block_compute_root pre abs_child f t av) as [t1|], (block_compute_root pre abs_child f t' av') as [t1'|];
      try contradiction; [|exact I].
    pose proof (IH t1 t1' H1) as H2. unfold oprel in H2.
    destruct (block_passes pre abs_child f t1 avs) as [ls|], (block_passes pre abs_child f t1' avs') as [ls'|]; try contradiction; [|exact I].
    cbn [oprel]. constructor; [|exact H2].
    apply (trel_lays (BNode XQ) (BIn XQ) (ChildOut XQ) (BLayout XQ) RN (bin_rel k) (bout_rel k) (blay_rel k)). exact H1.
  Qed.

  Theorem block_layout_pass_rel f t t' av av' : skrel (BNode XQ) RN t t' -> blay_rel k zero_blay zero_blay -> AV av av' ->
    oprel (Forall2 (blay_rel k)) (block_layout_pass pre abs_child f t av) (block_layout_pass pre abs_child f t' av').
  Proof.
    intros Ht Hz Hav. unfold block_layout_pass.
    assert (Hf : trelk (bl_fresh t) (bl_fresh t')) by (unfold bl_fresh; apply fresh_rel; assumption).
    pose proof (block_compute_root_rel f _ _ av av' Hf Hav) as H1. unfold oprel in H1.
    destruct (block_compute_root pre abs_child f (bl_fresh t) av) as [t1|], (block_compute_root pre abs_child f (bl_fresh t') av') as [t1'|];
      try contradiction; [|exact I].
    cbn [oprel]. apply (trel_lays (BNode XQ) (BIn XQ) (ChildOut XQ) (BLayout XQ) RN (bin_rel k) (bout_rel k) (blay_rel k)). exact H1.
  Qed.
End RootGeneric.

(* ------------------------------------------------------------------------------------------------------------ *)
(** * C04: the root glue is homogeneous *)

Section RootHomog.
  Variable k : Q.
  Hypothesis Hk : 0 < k.
  Notation L := (sc k).
  Notation O := (op_rel (sc k)).

  Lemma cv_avail_size_rel av av' : bsz_rel (bav_rel k) av av' ->
    Scale.sz_rel (Scale.av_rel (sc k)) (cv_size cv_avail av) (cv_size cv_avail av').
  Proof. intros H. apply (cv_size_rel (bav_rel k)); [apply (cv_avail_rel k)|exact H]. Qed.

  Lemma block_root_known_homog s s' av av' : bstyle_rel k s s' -> bsz_rel (bav_rel k) av av' ->
    bsz_rel O (block_root_known s av) (block_root_known s' av').
  Proof.
    intros Hs Hav. unfold block_root_known, bk_osize.
    destruct (ScaleProofs.rel_root_known_dimensions k Hk _ _ _ _ (cv_style_rel k s s' Hs) (cv_avail_size_rel _ _ Hav)) as [H1 H2].
    split; assumption.
  Qed.

  Lemma block_root_layout_homog s s' av av' o o' : bstyle_rel k s s' -> bsz_rel (bav_rel k) av av' -> bout_rel k o o' ->
    blay_rel k (block_root_layout s av o) (block_root_layout s' av' o').
  Proof.
    intros Hs Hav ([Hs1 Hs2] & [Hc1 Hc2] & _). unfold block_root_layout.
    assert (Hl : Scale.layout_rel k (Root.root_assemble (cv_style s) (cv_size cv_avail av) (co_to_output o))
                                    (Root.root_assemble (cv_style s') (cv_size cv_avail av') (co_to_output o'))).
    { apply (ScaleProofs.rel_root_assemble k Hk); [apply (cv_style_rel k); exact Hs|apply cv_avail_size_rel; exact Hav|].
      unfold Scale.output_rel, co_to_output.
      cbn [Leaf.out_size Leaf.out_content_size Leaf.first_baselines Leaf.top_margin Leaf.bottom_margin Leaf.margins_can_collapse_through].
      split; [split; cbn; assumption|]. split; [split; cbn; assumption|]. split; [split; exact I|].
      split; [split; cbn; apply sc_zero|]. split; [split; cbn; apply sc_zero|reflexivity]. }
    destruct Hl as (Eo & [Hx Hy] & [Hw Hh] & [Hcw Hch] & [Hsw Hsh] & (Hb1 & Hb2 & Hb3 & Hb4) & (Hp1 & Hp2 & Hp3 & Hp4) & (Hm1 & Hm2 & Hm3 & Hm4)).
    unfold blay_of_layout, blay_rel, bk_size, bk_rect.
    cbn [bl_order bl_x bl_y bl_size bl_content_size bl_scrollbar bl_padding bl_border bl_margin].
    split; [reflexivity|]. split; [exact Hx|]. split; [exact Hy|]. split; [split; assumption|]. split; [split; assumption|].
    split; [split; assumption|]. split; [repeat split; assumption|]. split; repeat split; assumption.
  Qed.

  Theorem block_passes_homog pre abs_child :
    PreRel k (bstyle_rel k) pre -> AbsChildRel k (bstyle_rel k) abs_child ->
    forall f avs avs', Forall2 (bsz_rel (bav_rel k)) avs avs' -> forall t t',
      trel (BNode XQ) (BIn XQ) (ChildOut XQ) (BLayout XQ) (bnode_rel k) (bin_rel k) (bout_rel k) (blay_rel k) t t' ->
      oprel (Forall2 (Forall2 (blay_rel k))) (block_passes pre abs_child f t avs) (block_passes pre abs_child f t' avs').
  Proof.
    intros Hpre Habs. apply (block_passes_rel k (bnode_rel k) pre abs_child).
    - intros n n' av av' [Hs _] Hav. apply block_root_known_homog; assumption.
    - intros n n' av av' o o' [Hs _] Hav Ho. apply block_root_layout_homog; assumption.
    - apply (block_engine_homog k Hk); assumption.
  Qed.

  Theorem block_layout_pass_homog pre abs_child :
    PreRel k (bstyle_rel k) pre -> AbsChildRel k (bstyle_rel k) abs_child ->
    forall f t t' av av', skrel (BNode XQ) (bnode_rel k) t t' -> bsz_rel (bav_rel k) av av' ->
      oprel (Forall2 (blay_rel k)) (block_layout_pass pre abs_child f t av) (block_layout_pass pre abs_child f t' av').
  Proof.
    intros Hpre Habs f t t' av av' Ht Hav. apply (block_layout_pass_rel k (bnode_rel k) pre abs_child); try assumption.
    - intros n n' a a' [Hs _] Ha. apply block_root_known_homog; assumption.
    - intros n n' a a' o o' [Hs _] Ha Ho. apply block_root_layout_homog; assumption.
    - apply (block_engine_homog k Hk); assumption.
    - apply rel_zero_blay.
  Qed.
End RootHomog.

(* ------------------------------------------------------------------------------------------------------------ *)
(** * C12: the root glue does not see the rewrite *)

Lemma obsz1_trans a b c : bsz_rel (op_rel (sc 1)) a b -> bsz_rel (op_rel (sc 1)) b c -> bsz_rel (op_rel (sc 1)) a c.
Proof. intros [A1 A2] [B1 B2]. split; eapply osc1_trans; eassumption. Qed.

Lemma block_root_known_bb s s' av av' : bb_rel s s' -> bsz_rel (bav_rel 1) av av' ->
  bsz_rel (op_rel (sc 1)) (block_root_known s av) (block_root_known s' av').
Proof.
  intros Hs Hav. pose proof (block_root_known_homog 1 Q01 s s av av' (bstyle_rel1_refl s) Hav) as H1.
  destruct Hs as [->|[El ->]]; [exact H1|].
  eapply obsz1_trans; [exact H1|]. unfold block_root_known, bk_osize. rewrite (cv_to_border_box s El).
  destruct (BoxSizingProofs.root_known_dimensions_invariant (cv_style s) (cv_size cv_avail av') (cv_eligible s El)) as [R1 R2].
  split; cbn [s_w s_h]; apply osc1_of_xeq; assumption.
Qed.

Lemma block_root_layout_tb (s : BStyle XQ) av o : block_root_layout (b_to_border_box s) av o = block_root_layout s av o.
Proof. reflexivity. Qed.

Lemma block_root_layout_bb s s' av av' o o' : bb_rel s s' -> bsz_rel (bav_rel 1) av av' -> bout_rel 1 o o' ->
  blay_rel 1 (block_root_layout s av o) (block_root_layout s' av' o').
Proof.
  intros Hs Hav Ho. pose proof (block_root_layout_homog 1 Q01 s s av av' o o' (bstyle_rel1_refl s) Hav Ho) as H1.
  destruct Hs as [->|[El ->]]; [exact H1|]. rewrite block_root_layout_tb. exact H1.
Qed.

Theorem block_passes_bb pre abs_child :
  PreRel 1 bb_rel pre -> AbsChildRel 1 bb_rel abs_child ->
  forall f avs avs', Forall2 (bsz_rel (bav_rel 1)) avs avs' -> forall t t',
    trel (BNode XQ) (BIn XQ) (ChildOut XQ) (BLayout XQ) bnode_bb (bin_rel 1) (bout_rel 1) (blay_rel 1) t t' ->
    oprel (Forall2 (Forall2 (blay_rel 1))) (block_passes pre abs_child f t avs) (block_passes pre abs_child f t' avs').
Proof.
  intros Hpre Habs. apply (block_passes_rel 1 bnode_bb pre abs_child).
  - intros n n' av av' Hn Hav. apply block_root_known_bb; [apply bnode_bb_style; exact Hn|exact Hav].
  - intros n n' av av' o o' Hn Hav Ho. apply block_root_layout_bb; [apply bnode_bb_style; exact Hn|exact Hav|exact Ho].
  - apply block_engine_box_sizing; assumption.
Qed.

Theorem block_layout_pass_bb pre abs_child :
  PreRel 1 bb_rel pre -> AbsChildRel 1 bb_rel abs_child ->
  forall f t t' av av', skrel (BNode XQ) bnode_bb t t' -> bsz_rel (bav_rel 1) av av' ->
    oprel (Forall2 (blay_rel 1)) (block_layout_pass pre abs_child f t av) (block_layout_pass pre abs_child f t' av').
Proof.
  intros Hpre Habs f t t' av av' Ht Hav. apply (block_layout_pass_rel 1 bnode_bb pre abs_child); try assumption.
  - intros n n' a a' Hn Ha. apply block_root_known_bb; [apply bnode_bb_style; exact Hn|exact Ha].
  - intros n n' a a' o o' Hn Ha Ho. apply block_root_layout_bb; [apply bnode_bb_style; exact Hn|exact Ha|exact Ho].
  - apply block_engine_box_sizing; assumption.
  - apply (rel_zero_blay 1).
Qed.
