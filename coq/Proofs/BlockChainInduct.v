(* The UNBOUNDED-depth theorem for block chains under the real cache (Model/BlockChainInduct.v has the vocabulary and the idea):
     grun_replay      `grun_memo` (any engine over the cache interface) does what `areplay` predicts whenever the children answer as scripted
     level_step       one container over its single child: if the finite check `level_out` passes and the child answers the level input
                      `lvl` with `oc` and keeps the entry (lvl, oc) as its final-layout entry, the container is evaluated with exactly
                      that trace: one miss below, then hits on the child's root
     chain_level      INDUCTION OVER THE DEPTH: the fresh chain of depth d answers `lvl_in` with `o_chain d`, keeps that entry, has made
                      1 + d + (nq - 1) * d compute_cached_layout calls and measured the leaf once
     chain_all_depths the root on top: `chain_leaf_meas = Some 1`, `chain_queries = Some (nqr + d + (nq - 1) * (d - 1))` for every d >= 1,
                      from `family_ok` alone
   and the check evaluated over binary32 for the families where it holds (family_ok_f32). *)
From Coq Require Import ZArith NArith Bool List Arith Lia.
From TV Require Import Num.Num.
From TV Require Model.Leaf Model.MeasureFamily Model.Cache.
From TV Require Import Gen.BlockGen Model.Block Model.Engine Model.BlockAlg Model.BlockEngine Model.BlockAbs Model.BlockRoot
  Model.EngineReal Model.BlockEngineReal Model.BlockChainReal Model.BlockChainInduct Proofs.BlockEngineReal.
Import ListNotations.

Section GReplay.
  Variables (S In Out Lay C : Type).
  Notation gtree := (gtree S Lay C).
  Notation grun_memo := (grun_memo S In Out Lay C).
  Notation gset_lay := (gset_lay S Lay C).

  (* the children answer as the trace says *)
  Inductive apply_trace (ev : gtree -> In -> option (Out * gtree)) : list gtree -> list (aev In Out Lay) -> list gtree -> Prop :=
  | AT_nil kids : apply_trace ev kids [] kids
  | AT_q kids c i o t t' tr kids' :
      nth_error kids c = Some t -> ev t i = Some (o, t') -> apply_trace ev (replace_nth c t' kids) tr kids' ->
      apply_trace ev kids (EQ c i o :: tr) kids'
  | AT_s kids c l t tr kids' :
      nth_error kids c = Some t -> apply_trace ev (replace_nth c (gset_lay t l) kids) tr kids' ->
      apply_trace ev kids (ES c l :: tr) kids'.

  Lemma grun_replay ev : forall a outs o tr, areplay In Out Lay outs a = Some (o, tr) ->
    forall kids kids', apply_trace ev kids tr kids' -> grun_memo ev kids a = Some (o, kids').
  Proof.
    induction a as [o0|c i k IH|c l k IH]; intros outs o tr E kids kids' HT; cbn in E.
    - injection E as <- <-. inversion HT; subst. reflexivity.
    - destruct outs as [|o1 r]; [discriminate|].
      destruct (areplay In Out Lay r (k o1)) as [[x tr1]|] eqn:E1; [|discriminate]. injection E as <- <-.
      inversion HT as [|kids0 c0 i0 o0 t t' tr0 kids0' Hn He Hr|]; subst. cbn. rewrite Hn, He. eapply IH; eauto.
    - destruct (areplay In Out Lay outs k) as [[x tr1]|] eqn:E1; [|discriminate]. injection E as <- <-.
      inversion HT as [| |kids0 c0 l0 t tr0 kids0' Hn Hr]; subst. cbn. rewrite Hn. eapply IH; eauto.
  Qed.

  (* every answer recorded by a replay against `repeat oc n` is oc *)
  Definition answers (oc : Out) (tr : list (aev In Out Lay)) : Prop :=
    Forall (fun e => match e with EQ _ _ o => o = oc | ES _ _ => True end) tr.
  Lemma areplay_answers oc : forall a n o tr, areplay In Out Lay (repeat oc n) a = Some (o, tr) -> answers oc tr.
  Proof.
    induction a as [o0|c i k IH|c l k IH]; intros n o tr E; cbn in E.
    - injection E as <- <-. constructor.
    - destruct n as [|n]; [discriminate|]. cbn in E.
      destruct (areplay In Out Lay (repeat oc n) (k oc)) as [[x tr1]|] eqn:E1; [|discriminate]. injection E as <- <-.
      constructor; [reflexivity|]. eapply IH; eauto.
    - destruct (areplay In Out Lay (repeat oc n) k) as [[x tr1]|] eqn:E1; [|discriminate]. injection E as <- <-.
      constructor; [exact I|]. eapply IH; eauto.
  Qed.
End GReplay.

Section Chain.
  Context {T : Type} `{Num T}.
  Variable xeq : T -> T -> bool.
  Hypothesis xeq_eq : forall a b, xeq a b = true -> a = b.
  Variable teq : T -> T -> bool.          (* the ghost equality of the engine: arbitrary *)

  Notation RC := (rcache (BIn T) (ChildOut T)).
  Notation memo := (blr_memo teq block_pre abs_child_block).
  Notation bstore := (rstore (BIn T) (ChildOut T) bi_mode bkey_of).
  Notation bget := (rget (BIn T) (ChildOut T) bi_mode bkey_of bosize bfrom_outer).
  Notation blossy := (rlossy (BIn T) (ChildOut T) bi_mode bkey_of bosize (bin_eqb_with teq) b_is_outer).
  Notation bnew := (rnew (BIn T) (ChildOut T)).
  Notation bcompat := (rcompat (BIn T) (ChildOut T) bkey_of bosize).
  Notation gnode := (GNode (BNode T) (BLayout T) RC).
  Notation gcache := (gcache (BNode T) (BLayout T) RC).
  Notation gstyle := (gstyle (BNode T) (BLayout T) RC).
  Notation gcounts := (gcounts (BNode T) (BLayout T) RC).
  Notation brun := (grun_memo (BNode T) (BIn T) (ChildOut T) (BLayout T) RC).
  Notation btrace := (apply_trace (BNode T) (BIn T) (ChildOut T) (BLayout T) RC).

  Lemma ms_eqb_with_eq (a b : MarginSet T) : ms_eqb_with xeq a b = true -> a = b.
  Proof.
    destruct a as [a1 a2], b as [b1 b2]. unfold ms_eqb_with. cbn. intros E. apply andb_prop in E. destruct E as [E1 E2].
    apply xeq_eq in E1. apply xeq_eq in E2. subst. reflexivity.
  Qed.

  Lemma cout_eqb_with_eq (a b : ChildOut T) : cout_eqb_with xeq a b = true -> a = b.
  Proof.
    destruct a as [[a1 a2] [a3 a4] a5 a6 a7], b as [[b1 b2] [b3 b4] b5 b6 b7]. unfold cout_eqb_with. cbn. intros E.
    repeat (apply andb_prop in E; destruct E as [E ?]).
    repeat match goal with
           | [ X : xeq _ _ = true |- _ ] => apply xeq_eq in X
           | [ X : ms_eqb_with xeq _ _ = true |- _ ] => apply ms_eqb_with_eq in X
           | [ X : Bool.eqb _ _ = true |- _ ] => apply eqb_prop in X
           end.
    subst. reflexivity.
  Qed.

  (* ---- the two arms of compute_cached_layout *)
  Lemma memo_hit f s c l n kids j o : bi_mode j = PerformLayout -> bget c j = Some o ->
    memo (S f) (gnode s c l n kids) j = Some (o, gnode s c l (st_hit (blossy c j) n) kids).
  Proof. intros Hm Hg. unfold blr_memo, memo_real. cbn [gmemo]. rewrite Hm, Hg. reflexivity. Qed.

  Lemma memo_miss f s c l n kids i o kids' : bi_mode i = PerformLayout -> bget c i = None -> bn_is_none s = false ->
    brun (memo f) kids (bl_algo block_pre abs_child_block s (map gstyle kids) i) = Some (o, kids') ->
    memo (S f) (gnode s c l n kids) i = Some (o, gnode s (bstore c i o) l (st_eval (bl_mcalls s (map gstyle kids) i) n) kids').
  Proof.
    intros Hm Hg Hn Hr. unfold blr_memo, memo_real in *. cbn [gmemo]. rewrite Hm, Hg, Hn. rewrite Hr. reflexivity.
  Qed.

  Lemma bget_new i : bi_mode i = PerformLayout -> bget bnew i = None.
  Proof. intros Hm. unfold rget, rhit. rewrite Hm. reflexivity. Qed.

  Lemma bget_stored lvl oc j : bi_mode lvl = PerformLayout -> bi_mode j = PerformLayout -> bcompat j (mkREntry _ _ lvl oc) = true ->
    bget (bstore bnew lvl oc) j = Some oc.
  Proof.
    intros Hl Hj Hc. unfold rget, rhit, rstore. rewrite Hl, Hj. cbn [r_final]. rewrite Hc. cbn [option_map]. unfold ranswer. rewrite Hj.
    reflexivity.
  Qed.

  (* ---- counters *)
  Definition sumq (t : @brtree T) : N := fold_right N.add 0%N (map n_query (gcounts t)).
  Definition lastmeas (t : @brtree T) : N := n_meas (last (gcounts t) stats0).

  Lemma gcache_apply_ev t e : gcache (apply_ev teq t e) = gcache t.
  Proof. destruct t, e; reflexivity. Qed.
  Lemma sumq_apply_ev t e : sumq (apply_ev teq t e) = (sumq t + (if is_eq _ _ _ e then 1 else 0))%N.
  Proof. destruct t as [s c l n kids], e as [c0 j o|c0 l0]; unfold sumq; cbn; lia. Qed.
  Lemma lastmeas_apply_ev t e : lastmeas (apply_ev teq t e) = lastmeas t.
  Proof.
    destruct t as [s c l n kids], e as [c0 j o|c0 l0]; unfold lastmeas; cbn [apply_ev gset_lay EngineReal.gcounts]; [|reflexivity].
    destruct (flat_map gcounts kids); reflexivity.
  Qed.

  Lemma fold_apply_counts rest : forall t,
    gcache (fold_left (apply_ev teq) rest t) = gcache t /\
    sumq (fold_left (apply_ev teq) rest t) = (sumq t + N.of_nat (count_q _ _ _ rest))%N /\
    lastmeas (fold_left (apply_ev teq) rest t) = lastmeas t.
  Proof.
    induction rest as [|e rest IH]; intros t; cbn [fold_left].
    - unfold count_q. cbn. repeat split. lia.
    - destruct (IH (apply_ev teq t e)) as (A & B & C'). rewrite A, B, C', gcache_apply_ev, sumq_apply_ev, lastmeas_apply_ev.
      repeat split. unfold count_q. cbn [filter]. destruct (is_eq _ _ _ e); cbn [length]; lia.
  Qed.

  Lemma sumq_node n c l st c2 : sumq (gnode n c l st [c2]) = (n_query st + sumq c2)%N.
  Proof. unfold sumq. cbn. rewrite app_nil_r. reflexivity. Qed.
  Lemma lastmeas_node n c l st c2 : lastmeas (gnode n c l st [c2]) = lastmeas c2.
  Proof. unfold lastmeas. cbn. rewrite app_nil_r. destruct c2 as [s' c' l' n' k']. cbn. reflexivity. Qed.

  (* ---- the later queries of a parent are hits on the child's root *)
  Lemma later_apply f lvl oc : bi_mode lvl = PerformLayout ->
    forall rest t, later_ok lvl oc rest = true -> answers _ _ _ oc rest -> gcache t = bstore bnew lvl oc ->
      btrace (memo (S f)) [t] rest [fold_left (apply_ev teq) rest t].
  Proof.
    intros Hl. induction rest as [|e rest IH]; intros t Hok Ha Hc; cbn [fold_left]; [constructor|].
    cbn [later_ok forallb] in Hok. apply andb_prop in Hok. destruct Hok as [He Hok].
    inversion Ha as [|e0 r0 Ae Ar]; subst.
    destruct e as [c0 j o|c0 l0].
    - apply andb_prop in He. destruct He as [He Hcomp]. apply andb_prop in He. destruct He as [Hc0 Hpl].
      apply Nat.eqb_eq in Hc0. subst c0 o.
      assert (Hj : bi_mode j = PerformLayout) by (destruct (bi_mode j); try discriminate; reflexivity).
      destruct t as [s c l n kids]. cbn in Hc. subst c.
      eapply AT_q; [reflexivity| |].
      + apply memo_hit; [exact Hj|]. apply bget_stored; assumption.
      + apply (IH (apply_ev teq (gnode s (bstore bnew lvl oc) l n kids) (EQ 0 j oc))); [exact Hok|exact Ar|reflexivity].
    - apply Nat.eqb_eq in He. subst c0. eapply AT_s; [reflexivity|].
      apply (IH (apply_ev teq t (ES 0 l0))); [exact Hok|exact Ar|]. rewrite gcache_apply_ev. exact Hc.
  Qed.

  (* ---- one level *)
  Lemma level_step n kid i lvl oc nq o : level_out xeq n kid i lvl oc nq = Some o ->
    bi_mode lvl = PerformLayout -> bi_mode i = PerformLayout -> bn_is_none n = false ->
    forall f c c1 l, gstyle c = kid -> memo (S f) c lvl = Some (oc, c1) -> gcache c1 = bstore bnew lvl oc ->
      exists c2, memo (S (S f)) (gnode n bnew l stats0 [c]) i = Some (o, gnode n (bstore bnew i o) l (st_eval 0 stats0) [c2])
                 /\ sumq c2 = (sumq c1 + N.of_nat (nq - 1))%N /\ lastmeas c2 = lastmeas c1.
  Proof.
    intros HL Hl Hi Hn f c c1 l Hs Hm Hc. unfold level_out in HL.
    destruct (areplay _ _ _ (repeat oc nq) (lalg n kid i)) as [[o' tr]|] eqn:Er; [|discriminate].
    destruct (trace_ok xeq lvl oc tr && Nat.eqb (count_q _ _ _ tr) nq) eqn:Eok; [|discriminate]. injection HL as ->.
    apply andb_prop in Eok. destruct Eok as [Etr Ecnt]. apply Nat.eqb_eq in Ecnt.
    pose proof (areplay_answers _ _ _ oc _ _ _ _ Er) as Ha.
    destruct tr as [|[c0 i1 o1|c0 l0] rest]; try discriminate. cbn [trace_ok] in Etr.
    apply andb_prop in Etr. destruct Etr as [Etr Hlater]. apply andb_prop in Etr. destruct Etr as [Hc0 Hi1].
    apply Nat.eqb_eq in Hc0. apply (bin_eqb_with_eq xeq xeq_eq) in Hi1. subst c0 i1.
    inversion Ha as [|e0 r0 Ae Ar]; subst.
    destruct (fold_apply_counts rest c1) as (A & B & C').
    exists (fold_left (apply_ev teq) rest c1). split; [|split].
    - replace (st_eval 0 stats0) with (st_eval (bl_mcalls n (map gstyle [c]) i) stats0) by reflexivity.
      apply memo_miss; [exact Hi|apply bget_new; exact Hi|exact Hn|].
      cbn [map]. try rewrite Hs. eapply grun_replay; [exact Er|].
      eapply AT_q; [reflexivity|exact Hm|]. change (replace_nth 0 c1 [c]) with [c1]. exact (later_apply f lvl oc Hl rest c1 Hlater Ar Hc).
    - rewrite B. try subst nq. unfold count_q. cbn [filter is_eq length]. f_equal. f_equal. lia.
    - exact C'.
  Qed.

  (* ---- the chains *)
  Lemma greset_fresh (k : Engine.sk (BNode T)) : greset _ _ _ (blr_fresh k) = blr_fresh k.
  Proof.
    revert k. fix IH 1. intros [s kids]. unfold blr_fresh, fresh_real. cbn. f_equal. rewrite map_map.
    induction kids as [|x r IHr]; cbn; [reflexivity|]. f_equal; [apply IH|exact IHr].
  Qed.

  Lemma gstyle_fresh_chain mix d : gstyle (blr_fresh (chain mix d)) = chain_node mix d.
  Proof. destruct d; reflexivity. Qed.

  Lemma is_pl_eq (m : RunMode) : is_pl m = true -> m = PerformLayout.
  Proof. destruct m; intros E; try discriminate; reflexivity. Qed.
  Lemma is_some_b_ex {A : Type} (x : option A) : is_some_b x = true -> exists o, x = Some o.
  Proof. destruct x; intros E; [eauto|discriminate]. Qed.
  Lemma fix_spec (x : option (ChildOut T)) oB :
    match x with Some o => cout_eqb_with xeq o oB | None => false end = true -> x = Some oB.
  Proof. destruct x as [o|]; intros E; [|discriminate]. f_equal. apply cout_eqb_with_eq. exact E. Qed.
  Lemma o_blk_spec mix k nq :
    is_some_b (level_out xeq (blkn mix) leafn (lvl_in mix k) (lvl_in mix k) (o_leaf mix k) nq) = true ->
    level_out xeq (blkn mix) leafn (lvl_in mix k) (lvl_in mix k) (o_leaf mix k) nq = Some (o_blk xeq mix k nq).
  Proof.
    unfold o_blk. generalize (level_out xeq (blkn mix) leafn (lvl_in mix k) (lvl_in mix k) (o_leaf mix k) nq).
    intros [o|] E; [reflexivity|discriminate].
  Qed.

  Lemma family_body_facts blk lvl rin oL oB nq nqr : family_ok_body xeq blk lvl rin oL oB nq nqr = true ->
    bi_mode lvl = PerformLayout /\ bi_mode rin = PerformLayout /\ bn_is_none blk = false /\ bn_is_none (@leafn T _) = false /\
    bl_mcalls leafn [] lvl = 1%N /\
    is_some_b (level_out xeq blk leafn lvl lvl oL nq) = true /\
    level_out xeq blk blk lvl lvl oB nq = Some oB /\
    (exists o, level_out xeq blk leafn rin lvl oL nqr = Some o) /\
    (exists o, level_out xeq blk blk rin lvl oB nqr = Some o).
  Proof.
    unfold family_ok_body.
    generalize (level_out xeq blk leafn lvl lvl oL nq) (level_out xeq blk blk lvl lvl oB nq) (level_out xeq blk leafn rin lvl oL nqr)
               (level_out xeq blk blk rin lvl oB nqr) (bl_mcalls leafn [] lvl) (bn_is_none blk) (bn_is_none (@leafn T _)).
    intros x1 x2 x3 x4 m b1 b2 Hk.
    repeat (apply andb_prop in Hk; let X := fresh "X" in destruct Hk as [Hk X]).
    apply is_pl_eq in Hk. apply is_pl_eq in X6. apply negb_true_iff in X5. apply negb_true_iff in X4. apply N.eqb_eq in X3.
    apply fix_spec in X1. apply is_some_b_ex in X0. apply is_some_b_ex in X.
    repeat split; assumption.
  Qed.

  Lemma leaf_level f (n : BNode T) i : bi_mode i = PerformLayout -> bn_is_none n = false ->
    memo (S f) (gnode n bnew zero_blay stats0 []) i
    = Some (leaf_out (bn_style n) (bn_measure n) i,
            gnode n (bstore bnew i (leaf_out (bn_style n) (bn_measure n) i)) zero_blay (st_eval (bl_mcalls n [] i) stats0) []).
  Proof. intros Hm Hn. apply (memo_miss f n bnew zero_blay stats0 [] i); [exact Hm|apply bget_new; exact Hm|exact Hn|reflexivity]. Qed.

  Lemma root_pass (n : BNode T) (c : @brtree T) avail f oR cache l st c2 :
    greset _ _ _ (gnode n bnew zero_blay stats0 [c]) = gnode n bnew zero_blay stats0 [c] ->
    memo f (gnode n bnew zero_blay stats0 [c]) (root_bin (block_root_known (bn_style n) avail) avail) = Some (oR, gnode n cache l st [c2]) ->
    exists lays, blr_passes teq block_pre abs_child_block f (gnode n bnew zero_blay stats0 [c]) [avail] = Some [(lays, st :: gcounts c2)].
  Proof.
    intros Hg Hm. cbn [blr_passes]. rewrite Hg. unfold blr_compute_root. cbn [EngineReal.gstyle]. rewrite Hm.
    cbn [EngineReal.gset_lay EngineReal.gcounts flat_map]. rewrite app_nil_r. eexists. reflexivity.
  Qed.
  Lemma last_counts st (c2 : @brtree T) : n_meas (last (st :: gcounts c2) stats0) = lastmeas c2.
  Proof. destruct c2 as [s c l n k]. reflexivity. Qed.

  Lemma level_out_pos n kid i lvl oc nq o : level_out xeq n kid i lvl oc nq = Some o -> 1 <= nq.
  Proof.
    unfold level_out. destruct (areplay _ _ _ (repeat oc nq) (lalg n kid i)) as [[o' tr]|]; [|discriminate].
    destruct (trace_ok xeq lvl oc tr && Nat.eqb (count_q _ _ _ tr) nq) eqn:Eok; [|discriminate]. intros _.
    apply andb_prop in Eok. destruct Eok as [Etr Ecnt]. apply Nat.eqb_eq in Ecnt.
    destruct tr as [|[c0 i1 o1|c0 l0] rest]; try discriminate. unfold count_q in Ecnt. cbn [filter is_eq length] in Ecnt. lia.
  Qed.

  Section Family.
    Variables (mix : ChainMix) (k nq nqr : nat).
    Hypothesis Hok : family_ok_body xeq (blkn mix) (lvl_in mix k) (rootin mix k) (o_leaf mix k) (o_blk xeq mix k nq) nq nqr = true.
    Notation lvl := (lvl_in mix k).
    Notation o_chain d := (match d with O => o_leaf mix k | S _ => o_blk xeq mix k nq end).

    Lemma family_facts :
      bi_mode lvl = PerformLayout /\ bi_mode (rootin mix k) = PerformLayout /\ bn_is_none (blkn mix) = false /\ bn_is_none (@leafn T _) = false /\
      bl_mcalls leafn [] lvl = 1%N /\
      level_out xeq (blkn mix) leafn lvl lvl (o_leaf mix k) nq = Some (o_blk xeq mix k nq) /\
      level_out xeq (blkn mix) (blkn mix) lvl lvl (o_blk xeq mix k nq) nq = Some (o_blk xeq mix k nq) /\
      (exists o, level_out xeq (blkn mix) leafn (rootin mix k) lvl (o_leaf mix k) nqr = Some o) /\
      (exists o, level_out xeq (blkn mix) (blkn mix) (rootin mix k) lvl (o_blk xeq mix k nq) nqr = Some o).
    Proof.
      destruct (family_body_facts _ _ _ _ _ _ _ Hok) as (A1 & A2 & A3 & A4 & A5 & A6 & A7 & A8 & A9).
      apply o_blk_spec in A6. repeat split; assumption.
    Qed.

    (* INDUCTION OVER THE DEPTH *)
    Theorem chain_level : forall d f, d <= f ->
      exists c1, memo (S f) (blr_fresh (chain mix d)) lvl = Some (o_chain d, c1) /\
                 gcache c1 = bstore bnew lvl (o_chain d) /\
                 sumq c1 = (1 + N.of_nat d + N.of_nat (nq - 1) * N.of_nat d)%N /\ lastmeas c1 = 1%N.
    Proof.
      destruct family_facts as (Hl & Hr & Hnb & Hnl & Hmc & HLl & HLb & _ & _).
      induction d as [|d IH]; intros f Hf.
      - exists (gnode (@leafn T _) (bstore bnew lvl (o_leaf mix k)) zero_blay (st_eval (bl_mcalls leafn [] lvl) stats0) []).
        split; [|split; [|split]].
        + change (blr_fresh (chain mix 0)) with (gnode (@leafn T _) bnew zero_blay stats0 []).
          unfold o_leaf. apply leaf_level; assumption.
        + reflexivity.
        + unfold sumq. cbn [EngineReal.gcounts flat_map map fold_right st_eval n_query stats0]. lia.
        + unfold lastmeas. cbn [EngineReal.gcounts flat_map last st_eval n_meas stats0]. rewrite Hmc. reflexivity.
      - destruct f as [|f]; [lia|]. destruct (IH f) as (c1 & E1 & Hc1 & Hs1 & Hm1); [lia|].
        change (blr_fresh (chain mix (S d))) with (gnode (blkn mix) bnew zero_blay stats0 [blr_fresh (chain mix d)]).
        assert (HLd : level_out xeq (blkn mix) (chain_node mix d) lvl lvl (o_chain d) nq = Some (o_blk xeq mix k nq))
          by (destruct d; [exact HLl|exact HLb]).
        destruct (level_step _ _ _ _ _ _ _ HLd Hl Hl Hnb f _ c1 zero_blay (gstyle_fresh_chain mix d) E1 Hc1) as (c2 & E2 & Hs2 & Hm2).
        eexists. split; [exact E2|]. split; [reflexivity|]. split.
        + rewrite sumq_node, Hs2, Hs1. cbn [st_eval n_query stats0]. lia.
        + rewrite lastmeas_node, Hm2. exact Hm1.
    Qed.

    (* the root on top: one compute_layout on the fresh chain *)
    Theorem chain_all_depths : forall d, 1 <= d ->
      exists lays ns, blr_layout_passes teq block_pre abs_child_block (d + 4) (chain mix d) [chain_avail k] = Some [(lays, ns)] /\
        n_meas (last ns stats0) = 1%N /\
        fold_right N.add 0%N (map n_query ns) = (N.of_nat nqr + N.of_nat d + N.of_nat (nq - 1) * N.of_nat (d - 1))%N.
    Proof.
      destruct family_facts as (Hl & Hr & Hnb & Hnl & Hmc & HLl & HLb & (oRl & HRl) & (oRb & HRb)).
      intros [|d] Hd; [lia|]. destruct (chain_level d (d + 3)) as (c1 & E1 & Hc1 & Hs1 & Hm1); [lia|].
      assert (HLd : exists o, level_out xeq (blkn mix) (chain_node mix d) (rootin mix k) lvl (o_chain d) nqr = Some o)
        by (destruct d; [exists oRl; exact HRl|exists oRb; exact HRb]).
      destruct HLd as (oR & HLd).
      destruct (level_step _ _ _ _ _ _ _ HLd Hl Hr Hnb (d + 3) _ c1 zero_blay (gstyle_fresh_chain mix d) E1 Hc1) as (c2 & E2 & Hs2 & Hm2).
      replace (S d + 4) with (S (S (d + 3))) by lia.
      assert (Hg : greset _ _ _ (gnode (blkn mix) bnew zero_blay stats0 [blr_fresh (chain mix d)])
                   = gnode (blkn mix) bnew zero_blay stats0 [blr_fresh (chain mix d)])
        by (cbn [greset map]; rewrite greset_fresh; reflexivity).
      unfold rootin in E2.
      destruct (root_pass (blkn mix) (blr_fresh (chain mix d)) (chain_avail k) _ _ _ _ _ c2 Hg E2) as (lays & EP).
      exists lays. exists (st_eval 0 stats0 :: gcounts c2). split; [|split].
      - unfold blr_layout_passes. exact EP.
      - rewrite last_counts. rewrite Hm2. exact Hm1.
      - cbn [map fold_right]. fold (sumq c2). rewrite Hs2, Hs1. cbn [st_eval n_query stats0]. replace (S d - 1) with d by lia.
        pose proof (level_out_pos _ _ _ _ _ _ _ HLd) as Hpos. lia.
    Qed.
  End Family.
End Chain.
