(* The block container algorithm as a resumption (Model/BlockAlg.v `block_alg`) is RELATIONAL in the sense of
   Model/EngineRel.v: for two styles related by `bstyle_wrel k` (Model/BlockEngineRel.v: everything the block algorithm
   reads of a style, the four box-sizing fields only through the two resolutions it performs), child-style lists related the
   same way and inputs related by `bin_rel k`, the two resumptions run in lockstep -- the same children are queried with
   related inputs, the same children get related stored layouts, related outputs are returned -- given related answers.

   One proof serves two properties:
     C04   k > 0 arbitrary, styles related by bstyle_rel k (every length scaled): the block algorithm is HOMOGENEOUS
     C12   k = 1 (relations = "equal as numbers"), styles related by the content-box -> border-box rewrite: the block
           algorithm is BOX-SIZING BLIND
   Built from the kernel lemmas of Proofs/ScaleBlock.v (the in-flow step `rel_inflow_step`, the resolution tables, the margin
   sets); what is new here is the traffic: determine_content_based_container_width's measuring queries, the queries and
   stored layouts of the in-flow pass, the absolute pass (a premise on the parameter `abs_child`), the hidden pass.
   Parameters of the resumption: `pre` (premise PreRel, discharged for Model/BlockEngine.v block_pre) and `abs_child`
   (premise AbsChildRel, discharged for abs_child_simple). *)
From Coq Require Import QArith Qabs Lqa Bool List ZArith Lia.
From TV Require Import Num.Num Num.QNum Gen.BlockGen Model.Block Model.Engine Model.EngineRel.
From TV Require Import Model.FiltersBase Gen.FiltersGen Model.ItemFilters Model.BlockAlg Model.ScaleBlock Model.BlockEngine Model.BlockEngineRel.
From TV Require Model.BlockTree.
From TV Require Import Proofs.ScaleKit Proofs.ScaleBlock Proofs.ItemFiltersBase Proofs.ItemFiltersHiddenBlock Proofs.BlockAlgBlind.
Import ListNotations.
Close Scope Z_scope.

(* ------------------------------------------------------------------------------------------------------------ *)
(** * The style-dependent decisions of compute_inner, from the weak relation *)

Section Weak.
  Variable k : Q.
  Hypothesis Hk : 0 < k.
  Notation L := (sc k).
  Notation O := (op_rel (sc k)).

  Ltac ap lem := first [eapply (lem k Hk) | eapply (lem k)].
  Ltac wopen H := destruct H as (Wdisp & Wox & Woy & Wsw & Wpos & Wmargin & Wpad & Wbor & Wta & Wres & Witem).
  Ltac resolved_open H := destruct H as (Rpad & Rbor & Rpbs & Rcbi & Rsz & Rmin & Rmax).

  Lemma wrel_of_rel s s' : bstyle_rel k s s' -> bstyle_wrel k s s'.
  Proof.
    intros Hst. pose proof Hst as Hst0.
    destruct Hst as (Edisp & Etab & Ecb & Eox & Eoy & Hsw & Epos & Hinset & Hsize & Hmin & Hmax & Har & Hmargin & Hpad & Hbor & Eta).
    unfold bstyle_wrel. repeat match goal with |- _ /\ _ => split end; try assumption.
    - intros inp inp' Hin. apply (rel_block_resolve k Hk); assumption.
    - intros nis nis' order Hn. apply (rel_generate_item k Hk); assumption.
  Qed.

  Lemma w_scrollbar_gutter st st' : bstyle_wrel k st st' -> brc_rel L (scrollbar_gutter st) (scrollbar_gutter st').
  Proof.
    intros W. wopen W. unfold scrollbar_gutter. rewrite Wox, Woy.
    unfold brc_rel. cbn [r_left r_right r_top r_bottom].
    repeat split; try apply sc_zero; match goal with |- context [if ?b then _ else _] => destruct b end; auto using sc_zero.
  Qed.

  Lemma w_own_collapse st st' inp inp' :
    bstyle_wrel k st st' -> binput_rel k inp inp' -> block_own_collapse st' inp' = block_own_collapse st inp.
  Proof.
    intros W Hin. wopen W. pose proof (Wres _ _ Hin) as HR. resolved_open HR.
    destruct Hin as (Hkn & Hpar & Ecol). unfold block_own_collapse.
    destruct Rpad as (_ & _ & Rpt & Rpb), Rbor as (_ & _ & Rbt & Rbb), Rsz as [_ Rszh].
    rewrite Ecol, Wox, Woy, Wpos.
    rewrite (sc_eqb k _ _ zero zero Hk Rpt (sc_zero k)), (sc_eqb k _ _ zero zero Hk Rbt (sc_zero k)),
            (sc_eqb k _ _ zero zero Hk Rpb (sc_zero k)), (sc_eqb k _ _ zero zero Hk Rbb (sc_zero k)), (rel_o_is_none k _ _ Rszh).
    reflexivity.
  Qed.

  Lemma w_prevent_ct st st' inp inp' :
    bstyle_wrel k st st' -> binput_rel k inp inp' -> block_prevent_ct st' inp' = block_prevent_ct st inp.
  Proof.
    intros W Hin. wopen W. pose proof (Wres _ _ Hin) as HR. resolved_open HR. unfold block_prevent_ct.
    destruct Rpad as (_ & _ & Rpt & Rpb), Rbor as (_ & _ & Rbt & Rbb), Rsz as [_ Rszh], Rmin as [_ Rmnh].
    rewrite Wdisp, Wox, Woy, Wpos.
    rewrite (sc_ltb k zero zero _ _ Hk (sc_zero k) Rpt), (sc_ltb k zero zero _ _ Hk (sc_zero k) Rbt),
            (sc_ltb k zero zero _ _ Hk (sc_zero k) Rpb), (sc_ltb k zero zero _ _ Hk (sc_zero k) Rbb),
            (rel_o_gt_zero k Hk _ _ Rszh), (rel_o_gt_zero k Hk _ _ Rmnh).
    reflexivity.
  Qed.

  Lemma w_can_collapse_through st st' inp inp' rs rs' :
    bstyle_wrel k st st' -> binput_rel k inp inp' -> Forall2 (bres_rel k) rs rs' ->
    block_can_collapse_through st' inp' rs' = block_can_collapse_through st inp rs.
  Proof.
    intros W Hin Hrs. unfold block_can_collapse_through. rewrite (w_prevent_ct _ _ _ _ W Hin). f_equal.
    apply (rel_forallb (bres_rel k)); [|exact Hrs]. intros r r' (_ & Ei & _ & _ & _ & _ & _ & _ & _ & Ec & _). rewrite Ei, Ec. reflexivity.
  Qed.

  Lemma w_outer_height st st' inp inp' h h' :
    bstyle_wrel k st st' -> binput_rel k inp inp' -> L h h' -> L (block_outer_height st inp h) (block_outer_height st' inp' h').
  Proof.
    intros W Hin Hh. wopen W. pose proof (Wres _ _ Hin) as HR. resolved_open HR.
    destruct Hin as ([_ Hknh] & Hpar & Ecol). unfold block_outer_height.
    destruct Rmin as [_ Rmnh], Rmax as [_ Rmxh], Rpbs as [_ Rpbh].
    apply (sc_max k); [exact Hk | | assumption]. apply (rel_o_unwrap k); [assumption|]. apply (rel_f_maybe_clamp k Hk); assumption.
  Qed.

  Lemma w_output_margins st st' inp inp' io io' :
    bstyle_wrel k st st' -> binput_rel k inp inp' -> binflow_rel k io io' ->
    bms_rel k (fst (block_output_margins st inp io)) (fst (block_output_margins st' inp' io')) /\
    bms_rel k (snd (block_output_margins st inp io)) (snd (block_output_margins st' inp' io')).
  Proof.
    intros W Hin Hio. unfold block_output_margins. rewrite (w_own_collapse _ _ _ _ W Hin).
    wopen W. destruct Hin as (Hkn & [Hpw Hph] & Ecol). destruct Hio as (_ & _ & _ & Hf & Hl).
    destruct Wmargin as (_ & _ & Hmt & Hmb). cbn [fst snd].
    split; match goal with |- context [if ?b then _ else _] => destruct b end; try assumption;
      apply (rel_ms_from_margin k Hk); apply (rel_lpa_resolve_or_zero k Hk); assumption.
  Qed.

  Lemma w_params st st' inp inp' w w' :
    bstyle_wrel k st st' -> binput_rel k inp inp' -> L w w' -> bparams_rel k (block_params st inp w) (block_params st' inp' w').
  Proof.
    intros W Hin Hw. pose proof (w_own_collapse _ _ _ _ W Hin) as Eoc. pose proof (w_scrollbar_gutter _ _ W) as Hg.
    wopen W. pose proof (Wres _ _ Hin) as HR. resolved_open HR.
    unfold block_params, bparams_rel. cbn [p_outer_width p_cbi p_rcbi p_text_align p_own_collapse].
    repeat match goal with |- _ /\ _ => split end; try assumption.
    repeat apply (rel_rect_add k); try assumption; apply (rel_rect_resolve_or_zero k Hk); assumption.
  Qed.

  Lemma w_node_inner_size st st' inp inp' :
    bstyle_wrel k st st' -> binput_rel k inp inp' -> bsz_rel O (block_node_inner_size st inp) (block_node_inner_size st' inp').
  Proof.
    intros W Hin. wopen W. pose proof (Wres _ _ Hin) as HR. resolved_open HR.
    destruct Hin as ([Hkw Hkh] & _ & _). unfold block_node_inner_size.
    split; cbn [s_w s_h]; apply (rel_o_maybe_sub_f k); try assumption; [apply (rel_h_sum k) | apply (rel_v_sum k)]; assumption.
  Qed.

  Lemma w_hidden st st' : bstyle_wrel k st st' -> s_hidden bs_bgm st' = s_hidden bs_bgm st.
  Proof. intros W. wopen W. rewrite !bs_hidden_display, Wdisp. reflexivity. Qed.
End Weak.

(* ------------------------------------------------------------------------------------------------------------ *)
(** * The resumption *)

Section Resumption.
  Variable k : Q.
  Hypothesis Hk : 0 < k.
  Variable SR : BStyle XQ -> BStyle XQ -> Prop.
  Hypothesis SR_weak : forall s s', SR s s' -> bstyle_wrel k s s'.

  Notation L := (sc k).
  Notation O := (op_rel (sc k)).
  Notation BAlg := (Engine.Alg (BIn XQ) (ChildOut XQ) (BLayout XQ)).
  Notation BAlgRel := (AlgRel (BIn XQ) (ChildOut XQ) (BLayout XQ) (bin_rel k) (bout_rel k) (blay_rel k)).
  Notation irel := (aitem_rel k SR).
  Notation AItem := (@BlockAlg.AItem XQ).

  (* ---- constants related to themselves *)
  Lemma rel_no_out : bout_rel k no_out no_out.
  Proof.
    unfold bout_rel, no_out. cbn [co_size co_content_size co_top co_bottom co_ct].
    repeat split; try apply sc_zero.
  Qed.
  Lemma rel_hidden_child_out : bout_rel k hidden_child_out hidden_child_out.
  Proof. exact rel_no_out. Qed.
  Lemma rel_from_outer_size s s' : bsz_rel L s s' -> bout_rel k (from_outer_size s) (from_outer_size s').
  Proof.
    intros Hs. unfold bout_rel, from_outer_size. cbn [co_size co_content_size co_top co_bottom co_ct].
    repeat split; try apply sc_zero; apply Hs.
  Qed.
  Lemma rel_with_order n : blay_rel k (with_order n) (with_order n).
  Proof.
    unfold blay_rel, with_order. cbn [bl_order bl_x bl_y bl_size bl_content_size bl_scrollbar bl_padding bl_border bl_margin].
    repeat split; apply sc_zero.
  Qed.
  Lemma rel_hidden_child_input : bin_rel k hidden_child_input hidden_child_input.
  Proof. unfold bin_rel, hidden_child_input. cbn. repeat split. Qed.

  Lemma rel_avail_into_option a a' : bav_rel k a a' -> O (avail_into_option a) (avail_into_option a').
  Proof. destruct a, a'; cbn; try contradiction; auto. Qed.
  Lemma rel_avail_maybe_sub_f a a' r r' : bav_rel k a a' -> L r r' -> bav_rel k (avail_maybe_sub_f a r) (avail_maybe_sub_f a' r').
  Proof. destruct a, a'; cbn; try contradiction; auto. intros. apply sc_sub; assumption. Qed.

  (* ---- the items *)
  Lemma alg_items_rel children children' nis nis' :
    Forall2 SR children children' -> bsz_rel O nis nis' ->
    Forall2 irel (block_alg_items children nis) (block_alg_items children' nis').
  Proof.
    intros Hr Hn. rewrite !alg_items_nf. unfold block_nf, g_enumerate. generalize 0%nat at 1 3. generalize 0%nat.
    induction Hr as [|s s' l l' Hs Hl IH]; intros n m; [constructor|].
    cbn [g_enumerate_from filter snd]. rewrite (w_hidden k _ _ (SR_weak _ _ Hs)).
    destruct (s_hidden bs_bgm s); cbn [negb g_enumerate_from map]; [apply IH|].
    constructor; [|apply IH].
    unfold aitem_rel, mk_aitem, ai_node, ai_style, ai_item. cbn [fst snd].
    split; [reflexivity|]. split; [exact Hs|].
    destruct (SR_weak _ _ Hs) as (_ & _ & _ & _ & _ & _ & _ & _ & _ & _ & Witem). apply Witem. exact Hn.
  Qed.

  Lemma hidden_flags_rel children children' : Forall2 SR children children' ->
    map (s_hidden bs_bgm) children' = map (s_hidden bs_bgm) children.
  Proof.
    induction 1 as [|s s' l l' Hs Hl IH]; [reflexivity|]. cbn [map]. rewrite IH, (w_hidden k _ _ (SR_weak _ _ Hs)). reflexivity.
  Qed.

  Ltac item_open H :=
    destruct H as (Eord & Eitab & Hisz & Himin & Himax & Eiox & Eioy & Hisw & Eipos & Hiinset & Himargin & Hipad & Hibor & Hipb).

  (* ---- determine_content_based_container_width *)
  Lemma rel_measure_input aw aw' it it' kn kn' :
    bav_rel k aw aw' -> bitem_rel k it it' -> bsz_rel O kn kn' ->
    bin_rel k (measure_input aw it kn) (measure_input aw' it' kn').
  Proof.
    intros Ha Hit Hkn. item_open Hit. unfold measure_input, bin_rel.
    cbn [bi_mode bi_inherent bi_known bi_parent bi_avail bi_collapsible].
    split; [reflexivity|]. split; [reflexivity|]. split; [exact Hkn|]. split; [split; exact I|]. split; [|reflexivity].
    split; cbn [s_w s_h]; [|exact I]. apply rel_avail_maybe_sub_f; [exact Ha|]. apply (rel_h_sum k).
    apply (rel_rect_resolve_or_zero k Hk); [assumption|apply rel_avail_into_option; exact Ha].
  Qed.

  Lemma content_width_rel aw aw' items items' : bav_rel k aw aw' -> Forall2 irel items items' ->
    forall (K K' : XQ -> BAlg), (forall w w', L w w' -> BAlgRel (K w) (K' w')) ->
    forall mx mx', L mx mx' -> BAlgRel (content_width_alg aw items mx K) (content_width_alg aw' items' mx' K').
  Proof.
    intros Ha. induction 1 as [|a a' l l' (En & Hst & Hit) Hl IH]; intros K K' HK mx mx' Hmx; cbn [content_width_alg]; [apply HK; exact Hmx|].
    pose proof Hit as Hit0. item_open Hit. rewrite Eipos.
    destruct (position_is_absolute (it_position (ai_item a))); [apply IH; assumption|].
    pose proof (rel_sz_maybe_clamp k Hk _ _ _ _ _ _ Hisz Himin Himax) as Hkn.
    pose proof Hkn as [Hkw _].
    assert (Hcont : forall w w', L w w' ->
              BAlgRel (content_width_alg aw l (fmax mx (fmax w (s_w (it_pb_sum (ai_item a))))) K)
                      (content_width_alg aw' l' (fmax mx' (fmax w' (s_w (it_pb_sum (ai_item a'))))) K')).
    { intros w w' Hw. apply IH; [exact HK|]. destruct Hipb as [Hpbw _].
      apply (sc_max k); [exact Hk|exact Hmx|]. apply (sc_max k); assumption. }
    destruct (s_w (sz_maybe_clamp (it_size (ai_item a)) (it_min_size (ai_item a)) (it_max_size (ai_item a)))) as [w|],
             (s_w (sz_maybe_clamp (it_size (ai_item a')) (it_min_size (ai_item a')) (it_max_size (ai_item a')))) as [w'|];
      cbn [op_rel] in Hkw; try contradiction.
    - apply Hcont. exact Hkw.
    - rewrite En. apply AR_query; [apply rel_measure_input; assumption|].
      intros o o' Ho. apply Hcont. destruct Ho as ([Hsw _] & _).
      apply sc_add; [exact Hsw|]. apply (rel_h_sum k).
      apply (rel_rect_resolve_or_zero k Hk); [assumption|apply rel_avail_into_option; exact Ha].
  Qed.

  (* ---- perform_final_layout_on_in_flow_children *)
  Definition arrel (x y : AItem * ItemResult XQ) : Prop := irel (fst x) (fst y) /\ bres_rel k (snd x) (snd y).

  Lemma rel_child_input P P' it it' : bparams_rel k P P' -> bitem_rel k it it' -> bin_rel k (child_input P it) (child_input P' it').
  Proof.
    intros HP Hit. unfold child_input, bin_rel. cbn [bi_mode bi_inherent bi_known bi_parent bi_avail bi_collapsible].
    split; [reflexivity|]. split; [reflexivity|]. split; [apply (rel_item_known_dims k Hk); assumption|].
    split; [|split; [|reflexivity]].
    - split; cbn [s_w s_h op_rel]; [|exact I]. destruct HP as (Hpw & _). exact Hpw.
    - split; cbn [s_w s_h bav_rel]; [|exact I]. unfold item_avail_w. apply sc_sub; [apply (rel_inner_width k); exact HP|].
      apply (rel_non_auto_x_margin_sum k). apply (rel_item_margin k Hk); assumption.
  Qed.

  Lemma rel_inflow_layout it it' r r' co co' :
    bitem_rel k it it' -> bres_rel k r r' -> bout_rel k co co' -> blay_rel k (inflow_layout it r co) (inflow_layout it' r' co').
  Proof.
    intros Hit Hr Hco. item_open Hit.
    destruct Hr as (Erord & Erin & Hrx & Hry & Hrsz & Hrm & Hrsb & _).
    destruct Hco as (_ & Hcc & _).
    unfold inflow_layout, blay_rel. cbn [bl_order bl_x bl_y bl_size bl_content_size bl_scrollbar bl_padding bl_border bl_margin].
    repeat match goal with |- _ /\ _ => split end; try assumption; try apply Hrsz; try apply Hcc; try apply Hrsb; try apply Hipad;
      try apply Hibor; try apply Hrm.
  Qed.

  Lemma inflow_rel P P' items items' : bparams_rel k P P' -> Forall2 irel items items' ->
    forall (K K' : State XQ -> list (AItem * ItemResult XQ) -> BAlg),
      (forall s s' ars ars', bstate_rel k s s' -> Forall2 arrel ars ars' -> BAlgRel (K s ars) (K' s' ars')) ->
    forall st st' acc acc', bstate_rel k st st' -> Forall2 arrel acc acc' ->
      BAlgRel (inflow_alg P st items acc K) (inflow_alg P' st' items' acc' K').
  Proof.
    intros HP. induction 1 as [|a a' l l' Ha Hl IH]; intros K K' HK st st' acc acc' Hs Hacc; cbn [inflow_alg].
    - apply HK; [exact Hs|apply Forall2_rev; exact Hacc].
    - pose proof Ha as (En & Hst & Hit). pose proof Hit as Hit0. item_open Hit. rewrite Eipos.
      destruct (position_is_absolute (it_position (ai_item a))).
      + destruct (rel_inflow_step k Hk _ _ _ _ _ _ _ _ HP Hs Hit0 rel_no_out) as [S1 S2].
        apply IH; [exact HK|exact S1|]. constructor; [|exact Hacc]. split; [exact Ha|exact S2].
      + rewrite En. apply AR_query; [apply rel_child_input; assumption|].
        intros co co' Hco.
        destruct (rel_inflow_step k Hk _ _ _ _ _ _ _ _ HP Hs Hit0 Hco) as [S1 S2].
        apply AR_set; [apply rel_inflow_layout; assumption|].
        apply IH; [exact HK|exact S1|]. constructor; [|exact Hacc]. split; [exact Ha|exact S2].
  Qed.

  Lemma arrel_results ars ars' : Forall2 arrel ars ars' -> Forall2 (bres_rel k) (map snd ars) (map snd ars').
  Proof. induction 1 as [|x y l l' [_ Hr] Hl IH]; cbn [map]; constructor; assumption. Qed.

  Lemma rel_inflow_finish P P' s s' rs rs' :
    bparams_rel k P P' -> bstate_rel k s s' -> Forall2 (bres_rel k) rs rs' ->
    binflow_rel k (inflow_finish P s rs) (inflow_finish P' s' rs').
  Proof.
    intros HP Hs Hrs. destruct Hs as (Hsc & Hscm & Hsay & Hsfs & Hsact & Esf).
    destruct HP as (Hpw & Hpc & Hpr & Epta & Epoc). destruct Hpr as (Hprl & Hprr & Hprt & Hprb).
    unfold inflow_finish, binflow_rel. cbn [io_results io_content_size io_height io_first_set io_last_set].
    repeat match goal with |- _ /\ _ => split end; try assumption; try apply Hsc.
    rewrite Epoc. apply (sc_max k); [exact Hk | apply sc_zero|]. apply sc_add; [assumption|]. apply sc_add; [assumption|].
    destruct (l_end (p_own_collapse P)); [apply sc_zero | apply (rel_ms_resolve k); assumption].
  Qed.

  (* ---- the absolute pass *)
  Lemma abs_pass_rel abs_child (Habs : AbsChildRel k SR abs_child) st st' sz sz' ars ars' :
    SR st st' -> bsz_rel L sz sz' -> Forall2 arrel ars ars' ->
    forall (K K' : BSize XQ -> BAlg), (forall v v', bsz_rel L v v' -> BAlgRel (K v) (K' v')) ->
    forall c c', bsz_rel L c c' -> BAlgRel (abs_pass abs_child st sz ars c K) (abs_pass abs_child st' sz' ars' c' K').
  Proof.
    intros Hst Hsz. induction 1 as [|[a r] [a' r'] l l' [Ha Hr] Hl IH]; intros K K' HK c c' Hc; cbn [abs_pass]; [apply HK; exact Hc|].
    cbn [fst snd] in Ha, Hr. pose proof Ha as (_ & _ & Hit). destruct Hit as (_ & _ & _ & _ & _ & _ & _ & _ & Eipos & _). rewrite Eipos.
    destruct (position_is_absolute (it_position (ai_item a))); [|apply IH; assumption].
    apply Habs; try assumption. intros v v' Hv. apply IH; [exact HK|]. apply (rel_sz_fmax k Hk); assumption.
  Qed.

  (* ---- the hidden pass *)
  Lemma hidden_pass_rel (K K' : BAlg) : BAlgRel K K' -> forall flags order, BAlgRel (hidden_pass flags order K) (hidden_pass flags order K').
  Proof.
    intros HK. induction flags as [|h flags IH]; intros order; cbn [hidden_pass]; [exact HK|].
    destruct h; [|apply IH]. apply AR_query; [apply rel_hidden_child_input|]. intros _ _ _.
    apply AR_set; [apply rel_with_order|apply IH].
  Qed.

  (* ---- compute_inner *)
  Definition after_width (abs_child : @AbsChild XQ) (st : BStyle XQ) (children : list (BStyle XQ)) (inp : BIn XQ)
             (items : list AItem) (outer_w : XQ) : BAlg :=
    let binp := mkInput (bi_known inp) (bi_parent inp) (bi_collapsible inp) in
    match is_compute_size (bi_mode inp), s_h (bi_known inp) with
    | true, Some h => Engine.Ret _ _ _ (from_outer_size (mkSize outer_w h))
    | _, _ =>
        let P := block_params st binp outer_w in
        inflow_alg P (init_state P) items []
          (fun stF ars =>
             let io := inflow_finish P stF (map snd ars) in
             let outer_h := block_outer_height st binp (io_height io) in
             let sz := mkSize outer_w outer_h in
             if is_compute_size (bi_mode inp) then Engine.Ret _ _ _ (from_outer_size sz)
             else
               abs_pass abs_child st sz ars sz_zero
                 (fun abs_content =>
                    hidden_pass (map (s_hidden bs_bgm) children) 0
                      (Engine.Ret _ _ _ (mkOut sz (sz_fmax (io_content_size io) abs_content)
                                  (fst (block_output_margins st binp io)) (snd (block_output_margins st binp io))
                                  (block_can_collapse_through st binp (io_results io))))))
    end.

  Lemma block_inner_alg_unfold abs_child st children inp :
    block_inner_alg abs_child st children inp =
    let binp := mkInput (bi_known inp) (bi_parent inp) (bi_collapsible inp) in
    let R := block_resolve st binp in
    let items := block_alg_items children (block_node_inner_size st binp) in
    match s_w (bi_known inp) with
    | Some w => after_width abs_child st children inp items w
    | None =>
        content_width_alg (avail_maybe_sub_f (s_w (bi_avail inp)) (h_sum (rs_cbi R))) items zero
          (fun mx => after_width abs_child st children inp items
                       (fmax (f_maybe_clamp (add mx (h_sum (rs_cbi R))) (s_w (rs_min R)) (s_w (rs_max R))) (s_w (rs_pb_size R))))
    end.
  Proof. reflexivity. Qed.

  Lemma binput_of_bin inp inp' : bin_rel k inp inp' ->
    binput_rel k (mkInput (bi_known inp) (bi_parent inp) (bi_collapsible inp)) (mkInput (bi_known inp') (bi_parent inp') (bi_collapsible inp')).
  Proof. intros (Em & Ei & Hkn & Hpar & Hav & Ecol). unfold binput_rel. cbn [in_known in_parent in_collapsible]. repeat split; try apply Hkn; try apply Hpar; exact Ecol. Qed.

  Lemma after_width_rel abs_child (Habs : AbsChildRel k SR abs_child) st st' children children' inp inp' items items' w w' :
    SR st st' -> Forall2 SR children children' -> bin_rel k inp inp' -> Forall2 irel items items' -> L w w' ->
    BAlgRel (after_width abs_child st children inp items w) (after_width abs_child st' children' inp' items' w').
  Proof.
    intros Hst Hch Hin Hitems Hw. pose proof (SR_weak _ _ Hst) as W. pose proof (binput_of_bin _ _ Hin) as Hb.
    destruct Hin as (Em & Ei & Hkn & Hpar & Hav & Ecol). unfold after_width. cbv zeta.
    rewrite Em, (hidden_flags_rel _ _ Hch).
    set (binp := mkInput (bi_known inp) (bi_parent inp) (bi_collapsible inp)) in *.
    set (binp' := mkInput (bi_known inp') (bi_parent inp') (bi_collapsible inp')) in *.
    pose proof (w_params k Hk _ _ _ _ _ _ W Hb Hw) as HP.
    assert (Hloop : BAlgRel
      (inflow_alg (block_params st binp w) (init_state (block_params st binp w)) items []
         (fun stF ars =>
            if is_compute_size (bi_mode inp)
            then Engine.Ret _ _ _ (from_outer_size (mkSize w (block_outer_height st binp (io_height (inflow_finish (block_params st binp w) stF (map snd ars))))))
            else
              abs_pass abs_child st (mkSize w (block_outer_height st binp (io_height (inflow_finish (block_params st binp w) stF (map snd ars))))) ars sz_zero
                (fun abs_content =>
                   hidden_pass (map (s_hidden bs_bgm) children) 0
                     (Engine.Ret _ _ _
                        (mkOut (mkSize w (block_outer_height st binp (io_height (inflow_finish (block_params st binp w) stF (map snd ars)))))
                               (sz_fmax (io_content_size (inflow_finish (block_params st binp w) stF (map snd ars))) abs_content)
                               (fst (block_output_margins st binp (inflow_finish (block_params st binp w) stF (map snd ars))))
                               (snd (block_output_margins st binp (inflow_finish (block_params st binp w) stF (map snd ars))))
                               (block_can_collapse_through st binp (io_results (inflow_finish (block_params st binp w) stF (map snd ars)))))))))
      (inflow_alg (block_params st' binp' w') (init_state (block_params st' binp' w')) items' []
         (fun stF ars =>
            if is_compute_size (bi_mode inp)
            then Engine.Ret _ _ _ (from_outer_size (mkSize w' (block_outer_height st' binp' (io_height (inflow_finish (block_params st' binp' w') stF (map snd ars))))))
            else
              abs_pass abs_child st' (mkSize w' (block_outer_height st' binp' (io_height (inflow_finish (block_params st' binp' w') stF (map snd ars))))) ars sz_zero
                (fun abs_content =>
                   hidden_pass (map (s_hidden bs_bgm) children) 0
                     (Engine.Ret _ _ _
                        (mkOut (mkSize w' (block_outer_height st' binp' (io_height (inflow_finish (block_params st' binp' w') stF (map snd ars)))))
                               (sz_fmax (io_content_size (inflow_finish (block_params st' binp' w') stF (map snd ars))) abs_content)
                               (fst (block_output_margins st' binp' (inflow_finish (block_params st' binp' w') stF (map snd ars))))
                               (snd (block_output_margins st' binp' (inflow_finish (block_params st' binp' w') stF (map snd ars))))
                               (block_can_collapse_through st' binp' (io_results (inflow_finish (block_params st' binp' w') stF (map snd ars)))))))))).
    { apply inflow_rel; [exact HP|exact Hitems| |apply (rel_init_state k); exact HP|constructor].
      intros s s' ars ars' Hs Hars.
      pose proof (rel_inflow_finish _ _ _ _ _ _ HP Hs (arrel_results _ _ Hars)) as Hio.
      set (io := inflow_finish (block_params st binp w) s (map snd ars)) in *.
      set (io' := inflow_finish (block_params st' binp' w') s' (map snd ars')) in *.
      pose proof Hio as (Hres & Hcs & Hh & _).
      pose proof (w_outer_height k Hk _ _ _ _ _ _ W Hb Hh) as Hoh.
      assert (Hsz : bsz_rel L (mkSize w (block_outer_height st binp (io_height io))) (mkSize w' (block_outer_height st' binp' (io_height io'))))
        by (split; assumption).
      destruct (is_compute_size (bi_mode inp)); [apply AR_ret; apply rel_from_outer_size; exact Hsz|].
      apply abs_pass_rel; [exact Habs|exact Hst|exact Hsz|exact Hars| |apply (rel_sz_zero k)].
      intros v v' Hv. apply hidden_pass_rel. apply AR_ret.
      pose proof (w_output_margins k Hk _ _ _ _ _ _ W Hb Hio) as [Hm1 Hm2].
      unfold bout_rel. cbn [co_size co_content_size co_top co_bottom co_ct].
      split; [exact Hsz|]. split; [apply (rel_sz_fmax k Hk); assumption|]. split; [exact Hm1|]. split; [exact Hm2|].
      apply (w_can_collapse_through k Hk); assumption. }
    destruct (is_compute_size (bi_mode inp)) eqn:Ecs; [|exact Hloop].
    destruct Hkn as [_ Hkh].
    destruct (s_h (bi_known inp)) as [h|], (s_h (bi_known inp')) as [h'|]; cbn [op_rel] in Hkh; try contradiction; [|exact Hloop].
    apply AR_ret. apply rel_from_outer_size. split; assumption.
  Qed.

  Theorem block_inner_alg_rel abs_child (Habs : AbsChildRel k SR abs_child) st st' children children' inp inp' :
    SR st st' -> Forall2 SR children children' -> bin_rel k inp inp' ->
    BAlgRel (block_inner_alg abs_child st children inp) (block_inner_alg abs_child st' children' inp').
  Proof.
    intros Hst Hch Hin. rewrite !block_inner_alg_unfold. cbv zeta.
    pose proof (SR_weak _ _ Hst) as W. pose proof (binput_of_bin _ _ Hin) as Hb.
    set (binp := mkInput (bi_known inp) (bi_parent inp) (bi_collapsible inp)) in *.
    set (binp' := mkInput (bi_known inp') (bi_parent inp') (bi_collapsible inp')) in *.
    pose proof (alg_items_rel _ _ _ _ Hch (w_node_inner_size k _ _ _ _ W Hb)) as Hitems.
    destruct W as (_ & _ & _ & _ & _ & _ & _ & _ & _ & Wres & _). pose proof (Wres _ _ Hb) as HR.
    destruct HR as (Rpad & Rbor & Rpbs & Rcbi & Rsz & Rmin & Rmax).
    pose proof Hin as (Em & Ei & Hkn & Hpar & Hav & Ecol). destruct Hkn as [Hkw _].
    destruct (s_w (bi_known inp)) as [w|], (s_w (bi_known inp')) as [w'|]; cbn [op_rel] in Hkw; try contradiction.
    - apply after_width_rel; assumption.
    - apply content_width_rel; [|exact Hitems| |apply sc_zero].
      + apply rel_avail_maybe_sub_f; [apply Hav|apply (rel_h_sum k); exact Rcbi].
      + intros mx mx' Hmx. apply after_width_rel; try assumption.
        apply (sc_max k); [exact Hk| |apply Rpbs].
        apply (rel_f_maybe_clamp k Hk); [|apply Rmin|apply Rmax]. apply sc_add; [exact Hmx|apply (rel_h_sum k); exact Rcbi].
  Qed.

  Theorem block_alg_rel pre abs_child : PreRel k SR pre -> AbsChildRel k SR abs_child ->
    forall st st' children children' inp inp', SR st st' -> Forall2 SR children children' -> bin_rel k inp inp' ->
    BAlgRel (block_alg pre abs_child st children inp) (block_alg pre abs_child st' children' inp').
  Proof.
    intros Hpre Habs st st' children children' inp inp' Hst Hch Hin. unfold block_alg.
    apply block_inner_alg_rel; try assumption. apply Hpre; assumption.
  Qed.

  (* ---- the two parameters can be instantiated *)
  Lemma abs_child_simple_rel : AbsChildRel k SR (abs_child_simple (T := XQ)).
  Proof.
    intros st st' sz sz' a a' r r' K K' Hst Hsz (En & Has & Hit) Hr HK. unfold abs_child_simple. rewrite En.
    destruct Hsz as [Hszw Hszh].
    destruct Hit as (Eord & Eitab & Hisz & Himin & Himax & Eiox & Eioy & Hisw & Eipos & Hiinset & Himargin & Hipad & Hibor & Hipb).
    destruct Hr as (Erord & Erin & Hrx & Hry & Hrsz & Hrm & Hrsb & Hrsx & Hrsy & _).
    apply AR_query.
    - unfold bin_rel. cbn [bi_mode bi_inherent bi_known bi_parent bi_avail bi_collapsible].
      split; [reflexivity|]. split; [reflexivity|]. split; [split; exact I|].
      split; [split; assumption|]. split; [split; assumption|reflexivity].
    - intros o o' (Hos & Hoc & _). apply AR_set.
      + unfold blay_rel. cbn [bl_order bl_x bl_y bl_size bl_content_size bl_scrollbar bl_padding bl_border bl_margin].
        repeat match goal with |- _ /\ _ => split end; try assumption; try apply Hos; try apply Hoc; try apply Hrsb; try apply Hipad;
          try apply Hibor; try apply sc_zero; apply (rel_rect_zero k).
      + apply HK. rewrite Eiox, Eioy. apply (rel_content_size_contribution k Hk); assumption.
  Qed.

  Lemma rel_min_max_definite a a' b b' : O a a' -> O b b' -> O (BlockTree.min_max_definite a b) (BlockTree.min_max_definite a' b').
  Proof.
    intros Ha Hb. unfold BlockTree.min_max_definite.
    destruct a, a'; cbn [op_rel] in Ha; try contradiction; try exact I.
    destruct b, b'; cbn [op_rel] in Hb; try contradiction; try exact I.
    rewrite (sc_leb k _ _ _ _ Hk Hb Ha). destruct (leb x1 x); [exact Ha|exact I].
  Qed.

  Lemma block_pre_rel : PreRel k SR block_pre.
  Proof.
    intros st st' i i' Hst Hin. pose proof (SR_weak _ _ Hst) as W. pose proof (binput_of_bin _ _ Hin) as Hb.
    destruct W as (_ & _ & _ & _ & _ & _ & _ & _ & _ & Wres & _). pose proof (Wres _ _ Hb) as HR.
    destruct HR as (Rpad & Rbor & Rpbs & Rcbi & Rsz & Rmin & Rmax).
    destruct Hin as (Em & Ei & Hkn & Hpar & Hav & Ecol).
    unfold block_pre, bin_rel. cbn [bi_mode bi_inherent bi_known bi_parent bi_avail bi_collapsible].
    split; [exact Em|]. split; [exact Ei|]. split; [|split; [exact Hpar|split; [exact Hav|exact Ecol]]].
    assert (Hcl : bsz_rel O (if bi_inherent i then sz_maybe_clamp (rs_size (block_resolve st (mkInput (bi_known i) (bi_parent i) (bi_collapsible i))))
                                                               (rs_min (block_resolve st (mkInput (bi_known i) (bi_parent i) (bi_collapsible i))))
                                                               (rs_max (block_resolve st (mkInput (bi_known i) (bi_parent i) (bi_collapsible i))))
                             else sz_none)
                            (if bi_inherent i' then sz_maybe_clamp (rs_size (block_resolve st' (mkInput (bi_known i') (bi_parent i') (bi_collapsible i'))))
                                                                (rs_min (block_resolve st' (mkInput (bi_known i') (bi_parent i') (bi_collapsible i'))))
                                                                (rs_max (block_resolve st' (mkInput (bi_known i') (bi_parent i') (bi_collapsible i'))))
                             else sz_none)).
    { rewrite Ei. destruct (bi_inherent i); [apply (rel_sz_maybe_clamp k Hk); assumption|apply (rel_sz_none k)]. }
    destruct Hcl as [Hclw Hclh]. destruct Hkn as [Hkw Hkh]. destruct Rmin as [Rmnw Rmnh], Rmax as [Rmxw Rmxh], Rpbs as [Rpbw Rpbh].
    split; unfold BlockTree.sz_maybe_max_f, BlockTree.sz_or; cbn [s_w s_h]; unfold o_maybe_max_f.
    - eapply rel_option_map; [|intros ? ? ?; apply (sc_max k); [exact Hk|eassumption|exact Rpbw]].
      apply (rel_o_or k); [apply (rel_o_or k); [exact Hkw|apply rel_min_max_definite; assumption]|exact Hclw].
    - eapply rel_option_map; [|intros ? ? ?; apply (sc_max k); [exact Hk|eassumption|exact Rpbh]].
      apply (rel_o_or k); [apply (rel_o_or k); [exact Hkh|apply rel_min_max_definite; assumption]|exact Hclh].
  Qed.
End Resumption.

(* for InherentSize inputs block_pre is Model/BlockTree.v's block_styled_known (the function the whole-API correspondence K1
   of C10 runs) *)
Lemma block_pre_inherent {T} `{Num T} (st : BStyle T) (i : BIn T) : bi_inherent i = true ->
  bi_known (block_pre st i) = BlockTree.block_styled_known st (bi_known i) (bi_parent i).
Proof. intros E. unfold block_pre, BlockTree.block_styled_known. rewrite E. reflexivity. Qed.
