(* C06 / C05, block layout: the in-flow kernel of Model/Block.v (perform_final_layout_on_in_flow_children, block.rs) and the
   decisions of compute_inner around it cannot see position:absolute items (nor the content size reported by a child, except in
   the container's own content size).  Purely structural: every lemma holds for ANY `Num` instance (so also for binary32,
   bit for bit) -- no arithmetic fact is used.

   xrel      two (item, child output) pairs an in-flow pass may not distinguish:
               both items are position:absolute (everything else arbitrary: sizes, margins, insets, order, child output), or
               the same item and child outputs that agree except for `content_size`
   rrel      what the pass records for such a pair: identical for in-flow items; for absolute items identical except the two
             fields copied from the item itself (`order`, scrollbar size) -- in particular the same static position
   srel_st   loop states that agree except for inflow_content_size *)
From Coq Require Import ZArith Bool List Lia.
From TV Require Import Num.Num Gen.BlockGen Model.Block Model.BlockLeaf Model.BlockTree.
Import ListNotations.

Section BlockBlind.
  Context {T : Type} `{Num T}.

  Definition is_abs (x : Item T * ChildOut T) : bool := position_is_absolute (it_position (fst x)).
  Definition in_flow_only (xs : list (Item T * ChildOut T)) : list (Item T * ChildOut T) :=
    filter (fun x => negb (is_abs x)) xs.

  (* child outputs equal up to content_size *)
  Definition co_sim (a b : ChildOut T) : Prop :=
    co_size a = co_size b /\ co_top a = co_top b /\ co_bottom a = co_bottom b /\ co_ct a = co_ct b.

  Definition xrel (x y : Item T * ChildOut T) : Prop :=
    (is_abs x = true /\ is_abs y = true) \/ (is_abs x = false /\ fst x = fst y /\ co_sim (snd x) (snd y)).

  (* the record of an absolute item with the two item-owned fields replaced *)
  Definition rrel (r r' : ItemResult T) : Prop :=
    (ir_inflow r = true /\ r = r') \/
    (ir_inflow r = false /\
     r' = mkRes (ir_order r') false (ir_x r) (ir_y r) (ir_size r) (ir_margin r) (ir_scrollbar r')
                (ir_static_x r) (ir_static_y r) (ir_ct r) (ir_known r) (ir_avail_w r) (ir_top_set r) (ir_bottom_set r)).

  Definition srel_st (s s' : State T) : Prop :=
    s_committed s = s_committed s' /\ s_abs_y s = s_abs_y s' /\ s_first_set s = s_first_set s' /\
    s_active s = s_active s' /\ s_is_first s = s_is_first s'.

  Lemma srel_st_refl s : srel_st s s.
  Proof. repeat split. Qed.

  Lemma xrel_refl x : xrel x x.
  Proof.
    unfold xrel. destruct (is_abs x) eqn:E; [left; split; reflexivity|right]. repeat split.
  Qed.

  (* ---- one step *)

  Lemma step_abs P st it co :
    position_is_absolute (it_position it) = true ->
    inflow_step P st it co =
    (st, mkRes (it_order it) false zero zero sz_zero rect_zero (scrollbar_size it)
               (r_left (p_rcbi P)) (s_abs_y st) false sz_none zero ms_ZERO ms_ZERO).
  Proof. intros E. unfold inflow_step. rewrite E. reflexivity. Qed.

  Lemma step_inflow_flag P st it co :
    ir_inflow (snd (inflow_step P st it co)) = negb (position_is_absolute (it_position it)).
  Proof.
    unfold inflow_step. destruct (position_is_absolute (it_position it)); [reflexivity|].
    cbv zeta. destruct (co_ct co); reflexivity.
  Qed.

  (* the in-flow branch reads the state only through the five fields of srel_st (+ s_content for the content size) and the
     child's output only through size / margin sets / collapse-through flag (+ content_size for the content size) *)
  Lemma step_rel P st st' it co co' :
    position_is_absolute (it_position it) = false -> srel_st st st' -> co_sim co co' ->
    srel_st (fst (inflow_step P st it co)) (fst (inflow_step P st' it co')) /\
    snd (inflow_step P st it co) = snd (inflow_step P st' it co').
  Proof.
    intros E (H1 & H2 & H3 & H4 & H5) (C1 & C2 & C3 & C4).
    unfold inflow_step. rewrite E. cbv zeta.
    rewrite <- H1, <- H3, <- H4, <- H5, <- C1, <- C2, <- C3, <- C4.
    destruct (co_ct co); cbn [fst snd]; (split; [repeat split|reflexivity]).
  Qed.

  (* ... and when additionally the content sizes agree, the whole step agrees *)
  Lemma step_rel_content P st st' it co :
    position_is_absolute (it_position it) = false -> srel_st st st' -> s_content st = s_content st' ->
    s_content (fst (inflow_step P st it co)) = s_content (fst (inflow_step P st' it co)).
  Proof.
    intros E (H1 & H2 & H3 & H4 & H5) Hc.
    unfold inflow_step. rewrite E. cbv zeta.
    rewrite <- H1, <- H3, <- H4, <- H5, <- Hc.
    destruct (co_ct co); reflexivity.
  Qed.

  (* ---- the loop *)

  Lemma loop_rel P xs xs' : Forall2 xrel xs xs' -> forall st st', srel_st st st' ->
    srel_st (fst (inflow_loop P st xs)) (fst (inflow_loop P st' xs')) /\
    Forall2 rrel (snd (inflow_loop P st xs)) (snd (inflow_loop P st' xs')).
  Proof.
    induction 1 as [|[it co] [it' co'] xs xs' Hx Hl IH]; intros st st' Hs; cbn [inflow_loop]; [split; [exact Hs|constructor]|].
    destruct Hx as [[A A']|[A [E C]]]; unfold is_abs in *; cbn [fst snd] in *.
    - rewrite (step_abs P st it co A), (step_abs P st' it' co' A').
      destruct (IH st st' Hs) as [I1 I2].
      destruct (inflow_loop P st xs) as [s2 rs], (inflow_loop P st' xs') as [s2' rs']. cbn [fst snd] in *.
      split; [exact I1|]. constructor; [|exact I2].
      right. cbn. split; [reflexivity|]. destruct Hs as (_ & -> & _). reflexivity.
    - subst it'. destruct (step_rel P st st' it co co' A Hs C) as [S1 S2].
      pose proof (step_inflow_flag P st it co) as Fl. rewrite A in Fl. cbn in Fl.
      destruct (inflow_step P st it co) as [s1 r], (inflow_step P st' it co') as [s1' r']. cbn [fst snd] in *. subst r'.
      destruct (IH s1 s1' S1) as [I1 I2].
      destruct (inflow_loop P s1 xs) as [s2 rs], (inflow_loop P s1' xs') as [s2' rs']. cbn [fst snd] in *.
      split; [exact I1|]. constructor; [left; split; [exact Fl|reflexivity]|exact I2].
  Qed.

  (* deleting the absolute items = deleting their records *)
  Lemma loop_delete P xs : forall st,
    inflow_loop P st (in_flow_only xs) =
    (fst (inflow_loop P st xs), filter (fun r => ir_inflow r) (snd (inflow_loop P st xs))).
  Proof.
    induction xs as [|[it co] xs IH]; intros st; cbn [in_flow_only filter inflow_loop]; [reflexivity|].
    unfold is_abs; cbn [fst]. destruct (position_is_absolute (it_position it)) eqn:A; cbn [negb].
    - rewrite (step_abs P st it co A). fold (in_flow_only xs). rewrite IH.
      destruct (inflow_loop P st xs) as [s2 rs]. reflexivity.
    - cbn [inflow_loop]. pose proof (step_inflow_flag P st it co) as Fl. rewrite A in Fl. cbn in Fl.
      destruct (inflow_step P st it co) as [s1 r]. cbn [snd] in Fl. fold (in_flow_only xs). rewrite IH.
      destruct (inflow_loop P s1 xs) as [s2 rs]. cbn [fst snd filter]. rewrite Fl. reflexivity.
  Qed.

  (* inflow_content_size: unchanged when the child outputs are the same (only absolute items differ) *)
  Definition xrel_strict (x y : Item T * ChildOut T) : Prop :=
    (is_abs x = true /\ is_abs y = true) \/ (is_abs x = false /\ x = y).

  Lemma xrel_strict_xrel x y : xrel_strict x y -> xrel x y.
  Proof. intros [A|[A ->]]; [left; exact A|right]. repeat split. exact A. Qed.

  Lemma loop_content P xs xs' : Forall2 xrel_strict xs xs' -> forall st st', srel_st st st' -> s_content st = s_content st' ->
    s_content (fst (inflow_loop P st xs)) = s_content (fst (inflow_loop P st' xs')).
  Proof.
    induction 1 as [|[it co] [it' co'] xs xs' Hx Hl IH]; intros st st' Hs Hc; cbn [inflow_loop]; [exact Hc|].
    destruct Hx as [[A A']|[A E]]; unfold is_abs in *; cbn [fst snd] in *.
    - rewrite (step_abs P st it co A), (step_abs P st' it' co' A').
      specialize (IH st st' Hs Hc).
      destruct (inflow_loop P st xs) as [s2 rs], (inflow_loop P st' xs') as [s2' rs']. exact IH.
    - injection E as <- <-.
      assert (C : co_sim co co) by (repeat split).
      destruct (step_rel P st st' it co co A Hs C) as [S1 _].
      pose proof (step_rel_content P st st' it co A Hs Hc) as S2.
      destruct (inflow_step P st it co) as [s1 r], (inflow_step P st' it co) as [s1' r']. cbn [fst snd] in *.
      specialize (IH s1 s1' S1 S2).
      destruct (inflow_loop P s1 xs) as [s2 rs], (inflow_loop P s1' xs') as [s2' rs']. exact IH.
  Qed.

  (* ---- block_inflow *)

  Theorem block_inflow_abs_blind P xs xs' :
    Forall2 xrel xs xs' ->
    Forall2 rrel (io_results (block_inflow P xs)) (io_results (block_inflow P xs')) /\
    io_height (block_inflow P xs) = io_height (block_inflow P xs') /\
    io_first_set (block_inflow P xs) = io_first_set (block_inflow P xs') /\
    io_last_set (block_inflow P xs) = io_last_set (block_inflow P xs').
  Proof.
    intros Hx. destruct (loop_rel P xs xs' Hx (init_state P) (init_state P) (srel_st_refl _)) as [(H1 & H2 & H3 & H4 & H5) R].
    unfold block_inflow.
    destruct (inflow_loop P (init_state P) xs) as [s rs], (inflow_loop P (init_state P) xs') as [s' rs']. cbn [fst snd] in *.
    cbn [io_results io_height io_first_set io_last_set]. rewrite H1, H4. repeat split; assumption.
  Qed.

  Theorem block_inflow_abs_blind_content P xs xs' :
    Forall2 xrel_strict xs xs' -> io_content_size (block_inflow P xs) = io_content_size (block_inflow P xs').
  Proof.
    intros Hx. pose proof (loop_content P xs xs' Hx (init_state P) (init_state P) (srel_st_refl _) eq_refl) as Hc.
    unfold block_inflow.
    destruct (inflow_loop P (init_state P) xs) as [s rs], (inflow_loop P (init_state P) xs') as [s' rs']. exact Hc.
  Qed.

  Theorem block_inflow_delete_absolute P xs :
    block_inflow P (in_flow_only xs) =
    mkInflowOut (filter (fun r => ir_inflow r) (io_results (block_inflow P xs)))
                (io_content_size (block_inflow P xs)) (io_height (block_inflow P xs))
                (io_first_set (block_inflow P xs)) (io_last_set (block_inflow P xs)).
  Proof.
    unfold block_inflow. rewrite loop_delete.
    destruct (inflow_loop P (init_state P) xs) as [s rs]. reflexivity.
  Qed.

  (* every in-flow record is one of the records of the in-flow items, in order: position by position *)
  Lemma rrel_inflow_eq rs rs' : Forall2 rrel rs rs' ->
    filter (fun r => ir_inflow r) rs = filter (fun r => ir_inflow r) rs' /\ map (fun r => ir_inflow r) rs = map (fun r => ir_inflow r) rs'.
  Proof.
    induction 1 as [|r r' rs rs' Hr Hl [IH1 IH2]]; [split; reflexivity|]. cbn [filter map].
    destruct Hr as [[F ->]|[F E]].
    - rewrite F, IH1, IH2. split; reflexivity.
    - assert (F' : ir_inflow r' = false) by (rewrite E; reflexivity).
      rewrite F, F', IH1, IH2. split; reflexivity.
  Qed.

  (* static positions of the absolute items: a function of the in-flow items before them only *)
  Lemma rrel_static r r' : rrel r r' -> ir_static_x r = ir_static_x r' /\ ir_static_y r = ir_static_y r'.
  Proof. intros [[_ ->]|[_ ->]]; split; reflexivity. Qed.

  (* ---- the decisions of compute_inner that look at the children *)

  Lemma ct_all_delete (rs : list (ItemResult T)) :
    forallb (fun r => orb (negb (ir_inflow r)) (ir_ct r)) rs =
    forallb (fun r => orb (negb (ir_inflow r)) (ir_ct r)) (filter (fun r => ir_inflow r) rs).
  Proof.
    induction rs as [|r rs IH]; [reflexivity|]. cbn [forallb filter].
    destruct (ir_inflow r) eqn:F; cbn [negb orb forallb andb]; rewrite ?F; cbn [negb orb]; rewrite IH; reflexivity.
  Qed.

  Lemma ct_all_rel rs rs' : Forall2 rrel rs rs' ->
    forallb (fun r => orb (negb (ir_inflow r)) (ir_ct r)) rs = forallb (fun r => orb (negb (ir_inflow r)) (ir_ct r)) rs'.
  Proof.
    intros Hr. rewrite (ct_all_delete rs), (ct_all_delete rs'). destruct (rrel_inflow_eq rs rs' Hr) as [-> _]. reflexivity.
  Qed.

  Theorem block_decisions_abs_blind (st : BStyle T) (inp : BInput T) P xs xs' :
    Forall2 xrel xs xs' ->
    let io := block_inflow P xs in
    let io' := block_inflow P xs' in
    block_can_collapse_through st inp (io_results io) = block_can_collapse_through st inp (io_results io') /\
    block_outer_height st inp (io_height io) = block_outer_height st inp (io_height io') /\
    block_output_margins st inp io = block_output_margins st inp io'.
  Proof.
    intros Hx io io'. destruct (block_inflow_abs_blind P xs xs' Hx) as (R & Hh & Hf & Hl). fold io io' in R, Hh, Hf, Hl.
    split; [|split].
    - unfold block_can_collapse_through. rewrite (ct_all_rel _ _ R). reflexivity.
    - rewrite Hh. reflexivity.
    - unfold block_output_margins. rewrite Hf, Hl. reflexivity.
  Qed.

  Theorem block_decisions_delete_absolute (st : BStyle T) (inp : BInput T) P xs :
    let io := block_inflow P xs in
    let io' := block_inflow P (in_flow_only xs) in
    block_can_collapse_through st inp (io_results io) = block_can_collapse_through st inp (io_results io') /\
    block_outer_height st inp (io_height io) = block_outer_height st inp (io_height io') /\
    block_output_margins st inp io = block_output_margins st inp io'.
  Proof.
    intros io io'. unfold io'. rewrite block_inflow_delete_absolute. fold io. cbn [io_results io_height].
    split; [|split; [reflexivity|]].
    - unfold block_can_collapse_through. rewrite <- ct_all_delete. reflexivity.
    - unfold block_output_margins. reflexivity.
  Qed.

  (* ---- determine_content_based_container_width over leaf children (Model/BlockTree.v): absolute items are skipped *)
  Lemma fold_left_filter_skip {A B} (f : A -> B -> A) (p : B -> bool) l :
    (forall a x, p x = false -> f a x = a) -> forall a, fold_left f (filter p l) a = fold_left f l a.
  Proof.
    intros Hf. induction l as [|x l IH]; intros a; [reflexivity|]. cbn [filter fold_left].
    destruct (p x) eqn:E; cbn [fold_left]; [apply IH|]. rewrite (Hf a x E). apply IH.
  Qed.

  Lemma content_based_width_delete (items : list (Item T * (BStyle T * Measure T))) (aw : Avail T) :
    content_based_width (filter (fun x => negb (position_is_absolute (it_position (fst x)))) items) aw =
    content_based_width items aw.
  Proof.
    unfold content_based_width. apply fold_left_filter_skip.
    intros a x E. destruct (position_is_absolute (it_position (fst x))); [reflexivity|discriminate].
  Qed.
End BlockBlind.
