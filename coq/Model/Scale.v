(* C04 -- uniform scaling of the length-valued inputs of the numeric kernels, over the exact instance XQ.
   Definitions only.

     x_scale k x        a length multiplied by the rational k: finite values are multiplied, +-infinity and NaN are kept
                        (for k > 0 this is x_mul (Fin k) x: lemma x_scale_is_mul in Proofs/ScalePrim.v); defined in Model/ScaleBase.v
     *_scale k          the lifts: Option / Size / Rect / Point; style lengths (LengthPercentage(Auto) / Dimension: `Length v`
                        is scaled, `Percent p` and `Auto` are untouched); AvailableSpace (Definite scaled); the leaf Style
                        record, LayoutInput, LayoutOutput, Layout and the measure-call log of Model/Leaf.v, Model/Root.v.
                        Dimensionless fields (percentages, aspect ratio, enums, booleans, order) are copied.
     sc k a a'          "a' is a scaled by k" up to the equality of rationals (Q is not canonical: Fin (k*a + k*b) and
                        Fin (k*(a+b)) are equal values but different terms), and its lifts *_rel.  dl = xeq is the relation
                        for dimensionless numbers.  Every homogeneity statement has the shape
                            related inputs -> related outputs           (R x x' -> S (f x) (f x'))
                        which for x' := x_scale k x reads  f (scale k x) ~ scale k (f x).
     measure_homog      the hypothesis on measure functions.

   The records of the absolutely-positioned kernels (Model/AbsPosBase.v has its own Size/Rect) are in Model/ScaleAbs.v. *)
From Coq Require Import QArith List Bool NArith.
From TV Require Import Num.Num Num.QNum Model.Common Model.Leaf Model.Root.
From TV Require Export Model.ScaleBase.
Import ListNotations.

(* ---- functional lifts *)
Definition size_scale (k : Q) (s : Size XQ) : Size XQ := size_map (x_scale k) s.
Definition osize_scale (k : Q) (s : Size (option XQ)) : Size (option XQ) := size_map (opt_scale k) s.
Definition rect_scale (k : Q) (r : Rect XQ) : Rect XQ := rect_map (x_scale k) r.
Definition point_scale (k : Q) (p : Point XQ) : Point XQ := point_map (x_scale k) p.
Definition opoint_scale (k : Q) (p : Point (option XQ)) : Point (option XQ) := point_map (opt_scale k) p.

Definition lpa_scale (k : Q) (d : LengthPercentageAuto XQ) : LengthPercentageAuto XQ :=
  match d with Auto => Auto | Length v => Length (x_scale k v) | Percent p => Percent p end.
Definition dim_scale : Q -> Dimension XQ -> Dimension XQ := lpa_scale.
Definition lp_scale (k : Q) (d : LengthPercentage XQ) : LengthPercentage XQ :=
  match d with LpLength v => LpLength (x_scale k v) | LpPercent p => LpPercent p end.
Definition avail_scale (k : Q) (a : AvailableSpace XQ) : AvailableSpace XQ :=
  match a with Definite v => Definite (x_scale k v) | MinContent => MinContent | MaxContent => MaxContent end.
Definition savail_scale (k : Q) (a : Size (AvailableSpace XQ)) : Size (AvailableSpace XQ) := size_map (avail_scale k) a.

(* the leaf style: scrollbar width, size / min / max, margin, padding, border are lengths; the aspect ratio is not *)
Definition style_scale (k : Q) (st : Style XQ) : Style XQ :=
  mkStyle (display st) (position st) (box_sizing st) (overflow st) (x_scale k (scrollbar_width st))
          (size_map (dim_scale k) (size st)) (size_map (dim_scale k) (min_size st)) (size_map (dim_scale k) (max_size st))
          (aspect_ratio st)
          (rect_map (lpa_scale k) (margin st)) (rect_map (lp_scale k) (padding st)) (rect_map (lp_scale k) (border st)).

Definition input_scale (k : Q) (i : LayoutInput XQ) : LayoutInput XQ :=
  mkInput (run_mode i) (sizing_mode i) (osize_scale k (known_dimensions i)) (osize_scale k (parent_size i))
          (savail_scale k (available_space i)).

Definition mset_scale (k : Q) (m : MarginSet XQ) : MarginSet XQ := mkMarginSet (x_scale k (ms_positive m)) (x_scale k (ms_negative m)).
Definition output_scale (k : Q) (o : LayoutOutput XQ) : LayoutOutput XQ :=
  mkOutput (size_scale k (out_size o)) (size_scale k (out_content_size o)) (opoint_scale k (first_baselines o))
           (mset_scale k (top_margin o)) (mset_scale k (bottom_margin o)) (margins_can_collapse_through o).
Definition layout_scale (k : Q) (l : Layout XQ) : Layout XQ :=
  mkLayout (l_order l) (point_scale k (l_location l)) (size_scale k (l_size l)) (size_scale k (l_content_size l))
           (size_scale k (l_scrollbar_size l)) (rect_scale k (l_border l)) (rect_scale k (l_padding l)) (rect_scale k (l_margin l)).
Definition call_scale (k : Q) (c : MeasureCall XQ) : MeasureCall XQ := (osize_scale k (fst c), savail_scale k (snd c)).

(* ---- relations (sc, dl, op_rel: Model/ScaleBase.v) *)
Definition sz_rel {A} (R : A -> A -> Prop) (a a' : Size A) : Prop := R (width a) (width a') /\ R (height a) (height a').
Definition rc_rel {A} (R : A -> A -> Prop) (a a' : Rect A) : Prop :=
  R (r_left a) (r_left a') /\ R (r_right a) (r_right a') /\ R (r_top a) (r_top a') /\ R (r_bottom a) (r_bottom a').
Definition pt_rel {A} (R : A -> A -> Prop) (a a' : Point A) : Prop := R (px a) (px a') /\ R (py a) (py a').
Definition av_rel (R : XQ -> XQ -> Prop) (a a' : AvailableSpace XQ) : Prop :=
  match a, a' with
  | Definite x, Definite y => R x y
  | MinContent, MinContent | MaxContent, MaxContent => True
  | _, _ => False
  end.
(* style lengths: same constructor; a length is scaled, a percentage is unchanged *)
Definition lpa_rel (k : Q) (d d' : LengthPercentageAuto XQ) : Prop :=
  match d, d' with
  | Auto, Auto => True
  | Length v, Length v' => sc k v v'
  | Percent p, Percent p' => dl p p'
  | _, _ => False
  end.
Definition lp_rel (k : Q) (d d' : LengthPercentage XQ) : Prop :=
  match d, d' with
  | LpLength v, LpLength v' => sc k v v'
  | LpPercent p, LpPercent p' => dl p p'
  | _, _ => False
  end.

Definition style_rel (k : Q) (st st' : Style XQ) : Prop :=
  display st' = display st /\ position st' = position st /\ box_sizing st' = box_sizing st /\ overflow st' = overflow st /\
  sc k (scrollbar_width st) (scrollbar_width st') /\
  sz_rel (lpa_rel k) (size st) (size st') /\ sz_rel (lpa_rel k) (min_size st) (min_size st') /\
  sz_rel (lpa_rel k) (max_size st) (max_size st') /\ op_rel dl (aspect_ratio st) (aspect_ratio st') /\
  rc_rel (lpa_rel k) (margin st) (margin st') /\ rc_rel (lp_rel k) (padding st) (padding st') /\
  rc_rel (lp_rel k) (border st) (border st').

Definition input_rel (k : Q) (i i' : LayoutInput XQ) : Prop :=
  run_mode i' = run_mode i /\ sizing_mode i' = sizing_mode i /\
  sz_rel (op_rel (sc k)) (known_dimensions i) (known_dimensions i') /\
  sz_rel (op_rel (sc k)) (parent_size i) (parent_size i') /\
  sz_rel (av_rel (sc k)) (available_space i) (available_space i').

Definition mset_rel (k : Q) (m m' : MarginSet XQ) : Prop :=
  sc k (ms_positive m) (ms_positive m') /\ sc k (ms_negative m) (ms_negative m').
Definition output_rel (k : Q) (o o' : LayoutOutput XQ) : Prop :=
  sz_rel (sc k) (out_size o) (out_size o') /\ sz_rel (sc k) (out_content_size o) (out_content_size o') /\
  pt_rel (op_rel (sc k)) (first_baselines o) (first_baselines o') /\
  mset_rel k (top_margin o) (top_margin o') /\ mset_rel k (bottom_margin o) (bottom_margin o') /\
  margins_can_collapse_through o' = margins_can_collapse_through o.
Definition layout_rel (k : Q) (l l' : Layout XQ) : Prop :=
  l_order l' = l_order l /\ pt_rel (sc k) (l_location l) (l_location l') /\ sz_rel (sc k) (l_size l) (l_size l') /\
  sz_rel (sc k) (l_content_size l) (l_content_size l') /\ sz_rel (sc k) (l_scrollbar_size l) (l_scrollbar_size l') /\
  rc_rel (sc k) (l_border l) (l_border l') /\ rc_rel (sc k) (l_padding l) (l_padding l') /\ rc_rel (sc k) (l_margin l) (l_margin l').
Definition call_rel (k : Q) (c c' : MeasureCall XQ) : Prop :=
  sz_rel (op_rel (sc k)) (fst c) (fst c') /\ sz_rel (av_rel (sc k)) (snd c) (snd c').
(* the result of compute_leaf_layout / root_leaf: same panic behaviour, related outputs, related measure-call logs *)
Definition result_rel {O} (RO : O -> O -> Prop) (k : Q) (r r' : option (O * list (MeasureCall XQ))) : Prop :=
  op_rel (fun p p' => RO (fst p) (fst p') /\ Forall2 (call_rel k) (snd p) (snd p')) r r'.

(* ---- the hypothesis on measure functions: scaled known dimensions and available space give the scaled size.
   m' is the measure function of the scaled tree (e.g. the same text with a k times larger font).  The one-function reading
   of the property text, `forall kd av, measure (scale kd) (scale av) = scale (measure kd av)`, is measure_homog k m m
   for a measure function that respects the equality of rationals (lemma measure_homog_of_eq). *)
Definition measure_homog (k : Q) (m m' : MeasureFn XQ) : Prop :=
  forall kd kd' av av', sz_rel (op_rel (sc k)) kd kd' -> sz_rel (av_rel (sc k)) av av' -> sz_rel (sc k) (m kd av) (m' kd' av').
(* m' respects xeq on its arguments *)
Definition measure_proper (m : MeasureFn XQ) : Prop :=
  forall kd kd' av av', sz_rel (op_rel dl) kd kd' -> sz_rel (av_rel dl) av av' -> sz_rel dl (m kd av) (m kd' av').

(* two measure functions of the harness (treegen.rs `measure`), as examples that the hypothesis is satisfiable:
   Fixed(w, h) and Echo(base) (width = known or min(available, base), height = width / 2) *)
Definition measure_fixed (w h : XQ) : MeasureFn XQ :=
  fun kd _ => mkSize (opt_unwrap_or (width kd) w) (opt_unwrap_or (height kd) h).
Definition measure_echo (base : XQ) : MeasureFn XQ :=
  fun kd av =>
    let w := opt_unwrap_or (width kd) (match width av with Definite a => fmin a base | _ => base end) in
    mkSize w (opt_unwrap_or (height kd) (div w (of_Z 2))).
