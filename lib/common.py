"""Shared plumbing of ./check: paths, subprocesses, build lock, Coq build + hygiene gate, model runner
(cases.v + vm_compute), harness build, evidence, violation / known-finding reporting."""
import fcntl
import glob
import hashlib
import json
import os
import re
import subprocess
import sys
import time

ROOT = os.path.dirname(os.path.dirname(os.path.abspath(__file__)))
REPO = os.environ.get('VERIF_REPO', '/repo')
COQ = os.path.join(ROOT, 'coq')
HARNESS = os.path.join(ROOT, 'harness')
WORK = os.path.join(ROOT, '.work')
# runs against a scratch checkout (VERIF_REPO, mutation experiments) must not overwrite the evidence of the real tree
EVID = os.path.join(ROOT, 'evidence') if os.path.realpath(REPO) == '/repo' else os.path.join(WORK, 'evidence-alt')
GUARD = 'taffy_verif'

sys.path.insert(0, os.path.join(ROOT, 'translator'))

ALLOWED_AXIOMS = {
    # standard-library axioms (Flocq's real-number layer); named in DESIGN.md section 5
    'ClassicalDedekindReals.sig_not_dec',
    'ClassicalDedekindReals.sig_forall_dec',
    'FunctionalExtensionality.functional_extensionality_dep',
    'functional_extensionality_dep',
    'Classical_Prop.classic',
    'classic',
    'sig_not_dec',
    'sig_forall_dec',
}


def log(*a):
    print(*a, file=sys.stderr, flush=True)


def sh(cmd, timeout=600, cwd=None, env=None, inp=None):
    e = dict(os.environ)
    e['CARGO_NET_OFFLINE'] = 'true'
    if env:
        e.update(env)
    t0 = time.time()
    try:
        p = subprocess.run(cmd, shell=isinstance(cmd, str), cwd=cwd, env=e, input=inp, stdout=subprocess.PIPE,
                           stderr=subprocess.STDOUT, timeout=timeout, text=True, errors='replace')
        return p.returncode, p.stdout, time.time() - t0
    except subprocess.TimeoutExpired as ex:
        out = ex.stdout or ''
        if isinstance(out, bytes):
            out = out.decode(errors='replace')
        return 124, out + '\n[timeout after %ds]' % timeout, time.time() - t0


class Lock:
    """One build at a time per /verif (checks may be started concurrently)."""

    def __init__(self, name='build'):
        os.makedirs(WORK, exist_ok=True)
        self.path = os.path.join(WORK, name + '.lock')

    def __enter__(self):
        self.f = open(self.path, 'w')
        fcntl.flock(self.f, fcntl.LOCK_EX)
        return self

    def __exit__(self, *a):
        fcntl.flock(self.f, fcntl.LOCK_UN)
        self.f.close()


def write_if_changed(path, content):
    os.makedirs(os.path.dirname(path), exist_ok=True)
    try:
        if open(path).read() == content:
            return False
    except FileNotFoundError:
        pass
    with open(path, 'w') as f:
        f.write(content)
    return True


# ----------------------------------------------------------------------------- translator

# Generated files that are EXECUTABLE models exercised bit for bit by a correspondence check (K): when the translator
# refuses a source form it does not recognise, the translation of the pinned tree (translator/snapshots/, committed,
# written by `./check --write-fingerprints`) is used as a hand-written model instead; its tie to the current source is
# then the correspondence alone, which the property checks run with their escalated budget (the refused generator's
# fingerprints are missing, hence "changed").  NOT in this list: Gen/BoxSizingSites.v -- a syntactic audit of the source,
# not an executable model; no correspondence could stand in for it.
FALLBACK_TARGETS = {
    'AbsPosEnums.v', 'AbsPosGen.v', 'BlockGen.v', 'CacheBodyGen.v', 'CacheGen.v', 'CompactLengthGen.v', 'EngineGlueGen.v', 'FiltersGen.v', 'FlexGen.v',
    'GridTracksGen.v', 'LeafGen.v', 'MathGen.v', 'PlacementGen.v', 'RootGen.v', 'RoundingGen.v', 'TreeMethodsGen.v', 'TreeBodiesGen.v',
}
SNAPSHOTS = os.path.join(ROOT, 'translator', 'snapshots')


def translate(write_snapshots=False):
    """Regenerate coq/Gen/*.v from the working tree.  Returns (ok, problems, fingerprints).  A generator that
    refuses leaves a Gen file that does not compile on purpose (so no stale model can be used) -- unless the target is an
    executable, K-tied model with a snapshot (see FALLBACK_TARGETS): then the snapshot is installed and the problem is
    marked `fallback`."""
    import importlib
    problems = []
    fps = {}
    gens = []
    for f in sorted(glob.glob(os.path.join(ROOT, 'translator', 'gen_*.py'))):
        gens.append(os.path.basename(f)[:-3])
    for g in gens:
        mod = importlib.import_module(g)
        for target, fn in mod.TARGETS.items():
            path = os.path.join(COQ, 'Gen', target)
            try:
                text, fp = fn(REPO)
                fps.update({g + ':' + k: hashlib.sha256(v.encode()).hexdigest()[:16] for k, v in fp.items()})
                write_if_changed(path, text)
                if write_snapshots and target in FALLBACK_TARGETS:
                    os.makedirs(SNAPSHOTS, exist_ok=True)
                    write_if_changed(os.path.join(SNAPSHOTS, target), text)
            except Exception as ex:  # Refuse, ParseError, FileNotFoundError ...
                prob = {'generator': g, 'target': target, 'error': '%s: %s' % (type(ex).__name__, ex), 'fallback': False}
                snap = os.path.join(SNAPSHOTS, target)
                if target in FALLBACK_TARGETS and os.path.exists(snap):
                    write_if_changed(path, open(snap).read())
                    prob['fallback'] = True
                else:
                    write_if_changed(path, '(* translator refused: %s *)\nTranslator_refused_this_source_form.\n'
                                     % str(ex).replace('*)', '* )'))
                problems.append(prob)
    return (not problems), problems, fps


def gen_dependencies(roots):
    """Gen/*.v files in the dependency closure (coqdep) of the given .v files (paths relative to coq/)."""
    rc, out, _ = sh('coqdep -Q . TV %s' % ' '.join(coq_files()), cwd=COQ, timeout=120)
    deps = {}
    for line in out.split('\n'):
        if '.vo ' not in line.split(':')[0] + ' ' or ':' not in line:
            continue
        lhs, rhs = line.split(':', 1)
        tgt = lhs.split()[0]
        if not tgt.endswith('.vo'):
            continue
        deps[tgt[:-1]] = [d[:-1] for d in rhs.split() if d.endswith('.vo')]
    seen, todo = set(), [r for r in roots]
    while todo:
        f = todo.pop()
        if f in seen:
            continue
        seen.add(f)
        todo.extend(deps.get(f, []))
    return sorted(os.path.basename(f) for f in seen if f.startswith('Gen/'))


def model_roots(pid):
    """Props/<pid>.v plus every Model/*Run.v (the runners of the correspondence checks) named by the property's python
    module and the helper modules it imports."""
    roots = ['Props/%s.v' % pid]
    pdir = os.path.join(ROOT, 'lib', 'props')
    todo, seen = [os.path.join(pdir, pid.lower() + '.py')], set()
    while todo:
        f = todo.pop()
        if f in seen or not os.path.exists(f):
            continue
        seen.add(f)
        src = open(f).read()
        for m in re.findall(r'\b(?:Model|Proofs)\.(\w+)', src):
            for d in ('Model', 'Proofs'):
                if os.path.exists(os.path.join(COQ, d, m + '.v')):
                    roots.append('%s/%s.v' % (d, m))
        for m in re.findall(r'(?m)^\s*from\s+\.\s+import\s+(.+)$', src):
            for name in re.split(r'[,\s]+', m):
                name = name.split(' as ')[0].strip()
                if name:
                    todo.append(os.path.join(pdir, name + '.py'))
        for m in re.findall(r'(?m)^\s*from\s+\.(\w+)\s+import', src):
            todo.append(os.path.join(pdir, m + '.py'))
        for m in re.findall(r'(?m)^\s*from\s+\.\.(\w+)\s+import', src):
            todo.append(os.path.join(ROOT, 'lib', m + '.py'))
        for m in re.findall(r'(?m)^\s*from\s+\.\s+import\s+(\w+)\s+as', src):
            todo.append(os.path.join(pdir, m + '.py'))
    return sorted(set(roots))


def fingerprint_changes(fps):
    """Compare with the committed fingerprints of the pinned tree (translator/fingerprints.json)."""
    base_path = os.path.join(ROOT, 'translator', 'fingerprints.json')
    try:
        base = json.load(open(base_path))
    except FileNotFoundError:
        base = {}
    return sorted(k for k in set(base) | set(fps) if base.get(k) != fps.get(k))


# ----------------------------------------------------------------------------- Coq build

def coq_files():
    fs = []
    for d in ('Num', 'Gen', 'Model', 'Proofs', 'Props'):
        fs += sorted(glob.glob(os.path.join(COQ, d, '*.v')))
    return [os.path.relpath(f, COQ) for f in fs]


def ensure_makefile():
    proj = '-Q . TV\n' + '\n'.join(coq_files()) + '\n'
    changed = write_if_changed(os.path.join(COQ, '_CoqProject'), proj)
    if changed or not os.path.exists(os.path.join(COQ, 'Makefile')):
        rc, out, _ = sh('coq_makefile -f _CoqProject -o Makefile', cwd=COQ, timeout=60)
        if rc != 0:
            raise RuntimeError('coq_makefile failed: ' + out)


def coq_make(targets, timeout=1500):
    """Full .vo build (never -vos) of the given targets and their dependencies."""
    ensure_makefile()
    rc, out, dt = sh('make -j16 %s' % ' '.join(targets), cwd=COQ, timeout=timeout)
    if rc not in (0, 124) and 'Error' not in out:
        # a coqc process died without a Coq error (observed rarely under heavy load): not a statement about the proofs; once more
        log('coq build stopped without a Coq error (rc=%s); retrying once' % rc)
        rc, out2, dt2 = sh('make -j8 %s' % ' '.join(targets), cwd=COQ, timeout=timeout)
        out, dt = out + out2, dt + dt2
    return rc, out, dt


FORBIDDEN = re.compile(r'\b(Admitted|admit|Axiom|Axioms|Parameter|Parameters|Conjecture|Abort)\b|Admit Obligations|Unset Guard'
                       r'|bypass_check|type-in-type|impredicative-set|Unset Positivity|Unset Universe|native_compute')


def strip_comments(src):
    out = []
    depth = 0
    i = 0
    while i < len(src):
        if src.startswith('(*', i):
            depth += 1
            i += 2
        elif src.startswith('*)', i) and depth > 0:
            depth -= 1
            i += 2
        else:
            if depth == 0:
                out.append(src[i])
            elif src[i] == '\n':
                out.append('\n')
            i += 1
    return ''.join(out)


def hygiene():
    """No Admitted/admit/Axiom/Parameter/... anywhere; Variable/Hypothesis/Context only inside a Section."""
    bad = []
    for rel in coq_files():
        if rel.startswith('Gen/'):
            pass
        src = strip_comments(open(os.path.join(COQ, rel)).read())
        depth = 0
        for ln, line in enumerate(src.split('\n'), 1):
            m = FORBIDDEN.search(line)
            if m:
                bad.append('%s:%d: %s' % (rel, ln, m.group(0)))
            if re.match(r'\s*(Section|Module Type)\s', line):
                depth += 1
            elif re.match(r'\s*End\s', line):
                depth = max(0, depth - 1)
            elif depth == 0 and re.match(r'\s*(Variables?|Hypothes[ie]s|Context)\b', line):
                bad.append('%s:%d: %s outside a Section' % (rel, ln, line.strip()[:40]))
    return bad


def props_output(pid, timeout=600):
    """(rc, output) of `coqc Props/<pid>.v` (the Print Assumptions lines), cached in .work/pa_cache on the sha256 of Props/<pid>.vo."""
    rel = 'Props/%s.v' % pid
    vo = os.path.join(COQ, 'Props', pid + '.vo')
    cdir = os.path.join(WORK, 'pa_cache')
    os.makedirs(cdir, exist_ok=True)
    cfile = os.path.join(cdir, pid + '.json')
    try:
        key = hashlib.sha256(open(vo, 'rb').read() + open(os.path.join(COQ, rel), 'rb').read()).hexdigest()
    except FileNotFoundError:
        key = None
    if key:
        try:
            c = json.load(open(cfile))
            if c.get('key') == key and c.get('rc') == 0:
                return 0, c['out']
        except (FileNotFoundError, ValueError):
            pass
    # compile a copy under another name so that the .vo the Makefile produced (and the cache key) stay untouched
    rc, out, _ = sh('coqc -Q . TV %s -o %s' % (rel, os.path.join(cdir, pid + '.vo')), cwd=COQ, timeout=timeout)
    if key and rc == 0:
        json.dump({'key': key, 'rc': rc, 'out': out}, open(cfile, 'w'))
    return rc, out


def check_props(pid, timeout=600):
    """Compile Props/<pid>.v (after its dependencies) capturing Print Assumptions.  Returns dict:
    {theorems:[names], compiled:bool, output, assumptions:{name:[axioms]}, bad_axioms:{name:[...]}}"""
    rel = 'Props/%s.v' % pid
    src = open(os.path.join(COQ, rel)).read()
    code = strip_comments(src)
    theorems = re.findall(r'^\s*Theorem\s+([A-Za-z0-9_\']+)', code, re.M)
    printed = re.findall(r'^\s*Print Assumptions\s+([A-Za-z0-9_\']+)\s*\.', code, re.M)
    res = {'theorems': theorems, 'printed': printed, 'compiled': False, 'assumptions': {}, 'bad_axioms': {}, 'output': ''}
    # dependencies through make (a failure there is reported as such)
    rc, out, dt = coq_make(['Props/%s.vo' % pid], timeout=timeout)
    res['make_rc'] = rc
    res['make_s'] = dt
    if rc != 0:
        res['output'] = out[-4000:]
        return res
    # re-run coqc on the Props file alone to capture the Print Assumptions output deterministically (cached on the hash of the
    # freshly made .vo, which changes whenever the file or anything it depends on was rebuilt differently)
    rc, out = props_output(pid, timeout)
    res['output'] = out[-4000:]
    if rc != 0:
        return res
    res['compiled'] = True
    blocks = re.split(r'(?m)^(?=Closed under the global context|Axioms:)', out)
    blocks = [b for b in blocks if b.startswith('Closed under') or b.startswith('Axioms:')]
    for name, b in zip(printed, blocks):
        if b.startswith('Closed'):
            res['assumptions'][name] = []
        else:
            axs = re.findall(r'(?m)^([A-Za-z_][A-Za-z0-9_.\']*)\s*:', b[len('Axioms:'):])
            res['assumptions'][name] = axs
            bad = [a for a in axs if a not in ALLOWED_AXIOMS]
            if bad:
                res['bad_axioms'][name] = bad
    if len(blocks) != len(printed):
        res['bad_axioms']['<count>'] = ['%d Print Assumptions but %d results' % (len(printed), len(blocks))]
    missing = [t for t in theorems if t not in printed]
    if missing:
        res['bad_axioms']['<missing Print Assumptions>'] = missing
    return res


def check_pins(pid):
    """Statements of Props/<pid>.v against coq/Props/EXPECTED.json (lib/pins.py): [(theorem, what differs)].  A pinned theorem
    that disappeared, a changed statement, a changed definition the statement is written with, an unpinned theorem."""
    from . import pins
    try:
        return pins.verify(pid) + pins.verify_runners(pid)
    except Exception as ex:     # the pin machinery itself failing is a broken check, not a pass
        return [('lib/pins.py', 'pin verification crashed: %r' % ex)]


# ----------------------------------------------------------------------------- running the model

def coq_list(xs):
    if isinstance(xs, (list, tuple)):
        return '[' + '; '.join(coq_list(x) for x in xs) + ']'
    if isinstance(xs, int):
        return str(xs) if xs >= 0 else '(%d)' % xs
    raise TypeError(xs)


def run_model(tag, imports, fn, cases, scope='N', elem='list N', shards=16, timeout=900, batch=600):
    """Evaluate `map fn cases` inside Coq with vm_compute, sharded over coqc processes.
    cases: list of nested int lists.  Returns list of results (nested int lists of depth 1) or raises."""
    os.makedirs(os.path.join(COQ, 'Run'), exist_ok=True)
    n = len(cases)
    if n == 0:
        return []
    nshards = max(1, min(shards, (n + 19) // 20))
    per = (n + nshards - 1) // nshards
    procs = []
    for s in range(nshards):
        chunk = cases[s * per:(s + 1) * per]
        if not chunk:
            continue
        name = 'cases_%s_%d' % (tag, s)
        path = os.path.join(COQ, 'Run', name + '.v')
        with open(path, 'w') as f:
            f.write('From Coq Require Import NArith ZArith List.\nImport ListNotations.\n%s\n' % imports)
            f.write('Open Scope %s_scope.\n' % scope)
            # batches keep each printed term small
            for b in range(0, len(chunk), batch):
                f.write('Definition cs%d : list (%s) := %s.\n' % (b, elem, coq_list(chunk[b:b + batch])))
                f.write('Eval vm_compute in (map %s cs%d).\n' % (fn, b))
        p = subprocess.Popen(['coqc', '-noglob', '-Q', '.', 'TV', os.path.join('Run', name + '.v')], cwd=COQ,
                             stdout=subprocess.PIPE, stderr=subprocess.STDOUT, text=True)
        procs.append((p, len(chunk), path))
    results = []
    t0 = time.time()
    for p, cnt, path in procs:
        try:
            out, _ = p.communicate(timeout=max(1, timeout - (time.time() - t0)))
        except subprocess.TimeoutExpired:
            for q, _, _ in procs:
                q.kill()
            raise RuntimeError('model evaluation timed out (%s)' % tag)
        if p.returncode != 0 and 'Error' not in out:
            # died without a Coq error: re-run this shard once, synchronously
            p2 = subprocess.run(['coqc', '-noglob', '-Q', '.', 'TV', os.path.relpath(path, COQ)], cwd=COQ, stdout=subprocess.PIPE,
                                stderr=subprocess.STDOUT, text=True, timeout=timeout)
            out = p2.stdout
            if p2.returncode != 0:
                raise RuntimeError('model evaluation failed (%s): %s' % (tag, out[-2000:]))
        elif p.returncode != 0:
            raise RuntimeError('model evaluation failed (%s): %s' % (tag, out[-2000:]))
        got = parse_eval(out)
        if len(got) != cnt:
            raise RuntimeError('model evaluation of %s: expected %d results, parsed %d' % (tag, cnt, len(got)))
        results += got
        for ext in ('.v', '.vo', '.vok', '.vos', '.glob'):
            try:
                os.remove(path[:-2] + ext)
            except FileNotFoundError:
                pass
    return results


def parse_eval(out):
    """Parse the `= [[a; b]; [c]] : list (list N)` blocks printed by Eval vm_compute into int lists."""
    res = []
    for blk in re.findall(r'=\s*(\[.*?\])\s*:\s*list', out, re.S):
        txt = blk.replace('\n', ' ')
        # strip outer brackets
        inner = txt.strip()[1:-1]
        for m in re.finditer(r'\[([^\[\]]*)\]', inner):
            body = m.group(1).strip()
            if body == '':
                res.append([])
            else:
                res.append([int(x.replace('%N', '').replace('%Z', '').replace('(', '').replace(')', '').strip())
                            for x in body.split(';')])
    return res


# ----------------------------------------------------------------------------- harness

def harness_stamp():
    """Hash of the repo sources + harness sources: rebuild iff it changed (cargo also checks mtimes)."""
    h = hashlib.sha256()
    for base in (os.path.join(REPO, 'src'), os.path.join(HARNESS, 'src')):
        for f in sorted(glob.glob(base + '/**/*.rs', recursive=True)):
            h.update(f.encode())
            h.update(open(f, 'rb').read())
    return h.hexdigest()


def build_harness(profile='release', timeout=1200):
    """Rebuild the harness against the repo's current working tree with hooks enabled.
    With VERIF_REPO set to another checkout (scratch worktree for mutation experiments) a copy of the
    harness crate with the path dependency rewritten is built under .work/."""
    import shutil
    hdir = HARNESS
    if os.path.realpath(REPO) != '/repo':
        hdir = os.path.join(WORK, 'harness-alt')
        os.makedirs(hdir, exist_ok=True)
        for item in ('src', '.cargo'):
            dst = os.path.join(hdir, item)
            if os.path.exists(dst):
                shutil.rmtree(dst)
            shutil.copytree(os.path.join(HARNESS, item), dst)
        shutil.copy(os.path.join(HARNESS, 'Cargo.lock'), os.path.join(hdir, 'Cargo.lock'))
        toml = open(os.path.join(HARNESS, 'Cargo.toml')).read().replace('path = "/repo"', 'path = "%s"' % os.path.realpath(REPO))
        write_if_changed(os.path.join(hdir, 'Cargo.toml'), toml)
    flags = '--cfg %s' % GUARD
    cmd = 'cargo build --offline %s' % ('--release' if profile == 'release' else '')
    env = {'RUSTFLAGS': flags, 'CARGO_TARGET_DIR': os.path.join(hdir, 'target')}
    if profile != 'release':
        env['RUSTFLAGS'] = flags + ' -C overflow-checks=on -C debug-assertions=on'
        env['CARGO_TARGET_DIR'] = os.path.join(hdir, 'target-debug')
    with Lock('cargo-' + profile):
        rc, out, dt = sh(cmd, cwd=hdir, env=env, timeout=timeout)
    binp = os.path.join(env['CARGO_TARGET_DIR'], 'release' if profile == 'release' else 'debug', 'vh')
    return rc, out, binp, dt


VH_TIMEOUTS = []   # harness commands that did not come back in time (a hang of the implementation or of the harness)


def vh(binp, args, timeout=600, inp=None):
    # once a harness command has hung, later ones get a short leash: the whole check must still end in reasonable time
    if VH_TIMEOUTS:
        timeout = min(timeout, 120)
    rc, out, dt = sh([binp] + [str(a) for a in args], timeout=timeout, inp=inp)
    if rc == 124:
        VH_TIMEOUTS.append({'command': 'vh ' + ' '.join(str(a) for a in args)[:300], 'timeout_s': timeout})
    return rc, out


def parse_cr(out):
    """Parse the harness protocol: `C ints` line followed by `R ints` line."""
    cases, results = [], []
    for line in out.split('\n'):
        if line.startswith('C '):
            cases.append([int(x) for x in line.split()[1:]])
        elif line.startswith('R '):
            results.append([int(x) for x in line.split()[1:]])
    if len(cases) != len(results):
        raise RuntimeError('harness protocol: %d cases but %d results' % (len(cases), len(results)))
    return cases, results


# ----------------------------------------------------------------------------- findings / evidence

def known_findings(pid):
    try:
        data = json.load(open(os.path.join(ROOT, 'known_findings.json')))
    except FileNotFoundError:
        return []
    return [f for f in data.get('findings', []) if f.get('property') == pid]


class Report:
    def __init__(self, pid, tier, seed, level='proof'):
        self.pid, self.tier, self.seed, self.level = pid, tier, seed, level
        self.t0 = time.time()
        self.broken = []        # obligations / correspondences that no longer check
        self.violations = []    # concrete failing inputs (dicts)
        self.known = []         # known findings that reproduced
        self.cov = {'obligations': 0, 'discharged': 0, 'checker_cmd': '', 'trusted_base': [], 'samples': [],
                    'evaluations': 0, 'distinct_nontrivial': 0, 'rule': ''}
        self.assumptions = []
        self.nviol = 0
        os.makedirs(os.path.join(EVID, 'replay'), exist_ok=True)

    def add_broken(self, kind, name, detail):
        self.broken.append({'kind': kind, 'name': name, 'detail': detail if isinstance(detail, str) else json.dumps(detail)[:3000]})
        log('[%s] BROKEN %s %s: %s' % (self.pid, kind, name, str(detail)[:600]))

    def add_violation(self, what, replay):
        self.violations.append({'what': what, 'replay': replay})

    def finish(self):
        for t in VH_TIMEOUTS:
            # never silent: a harness command that does not come back means the implementation (or the harness) hangs on one of
            # the generated inputs -- nothing this check says after that is complete
            self.add_broken('harness-timeout', t['command'], 'no answer within %d s' % t['timeout_s'])
        """Print KNOWN-FINDING / VIOLATION lines, write evidence, return exit code."""
        lines = []
        n = 0
        for k in self.known:
            print('KNOWN-FINDING: property=%s %s' % (self.pid, k))
        for v in self.violations:
            n += 1
            path = os.path.join(EVID, 'replay', '%s-%d.json' % (self.pid, n))
            json.dump({'property': self.pid, 'seed': self.seed, 'what': v['what'], 'replay': v['replay'],
                       'broken': self.broken}, open(path, 'w'), indent=1)
            print('VIOLATION property=%s replay=%s' % (self.pid, path))
        if self.broken and not self.violations:
            n += 1
            path = os.path.join(EVID, 'replay', '%s-%d.json' % (self.pid, n))
            json.dump({'property': self.pid, 'seed': self.seed,
                       'what': 'proof obligation or correspondence no longer checks; search found no failing input',
                       'no_longer_checks': self.broken}, open(path, 'w'), indent=1)
            print('VIOLATION property=%s replay=%s no-failing-input-found' % (self.pid, path))
        self.nviol = n
        cov = dict(self.cov)
        cov['broken'] = self.broken
        cov['known_findings_replayed'] = self.known
        ev = {'property_id': self.pid, 'tier': self.tier, 'seed': self.seed, 'level': self.level, 'coverage': cov,
              'assumptions': self.assumptions, 'wall_s': round(time.time() - self.t0, 2), 'violations': n}
        os.makedirs(EVID, exist_ok=True)
        tmp = os.path.join(EVID, '%s.json.tmp' % self.pid)
        json.dump(ev, open(tmp, 'w'), indent=1)
        os.replace(tmp, os.path.join(EVID, '%s.json' % self.pid))
        sys.stdout.flush()
        return 1 if n else 0
