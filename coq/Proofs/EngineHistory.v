(* Histories of API calls on the engine skeleton: mutators ("edit, then mark_dirty") and layout passes keep
   every cache entry valid, so a relayout returns what a from-scratch layout returns.  Every algorithm, exact key. *)
From Coq Require Import List Bool Arith Lia.
From TV Require Import Model.Engine Proofs.EngineMemo Proofs.EngineDirty.
Import ListNotations.

Section History.
  Variables (S In Out Lay : Type).
  Variable mode : In -> RunMode.
  Variable in_eqb : In -> In -> bool.
  Variable is_none : S -> bool.
  Variable hidden_out : Out.
  Variable zero_lay : Lay.
  Variable algo : S -> list S -> In -> Alg In Out Lay.

  Hypothesis in_eqb_eq : forall a b, in_eqb a b = true -> a = b.
  Hypothesis in_eqb_refl : forall a, in_eqb a a = true.
  Hypothesis WF : forall s st i, WFAlg In Out Lay mode (algo s st i).
  Hypothesis H1 : forall s st i, mode i = PerformLayout -> Visits In Out Lay mode (seq 0 (length st)) (algo s st i).

  Notation tree := (tree S In Out Lay).
  Notation Node := (Node S In Out Lay).
  Notation memo := (memo S In Out Lay mode in_eqb is_none hidden_out zero_lay algo).
  Notation plain := (plain S In Out Lay mode is_none hidden_out algo).
  Notation skel := (skel S In Out Lay).
  Notation fresh := (fresh S In Out Lay zero_lay).
  Notation cempty := (cempty In Out).
  Notation md := (md S In Out Lay).
  Notation mark_dirty := (mark_dirty S In Out Lay).
  Notation clear_path := (clear_path S In Out Lay).
  Notation update := (update S In Out Lay).
  Notation apply_edit := (apply_edit S In Out Lay).
  Notation mutate := (mutate S In Out Lay).
  Notation edit := (edit S In Out Lay).
  Notation op := (op S In Out Lay).
  Notation step := (step S In Out Lay mode in_eqb is_none hidden_out zero_lay algo).
  Notation run_ops := (run_ops S In Out Lay mode in_eqb is_none hidden_out zero_lay algo).
  Notation Valid := (Valid S In Out Lay mode is_none hidden_out algo).
  Notation J := (J S In Out Lay is_none).
  Notation B := (B S In Out Lay is_none).
  Notation Full := (Full S In Out Lay is_none).
  Notation visible_path := (visible_path S In Out Lay is_none).
  Notation cache_ok := (cache_ok S In Out Lay mode is_none hidden_out algo).

  (* ---------- mark_dirty after an edit = edit after mark_dirty ---------- *)
  Lemma replace_replace {A} n (x y t : A) l :
    nth_error l n = Some t -> replace_nth n x (replace_nth n y l) = replace_nth n x l.
  Proof.
    unfold replace_nth. revert l. induction n as [|n IH]; intros [|a l] Hn; cbn in Hn; try discriminate; cbn.
    - reflexivity.
    - f_equal. apply IH. exact Hn.
  Qed.

  Lemma md_update_comm e : forall p t,
    md (update t p (apply_edit e)) p = (update (fst (md t p)) p (apply_edit e), snd (md t p)).
  Proof.
    induction p as [|x p IH]; intros [s c l kids].
    - cbn. destruct e; reflexivity.
    - cbn [Engine.update Engine.md].
      destruct (nth_error kids x) as [ch|] eqn:Ex.
      + cbn [Engine.md]. rewrite (nth_error_replace_same _ _ _ _ Ex). rewrite IH.
        destruct (md ch p) as [ch' cont] eqn:Em. cbn [fst snd].
        rewrite (replace_replace _ _ _ _ _ Ex).
        destruct cont; cbn [fst snd Engine.update];
          rewrite (nth_error_replace_same _ _ _ _ Ex), (replace_replace _ _ _ _ _ Ex); reflexivity.
      + cbn [Engine.md]. rewrite Ex. cbn. rewrite Ex. reflexivity.
  Qed.

  Lemma visible_path_update e : forall p t, visible_path (update t p (apply_edit e)) p <-> visible_path t p.
  Proof.
    induction p as [|x p IH]; intros [s c l kids]; [cbn; tauto|].
    cbn [Engine.update]. destruct (nth_error kids x) as [ch|] eqn:Ex.
    - cbn. rewrite (nth_error_replace_same _ _ _ _ Ex), Ex. rewrite IH. tauto.
    - cbn. rewrite Ex. tauto.
  Qed.

  (* what a mutator does, once the early exit is known to lose nothing *)
  Definition mutate_spec (t : tree) (p : list nat) (e : edit) : tree := update (clear_path t p) p (apply_edit e).

  Theorem mutate_is_spec t p e : J t -> B t -> visible_path t p -> mutate t p e = mutate_spec t p e.
  Proof.
    intros HJ HB Hv. unfold Engine.mutate, Engine.mark_dirty, mutate_spec.
    rewrite md_update_comm. cbn [fst].
    rewrite (md_spec S In Out Lay is_none p t HJ HB Hv). reflexivity.
  Qed.

  (* ---------- the invariants survive a mutation ---------- *)
  Definition edit_ok (e : edit) : Prop :=
    match e with
    | ESetKids _ _ _ _ ks => Forall Valid ks /\ Forall J ks /\ Forall B ks
    | _ => True
    end.

  Lemma cache_ok_empty' k : cache_ok k cempty.
  Proof. split; cbn; intros; [discriminate|contradiction]. Qed.

  Lemma mutate_spec_inv e : edit_ok e -> forall p t, Valid t -> J t -> B t ->
    Valid (mutate_spec t p e) /\ J (mutate_spec t p e) /\ B (mutate_spec t p e).
  Proof.
    intros He. induction p as [|x p IH]; intros [s c l kids] HV HJ HB;
      inversion HV as [? ? ? ? Hc HVk]; subst; inversion HJ as [? ? ? ? HJl HJk]; subst;
      inversion HB as [? ? ? ? HBl HBk]; subst; unfold mutate_spec; cbn [Engine.clear_path Engine.update].
    - destruct e as [s'|ks|]; cbn [Engine.apply_edit].
      + split; [constructor; [apply cache_ok_empty'|exact HVk]|].
        split; constructor; try assumption; cbn; intros; congruence.
      + destruct He as [H1' [H2' H3']].
        split; [constructor; [apply cache_ok_empty'|exact H1']|].
        split; constructor; try assumption; cbn; intros; congruence.
      + split; [constructor; [apply cache_ok_empty'|exact HVk]|].
        split; constructor; try assumption; cbn; intros; congruence.
    - destruct (nth_error kids x) as [ch|] eqn:Ex.
      + cbn [Engine.update]. rewrite (nth_error_replace_same _ _ _ _ Ex), (replace_replace _ _ _ _ _ Ex).
        assert (HVc : Valid ch) by (rewrite Forall_forall in HVk; apply HVk; eapply nth_error_In; eauto).
        assert (HJc : J ch) by (rewrite Forall_forall in HJk; apply HJk; eapply nth_error_In; eauto).
        assert (HBc : B ch) by (rewrite Forall_forall in HBk; apply HBk; eapply nth_error_In; eauto).
        destruct (IH ch HVc HJc HBc) as [I1 [I2 I3]]. unfold mutate_spec in I1, I2, I3.
        split; [|split].
        * constructor; [apply cache_ok_empty'|]. apply Forall_replace_nth; assumption.
        * constructor; [cbn; intros; congruence|]. apply Forall_replace_nth; assumption.
        * constructor; [cbn; intros; congruence|]. apply Forall_replace_nth; assumption.
      + cbn [Engine.update]. rewrite Ex. auto.
  Qed.

  (* ---------- histories ---------- *)
  Definition Inv (t : tree) : Prop := Valid t /\ J t /\ B t.

  Definition op_ok (t : tree) (o : op) : Prop :=
    match o with
    | OMutate _ _ _ _ p e => visible_path t p /\ edit_ok e
    | OLayout _ _ _ _ f i => mode i = PerformLayout
    end.

  Fixpoint run_ok (t : tree) (ops : list op) : Prop :=
    match ops with
    | [] => True
    | o :: r => op_ok t o /\ run_ok (step t o) r
    end.

  Lemma step_inv t o : Inv t -> op_ok t o -> Inv (step t o).
  Proof.
    intros [HV [HJ HB]] Hok. destruct o as [p e|f i]; cbn in *.
    - destruct Hok as [Hv He]. rewrite (mutate_is_spec t p e HJ HB Hv). apply mutate_spec_inv; assumption.
    - destruct (memo f t i) as [[o t']|] eqn:Em; [|repeat split; assumption].
      destruct (memo_sound S In Out Lay mode in_eqb is_none hidden_out zero_lay algo in_eqb_eq f _ _ _ _ HV Em)
        as [_ [HV' _]].
      destruct (pass_clean S In Out Lay mode in_eqb is_none hidden_out zero_lay algo WF H1 f _ _ _ _ Hok HJ HB Em)
        as [_ [HJ' HB']].
      repeat split; assumption.
  Qed.

  Theorem history_inv : forall ops t, Inv t -> run_ok t ops -> Inv (run_ops t ops).
  Proof.
    induction ops as [|o r IH]; intros t HI Hok; [exact HI|].
    destruct Hok as [Ho Hr]. cbn. apply IH; [apply step_inv; assumption|exact Hr].
  Qed.

  Lemma Inv_fresh k : Inv (fresh k).
  Proof.
    split; [apply Valid_fresh|].
    revert k. fix IH 1. intros [s kids]. cbn. split.
    - constructor; [cbn; intros; congruence|].
      induction kids as [|x r IHr]; cbn; constructor; [apply (IH x)|exact IHr].
    - constructor; [cbn; intros; discriminate|].
      induction kids as [|x r IHr]; cbn; constructor; [apply (IH x)|exact IHr].
  Qed.

  (* C01 at the level of the value compute_layout returns for the root (its size, baselines, margins):
     after ANY history of mutations (at nodes with no display:none ancestor) and layout passes, a further layout
     returns exactly what a freshly built tree with the same shape, styles and measure data returns *)
  Theorem relayout_equals_fresh t0 ops f f' i o o' t1 t2 :
    Inv t0 -> run_ok t0 ops ->
    memo f (run_ops t0 ops) i = Some (o, t1) ->
    memo f' (fresh (skel (run_ops t0 ops))) i = Some (o', t2) ->
    o = o'.
  Proof.
    intros HI Hok M1 M2. destruct (history_inv ops t0 HI Hok) as [HV _].
    eapply memo_agrees_with_fresh; eauto.
  Qed.

  (* invalidating a node without changing anything never changes the result *)
  Theorem mark_dirty_is_harmless t p f f' i o o' t1 t2 :
    Inv t -> visible_path t p ->
    memo f (mutate t p (ENone S In Out Lay)) i = Some (o, t1) -> memo f' t i = Some (o', t2) -> o = o'.
  Proof.
    intros HI Hv M1 M2.
    assert (HI' : Inv (mutate t p (ENone S In Out Lay))).
    { apply (step_inv t (OMutate S In Out Lay p (ENone S In Out Lay)) HI). cbn. auto. }
    destruct HI as [HV _]. destruct HI' as [HV' _].
    destruct (memo_sound S In Out Lay mode in_eqb is_none hidden_out zero_lay algo in_eqb_eq f _ _ _ _ HV' M1) as [[g1 P1] _].
    destruct (memo_sound S In Out Lay mode in_eqb is_none hidden_out zero_lay algo in_eqb_eq f' _ _ _ _ HV M2) as [[g2 P2] _].
    assert (Hs : skel (mutate t p (ENone S In Out Lay)) = skel t).
    { clear. unfold Engine.mutate, Engine.mark_dirty.
      assert (Hu : forall q u, update u q (apply_edit (ENone S In Out Lay)) = u).
      { induction q as [|x q IHq]; intros [s c l kids]; cbn; [reflexivity|].
        destruct (nth_error kids x) as [ch|] eqn:Ex; [|reflexivity].
        rewrite IHq. f_equal. apply replace_nth_same. exact Ex. }
      rewrite Hu.
      assert (Hm : forall q u, skel (fst (md u q)) = skel u).
      { induction q as [|x q IHq]; intros [s c l kids]; cbn [Engine.md]; [reflexivity|].
        destruct (nth_error kids x) as [ch|] eqn:Ex; [|reflexivity].
        specialize (IHq ch). destruct (md ch q) as [ch' cont]. cbn [fst] in IHq.
        assert (Hk : map skel (replace_nth x ch' kids) = map skel kids).
        { rewrite map_replace_nth, IHq. apply replace_nth_same. rewrite nth_error_map, Ex. reflexivity. }
        destruct cont; cbn; rewrite Hk; reflexivity. }
      apply Hm. }
    rewrite Hs in P1. eapply plain_det; eauto.
  Qed.

  (* C15, first clause: laying out an unchanged tree again with the same input is answered by the root's cache
     entry: nothing below is recomputed, no layout is rewritten (the tree is returned as it is) *)
  Theorem second_pass_silent f g t i o t' :
    mode i = PerformLayout -> memo f t i = Some (o, t') -> memo (Datatypes.S g) t' i = Some (o, t').
  Proof.
    intros Hp H. destruct f as [|f]; [discriminate|].
    destruct t as [s c l kids]. cbn [Engine.memo] in H. rewrite Hp in H.
    assert (Hhit : forall c0 l0 k0, Engine.cget In Out mode in_eqb c0 i = Some o ->
              memo (Datatypes.S g) (Node s c0 l0 k0) i = Some (o, Node s c0 l0 k0)).
    { intros c0 l0 k0 Hg. cbn [Engine.memo]. rewrite Hp, Hg. reflexivity. }
    assert (Hst : forall c0 o0, Engine.cget In Out mode in_eqb (Engine.cstore In Out mode c0 i o0) i = Some o0).
    { intros c0 o0. unfold Engine.cget, Engine.cstore. rewrite Hp. cbn. rewrite in_eqb_refl. reflexivity. }
    destruct (Engine.cget In Out mode in_eqb c i) as [o1|] eqn:Eg.
    - injection H as <- <-. apply Hhit. exact Eg.
    - destruct (is_none s).
      + injection H as <- <-. apply Hhit. apply Hst.
      + destruct (Engine.run_memo S In Out Lay (memo f) kids _) as [[o1 kids1]|]; [|discriminate].
        injection H as <- <-. apply Hhit. apply Hst.
  Qed.
End History.
