(* C13 -- pixel rounding.  Executable model, definitions only, generic over `Num`.

   Generated from the source on every run (Gen/RoundingGen.v, translator/gen_rounding.py):
     layout                    struct Layout (flattened)
     round_layout_inner_node   the per-node body of round_layout_inner (field by field, source order of operations),
                               with the cumulative x/y it hands to the recursive call on each child
     round_layout_root_cum     the (0.0, 0.0) round_layout starts from
     default_use_rounding, enable_rounding_sets, disable_rounding_sets, layout_reads_final, compute_rounds
   Hand-written here: the rose tree, the recursion over children, and the state (flag, unrounded tree, final tree)
   with its three operations. *)
From Coq Require Import ZArith QArith Bool List.
From TV Require Import Num.Num.
From TV Require Export Gen.RoundingGen.
Import ListNotations.

(* a tree of layouts: what `unrounded_layout` / `final_layout` hold for a node and its descendants *)
Inductive tree (T : Type) : Type := Node (l : layout T) (children : list (tree T)).
Arguments Node {T}.

Section Rounding.
  Context {T : Type} `{Num T}.

  (* round_layout_inner(tree, node, cumulative_x, cumulative_y): what set_final_layout receives for this node *)
  Definition round_node (cumulative_x cumulative_y : T) (l : layout T) : layout T :=
    fst (round_layout_inner_node cumulative_x cumulative_y l).
  (* ... and the cumulative coordinates every child is entered with *)
  Definition child_cum (cumulative_x cumulative_y : T) (l : layout T) : T * T :=
    snd (round_layout_inner_node cumulative_x cumulative_y l).

  (* `for index in 0..child_count { round_layout_inner(tree, child, cumulative_x, cumulative_y) }` *)
  Fixpoint round_tree (cumulative_x cumulative_y : T) (t : tree T) : tree T :=
    match t with
    | Node l cs =>
        Node (round_node cumulative_x cumulative_y l)
             (map (round_tree (fst (child_cum cumulative_x cumulative_y l)) (snd (child_cum cumulative_x cumulative_y l))) cs)
    end.

  (* round_layout(tree, root) *)
  Definition round_layout (t : tree T) : tree T :=
    round_tree (fst round_layout_root_cum) (snd round_layout_root_cum) t.

  (* ---- the rounding flag: TaffyTree { config.use_rounding, nodes[..].unrounded_layout, nodes[..].final_layout } *)
  Record state : Type := mk_state {
    use_rounding : bool;
    unrounded_layout : tree T;
    final_layout : tree T
  }.

  (* The layout algorithms are outside this model: a compute_layout event carries the tree of unrounded layouts that
     compute_root_layout left in the `unrounded_layout` slots. *)
  Inductive op : Type := EnableRounding | DisableRounding | ComputeLayout (u : tree T).

  Definition step (s : state) (o : op) : state :=
    match o with
    | EnableRounding => mk_state enable_rounding_sets (unrounded_layout s) (final_layout s)
    | DisableRounding => mk_state disable_rounding_sets (unrounded_layout s) (final_layout s)
    | ComputeLayout u =>
        mk_state (use_rounding s) u
                 (if compute_rounds (use_rounding s) then round_layout u else final_layout s)
    end.

  Definition run (s : state) (ops : list op) : state := fold_left step ops s.

  (* TaffyTree::layout for every node at once / TaffyTree::unrounded_layout *)
  Definition layout_of (s : state) : tree T :=
    if layout_reads_final (use_rounding s) then final_layout s else unrounded_layout s.

  (* ---- addressing nodes: a path is the list of child indices from the root *)
  Fixpoint node_at (t : tree T) (p : list nat) : option (layout T) :=
    match t, p with
    | Node l _, [] => Some l
    | Node _ cs, i :: p' => match nth_error cs i with Some c => node_at c p' | None => None end
    end.

  (* layouts of the proper ancestors of the node at p, root first *)
  Fixpoint ancestors (t : tree T) (p : list nat) : list (layout T) :=
    match t, p with
    | Node _ _, [] => []
    | Node l cs, i :: p' => match nth_error cs i with Some c => l :: ancestors c p' | None => [] end
    end.

  (* a node's absolute position is the sum of the parent-relative locations along its ancestor chain *)
  Definition sum_x (ls : list (layout T)) : T := fold_left (fun a l => add a (location_x l)) ls zero.
  Definition sum_y (ls : list (layout T)) : T := fold_left (fun a l => add a (location_y l)) ls zero.

  (* ---- vocabulary of the statements *)
  Definition all_in {A : Type} (P : A -> Prop) (xs : list A) : Prop := fold_right (fun x acc => P x /\ acc) True xs.
  (* every f32 field of a layout satisfies P *)
  Definition all_fields (P : T -> Prop) (l : layout T) : Prop := all_in P (layout_floats l).
  (* the fields the property speaks about (location, size, padding, border) and the two more the pass rewrites *)
  Definition reported_floats (l : layout T) : list T :=
    [location_x l; location_y l; size_width l; size_height l;
     padding_left l; padding_right l; padding_top l; padding_bottom l;
     border_left l; border_right l; border_top l; border_bottom l;
     scrollbar_size_width l; scrollbar_size_height l; content_size_width l; content_size_height l].
  (* (unrounded, rounded) pairs of the lengths: sizes, padding and border components, content size *)
  Definition length_pairs (u r : layout T) : list (T * T) :=
    [(size_width u, size_width r); (size_height u, size_height r);
     (padding_left u, padding_left r); (padding_right u, padding_right r);
     (padding_top u, padding_top r); (padding_bottom u, padding_bottom r);
     (border_left u, border_left r); (border_right u, border_right r);
     (border_top u, border_top r); (border_bottom u, border_bottom r);
     (content_size_width u, content_size_width r); (content_size_height u, content_size_height r)].
  (* (unrounded, rounded) pairs of the positions rounded on their own: location, scrollbar size *)
  Definition point_pairs (u r : layout T) : list (T * T) :=
    [(location_x u, location_x r); (location_y u, location_y r);
     (scrollbar_size_width u, scrollbar_size_width r); (scrollbar_size_height u, scrollbar_size_height r)].

  Inductive tree_all (P : layout T -> Prop) : tree T -> Prop :=
    tree_all_node : forall l cs, P l -> Forall (tree_all P) cs -> tree_all P (Node l cs).
End Rounding.

Arguments state T : clear implicits.
Arguments op T : clear implicits.
