(* One engine for ALL node kinds TaffyView::compute_child_layout dispatches on: block containers (Model/BlockAlg.v, transported as in
   Model/BlockFlexEngine.v), flex containers (Model/FlexAlg.v), grid containers (Model/GridAlg.v) and leaves.  The node style is the
   block+flex view (`BFStyle`) plus the fields only grid layout reads; the flex and the grid view are built from the SAME core style,
   so "display: none" / "position: absolute" mean the same in every view by construction.  Definitions only. *)
From Coq Require Import ZArith Bool List.
From TV Require Import Model.Common Model.Leaf Gen.GridTracksGen Model.GridTracks.
From TV Require Import Model.FlexAlgBase Model.FlexAlg Model.EngineLift Model.BlockFlexEngine Model.GridAlgBase Model.GridAlg.
From TV Require Gen.FlexGen Gen.BlockGen Model.Block Model.BlockAlg Model.Engine.
Import ListNotations.
Close Scope Z_scope.
Close Scope N_scope.

(* Style = BFStyle (core, inset, flex container / item fields incl. the alignment properties and gap shared with grid, item_is_table,
   text_align) + the grid-only fields *)
Record TStyle (T : Type) := mkTS {
  ts_bf : BFStyle T;
  ts_template_columns : list (tsf T); ts_template_rows : list (tsf T);
  ts_auto_columns : list (nrt T); ts_auto_rows : list (nrt T);
  ts_flow : PB.flow;
  ts_justify_items : option AE.AlignItems; ts_justify_self : option AE.AlignItems;
  ts_row : PB.Ln PB.GP; ts_column : PB.Ln PB.GP;
  ts_replaced : bool;
}.
Arguments mkTS {T}. Arguments ts_bf {T}. Arguments ts_template_columns {T}. Arguments ts_template_rows {T}. Arguments ts_auto_columns {T}.
Arguments ts_auto_rows {T}. Arguments ts_flow {T}. Arguments ts_justify_items {T}. Arguments ts_justify_self {T}. Arguments ts_row {T}.
Arguments ts_column {T}. Arguments ts_replaced {T}.

Section Taffy.
  Context {T : Type} `{Num T}.

  Definition g_align_of (a : FAlign) : AE.AlignItems :=
    match a with
    | FA_Start => AE.AI_Start | FA_End => AE.AI_End | FA_FlexStart => AE.AI_FlexStart | FA_FlexEnd => AE.AI_FlexEnd
    | FA_Center => AE.AI_Center | FA_Baseline => AE.AI_Baseline | FA_Stretch => AE.AI_Stretch
    end.
  Definition g_content_of (a : FlexGen.AlignContent) : align_content :=
    match a with
    | FlexGen.AC_Start => AStart | FlexGen.AC_End => AEnd | FlexGen.AC_FlexStart => AFlexStart | FlexGen.AC_FlexEnd => AFlexEnd
    | FlexGen.AC_Center => ACenter | FlexGen.AC_Stretch => AStretch | FlexGen.AC_SpaceBetween => ASpaceBetween
    | FlexGen.AC_SpaceEvenly => ASpaceEvenly | FlexGen.AC_SpaceAround => ASpaceAround
    end.

  (* the grid view of a node's style *)
  Definition to_gstyle (s : TStyle T) : GStyle T :=
    let f := bf_flex (ts_bf s) in
    mkGStyle (fs_core f) (fs_inset f) (ts_template_columns s) (ts_template_rows s) (ts_auto_columns s) (ts_auto_rows s) (ts_flow s)
             (fs_gap f) (option_map g_align_of (fs_align_items f)) (ts_justify_items s)
             (option_map g_content_of (fs_align_content f)) (option_map g_content_of (fs_justify_content f))
             (ts_row s) (ts_column s) (option_map g_align_of (fs_align_self f)) (ts_justify_self s) (ts_replaced s).

  Definition t_is_none (s : TStyle T) : bool := bf_is_none (ts_bf s).
  Definition t_visible_absolute (s : TStyle T) : bool := bf_visible_absolute (ts_bf s).
  (* what a parent may read of an out-of-flow child's style: its grid placement lines (only a grid parent does) *)
  Definition t_lines (s : TStyle T) : PB.Ln PB.GP * PB.Ln PB.GP := (ts_row s, ts_column s).

  Definition grid_alg_t : TStyle T -> list (TStyle T) -> FIn T -> Engine.Alg (FIn T) (LayoutOutput T) (FLay T) :=
    style_comap (GStyle T) (TStyle T) (FIn T) (LayoutOutput T) (FLay T) to_gstyle grid_alg.
  Definition blockflex_alg_t (kind : BFStyle T -> NodeKind) pre abs_child (leaf : BFStyle T -> FIn T -> LayoutOutput T)
    : TStyle T -> list (TStyle T) -> FIn T -> Engine.Alg (FIn T) (LayoutOutput T) (FLay T) :=
    style_comap (BFStyle T) (TStyle T) (FIn T) (LayoutOutput T) (FLay T) ts_bf (blockflex_algo kind pre abs_child leaf).

  (* TaffyView::compute_child_layout's dispatch: (Display::Grid, has children) -> compute_grid_layout; everything else as in
     Model/BlockFlexEngine.v.  `is_grid` / `kind` decide from the node's own style *)
  Definition taffy_algo (is_grid : TStyle T -> bool) (kind : BFStyle T -> NodeKind) pre abs_child (leaf : BFStyle T -> FIn T -> LayoutOutput T)
    : TStyle T -> list (TStyle T) -> FIn T -> Engine.Alg (FIn T) (LayoutOutput T) (FLay T) :=
    fun s st i => if is_grid s then grid_alg_t s st i else blockflex_alg_t kind pre abs_child leaf s st i.

  (* engines of grid containers and leaves only, over the grid style *)
  Definition grid_leaf_algo (sel : GStyle T -> bool) (leaf : GStyle T -> GIn T -> LayoutOutput T)
    : GStyle T -> list (GStyle T) -> GIn T -> Engine.Alg (GIn T) (LayoutOutput T) (GLay T) :=
    fun s st i => if sel s then grid_alg s st i else Engine.Ret (GIn T) (LayoutOutput T) (GLay T) (leaf s i).
End Taffy.
