"""The engine glue, translated from source on every run (Gen/EngineGlueGen.v):

  (a) src/compute/mod.rs        compute_cached_layout        -> glue_compute_cached_layout   (get / hit / compute / store, same key)
  (b) src/tree/taffy_tree.rs    TaffyView::compute_child_layout
                                                             -> glue_has_children, glue_dispatch (the MATCH TABLE, arm order kept; Coq
                                                                rejects a redundant or missing arm), glue_compute_child_layout
  (c) src/tree/taffy_tree.rs    TaffyTree::mark_dirty + its inner fn, NodeData::mark_dirty, src/tree/cache.rs Cache::clear
                                                             -> glue_cache_clear, glue_mark_dirty_recursive (fuelled), glue_mark_dirty
  (d) src/compute/mod.rs        compute_hidden_layout        -> glue_compute_hidden_layout
  (e) src/tree/taffy_tree.rs    the mutators: which node each of them marks dirty, UNCONDITIONALLY (a top-level `self.mark_dirty(x)?;`
                                statement; a mark_dirty under an `if` / `match` / loop is refused) -> glue_mutator_marks (a table)

Every statement of every body must be consumed: a statement that is not one of the recognised forms (or a `debug_*!` macro, or a
`#[cfg(taffy_verif)]` hook statement) makes the generator REFUSE.  What is matched structurally rather than translated expression by
expression is listed in notes/ENGINEGLUE.md (the leaf arm's argument plumbing, the verif hooks, the debug macros).

The functions are emitted in Sections over abstract accessors (cache_get, cache_store, child_count, ...); `option` results stand for
"the callee may not return" (fuel in the model).  Proofs/EngineGlueProofs.v instantiates the accessors with Model/Engine.v's trees
and proves the translated functions equal to `memo` / `mark_dirty` / `hide` / `taffy_dispatch`."""
from rustparse import *

MOD = 'src/compute/mod.rs'
TT = 'src/tree/taffy_tree.rs'
CACHE = 'src/tree/cache.rs'
STYLE = 'src/style/mod.rs'


class Refuse(Exception):
    pass


def P(*segs):
    return ('path', list(segs))


def is_skippable(st):
    """debug macros and cfg(taffy_verif) hook statements: no effect on the layout state"""
    if st[0] == 'expr':
        e, attrs = st[1], (st[2] if len(st) > 2 else [])
        if e[0] == 'macro' and e[1] in ('debug_log', 'debug_log_node', 'debug_push_node', 'debug_pop_node'):
            return True
        if attrs == ['cfg ( taffy_verif )'] and e[0] == 'call' and e[1][0] == 'path' and e[1][1][:2] == ['crate', 'verif_hooks']:
            return True
    if st[0] == 'assign' or (st[0] == 'expr' and st[1][0] == 'assign'):
        return False
    return False


def live(stmts, what):
    out = []
    for st in stmts:
        if is_skippable(st):
            continue
        if st[0] in ('let', 'expr') and len(st) > 2 + (st[0] == 'let') and st[-1]:
            raise Refuse('%s: attribute %r on a statement that is not a verif hook' % (what, st[-1]))
        out.append(st)
    return out


def expect(cond, what):
    if not cond:
        raise Refuse(what)


def body_of(toks, name, what, start=0):
    params, b, _ = find_fn(toks, name, start)
    blk = parse_block(b)
    expect(blk[0] == 'block', what + ': body is not a block')
    return params, b, blk


# ---------------------------------------------------------------- (a) compute_cached_layout
def gen_cached(toks, out, fps):
    W = 'compute_cached_layout'
    params, b, blk = body_of(toks, W, W)
    fps[W] = norm_tokens(params) + ' => ' + norm_tokens(b)
    expect(param_names(params) == ['tree', 'node', 'inputs', 'compute_uncached'], W + ': parameters changed')
    sts = live(blk[1], W)
    expect(len(sts) == 5, W + ': expected 5 live statements (destructure, cache_get, if-let-return, compute, store), found %d' % len(sts))
    s0, s1, s2, s3, s4 = sts
    # let LayoutInput { known_dimensions, available_space, run_mode, .. } = inputs;
    expect(s0[0] == 'let' and s0[1][0] == 'pstruct' and s0[1][1] == ['LayoutInput'] and s0[2] == P('inputs'), W + ': key destructuring not recognised')
    fields = []
    for f, p in s0[1][2]:
        if p == ('prest',):
            continue
        expect(p == ('pident', f), W + ': key field %s is renamed' % f)
        fields.append(f)
    expect(fields == ['known_dimensions', 'available_space', 'run_mode'], W + ': the cache key is no longer (known_dimensions, available_space, run_mode): %r' % fields)
    key = [P(f) for f in fields]
    # let cache_entry = tree.cache_get(node, <key>);
    expect(s1[0] == 'let' and s1[1][0] == 'pident' and s1[2] == ('mcall', P('tree'), 'cache_get', [P('node')] + key), W + ': cache_get call not recognised')
    ce = s1[1][1]
    # if let Some(x) = cache_entry { ...; return x; }
    e = s2[1]
    expect(s2[0] == 'expr' and e[0] == 'iflet' and e[1][0] == 'pts' and e[1][1] == ['Some'] and len(e[1][2]) == 1 and e[1][2][0][0] == 'pident'
           and e[2] == P(ce) and e[4] is None, W + ': hit test not recognised')
    hit = e[1][2][0][1]
    hb = live(e[3][1], W + ' (hit branch)')
    expect(e[3][2] is None and hb == [('expr', ('return', P(hit)), [])], W + ': the hit branch must only return the cached value')
    # let computed = compute_uncached(tree, node, inputs);
    expect(s3[0] == 'let' and s3[1][0] == 'pident' and s3[2] == ('call', P('compute_uncached'), [P('tree'), P('node'), P('inputs')]), W + ': compute_uncached call not recognised')
    cv = s3[1][1]
    # tree.cache_store(node, <key>, computed);
    expect(s4[0] == 'expr' and s4[1] == ('mcall', P('tree'), 'cache_store', [P('node')] + key + [P(cv)]), W + ': cache_store call not recognised (same node, same key, the computed value)')
    expect(blk[2] == P(cv), W + ': must return the computed value')
    out += [
        '(* ---- (a) %s: compute_cached_layout ---- *)' % MOD,
        'Definition glue_cache_key_fields : list string := [%s].' % '; '.join('"%s"' % f for f in fields),
        'Section GlueCached.',
        '  Variables (Tree Node In Out Key : Type).',
        '  Variable key_of : In -> Key.                         (* let LayoutInput { %s, .. } = inputs *)' % ', '.join(fields),
        '  Variable cache_get : Tree -> Node -> Key -> option Out.',
        '  Variable cache_store : Tree -> Node -> Key -> Out -> Tree.',
        '  Definition glue_compute_cached_layout (tree : Tree) (node : Node) (inputs : In)',
        '      (compute_uncached : Tree -> Node -> In -> option (Tree * Out)) : option (Tree * Out) :=',
        '    let key := key_of inputs in',
        '    let %s := cache_get tree node key in' % ce,
        '    match %s with' % ce,
        '    | Some %s => Some (tree, %s)' % (hit, hit),
        '    | None =>',
        '        match compute_uncached tree node inputs with',
        '        | Some (tree, %s) => Some (cache_store tree node key %s, %s)' % (cv, cv, cv),
        '        | None => None',
        '        end',
        '    end.',
        'End GlueCached.', '']


# ---------------------------------------------------------------- (d) compute_hidden_layout
def gen_hidden(toks, out, fps):
    W = 'compute_hidden_layout'
    params, b, blk = body_of(toks, W, W)
    fps[W] = norm_tokens(params) + ' => ' + norm_tokens(b)
    expect(param_names(params) == ['tree', 'node'], W + ': parameters changed')
    sts = live(blk[1], W)
    expect(len(sts) == 3, W + ': expected 3 live statements (cache_clear, set_unrounded_layout, for), found %d' % len(sts))
    expect(sts[0] == ('expr', ('mcall', P('tree'), 'cache_clear', [P('node')]), []), W + ': cache_clear(node) not recognised')
    e = sts[1][1]
    expect(sts[1][0] == 'expr' and e[0] == 'mcall' and e[1] == P('tree') and e[2] == 'set_unrounded_layout' and len(e[3]) == 2 and e[3][0] == P('node')
           and e[3][1][0] == 'un' and e[3][1][1] == '&' and e[3][1][2][0] == 'call' and e[3][1][2][1] == P('Layout', 'with_order')
           and len(e[3][1][2][2]) == 1 and e[3][1][2][2][0][0] == 'lit', W + ': set_unrounded_layout(node, &Layout::with_order(k)) not recognised')
    order = e[3][1][2][2][0][1]
    expect(order.isdigit(), W + ': order literal')
    f = sts[2][1]
    expect(sts[2][0] == 'expr' and f[0] == 'for' and f[1][0] == 'pident' and f[2] == ('range', ('lit', '0'), ('mcall', P('tree'), 'child_count', [P('node')])),
           W + ': the loop must range over 0..tree.child_count(node) (ALL children)')
    ix = f[1][1]
    lb = live(f[3][1], W + ' (loop body)')
    expect(f[3][2] is None and len(lb) == 2 and lb[0][0] == 'let' and lb[0][1][0] == 'pident'
           and lb[0][2] == ('mcall', P('tree'), 'get_child_id', [P('node'), P(ix)]), W + ': loop body: get_child_id(node, index) not recognised')
    cid = lb[0][1][1]
    expect(lb[1] == ('expr', ('mcall', P('tree'), 'compute_child_layout', [P(cid), P('LayoutInput', 'HIDDEN')]), []),
           W + ': loop body: compute_child_layout(child, LayoutInput::HIDDEN) not recognised')
    expect(blk[2] == P('LayoutOutput', 'HIDDEN'), W + ': must return LayoutOutput::HIDDEN')
    out += [
        '(* ---- (d) %s: compute_hidden_layout ---- *)' % MOD,
        'Section GlueHidden.',
        '  Variables (Tree Node In Out Lay : Type).',
        '  Variable cache_clear : Tree -> Node -> Tree.',
        '  Variable set_unrounded_layout : Tree -> Node -> Lay -> Tree.',
        '  Variable child_count : Tree -> Node -> nat.',
        '  Variable get_child_id : Tree -> Node -> nat -> Node.',
        '  Variable layout_with_order : nat -> Lay.             (* Layout::with_order *)',
        '  Variable input_HIDDEN : In.                          (* LayoutInput::HIDDEN *)',
        '  Variable output_HIDDEN : Out.                        (* LayoutOutput::HIDDEN *)',
        '  Variable compute_child_layout : Tree -> Node -> In -> Tree * Out.   (* the recursive call through the trait *)',
        '  Definition glue_compute_hidden_layout (tree : Tree) (node : Node) : Tree * Out :=',
        '    let tree := cache_clear tree node in',
        '    let tree := set_unrounded_layout tree node (layout_with_order %s) in' % order,
        '    let tree := fold_left (fun tree %s =>' % ix,
        '                             let %s := get_child_id tree node %s in' % (cid, ix),
        '                             fst (compute_child_layout tree %s input_HIDDEN))' % cid,
        '                          (seq 0 (child_count tree node)) tree in',
        '    (tree, output_HIDDEN).',
        'End GlueHidden.', '']


# ---------------------------------------------------------------- (b) TaffyView::compute_child_layout
KIND_OF_CALL = {'compute_hidden_layout': ('GK_hidden', 2), 'compute_block_layout': ('GK_block', 3),
                'compute_flexbox_layout': ('GK_flex', 3), 'compute_grid_layout': ('GK_grid', 3)}
ARM_CFG = {'GK_hidden': [], 'GK_block': ['cfg ( feature = "block_layout" )'], 'GK_flex': ['cfg ( feature = "flexbox" )'],
           'GK_grid': ['cfg ( feature = "grid" )'], 'GK_leaf': []}

# the leaf arm's plumbing, matched as a whole (normalised token text of the arm's block)
LEAF_ARM = ('{ let node_key = node . into ( ) ; let style = & tree . taffy . nodes [ node_key ] . style ; '
            'let has_context = tree . taffy . nodes [ node_key ] . has_context ; '
            'let node_context = has_context . then ( || tree . taffy . node_context_data . get_mut ( node_key ) ) . flatten ( ) ; '
            'let measure_function = | known_dimensions , available_space | { ( tree . measure_function ) ( known_dimensions , available_space , node , node_context , style ) } ; '
            'compute_leaf_layout ( inputs , style , | _ , _ | 0.0 , measure_function ) }')


def display_variants(repo):
    toks = tokenize(open(repo + '/' + STYLE).read())
    si = [i for i in range(len(toks)) if seq_at(toks, i, ['pub', 'enum', 'Display', '{'])]
    expect(len(si) == 1, 'enum Display not found in ' + STYLE)
    b = si[0] + 3
    e = match_brace(toks, b)
    p = Parser(toks[b + 1:e])
    vs = []
    while not p.at_end():
        p.attrs()
        while p.peekk() == 'lc':
            p.eat()
        v = p.eat()
        vs.append(v)
        if not p.at_end():
            p.eat(',')
    return [v for v in vs if not v.startswith('///')], norm_tokens(toks[si[0]:e + 1])


def find_arm_block_text(toks_fn_body):
    """normalised text of the block after `( _ , false ) =>`"""
    for i in range(len(toks_fn_body)):
        if seq_at(toks_fn_body, i, ['(', '_', ',', 'false', ')', '=>', '{']):
            j = i + 6
            return norm_tokens(toks_fn_body[j:match_brace(toks_fn_body, j) + 1])
    return None


def gen_child(repo, toks, out, fps):
    W = 'TaffyView::compute_child_layout'
    vi = [i for i in range(len(toks)) if seq_at(toks, i, ['LayoutPartialTree', 'for', 'TaffyView'])]
    expect(len(vi) == 1, W + ': `impl LayoutPartialTree for TaffyView` not found exactly once')
    params, b, blk = body_of(toks, 'compute_child_layout', W, vi[0])
    fps[W] = norm_tokens(params) + ' => ' + norm_tokens(b)
    expect(param_names(params) == ['self', 'node', 'inputs'], W + ': parameters changed')
    variants, enum_text = display_variants(repo)
    fps['enum Display'] = enum_text
    expect(sorted(variants) == ['Block', 'Flex', 'Grid', 'None'], W + ': enum Display has variants %r' % variants)
    sts = live(blk[1], W)
    expect(len(sts) == 1, W + ': expected exactly the hidden-mode guard before the cached call')
    g = sts[0][1]
    expect(sts[0][0] == 'expr' and g[0] == 'if' and g[1] == ('bin', '==', ('field', P('inputs'), 'run_mode'), P('RunMode', 'PerformHiddenLayout')) and g[3] is None,
           W + ': hidden-mode guard not recognised')
    gb = live(g[2][1], W + ' (guard)')
    expect(g[2][2] is None and gb == [('expr', ('return', ('call', P('compute_hidden_layout'), [P('self'), P('node')])), [])],
           W + ': the guard must return compute_hidden_layout(self, node)')
    t = blk[2]
    expect(t is not None and t[0] == 'call' and t[1] == P('compute_cached_layout') and len(t[2]) == 4 and t[2][:3] == [P('self'), P('node'), P('inputs')]
           and t[2][3][0] == 'closure', W + ': tail must be compute_cached_layout(self, node, inputs, |..| ..)')
    cl = t[2][3]
    expect(cl[1] == [('pident', 'tree'), ('pident', 'node'), ('pident', 'inputs')] and cl[2][0] == 'block', W + ': closure parameters changed')
    cs = live(cl[2][1], W + ' (closure)')
    expect(len(cs) == 2, W + ': closure: expected `let display_mode`, `let has_children` only')
    node_data = ('index', ('field', ('field', P('tree'), 'taffy'), 'nodes'), ('mcall', P('node'), 'into', []))
    expect(cs[0][0] == 'let' and cs[0][1][0] == 'pident' and cs[0][2] == ('field', ('field', node_data, 'style'), 'display'),
           W + ': closure: the display mode must be the node\'s own style.display')
    dm = cs[0][1][1]
    expect(cs[1][0] == 'let' and cs[1][1][0] == 'pident' and cs[1][2] == ('bin', '>', ('mcall', P('tree'), 'child_count', [P('node')]), ('lit', '0')),
           W + ': closure: has_children must be `tree.child_count(node) > 0`')
    hc = cs[1][1][1]
    m = cl[2][2]
    expect(m is not None and m[0] == 'match' and m[1] == ('tuple', [P(dm), P(hc)]), W + ': closure tail must be `match (%s, %s)`' % (dm, hc))
    rows = []
    for arm in m[2]:
        pat, guard, rhs = arm[0], arm[1], arm[2]
        attrs = arm[3] if len(arm) > 3 else []
        expect(guard is None, W + ': a dispatch arm has a guard')
        expect(pat[0] == 'ptuple' and len(pat[1]) == 2, W + ': dispatch arm pattern is not a pair')
        d, h = pat[1]
        if d == ('pwild',):
            dp = '_'
        else:
            expect(d[0] == 'ppath' and len(d[1]) == 2 and d[1][0] == 'Display' and d[1][1] in variants, W + ': dispatch arm: display pattern %r' % (d,))
            dp = 'GD_' + d[1][1]
        if h == ('pwild',):
            hp = '_'
        else:
            expect(h[0] == 'plit' and h[1] in ('true', 'false'), W + ': dispatch arm: has_children pattern %r' % (h,))
            hp = h[1]
        if rhs[0] == 'call' and rhs[1][0] == 'path' and len(rhs[1][1]) == 1 and rhs[1][1][0] in KIND_OF_CALL:
            kind, nargs = KIND_OF_CALL[rhs[1][1][0]]
            expect(rhs[2] == [P('tree'), P('node'), P('inputs')][:nargs], W + ': dispatch arm: arguments of %s' % rhs[1][1][0])
        elif rhs[0] == 'block':
            txt = find_arm_block_text(b)
            expect(txt == LEAF_ARM and (dp, hp) == ('_', 'false'),
                   W + ': the leaf arm (compute_leaf_layout with the node\'s own style, context and the measure function) is not in its known form')
            kind = 'GK_leaf'
        else:
            raise Refuse(W + ': dispatch arm: unrecognised right-hand side %r' % (rhs[0],))
        expect(attrs == ARM_CFG[kind], W + ': dispatch arm %s: attributes %r' % (kind, attrs))
        rows.append((dp, hp, kind))
    out += [
        '(* ---- (b) %s: TaffyView::compute_child_layout ---- *)' % TT,
        'Inductive GlueDisplay := %s.                (* %s: enum Display *)' % (' | '.join('GD_' + v for v in variants), STYLE),
        'Inductive GKind := GK_hidden | GK_block | GK_flex | GK_grid | GK_leaf.',
        '(* let %s = tree.child_count(node) > 0 *)' % hc,
        'Definition glue_has_children (child_count : nat) : bool := Nat.ltb 0 child_count.',
        '(* match (%s, %s): the table, arm by arm, in source order *)' % (dm, hc),
        'Definition glue_dispatch (%s : GlueDisplay) (%s : bool) : GKind :=' % (dm, hc),
        '  match %s, %s with' % (dm, hc)]
    out += ['  | %s, %s => %s' % r for r in rows]
    out += [
        '  end.',
        'Definition glue_dispatch_arms : list (string * string * GKind) := [%s].' % '; '.join('("%s", "%s", %s)' % r for r in rows),
        'Section GlueChild.',
        '  Variables (Tree Node In Out : Type).',
        '  Variable is_hidden_mode : In -> bool.                (* inputs.run_mode == RunMode::PerformHiddenLayout *)',
        '  Variable compute_hidden_layout : Tree -> Node -> option (Tree * Out).',
        '  Variable compute_cached_layout : Tree -> Node -> In -> (Tree -> Node -> In -> option (Tree * Out)) -> option (Tree * Out).',
        '  Variable display_of : Tree -> Node -> GlueDisplay.      (* tree.taffy.nodes[node.into()].style.display *)',
        '  Variable child_count : Tree -> Node -> nat.',
        '  Variables compute_block_layout compute_flexbox_layout compute_grid_layout compute_leaf_layout : Tree -> Node -> In -> option (Tree * Out).',
        '  Definition glue_compute_uncached (tree : Tree) (node : Node) (inputs : In) : option (Tree * Out) :=',
        '    let %s := display_of tree node in' % dm,
        '    let %s := glue_has_children (child_count tree node) in' % hc,
        '    match glue_dispatch %s %s with' % (dm, hc),
        '    | GK_hidden => compute_hidden_layout tree node',
        '    | GK_block => compute_block_layout tree node inputs',
        '    | GK_flex => compute_flexbox_layout tree node inputs',
        '    | GK_grid => compute_grid_layout tree node inputs',
        '    | GK_leaf => compute_leaf_layout tree node inputs',
        '    end.',
        '  Definition glue_compute_child_layout (tree : Tree) (node : Node) (inputs : In) : option (Tree * Out) :=',
        '    if is_hidden_mode inputs then compute_hidden_layout tree node',
        '    else compute_cached_layout tree node inputs glue_compute_uncached.',
        'End GlueChild.', '']


# ---------------------------------------------------------------- (c) mark_dirty
def gen_mark_dirty(repo, toks, out, fps):
    # Cache::clear
    W = 'Cache::clear'
    ctoks = tokenize(open(repo + '/' + CACHE).read())
    ci = [i for i in range(len(ctoks)) if seq_at(ctoks, i, ['pub', 'enum', 'ClearState', '{'])]
    expect(len(ci) == 1, 'enum ClearState not found')
    ce = match_brace(ctoks, ci[0] + 3)
    cvars = [t[1] for t in ctoks[ci[0] + 4:ce] if t[0] == 'id']
    fps['enum ClearState'] = norm_tokens(ctoks[ci[0]:ce + 1])
    expect(sorted(cvars) == ['AlreadyEmpty', 'Cleared'], 'enum ClearState has variants %r' % cvars)
    params, b, blk = body_of(ctoks, 'clear', W)
    fps[W] = norm_tokens(params) + ' => ' + norm_tokens(b)
    sts = [s for s in blk[1] if not (s[0] == 'expr' and s[-1] == ['cfg ( taffy_verif )'] and s[1] == ('mcall', ('field', P('self'), 'exact'), 'clear', []))]
    sts = live(sts, W)
    expect(len(sts) == 4, W + ': expected 4 live statements, found %d' % len(sts))
    g = sts[0][1]
    expect(sts[0][0] == 'expr' and g[0] == 'if' and g[1] == ('field', P('self'), 'is_empty') and g[3] is None and g[2][2] is None
           and live(g[2][1], W) == [('expr', ('return', P('ClearState', 'AlreadyEmpty')), [])], W + ': early return on self.is_empty not recognised')

    def assign(st):
        e = st[1] if st[0] == 'expr' else st
        if st[0] == 'assign':
            return st[1], st[2], st[3]
        if e[0] == 'assign':
            return e[1], e[2], e[3]
        return None
    a1, a2, a3 = assign(sts[1]), assign(sts[2]), assign(sts[3])
    expect(a1 == ('=', ('field', P('self'), 'is_empty'), P('true')), W + ': `self.is_empty = true` not recognised: %r' % (sts[1],))
    expect(a2 == ('=', ('field', P('self'), 'final_layout_entry'), P('None')), W + ': `self.final_layout_entry = None` not recognised')
    expect(a3 is not None and a3[0] == '=' and a3[1] == ('field', P('self'), 'measure_entries')
           and a3[2] == ('arrayrep', P('None'), P('CACHE_SIZE')), W + ': `self.measure_entries = [None; CACHE_SIZE]` not recognised: %r' % (a3,))
    expect(blk[2] == P('ClearState', 'Cleared'), W + ': must return ClearState::Cleared')
    # NodeData::mark_dirty
    W = 'NodeData::mark_dirty'
    ni = [i for i in range(len(toks)) if seq_at(toks, i, ['impl', 'NodeData', '{'])]
    expect(len(ni) == 1, '`impl NodeData` not found')
    params, b, blk = body_of(toks, 'mark_dirty', W, ni[0])
    fps[W] = norm_tokens(params) + ' => ' + norm_tokens(b)
    expect(live(blk[1], W) == [] and blk[2] == ('mcall', ('field', P('self'), 'cache'), 'clear', []), W + ': must be `self.cache.clear()`')
    # TaffyTree::mark_dirty
    W = 'TaffyTree::mark_dirty'
    ti = [i for i in range(len(toks)) if seq_at(toks, i, ['pub', 'fn', 'mark_dirty', '(', '&', 'mut', 'self', ',', 'node'])]
    expect(len(ti) == 1, W + ' not found')
    params, b, blk = body_of(toks, 'mark_dirty', W, ti[0])
    fps[W] = norm_tokens(params) + ' => ' + norm_tokens(b)
    expect(len(blk[1]) == 2 and blk[1][0][0] == 'item' and blk[1][0][1].startswith('fn mark_dirty_recursive ('), W + ': inner fn mark_dirty_recursive not found (a different form of the walk)')
    expect(blk[1][1] == ('expr', ('call', P('mark_dirty_recursive'), [('un', '&', ('field', P('self'), 'nodes')), ('un', '&', ('field', P('self'), 'parents')),
                                                                      ('mcall', P('node'), 'into', [])]), []), W + ': the call of the inner fn is not recognised')
    expect(blk[2] == ('call', P('Ok'), [('tuple', [])]), W + ': must return Ok(())')
    iparams, ib, _ = find_fn(b, 'mark_dirty_recursive')
    inner = parse_block(ib)
    pn = [t[1] for k, t in enumerate(iparams) if t[0] == 'id' and k + 1 < len(iparams) and iparams[k + 1][1] == ':']
    expect(pn == ['nodes', 'parents', 'node_key'], W + ': inner fn parameters %r' % pn)
    expect(live(inner[1], W) == [] and inner[2] is not None and inner[2][0] == 'match'
           and inner[2][1] == ('mcall', ('index', P('nodes'), P('node_key')), 'mark_dirty', []), W + ': inner fn must match on nodes[node_key].mark_dirty()')
    arms = inner[2][2]
    expect(len(arms) == 2 and all(a[1] is None and not (a[3] if len(a) > 3 else []) for a in arms), W + ': inner match: two plain arms expected')
    lines = {}
    for a in arms:
        expect(a[0][0] == 'ppath' and a[0][1][0] == 'ClearState' and a[0][1][1] in cvars and a[2][0] == 'block', W + ': inner match arm %r' % (a[0],))
        v = a[0][1][1]
        body = a[2]
        if live(body[1], W) == [] and body[2] is None:
            lines[v] = 'nodes'
            continue
        il = body[2]
        expect(live(body[1], W) == [] and il is not None and il[0] == 'iflet'
               and il[1] == ('pts', ['Some'], [('pts', ['Some'], [('pident', 'node')])])
               and il[2] == ('mcall', P('parents'), 'get', [P('node_key')]) and il[4] is None, W + ': arm %s: `if let Some(Some(node)) = parents.get(node_key)` not recognised' % v)
        rb = live(il[3][1], W)
        expect(il[3][2] is None and rb == [('expr', ('call', P('mark_dirty_recursive'), [P('nodes'), P('parents'), ('mcall', ('un', '*', P('node')), 'into', [])]), [])],
               W + ': arm %s: the recursive call on the parent is not recognised' % v)
        lines[v] = ('match parents_get node_key with\n'
                    '            | Some (Some node) => glue_mark_dirty_recursive fuel nodes (key_of_node node)\n'
                    '            | _ => nodes\n'
                    '            end')
    expect(sorted(lines) == ['AlreadyEmpty', 'Cleared'], W + ': inner match does not cover ClearState')
    out += [
        '(* ---- (c) %s: Cache::clear; %s: NodeData::mark_dirty, TaffyTree::mark_dirty ---- *)' % (CACHE, TT),
        'Inductive GClearState := %s.' % ' | '.join('GCS_' + v for v in cvars),
        'Section GlueCacheClear.',
        '  Variable C : Type.',
        '  Variable c_is_empty : C -> bool.                      (* the field self.is_empty *)',
        '  Variable c_set_is_empty : C -> bool -> C.',
        '  Variable c_clear_final_layout_entry : C -> C.         (* self.final_layout_entry = None *)',
        '  Variable c_clear_measure_entries : C -> C.            (* self.measure_entries = [None; CACHE_SIZE] *)',
        '  Definition glue_cache_clear (self : C) : C * GClearState :=',
        '    if c_is_empty self then (self, GCS_AlreadyEmpty)',
        '    else',
        '      let self := c_set_is_empty self true in',
        '      let self := c_clear_final_layout_entry self in',
        '      let self := c_clear_measure_entries self in',
        '      (self, GCS_Cleared).',
        'End GlueCacheClear.',
        'Section GlueMarkDirty.',
        '  Variables (Nodes Key NodeId : Type).',
        '  Variable nodes_mark_dirty : Nodes -> Key -> Nodes * GClearState.   (* nodes[node_key].mark_dirty() = nodes[node_key].cache.clear(), in place *)',
        '  Variable parents_get : Key -> option (option NodeId).              (* parents.get(node_key) *)',
        '  Variable key_of_node : NodeId -> Key.                              (* NodeId::into *)',
        '  Fixpoint glue_mark_dirty_recursive (fuel : nat) (nodes : Nodes) (node_key : Key) : Nodes :=',
        '    match fuel with',
        '    | O => nodes',
        '    | S fuel =>',
        '        let (nodes, r) := nodes_mark_dirty nodes node_key in',
        '        match r with']
    for a in arms:
        v = a[0][1][1]
        out.append('        | GCS_%s => %s' % (v, lines[v]))
    out += [
        '        end',
        '    end.',
        '  Definition glue_mark_dirty (fuel : nat) (nodes : Nodes) (node : NodeId) : Nodes :=',
        '    glue_mark_dirty_recursive fuel nodes (key_of_node node).',
        'End GlueMarkDirty.', '']


# ---------------------------------------------------------------- (e) the mutators' unconditional mark_dirty
MUTATORS = ['set_node_context', 'add_child', 'insert_child_at_index', 'set_children', 'remove_child_at_index',
            'remove_children_range', 'replace_child_at_index', 'set_style']


def contains_mark_dirty(e):
    if isinstance(e, tuple):
        if len(e) >= 3 and e[0] == 'mcall' and e[2] == 'mark_dirty':
            return True
        return any(contains_mark_dirty(x) for x in e)
    if isinstance(e, list):
        return any(contains_mark_dirty(x) for x in e)
    return False


def gen_mutators(toks, out, fps):
    idxs = [i for i in range(len(toks)) if seq_at(toks, i, ['impl', '<', 'NodeContext', '>', 'TaffyTree', '<', 'NodeContext', '>', '{'])]
    expect(len(idxs) == 1, 'inherent impl of TaffyTree not found exactly once')
    b0 = idxs[0] + 8
    body = toks[b0:match_brace(toks, b0) + 1]
    rows = []
    for m in MUTATORS:
        W = 'TaffyTree::' + m
        params, b, _ = find_fn(body, m)
        blk = parse_block(b)
        marks = []
        for st in blk[1]:
            e = st[1] if st[0] in ('expr',) else (st[2] if st[0] == 'let' else st)
            if st[0] == 'expr' and e[0] == 'try' and e[1][0] == 'mcall' and e[1][1] == P('self') and e[1][2] == 'mark_dirty' and len(e[1][3]) == 1 and e[1][3][0][0] == 'path':
                marks.append(e[1][3][0][1][-1])
            elif contains_mark_dirty(st):
                raise Refuse(W + ': mark_dirty is called conditionally or in an unrecognised position')
        expect(not contains_mark_dirty(blk[2]), W + ': mark_dirty in tail position')
        expect(len(marks) == 1, W + ': expected exactly one unconditional `self.mark_dirty(x)?;`, found %d' % len(marks))
        rows.append((m, marks[0]))
    out += [
        '(* ---- (e) %s: every mutator ends its edit with ONE unconditional self.mark_dirty(x)?; the node it names ---- *)' % TT,
        'Definition glue_mutator_marks : list (string * string) := [%s].' % '; '.join('("%s", "%s")' % r for r in rows), '']


def generate(repo):
    out = ['(* GENERATED on every run by /verif/translator/gen_engine.py from %s, %s, %s -- do not edit. *)' % (MOD, TT, CACHE),
           'From Coq Require Import String List Bool Arith.', 'Import ListNotations.', 'Open Scope string_scope.', '']
    fps = {}
    mtoks = tokenize(open(repo + '/' + MOD).read())
    ttoks = tokenize(open(repo + '/' + TT).read())
    gen_cached(mtoks, out, fps)
    gen_child(repo, ttoks, out, fps)
    gen_mark_dirty(repo, ttoks, out, fps)
    gen_hidden(mtoks, out, fps)
    gen_mutators(ttoks, out, fps)
    return '\n'.join(out) + '\n', fps


TARGETS = {'EngineGlueGen.v': generate}

if __name__ == '__main__':
    import sys
    print(generate(sys.argv[1] if len(sys.argv) > 1 else '/repo')[0])
