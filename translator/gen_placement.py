"""Translate the regular `match` tables and arithmetic helpers of grid placement into Gallina over Z with
CHECKED machine arithmetic (Model/PlacementBase.v): every `+`/`-`/`*`/unary `-` on i16/u16/usize becomes a checked
operation in the `res` monad (Err Overflow where a debug build panics and a release build wraps), `panic!` /
failed `assert!` become `Err Panic`, `as` casts are the exact wrapping conversions.

Translated (the theorems of Props/C08.v and Props/C03.v are about these generated definitions):
  style/grid.rs         GridAutoFlow::{is_dense, primary_axis}, GridPlacement::into_origin_zero_placement,
                        Line<GenericGridPlacement<T>>::indefinite_span, Line<GridPlacement>::{is_definite, into_origin_zero},
                        Line<OriginZeroGridPlacement>::{is_definite, resolve_definite_grid_lines, resolve_indefinite_grid_tracks}
  types/coordinates.rs  GridLine::into_origin_zero_line, OriginZeroLine::{into_track_vec_index,
                        implied_negative_implicit_tracks, implied_positive_implicit_tracks}, Line<OriginZeroLine>::span
  types/grid_track_counts.rs  TrackCounts::{len, implicit_start_line, implicit_end_line, oz_line_to_next_track,
                        oz_line_range_to_track_range, track_to_prev_oz_line}
  implicit_grid.rs      child_min_line_max_line_span (the `min` and `max` tables and the span)
  grid/mod.rs           DetailedGridItemsInfo::from_grid_item::to_one_indexed_grid_line
Anything else in a body (a form not listed in `Tr.expr`) raises Refuse: the check fails closed.

The loops and the occupancy matrix (placement.rs, cell_occupancy.rs, compute_grid_size_estimate, the child filter of
grid/mod.rs) are hand-transcribed in Model/Placement.v; their normalised token text is fingerprinted here."""
from rustparse import *

GRID_RS = 'src/style/grid.rs'
COORD_RS = 'src/compute/grid/types/coordinates.rs'
COUNTS_RS = 'src/compute/grid/types/grid_track_counts.rs'
IMPLICIT_RS = 'src/compute/grid/implicit_grid.rs'
MOD_RS = 'src/compute/grid/mod.rs'
PLACEMENT_RS = 'src/compute/grid/placement.rs'
OCC_RS = 'src/compute/grid/types/cell_occupancy.rs'
TRACK_SIZING_RS = 'src/compute/grid/track_sizing.rs'


class Refuse(Exception):
    pass


# ------------------------------------------------------------------------------------------------ types
# scalar: 'i16' 'u16' 'usize' 'ozl' (OriginZeroLine = i16 newtype) 'gridline' (GridLine = i16 newtype) 'bool' 'int' (untyped literal)
# 'gp_gl' / 'gp_oz' (GenericGridPlacement<GridLine|OriginZeroLine>), 'ln_gp_gl' / 'ln_gp_oz' (Line<..>), 'ln_ozl',
# 'tc' (TrackCounts), 'axis', 'flow', 'ordering', 'range_i16', ('tuple', [..])
COQ_TYPE = {
    'i16': 'Z', 'u16': 'Z', 'usize': 'Z', 'ozl': 'Z', 'gridline': 'Z', 'bool': 'bool', 'gp_gl': 'GP', 'gp_oz': 'GP',
    'gp_any': 'GP', 'ln_gp_gl': 'Ln GP', 'ln_gp_oz': 'Ln GP', 'ln_gp_any': 'Ln GP', 'ln_ozl': 'Ln Z', 'tc': 'TrackCounts',
    'axis': 'axis', 'flow': 'flow', 'range_i16': '(Z * Z)',
}


def coq_type(t):
    if isinstance(t, tuple) and t[0] == 'tuple':
        return '(' + ' * '.join(coq_type(x) for x in t[1]) + ')'
    return COQ_TYPE[t]


INT_TYPES = ('i16', 'u16', 'usize')
CASTS = {
    ('u16', 'i16'): 'u16_as_i16', ('i16', 'u16'): 'i16_as_u16', ('i16', 'usize'): 'i16_as_usize', ('u16', 'usize'): 'u16_as_usize',
    ('usize', 'i16'): 'usize_as_i16', ('usize', 'u16'): 'usize_as_u16',
}
FLOW_CTORS = {'Row': 'FRow', 'Column': 'FColumn', 'RowDense': 'FRowDense', 'ColumnDense': 'FColumnDense'}
AXIS_CTORS = {'Horizontal': 'Horizontal', 'Vertical': 'Vertical'}
ORDERING = {'Greater': 'Gt', 'Less': 'Lt', 'Equal': 'Eq'}
TC_FIELDS = {'negative_implicit': 'tc_neg', 'explicit': 'tc_explicit', 'positive_implicit': 'tc_pos'}

PANIC = ('PANIC',)


def unify(a, b, what):
    if a == 'int':
        return b
    if b == 'int':
        return a
    if a == b:
        return a
    for x, y in ((a, b), (b, a)):
        if x in ('gp_any', 'ln_gp_any') and y.startswith(x[:-3]):
            return y
    raise Refuse('type mismatch %s vs %s in %s' % (a, b, what))


class Tr:
    """ANF translation of one function body.  `expr` returns (binds, term, type) where binds is a list of
    ('do', name, res_term) | ('let', name, pure_term) and term is a pure Gallina term."""

    def __init__(self, env, sigs, self_ty=None):
        self.env = dict(env)     # rust name -> (coq term, type)
        self.sigs = sigs         # generated functions: name -> (coq name, [param types], ret type, monadic)
        self.self_ty = self_ty
        self.n = 0

    def fresh(self, base='t'):
        self.n += 1
        return '%s%d' % (base, self.n)

    # -- closing a (binds, term) pair into a Gallina term
    @staticmethod
    def monadic(binds):
        return any(b[0] == 'do' for b in binds)

    @staticmethod
    def close(binds, body):
        out = body
        if binds and binds[-1][0] == 'do' and body == 'Ok %s' % binds[-1][1] and binds[-1][1] != '_':
            out = binds[-1][2]
            binds = binds[:-1]
        for b in reversed(binds):
            if b[0] == 'do':
                out = '(do %s <- %s; %s)' % (b[1], b[2], out)
            else:
                out = '(let %s := %s in %s)' % (b[1], b[2], out)
        return out

    def branches(self, results, want_ty, what):
        """results: list of (binds, term, ty) or PANIC.  Returns (monadic?, [rendered], ty)."""
        ty = want_ty or 'int'
        for r in results:
            if r is not PANIC:
                ty = unify(ty, r[2], what)
        mon = any(r is PANIC or self.monadic(r[0]) for r in results)
        out = []
        for r in results:
            if r is PANIC:
                out.append('Err Panic')
            elif mon:
                out.append(self.close(r[0], 'Ok %s' % r[1]))
            else:
                out.append(self.close(r[0], r[1]))
        return mon, out, ty

    def finish_branching(self, mon, term, ty):
        if mon:
            t = self.fresh()
            return [('do', t, term)], t, ty
        return [], term, ty

    # -- patterns: returns (coq pattern, {name: (term, type)})
    def pat(self, p, ty):
        k = p[0]
        if k == 'pwild':
            return '_', {}
        if k == 'pident':
            return p[1], {p[1]: (p[1], ty)}
        if k == 'por':
            subs = [self.pat(x, ty) for x in p[1]]
            names = [sorted(s[1]) for s in subs]
            if any(n != names[0] for n in names):
                raise Refuse('or-pattern alternatives bind different names')
            return '(' + ' | '.join(s[0] for s in subs) + ')', subs[0][1]
        if k == 'plit':
            if ty not in INT_TYPES + ('int',):
                raise Refuse('literal pattern on %s' % ty)
            if p[1] != '0':
                raise Refuse('literal pattern other than 0')
            return '0', {}
        if k == 'ppath':
            nm = p[1][-1]
            if ty in ('gp_gl', 'gp_oz', 'gp_any') and nm == 'Auto':
                return 'Auto', {}
            if ty == 'flow' and nm in FLOW_CTORS:
                return FLOW_CTORS[nm], {}
            if ty == 'axis' and nm in AXIS_CTORS:
                return AXIS_CTORS[nm], {}
            if ty == 'ordering' and nm in ORDERING:
                return ORDERING[nm], {}
            raise Refuse('path pattern %s on %s' % ('::'.join(p[1]), ty))
        if k == 'pts':
            nm = p[1][-1]
            if ty in ('gp_gl', 'gp_oz', 'gp_any') and nm in ('Line', 'Span') and len(p[2]) == 1:
                inner = {'Line': {'gp_gl': 'gridline', 'gp_oz': 'ozl', 'gp_any': 'opaque'}[ty], 'Span': 'u16'}[nm]
                sp, b = self.pat(p[2][0], inner)
                return '(%s %s)' % (nm, sp), b
            raise Refuse('constructor pattern %s on %s' % ('::'.join(p[1]), ty))
        if k == 'ptuple':
            if not (isinstance(ty, tuple) and ty[0] == 'tuple' and len(ty[1]) == len(p[1])):
                raise Refuse('tuple pattern on %s' % (ty,))
            parts = [self.pat(x, t) for x, t in zip(p[1], ty[1])]
            b = {}
            for _, bb in parts:
                for n in bb:
                    if n in b:
                        raise Refuse('name bound twice in a pattern')
                b.update(bb)
            return '(' + ', '.join(s for s, _ in parts) + ')', b
        raise Refuse('pattern kind %s' % k)

    # -- match with guards (fall through to the remaining arms when a guard fails)
    def match(self, scrut_terms, scrut_ty, arms, want_ty, what):
        """Render as nested Coq matches; returns (binds, term, ty)."""
        # translate all arm bodies first to learn the type / monadicity
        rendered = []
        for pat, guard, body, _attrs in arms:
            cp, binds_env = self.pat(pat, scrut_ty)
            saved = self.env
            self.env = dict(self.env)
            self.env.update(binds_env)
            g = None
            if guard is not None:
                gb, gt, gty = self.expr(guard, 'bool')
                if gb or gty != 'bool':
                    raise Refuse('guard with checked arithmetic')
                g = gt
            r = self.arm_body(body, want_ty)
            self.env = saved
            rendered.append((cp, g, r, pat))
        mon, outs, ty = self.branches([r[2] for r in rendered], want_ty, what)
        head = 'match %s with' % (scrut_terms[0] if len(scrut_terms) == 1 else '(' + ', '.join(scrut_terms) + ')')

        def catch_all(pat):
            if pat[0] in ('pwild', 'pident'):
                return True
            return pat[0] == 'ptuple' and all(catch_all(x) for x in pat[1])

        def build(i):
            if i >= len(rendered):
                raise Refuse('%s: guarded arms without a final catch-all' % what)
            # maximal run of unguarded arms
            j = i
            clauses = []
            while j < len(rendered) and rendered[j][1] is None:
                clauses.append('| %s => %s' % (rendered[j][0], outs[j]))
                if catch_all(rendered[j][3]):
                    if j != len(rendered) - 1:
                        raise Refuse('%s: arms after a catch-all' % what)
                    if len(clauses) == 1 and i == j:
                        # sole remaining arm is a catch-all
                        if rendered[j][3][0] == 'pident' or (rendered[j][3][0] == 'ptuple' and any(x[0] == 'pident' for x in rendered[j][3][1])):
                            return '(%s %s end)' % (head, clauses[0])
                        return outs[j]
                    return '(%s %s end)' % (head, ' '.join(clauses))
                j += 1
            if j == len(rendered):
                return '(%s %s end)' % (head, ' '.join(clauses))
            # rendered[j] is guarded
            rest = build(j + 1)
            wild = '_'
            clauses.append('| %s => if %s then %s else %s' % (rendered[j][0], rendered[j][1], outs[j], rest))
            if not catch_all(rendered[j][3]):
                clauses.append('| %s => %s' % (wild, rest))
            return '(%s %s end)' % (head, ' '.join(clauses))

        return self.finish_branching(mon, build(0), ty)

    def arm_body(self, body, want_ty):
        if body[0] == 'macro' and body[1] in ('panic', 'unreachable'):
            return PANIC
        if body[0] == 'block':
            return self.block(body, want_ty)
        return self.expr(body, want_ty)

    # -- blocks
    def block(self, b, want_ty=None):
        saved = self.env
        self.env = dict(self.env)
        binds = []
        for st in b[1]:
            if st[0] == 'item':
                if st[1].startswith('use '):
                    continue
                raise Refuse('item in a body: %s' % st[1][:40])
            if st[0] == 'let':
                pat, rhs = st[1], st[2]
                if pat[0] != 'pident' or rhs is None:
                    raise Refuse('let pattern')
                bb, term, ty = self.expr(rhs)
                binds += bb
                if not term.replace('_', '').isalnum():
                    nm = self.fresh(pat[1] + '_')
                    binds.append(('let', nm, term))
                    term = nm
                self.env[pat[1]] = (term, ty)
                continue
            if st[0] == 'expr' and st[1][0] == 'macro' and st[1][1] == 'assert':
                args = st[1][2]
                if not args or args[0][0] == 'raw':
                    raise Refuse('assert! arguments')
                cb, ct, cty = self.expr(args[0], 'bool')
                if cty != 'bool':
                    raise Refuse('assert! on non-bool')
                binds += cb
                binds.append(('do', '_', '(if %s then Ok tt else Err Panic)' % ct))
                continue
            raise Refuse('statement %r' % (st[0],))
        if b[2] is None:
            raise Refuse('block without a value')
        r = self.arm_body(b[2], want_ty)
        self.env = saved
        if r is PANIC:
            raise Refuse('block ending in panic!')
        return binds + r[0], r[1], r[2]

    # -- expressions
    def expr(self, a, want=None):
        k = a[0]
        if k == 'lit':
            if a[1] in ('true', 'false'):
                return [], a[1], 'bool'
            if not a[1].isdigit():
                raise Refuse('literal %r' % a[1])
            return [], a[1], (want if want in INT_TYPES else 'int')
        if k == 'path':
            segs = a[1]
            nm = segs[-1]
            if len(segs) == 1 and nm in self.env:
                return [], self.env[nm][0], self.env[nm][1]
            if len(segs) == 1 and nm in ('true', 'false'):
                return [], nm, 'bool'
            if nm == 'Auto' and len(segs) >= 1 and (len(segs) == 1 or 'Placement' in segs[-2] or segs[-2] in ('GP', 'Self')):
                return [], 'Auto', 'gp_any'
            if len(segs) == 2 and segs[0] == 'AbsoluteAxis' and nm in AXIS_CTORS:
                return [], AXIS_CTORS[nm], 'axis'
            raise Refuse('unknown name %s' % '::'.join(segs))
        if k == 'field':
            bb, t, ty = self.expr(a[1])
            f = a[2]
            if ty in ('ozl', 'gridline') and f == '0':
                return bb, t, 'i16'
            if ty in ('ln_gp_gl', 'ln_gp_oz', 'ln_gp_any', 'ln_ozl') and f in ('start', 'end'):
                ety = {'ln_gp_gl': 'gp_gl', 'ln_gp_oz': 'gp_oz', 'ln_gp_any': 'gp_any', 'ln_ozl': 'ozl'}[ty]
                return bb, '(l_%s %s)' % (f, t), ety
            if ty == 'tc' and f in TC_FIELDS:
                return bb, '(%s %s)' % (TC_FIELDS[f], t), 'u16'
            raise Refuse('field %s of %s' % (f, ty))
        if k == 'un':
            if a[1] == '-':
                bb, t, ty = self.expr(a[2], 'i16')
                if ty != 'i16':
                    raise Refuse('unary minus on %s' % ty)
                n = self.fresh()
                return bb + [('do', n, '(i16_neg %s)' % t)], n, 'i16'
            if a[1] == '!':
                bb, t, ty = self.expr(a[2], 'bool')
                if ty != 'bool':
                    raise Refuse('! on %s' % ty)
                return bb, '(negb %s)' % t, 'bool'
            if a[1] in ('&', '*'):
                return self.expr(a[2], want)
            raise Refuse('unary %s' % a[1])
        if k == 'cast':
            to = a[2].replace(' ', '')
            bb, t, ty = self.expr(a[1])
            if ty == 'int':
                raise Refuse('cast of an untyped literal')
            if ty == to:
                return bb, t, ty
            if (ty, to) not in CASTS:
                raise Refuse('cast %s as %s' % (ty, to))
            return bb, '(%s %s)' % (CASTS[(ty, to)], t), to
        if k == 'bin':
            return self.binop(a, want)
        if k == 'tuple':
            parts = [self.expr(x) for x in a[1]]
            bb = [b for p in parts for b in p[0]]
            return bb, '(' + ', '.join(p[1] for p in parts) + ')', ('tuple', [p[2] for p in parts])
        if k == 'range':
            lb, lt, lty = self.expr(a[1], 'i16')
            hb, ht, hty = self.expr(a[2], 'i16')
            if lty != 'i16' or hty != 'i16':
                raise Refuse('range of %s..%s' % (lty, hty))
            return lb + hb, '(%s, %s)' % (lt, ht), 'range_i16'
        if k == 'struct':
            segs, fields, base = a[1], a[2], a[3]
            if segs != ['Line'] or base is not None or [f for f, _ in fields] != ['start', 'end']:
                raise Refuse('struct literal %s' % '::'.join(segs))
            sb, st, sty = self.expr(fields[0][1])
            eb, et, ety = self.expr(fields[1][1])
            ty = unify(sty, ety, 'Line literal')
            lty = {'ozl': 'ln_ozl', 'gp_oz': 'ln_gp_oz', 'gp_gl': 'ln_gp_gl', 'gp_any': 'ln_gp_any'}.get(ty)
            if lty is None:
                raise Refuse('Line literal of %s' % ty)
            return sb + eb, '(mkLn %s %s)' % (st, et), lty
        if k == 'if':
            cb, ct, cty = self.expr(a[1], 'bool')
            if cty != 'bool' or a[3] is None:
                raise Refuse('if without else / non-bool condition')
            th = self.arm_body(a[2], want)
            el = self.arm_body(a[3], want)
            mon, outs, ty = self.branches([th, el], want, 'if')
            bb, t, ty = self.finish_branching(mon, '(if %s then %s else %s)' % (ct, outs[0], outs[1]), ty)
            return cb + bb, t, ty
        if k == 'block':
            return self.block(a, want)
        if k == 'match':
            scrut = a[1]
            if scrut[0] == 'tuple':
                parts = [self.expr(x) for x in scrut[1]]
                bb = [b for p in parts for b in p[0]]
                terms = [p[1] for p in parts]
                sty = ('tuple', [p[2] for p in parts])
            else:
                bb, t, sty = self.expr(scrut)
                terms = [t]
            mb, mt, mty = self.match(terms, sty, a[2], want, 'match')
            return bb + mb, mt, mty
        if k == 'macro':
            if a[1] == 'matches':
                scrut, pat, guard = a[2]
                arms = [(pat, guard, ('lit', 'true'), []), (('pwild',), None, ('lit', 'false'), [])]
                return self.expr(('match', scrut, arms), 'bool')
            raise Refuse('macro %s!' % a[1])
        if k == 'call':
            return self.call(a)
        if k == 'mcall':
            return self.mcall(a)
        raise Refuse('expression kind %s' % k)

    def binop(self, a, want):
        op = a[1]
        if op in ('&&', '||'):
            lb, lt, lty = self.expr(a[2], 'bool')
            rb, rt, rty = self.expr(a[3], 'bool')
            if rb:
                raise Refuse('checked arithmetic on the right of a short-circuit operator')
            if lty != 'bool' or rty != 'bool':
                raise Refuse('%s on non-bool' % op)
            return lb, '(%s %s %s)' % ('andb' if op == '&&' else 'orb', lt, rt), 'bool'
        lb, lt, lty = self.expr(a[2])
        rb, rt, rty = self.expr(a[3])
        bb = lb + rb
        if op in ('==', '!=', '<', '>', '<=', '>='):
            ty = unify(lty, rty, op)
            if ty not in INT_TYPES + ('ozl', 'int'):
                raise Refuse('comparison of %s' % ty)
            f = {'==': 'Z.eqb %s %s', '!=': 'negb (Z.eqb %s %s)', '<': 'Z.ltb %s %s', '>': 'Z.gtb %s %s', '<=': 'Z.leb %s %s',
                 '>=': 'Z.geb %s %s'}[op]
            return bb, '(' + f % (lt, rt) + ')', 'bool'
        if op in ('+', '-'):
            if lty == 'ozl':
                # impl Add<u16> / Sub<u16> for OriginZeroLine: `self.0 + rhs as i16`
                if rty not in ('u16', 'int'):
                    raise Refuse('OriginZeroLine %s %s' % (op, rty))
                n = self.fresh()
                return bb + [('do', n, '(%s %s %s)' % ('ozl_add_u16' if op == '+' else 'ozl_sub_u16', lt, rt))], n, 'ozl'
            ty = unify(lty, rty, op)
            if ty == 'int' and want in INT_TYPES:
                ty = want
            if ty not in INT_TYPES:
                raise Refuse('%s on %s' % (op, ty))
            if ty == 'usize' and op == '-':
                raise Refuse('usize subtraction')
            n = self.fresh()
            return bb + [('do', n, '(%s_%s %s %s)' % (ty, 'add' if op == '+' else 'sub', lt, rt))], n, ty
        if op == '*':
            ty = unify(lty, rty, op)
            if ty != 'usize':
                raise Refuse('* on %s' % ty)
            n = self.fresh()
            return bb + [('do', n, '(usize_mul %s %s)' % (lt, rt))], n, ty
        if op == '/':
            ty = unify(lty, rty, op)
            if ty != 'u16' or a[3][0] != 'lit' or a[3][1] == '0':
                raise Refuse('/ other than u16 by a non-zero literal')
            return bb, '(Z.div %s %s)' % (lt, rt), 'u16'
        raise Refuse('binary operator %s' % op)

    def call(self, a):
        f = a[1]
        if f[0] != 'path':
            raise Refuse('call of a non-path')
        nm = f[1][-1]
        args = [self.expr(x) for x in a[2]]
        bb = [b for p in args for b in p[0]]
        if nm in ('min', 'max') and len(f[1]) == 1 and len(args) == 2:
            ty = unify(args[0][2], args[1][2], nm)
            if ty not in ('ozl', 'i16', 'u16', 'int'):
                raise Refuse('%s of %s' % (nm, ty))
            return bb, '(Z.%s %s %s)' % (nm, args[0][1], args[1][1]), ty
        if nm == 'OriginZeroLine' and len(args) == 1:
            if args[0][2] not in ('i16', 'int'):
                raise Refuse('OriginZeroLine(%s)' % args[0][2])
            return bb, args[0][1], 'ozl'
        if nm in ('Line', 'Span') and len(args) == 1 and (len(f[1]) == 1 or 'Placement' in f[1][-2] or f[1][-2] in ('GP', 'Self')):
            aty = args[0][2]
            if nm == 'Span':
                if aty not in ('u16', 'int'):
                    raise Refuse('Span(%s)' % aty)
                return bb, '(Span %s)' % args[0][1], 'gp_any'
            gty = {'ozl': 'gp_oz', 'gridline': 'gp_gl'}.get(aty)
            if gty is None:
                raise Refuse('Line(%s)' % aty)
            return bb, '(Line %s)' % args[0][1], gty
        if nm in self.sigs and len(f[1]) == 1:
            return self.apply(nm, args, bb)
        raise Refuse('call of %s' % '::'.join(f[1]))

    def apply(self, nm, args, bb):
        cname, ptys, rty, mon = self.sigs[nm]
        if len(args) != len(ptys):
            raise Refuse('%s: arity' % nm)
        for (b, t, ty), pty in zip(args, ptys):
            if ty != pty and not (ty == 'int' and pty in INT_TYPES) and not (pty.endswith('_any') and ty.startswith(pty[:-3])):
                raise Refuse('%s: argument of type %s, expected %s' % (nm, ty, pty))
        term = '(%s %s)' % (cname, ' '.join(a[1] for a in args))
        if mon:
            n = self.fresh()
            return bb + [('do', n, term)], n, rty
        return bb, term, rty

    def mcall(self, a):
        recv, nm, margs = a[1], a[2], a[3]
        rb, rt, rty = self.expr(recv)
        if nm == 'as_i16' and rty == 'gridline' and not margs:
            return rb, rt, 'i16'
        if nm == 'unsigned_abs' and rty == 'i16' and not margs:
            return rb, '(i16_unsigned_abs %s)' % rt, 'u16'
        if nm == 'cmp' and rty == 'i16' and len(margs) == 1:
            ab, at, aty = self.expr(margs[0], 'i16')
            if unify(rty, aty, 'cmp') != 'i16' or ab:
                raise Refuse('cmp argument')
            return rb, '(Z.compare %s %s)' % (rt, at), 'ordering'
        # methods on the receiver type, translated earlier
        key = {'ln_gp_gl': 'LineGP', 'ln_gp_oz': 'LineOZ', 'gp_gl': 'GP', 'gridline': 'GridLine', 'tc': 'TC', 'ozl': 'OZL',
               'ln_ozl': 'LineOZL', 'flow': 'Flow', 'ln_gp_any': 'LineAny'}.get(rty)
        for cand in ([key + '::' + nm] if key else []) + (['LineAny::' + nm] if rty in ('ln_gp_gl', 'ln_gp_oz') else []):
            if cand in self.sigs:
                args = [(rb, rt, rty)] + [self.expr(x) for x in margs]
                bb = [b for p in args for b in p[0]]
                return self.apply(cand, args, bb)
        raise Refuse('method %s on %s' % (nm, rty))


# ------------------------------------------------------------------------------------------------ driver

def impl_block(toks, words, nth=0):
    """token range (open, close) of the nth `impl ... {` block whose header starts with `words`."""
    hits = [i for i in range(len(toks)) if seq_at(toks, i, words)]
    if len(hits) <= nth:
        raise Refuse('impl block %s not found' % ' '.join(words))
    b = hits[nth] + len(words) - 1
    if toks[b][1] != '{':
        raise Refuse('impl header %s' % ' '.join(words))
    return b, match_brace(toks, b)


class Gen:
    def __init__(self, repo):
        self.repo = repo
        self.out = []
        self.fps = {}
        self.sigs = {}
        self.toks = {}

    def tokens(self, rel):
        if rel not in self.toks:
            self.toks[rel] = tokenize(open(self.repo + '/' + rel).read())
        return self.toks[rel]

    def fn(self, key, coq_name, toks, rust_name, params, ret, expect_params, self_ty=None, note=''):
        """Translate fn `rust_name` found in `toks`; params: [(rust name, type)] (self first when a method)."""
        ptoks, body, _ = find_fn(toks, rust_name)
        names = param_names(ptoks)
        if names != [p[0] for p in params]:
            raise Refuse('%s: parameters %r, expected %r' % (key, names, [p[0] for p in params]))
        ptxt = norm_tokens(ptoks)
        if ptxt.endswith(' ,'):
            ptxt = ptxt[:-2]
        if ptxt != expect_params:
            raise Refuse('%s: signature changed: (%s)' % (key, ptxt))
        self.fps[key] = norm_tokens(body)
        env = {}
        binders = []
        for rn, ty in params:
            cn = 'self_' if rn == 'self' else rn
            env[rn] = (cn, ty)
            binders.append('(%s : %s)' % (cn, coq_type(ty)))
        tr = Tr(env, self.sigs, self_ty)
        binds, term, ty = tr.block(parse_block(body), ret if ret in INT_TYPES else None)
        ty = unify(ty, ret, key) if not isinstance(ret, tuple) else self.unify_tuple(ty, ret, key)
        mon = Tr.monadic(binds)
        if mon:
            text = Tr.close(binds, 'Ok %s' % term)
            rty = 'res (%s)' % coq_type(ret)
        else:
            text = Tr.close(binds, term)
            rty = coq_type(ret)
        self.out.append('(* %s%s *)' % (key, note))
        self.out.append('Definition %s %s : %s :=\n  %s.' % (coq_name, ' '.join(binders), rty, text))
        self.sigs[key] = (coq_name, [p[1] for p in params], ret, mon)
        return mon

    @staticmethod
    def unify_tuple(ty, ret, key):
        if not (isinstance(ty, tuple) and len(ty[1]) == len(ret[1])):
            raise Refuse('%s: result %r' % (key, ty))
        for a, b in zip(ty[1], ret[1]):
            unify(a, b, key)
        return ret

    def alias(self, name, key):
        self.sigs[name] = self.sigs[key]


def hand_fingerprints(g):
    """Normalised token text of the functions Model/Placement.v transcribes by hand."""
    fps = {}

    def body(rel, name, start=0):
        toks = g.tokens(rel)
        _, b, _ = find_fn(toks, name, start)
        return norm_tokens(b)
    for name in ('place_grid_items', 'place_definite_grid_item', 'place_definite_secondary_axis_item',
                 'place_indefinitely_positioned_item', 'record_grid_placement'):
        fps['hand:placement::' + name] = body(PLACEMENT_RS, name)
    for name in ('with_track_counts', 'is_area_in_range', 'expand_to_fit_range', 'mark_area_as', 'line_area_is_unoccupied',
                 'track_area_is_unoccupied', 'track_counts', 'last_of_type'):
        fps['hand:cell_occupancy::' + name] = body(OCC_RS, name)
    for name in ('compute_grid_size_estimate', 'get_known_child_positions'):
        fps['hand:implicit_grid::' + name] = body(IMPLICIT_RS, name)
    fps['hand:track_sizing::resolve_item_track_indexes'] = body(TRACK_SIZING_RS, 'resolve_item_track_indexes')
    fps['hand:style::grid_placement'] = body(GRID_RS, 'grid_placement')
    fps['hand:geometry::other_axis'] = body('src/geometry.rs', 'other_axis')
    gtoks = g.tokens('src/geometry.rs')
    gi = [i for i in range(len(gtoks)) if seq_at(gtoks, i, ['impl', '<', 'T', ':', 'Copy', '>', 'InBothAbsAxis', '<', 'T', '>', '{'])]
    if len(gi) != 1:
        raise Refuse('geometry.rs: impl<T: Copy> InBothAbsAxis<T> not found')
    fps['hand:geometry::InBothAbsAxis::get'] = norm_tokens(find_fn(gtoks, 'get', gi[0])[1])
    fps['hand:grid::from_grid_item'] = body(MOD_RS, 'from_grid_item')
    # grid/mod.rs: from the size estimate to the final track counts (which children are passed to which step)
    toks = g.tokens(MOD_RS)
    s = [i for i in range(len(toks)) if seq_at(toks, i, ['let', 'get_child_styles_iter', '='])]
    e = [i for i in range(len(toks)) if seq_at(toks, i, ['let', 'final_row_counts', '='])]
    if len(s) != 1 or len(e) != 1 or e[0] < s[0]:
        raise Refuse('grid/mod.rs: placement section not found')
    j = e[0]
    while toks[j][1] != ';':
        j += 1
    section = toks[s[0]:j + 1]
    # drop the explicit grid size computation in the middle (not part of placement): keep everything, it is short
    fps['hand:grid::compute_grid_layout[placement section]'] = norm_tokens(section)
    # the sort back into source order and the item report
    if not any(seq_at(toks, i, ['items', '.', 'sort_by_key', '(', '|', 'item', '|', 'item', '.', 'source_order', ')']) for i in range(len(toks))):
        raise Refuse('grid/mod.rs: items are no longer sorted by source_order before being reported')
    if not any(seq_at(toks, i, ['items', ':', 'items', '.', 'iter', '(', ')', '.', 'map', '(', 'DetailedGridItemsInfo', '::', 'from_grid_item', ')'])
               for i in range(len(toks))):
        raise Refuse('grid/mod.rs: DetailedGridInfo.items is no longer items.iter().map(from_grid_item)')
    return fps


def generate(repo):
    g = Gen(repo)
    w = g.out.append
    w('(* GENERATED on every run by /verif/translator/gen_placement.py from src/style/grid.rs, src/compute/grid/{implicit_grid,mod}.rs,')
    w('   src/compute/grid/types/{coordinates,grid_track_counts}.rs -- do not edit. *)')
    w('From Coq Require Import ZArith Bool List.')
    w('From TV Require Import Model.PlacementBase.')
    w('Open Scope Z_scope.')

    grid = g.tokens(GRID_RS)
    coord = g.tokens(COORD_RS)
    counts = g.tokens(COUNTS_RS)
    implicit = g.tokens(IMPLICIT_RS)
    modrs = g.tokens(MOD_RS)

    def sub(toks, words, nth=0):
        b, e = impl_block(toks, words, nth)
        return toks[b:e + 1]

    # --- GridAutoFlow
    flow = sub(grid, ['impl', 'GridAutoFlow', '{'])
    g.fn('Flow::is_dense', 'is_dense', flow, 'is_dense', [('self', 'flow')], 'bool', '& self')
    g.fn('Flow::primary_axis', 'primary_axis', flow, 'primary_axis', [('self', 'flow')], 'axis', '& self')

    # --- coordinates.rs
    gl = sub(coord, ['impl', 'GridLine', '{'])
    g.fn('GridLine::into_origin_zero_line', 'into_origin_zero_line', gl, 'into_origin_zero_line',
         [('self', 'gridline'), ('explicit_track_count', 'u16')], 'ozl', 'self , explicit_track_count : u16')
    ozl = sub(coord, ['impl', 'OriginZeroLine', '{'])
    g.fn('OZL::into_track_vec_index', 'into_track_vec_index', ozl, 'into_track_vec_index',
         [('self', 'ozl'), ('track_counts', 'tc')], 'usize', 'self , track_counts : TrackCounts')
    g.fn('OZL::implied_negative_implicit_tracks', 'implied_negative_implicit_tracks', ozl, 'implied_negative_implicit_tracks',
         [('self', 'ozl')], 'u16', 'self')
    g.fn('OZL::implied_positive_implicit_tracks', 'implied_positive_implicit_tracks', ozl, 'implied_positive_implicit_tracks',
         [('self', 'ozl'), ('explicit_track_count', 'u16')], 'u16', 'self , explicit_track_count : u16')
    lozl = sub(coord, ['impl', 'Line', '<', 'OriginZeroLine', '>', '{'])
    g.fn('LineOZL::span', 'line_span', lozl, 'span', [('self', 'ln_ozl')], 'u16', 'self')

    # --- grid_track_counts.rs (two `impl TrackCounts` blocks)
    tc1 = sub(counts, ['impl', 'TrackCounts', '{'], 0)
    tc2 = sub(counts, ['impl', 'TrackCounts', '{'], 1)
    g.fn('TC::len', 'tc_len', tc1, 'len', [('self', 'tc')], 'usize', '& self')
    g.fn('TC::implicit_start_line', 'implicit_start_line', tc1, 'implicit_start_line', [('self', 'tc')], 'ozl', '& self')
    g.fn('TC::implicit_end_line', 'implicit_end_line', tc1, 'implicit_end_line', [('self', 'tc')], 'ozl', '& self')
    g.fn('TC::oz_line_to_next_track', 'oz_line_to_next_track', tc2, 'oz_line_to_next_track',
         [('self', 'tc'), ('index', 'ozl')], 'i16', '& self , index : OriginZeroLine')
    g.fn('TC::oz_line_range_to_track_range', 'oz_line_range_to_track_range', tc2, 'oz_line_range_to_track_range',
         [('self', 'tc'), ('input', 'ln_ozl')], 'range_i16', '& self , input : Line < OriginZeroLine >')
    g.fn('TC::track_to_prev_oz_line', 'track_to_prev_oz_line', tc2, 'track_to_prev_oz_line',
         [('self', 'tc'), ('index', 'u16')], 'ozl', '& self , index : u16')

    # --- style/grid.rs placement tables
    gp = sub(grid, ['impl', 'GridPlacement', '{'])
    g.fn('GP::into_origin_zero_placement', 'into_origin_zero_placement', gp, 'into_origin_zero_placement',
         [('self', 'gp_gl'), ('explicit_track_count', 'u16')], 'gp_oz', 'self , explicit_track_count : u16')
    lany = sub(grid, ['impl', '<', 'T', ':', 'GridCoordinate', '>', 'Line', '<', 'GenericGridPlacement', '<', 'T', '>>', '{'])
    g.fn('LineAny::indefinite_span', 'indefinite_span', lany, 'indefinite_span', [('self', 'ln_gp_any')], 'u16', '& self')
    lgp = sub(grid, ['impl', 'Line', '<', 'GridPlacement', '>', '{'])
    g.fn('LineGP::is_definite', 'is_definite', lgp, 'is_definite', [('self', 'ln_gp_gl')], 'bool', '& self')
    g.fn('LineGP::into_origin_zero', 'into_origin_zero', lgp, 'into_origin_zero',
         [('self', 'ln_gp_gl'), ('explicit_track_count', 'u16')], 'ln_gp_oz', '& self , explicit_track_count : u16')
    loz = sub(grid, ['impl', 'Line', '<', 'OriginZeroGridPlacement', '>', '{'])
    g.fn('LineOZ::is_definite', 'is_definite_oz', loz, 'is_definite', [('self', 'ln_gp_oz')], 'bool', '& self')
    g.fn('LineOZ::resolve_definite_grid_lines', 'resolve_definite_grid_lines', loz, 'resolve_definite_grid_lines',
         [('self', 'ln_gp_oz')], 'ln_ozl', '& self')
    g.fn('LineOZ::resolve_indefinite_grid_tracks', 'resolve_indefinite_grid_tracks', loz, 'resolve_indefinite_grid_tracks',
         [('self', 'ln_gp_oz'), ('start', 'ozl')], 'ln_ozl', '& self , start : OriginZeroLine')

    # --- implicit_grid.rs
    g.fn('child_min_line_max_line_span', 'child_min_line_max_line_span', implicit, 'child_min_line_max_line_span',
         [('line', 'ln_gp_gl'), ('explicit_track_count', 'u16')], ('tuple', ['ozl', 'ozl', 'u16']),
         'line : Line < GridPlacement > , explicit_track_count : u16')

    # --- grid/mod.rs: reported line numbers
    g.fn('to_one_indexed_grid_line', 'to_one_indexed_grid_line', modrs, 'to_one_indexed_grid_line',
         [('grid_track_index', 'u16')], 'u16', 'grid_track_index : u16')

    g.fps.update(hand_fingerprints(g))
    return '\n'.join(g.out) + '\n', g.fps


TARGETS = {'PlacementGen.v': generate}

if __name__ == '__main__':
    import sys
    text, fps = generate(sys.argv[1] if len(sys.argv) > 1 else '/repo')
    print(text)
