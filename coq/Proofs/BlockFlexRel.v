(* C04 and C12 for WHOLE TREES of block containers, flex containers and leaves (Model/BlockFlexK.v): the engine's algorithm `bfn_algo` is
   relational (Model/EngineRel.v AlgoRel), hence -- by the generic engine theorem Proofs/EngineRelProofs.v memo_rel -- related trees
   evaluate to related outputs, caches and stored layouts at every node.

     lift_rel               Model/EngineLift.v `lift` preserves AlgRel when the interface conversions preserve the relations
     block_alg_bf_rel       the block algorithm behind the adapter (Proofs/BlockAlgRel.v block_alg_rel)
     bfn_algo_rel           the dispatch: leaf (C04_leaf / C12_leaf), flex (Proofs/FlexRelFinal.v flex_alg_t_rel), block
     C04   bf_engine_threshold   scaling every length of the tree, the input AND the floor by k scales everything by k (no premise on the tree)
           bf_engine_partial     the engine of the implementation (floor 1 at both scales), when the evaluation of the scaled tree does not
                                 depend on the floor being 1 or k
     C12   bf_engine_box_sizing  any subset of the eligible nodes rewritten: equal outputs and stored layouts *)
From Coq Require Import QArith Qabs Lqa Bool List ZArith Lia.
From TV Require Import Num.Num Num.QNum Model.Common Model.Leaf Model.Root Model.BoxSizing Gen.FlexGen Model.Flex Model.FlexBase.
From TV Require Import Model.FiltersBase Gen.FiltersGen Model.ItemFilters Model.FlexAlgBase Model.FlexAlgAbs Model.FlexAlg Model.FlexAlgT Model.FlexBoxSizing.
From TV Require Import Model.Scale Model.ScaleFlex Model.Engine Model.EngineRel Model.FlexAlgRel Model.EngineLift Model.BlockFlexEngine Model.BlockFlexK.
From TV Require Gen.BlockGen Model.Block Model.BlockAlg Model.ScaleBlock Model.BlockEngine Model.BlockEngineRel Model.BlockAbs.
From TV Require Proofs.ScaleBlock Proofs.BlockAlgRel Proofs.EngineHomog Proofs.EngineBoxSizing Proofs.BlockAbsRel Proofs.LeafAxis.
From TV Require Import Proofs.ScaleProofs Proofs.ScaleKit Proofs.BoxSizingProofs Proofs.EngineRelProofs Proofs.FlexStyleRel Proofs.FlexRelItems Proofs.FlexRelFinal
  Proofs.FlexHomog Proofs.FlexBoxSizing.
Import ListNotations.
Close Scope Z_scope.

Module SB := TV.Model.ScaleBlock.
Module BR := TV.Model.BlockEngineRel.

(* ------------------------------------------------------------------------------------------------ lift *)
Section LiftRel.
  Variables (In1 Out1 Lay1 In2 Out2 Lay2 : Type).
  Variable fi : In1 -> In2.
  Variable po : Out2 -> Out1.
  Variable eo : Out1 -> Out2.
  Variable el : Lay1 -> Lay2.
  Variables (RI1 : In1 -> In1 -> Prop) (RO1 : Out1 -> Out1 -> Prop) (RL1 : Lay1 -> Lay1 -> Prop).
  Variables (RI2 : In2 -> In2 -> Prop) (RO2 : Out2 -> Out2 -> Prop) (RL2 : Lay2 -> Lay2 -> Prop).
  Hypothesis fi_rel : forall i i', RI1 i i' -> RI2 (fi i) (fi i').
  Hypothesis po_rel : forall o o', RO2 o o' -> RO1 (po o) (po o').
  Hypothesis eo_rel : forall o o', RO1 o o' -> RO2 (eo o) (eo o').
  Hypothesis el_rel : forall l l', RL1 l l' -> RL2 (el l) (el l').

  Lemma lift_rel a a' : AlgRel In1 Out1 Lay1 RI1 RO1 RL1 a a' ->
    AlgRel In2 Out2 Lay2 RI2 RO2 RL2 (lift In1 Out1 Lay1 In2 Out2 Lay2 fi po eo el a) (lift In1 Out1 Lay1 In2 Out2 Lay2 fi po eo el a').
  Proof.
    induction 1 as [o o' Ho|c i i' k k' Hi Hk IH|c l l' k k' Hl Hk IH]; cbn [lift].
    - apply AR_ret. apply eo_rel. exact Ho.
    - apply AR_query; [apply fi_rel; exact Hi|]. intros o o' Ho. apply IH. apply po_rel. exact Ho.
    - apply AR_set; [apply el_rel; exact Hl|exact IH].
  Qed.
End LiftRel.

(* ------------------------------------------------------------------------------------------------ the adapter block <-> complete interface *)
Section Adapter.
  Variable k : Q.
  Notation L := (sc k).
  Notation O := (op_rel (sc k)).

  Lemma b_lpa_rel d d' : lpa_rel k d d' -> SB.blpa_rel k (b_lpa d) (b_lpa d').
  Proof. destruct d, d'; cbn; auto. Qed.
  Lemma b_lp_rel d d' : lp_rel k d d' -> SB.blpa_rel k (b_lp d) (b_lp d').
  Proof. destruct d, d'; cbn; auto. Qed.
  Lemma b_size_rel {X Y} (R : X -> X -> Prop) (R' : Y -> Y -> Prop) (f : X -> Y) s s' :
    (forall x x', R x x' -> R' (f x) (f x')) -> sz_rel R s s' -> SB.bsz_rel R' (b_size f s) (b_size f s').
  Proof. intros Hf [H1 H2]. split; cbn; apply Hf; assumption. Qed.
  Lemma b_rect_rel {X Y} (R : X -> X -> Prop) (R' : Y -> Y -> Prop) (f : X -> Y) r r' :
    (forall x x', R x x' -> R' (f x) (f x')) -> rc_rel R r r' -> SB.brc_rel R' (b_rect f r) (b_rect f r').
  Proof. intros Hf (H1 & H2 & H3 & H4). repeat split; cbn; apply Hf; assumption. Qed.
  Lemma f_size_rel {X} (R : X -> X -> Prop) s s' : SB.bsz_rel R s s' -> sz_rel R (f_size s) (f_size s').
  Proof. intros [H1 H2]. split; assumption. Qed.
  Lemma f_rect_rel {X} (R : X -> X -> Prop) r r' : SB.brc_rel R r r' -> rc_rel R (f_rect r) (f_rect r').
  Proof. intros (H1 & H2 & H3 & H4). repeat split; assumption. Qed.

  Definition bfstyle_rel (s s' : BFStyle XQ) : Prop :=
    fstyle_rel k (bf_flex s) (bf_flex s') /\ bf_is_table s' = bf_is_table s /\ bf_text_align s' = bf_text_align s.

  Lemma to_bstyle_rel s s' : bfstyle_rel s s' -> SB.bstyle_rel k (to_bstyle s) (to_bstyle s').
  Proof.
    intros (Hf & Et & Eta).
    destruct Hf as ((Edisp & Epos & Ebs & Eov & Hsw & Hsize & Hmin & Hmax & Har & Hmargin & Hpad & Hbor) & Hinset & _).
    unfold SB.bstyle_rel, to_bstyle.
    cbn [Block.st_display Block.st_is_table Block.st_content_box Block.st_overflow_x Block.st_overflow_y Block.st_scrollbar_width Block.st_position
         Block.st_inset Block.st_size Block.st_min_size Block.st_max_size Block.st_aspect_ratio Block.st_margin Block.st_padding Block.st_border
         Block.st_text_align].
    rewrite Edisp, Epos, Ebs, Eov, Et, Eta.
    repeat match goal with |- _ /\ _ => split end; try reflexivity; try assumption;
      first [apply (b_rect_rel (lpa_rel k)); [apply b_lpa_rel|assumption]
            |apply (b_size_rel (lpa_rel k)); [apply b_lpa_rel|assumption]
            |apply (b_rect_rel (lp_rel k)); [apply b_lp_rel|assumption]].
  Qed.

  Lemma b_avail_rel a a' : av_rel L a a' -> BR.bav_rel k (b_avail a) (b_avail a').
  Proof. destruct a, a'; cbn; auto. Qed.
  Lemma f_avail_rel a a' : BR.bav_rel k a a' -> av_rel L (f_avail a) (f_avail a').
  Proof. destruct a, a'; cbn; auto. Qed.

  Lemma to_bin_rel i i' : fin_rel k i i' -> BR.bin_rel k (to_bin i) (to_bin i').
  Proof.
    intros (Em & Es & Ea & Hkn & Hps & Hav & Ec). unfold BR.bin_rel, to_bin.
    cbn [BlockAlg.bi_mode BlockAlg.bi_inherent BlockAlg.bi_known BlockAlg.bi_parent BlockAlg.bi_avail BlockAlg.bi_collapsible]. rewrite Em, Es, Ec.
    repeat match goal with |- _ /\ _ => split end; try reflexivity.
    - apply (b_size_rel O); [auto|exact Hkn].
    - apply (b_size_rel O); [auto|exact Hps].
    - apply (b_size_rel (av_rel L)); [apply b_avail_rel|exact Hav].
  Qed.
  Lemma of_bin_rel i i' : BR.bin_rel k i i' -> fin_rel k (of_bin i) (of_bin i').
  Proof.
    intros (Em & Ei & Hkn & Hps & [Ha1 Ha2] & Ec). unfold fin_rel, of_bin.
    cbn [qi_mode qi_sizing qi_axis qi_known qi_parent qi_avail qi_collapsible]. rewrite Em, Ei, Ec.
    repeat match goal with |- _ /\ _ => split end; try reflexivity; try (apply f_size_rel; assumption).
    split; cbn [width height]; apply f_avail_rel; assumption.
  Qed.
  Lemma to_bout_rel o o' : output_rel k o o' -> SB.bout_rel k (to_bout o) (to_bout o').
  Proof.
    intros (Hs & Hc & _ & [Ht1 Ht2] & [Hb1 Hb2] & Ect). unfold SB.bout_rel, to_bout.
    cbn [Block.co_size Block.co_content_size Block.co_top Block.co_bottom Block.co_ct].
    split; [apply (b_size_rel L); [auto|exact Hs]|]. split; [apply (b_size_rel L); [auto|exact Hc]|].
    split; [split; assumption|]. split; [split; assumption|exact Ect].
  Qed.
  Lemma of_bout_rel o o' : SB.bout_rel k o o' -> output_rel k (of_bout o) (of_bout o').
  Proof.
    intros (Hs & Hc & [Ht1 Ht2] & [Hb1 Hb2] & Ect). unfold output_rel, of_bout.
    cbn [out_size out_content_size first_baselines top_margin bottom_margin margins_can_collapse_through].
    split; [apply f_size_rel; exact Hs|]. split; [apply f_size_rel; exact Hc|]. split; [split; exact I|].
    split; [split; assumption|]. split; [split; assumption|exact Ect].
  Qed.
  Lemma of_blay_rel l l' : BR.blay_rel k l l' -> flay_rel k (of_blay l) (of_blay l').
  Proof.
    intros (Eo & Hx & Hy & Hs & Hc & Hsb & Hp & Hb & Hm). unfold flay_rel, of_blay.
    cbn [fl_order fl_location fl_size fl_content_size fl_scrollbar_size fl_border fl_padding fl_margin].
    repeat match goal with |- _ /\ _ => split end; try assumption; try (apply f_size_rel; assumption); try (apply f_rect_rel; assumption).
    split; assumption.
  Qed.
End Adapter.

(* the block algorithm over the complete interface is relational whenever it is over its own *)
Lemma block_alg_bf_rel k (SR : Block.BStyle XQ -> Block.BStyle XQ -> Prop) (RS : BFStyle XQ -> BFStyle XQ -> Prop) pre abs_child :
  0 < k -> (forall s s', SR s s' -> BR.bstyle_wrel k s s') -> BR.PreRel k SR pre -> BR.AbsChildRel k SR abs_child ->
  (forall s s', RS s s' -> SR (to_bstyle s) (to_bstyle s')) ->
  AlgoRel (BFStyle XQ) (FIn XQ) (LayoutOutput XQ) (FLay XQ) RS (fin_rel k) (output_rel k) (flay_rel k)
          (block_alg_bf pre abs_child) (block_alg_bf pre abs_child).
Proof.
  intros Hk Hw Hpre Habs Hs s s' st st' i i' Hss Hst Hi. unfold block_alg_bf, style_comap, lift_algo.
  apply (lift_rel _ _ _ _ _ _ of_bin to_bout of_bout of_blay (BR.bin_rel k) (SB.bout_rel k) (BR.blay_rel k));
    [apply of_bin_rel|apply to_bout_rel|apply of_bout_rel|apply of_blay_rel|].
  apply (BlockAlgRel.block_alg_rel k Hk SR Hw); try assumption.
  - apply Hs. exact Hss.
  - clear -Hst Hs. induction Hst; cbn [map]; constructor; auto.
  - apply to_bin_rel. exact Hi.
Qed.

(* ------------------------------------------------------------------------------------------------ C04 *)
Section C04.
  Variable k : Q.
  Hypothesis Hk : 0 < k.
  Notation L := (sc k).
  Notation O := (op_rel (sc k)).

  (* a node of the scaled tree: every length of its style scaled, and a measure function that is the scaled measure function *)
  Definition bfnode_rel (n n' : BFNode XQ) : Prop :=
    bfstyle_rel k (bfn_style n) (bfn_style n') /\ measure_homog k (bfn_measure n) (bfn_measure n').

  Lemma bfnode_flex_rel n n' : bfnode_rel n n' -> fstyle_rel k (bfn_flex n) (bfn_flex n').
  Proof. intros [[H _] _]. exact H. Qed.
  Lemma bfnodes_flex_rel st st' : Forall2 bfnode_rel st st' -> Forall2 (fstyle_rel k) (map bfn_flex st) (map bfn_flex st').
  Proof. induction 1; cbn [map]; constructor; [apply bfnode_flex_rel; assumption|assumption]. Qed.
  Lemma bfnodes_style_rel st st' : Forall2 bfnode_rel st st' -> Forall2 (bfstyle_rel k) (map bfn_style st) (map bfn_style st').
  Proof. induction 1 as [|x y l l' [H _] Hl IH]; cbn [map]; constructor; assumption. Qed.

  Lemma bf_leaf_input_rel i i' : fin_rel k i i' -> input_rel k (bf_leaf_input i) (bf_leaf_input i').
  Proof.
    intros (Em & Es & Ea & Hkn & Hps & Hav & Ec). unfold input_rel, bf_leaf_input.
    cbn [run_mode sizing_mode known_dimensions parent_size available_space]. rewrite Em, Es. repeat match goal with |- _ /\ _ => split end; try reflexivity; assumption.
  Qed.

  Theorem bf_leaf_out_homog n n' i i' : bfnode_rel n n' -> fin_rel k i i' -> output_rel k (bf_leaf_out n i) (bf_leaf_out n' i').
  Proof.
    intros Hn Hi. pose proof (bfnode_flex_rel _ _ Hn) as (Hcore & _). destruct Hn as [_ Hm]. unfold bf_leaf_out.
    pose proof (leaf_homog k Hk _ _ _ _ _ _ Hcore (bf_leaf_input_rel _ _ Hi) Hm) as H. unfold result_rel in H. unfold bfn_core.
    destruct (compute_leaf_layout (bf_leaf_input i) (fs_core (bfn_flex n)) (bfn_measure n)) as [[o c]|],
             (compute_leaf_layout (bf_leaf_input i') (fs_core (bfn_flex n')) (bfn_measure n')) as [[o' c']|]; cbn [op_rel fst snd] in H; try contradiction.
    - apply H.
    - apply (output_HIDDEN_rel k).
  Qed.

  Lemma is_flex_rel n n' : bfnode_rel n n' -> is_flex n' = is_flex n.
  Proof. intros Hn. pose proof (bfnode_flex_rel _ _ Hn) as ((E & _) & _). unfold is_flex, bfn_core. rewrite E. reflexivity. Qed.

  Notation BFAlgoRel := (AlgoRel (BFNode XQ) (FIn XQ) (LayoutOutput XQ) (FLay XQ) bfnode_rel (fin_rel k) (output_rel k) (flay_rel k)).

  Theorem bfn_algo_homog tau tau' pre abs_child : sc k tau tau' -> gtb tau zero = true ->
    BR.PreRel k (SB.bstyle_rel k) pre -> BR.AbsChildRel k (SB.bstyle_rel k) abs_child ->
    BFAlgoRel (bfn_algo tau pre abs_child) (bfn_algo tau' pre abs_child).
  Proof.
    intros Ht Hp Hpre Habs n n' st st' i i' Hn Hst Hi. unfold bfn_algo.
    destruct Hst as [|x y l l' Hxy Hl]; [apply AR_ret; apply bf_leaf_out_homog; assumption|].
    rewrite (is_flex_rel _ _ Hn). destruct (is_flex n).
    - apply (flex_alg_t_homogeneous k tau tau' Hk Ht Hp); [apply bfnode_flex_rel; exact Hn| |exact Hi].
      apply (bfnodes_flex_rel (x :: l) (y :: l')). constructor; assumption.
    - apply (block_alg_bf_rel k (SB.bstyle_rel k) (bfstyle_rel k) pre abs_child Hk (BlockAlgRel.wrel_of_rel k Hk) Hpre Habs (to_bstyle_rel k)); [apply Hn| |exact Hi].
      apply (bfnodes_style_rel (x :: l) (y :: l')). constructor; assumption.
  Qed.

  (* the real block preprocessing and absolute routine *)
  Corollary bfn_algo_homog_real tau tau' : sc k tau tau' -> gtb tau zero = true ->
    BFAlgoRel (bfn_algo tau BlockEngine.block_pre BlockAbs.abs_child_block) (bfn_algo tau' BlockEngine.block_pre BlockAbs.abs_child_block).
  Proof.
    intros Ht Hp. apply bfn_algo_homog; try assumption.
    - apply (BlockAlgRel.block_pre_rel k Hk (SB.bstyle_rel k) (BlockAlgRel.wrel_of_rel k Hk)).
    - apply (BlockAbsRel.abs_child_block_homog k Hk).
  Qed.

  (* ---- the memo key *)
  Lemma fo_eqb_rel a a' b b' : O a a' -> O b b' -> fo_eqb a' b' = fo_eqb a b.
  Proof.
    destruct a, a'; cbn [op_rel]; try contradiction; destruct b, b'; cbn [op_rel]; try contradiction; cbn [fo_eqb]; auto.
    intros. apply (sc_eqb k); assumption.
  Qed.
  Lemma fav_eqb_rel a a' b b' : av_rel L a a' -> av_rel L b b' -> fav_eqb a' b' = fav_eqb a b.
  Proof.
    destruct a, a'; cbn [av_rel]; try contradiction; destruct b, b'; cbn [av_rel]; try contradiction; cbn [fav_eqb]; auto.
    intros. apply (sc_eqb k); assumption.
  Qed.
  Lemma fin_eqb_rel i1 i1' i2 i2' : fin_rel k i1 i1' -> fin_rel k i2 i2' -> fin_eqb i1' i2' = fin_eqb i1 i2.
  Proof.
    intros (Em & Es & Ea & [Hkw Hkh] & [Hpw Hph] & [Haw Hah] & Ec) (Em2 & Es2 & Ea2 & [Hkw2 Hkh2] & [Hpw2 Hph2] & [Haw2 Hah2] & Ec2).
    unfold fin_eqb. rewrite Em, Es, Ea, Ec, Em2, Es2, Ea2, Ec2.
    rewrite (fo_eqb_rel _ _ _ _ Hkw Hkw2), (fo_eqb_rel _ _ _ _ Hkh Hkh2), (fo_eqb_rel _ _ _ _ Hpw Hpw2), (fo_eqb_rel _ _ _ _ Hph Hph2),
            (fav_eqb_rel _ _ _ _ Haw Haw2), (fav_eqb_rel _ _ _ _ Hah Hah2).
    reflexivity.
  Qed.

  Lemma qi_mode_rel i i' : fin_rel k i i' -> qi_mode i' = qi_mode i.
  Proof. intros (Em & _). exact Em. Qed.
  Lemma bfn_is_none_rel n n' : bfnode_rel n n' -> bfn_is_none n' = bfn_is_none n.
  Proof.
    intros Hn. pose proof (bfnode_flex_rel _ _ Hn) as ((E & _) & _). unfold bfn_is_none, f_is_none, s_hidden, f_bgm, f_gdisplay. rewrite E. reflexivity.
  Qed.
  Lemma rel_f_zero_lay : flay_rel k f_zero_lay f_zero_lay.
  Proof. apply rel_f_with_order. Qed.

  (* ---- whole trees *)
  Notation trelk := (trel (BFNode XQ) (FIn XQ) (LayoutOutput XQ) (FLay XQ) bfnode_rel (fin_rel k) (output_rel k) (flay_rel k)).
  Notation res_relk := (res_rel (BFNode XQ) (FIn XQ) (LayoutOutput XQ) (FLay XQ) bfnode_rel (fin_rel k) (output_rel k) (flay_rel k)).

  (* scaling every length of the tree, the input and the floor by k scales every output, cache entry and stored layout by k *)
  Theorem bf_engine_threshold tau tau' pre abs_child : sc k tau tau' -> gtb tau zero = true ->
    BR.PreRel k (SB.bstyle_rel k) pre -> BR.AbsChildRel k (SB.bstyle_rel k) abs_child ->
    forall f t t' i i', trelk t t' -> fin_rel k i i' ->
      oprel res_relk (bfk_memo tau pre abs_child f t i) (bfk_memo tau' pre abs_child f t' i').
  Proof.
    intros Ht Hp Hpre Habs f t t' i i' Htt Hi. unfold bfk_memo.
    apply (memo_rel (BFNode XQ) (FIn XQ) (LayoutOutput XQ) (FLay XQ) qi_mode fin_eqb bfn_is_none output_HIDDEN f_zero_lay
                    (bfn_algo tau pre abs_child) (bfn_algo tau' pre abs_child) bfnode_rel (fin_rel k) (output_rel k) (flay_rel k)); try assumption.
    - exact qi_mode_rel.
    - exact bfn_is_none_rel.
    - exact (output_HIDDEN_rel k).
    - exact rel_f_zero_lay.
    - exact fin_eqb_rel.
    - apply bfn_algo_homog; assumption.
  Qed.

  (* the engine of the implementation -- floor 1.0 at both scales -- under the premise that the evaluation of the scaled tree does not depend on
     the floor being 1 or k: no flex container of the scaled tree computes an intrinsic main size from an item in the floored class *)
  Theorem bf_engine_partial f t t' i i' : trelk t t' -> fin_rel k i i' ->
    bf_memo_t (Fin k) f t' i' = bf_memo f t' i' ->
    oprel res_relk (bf_memo f t i) (bf_memo f t' i').
  Proof.
    intros Htt Hi E. rewrite <- E. unfold bf_memo, bf_memo_t.
    apply (bf_engine_threshold one (Fin k)); try assumption.
    - unfold sc. cbn. ring.
    - reflexivity.
    - apply (BlockAlgRel.block_pre_rel k Hk (SB.bstyle_rel k) (BlockAlgRel.wrel_of_rel k Hk)).
    - apply (BlockAbsRel.abs_child_block_homog k Hk).
  Qed.

  Lemma bf_fresh_rel t t' : skrel (BFNode XQ) bfnode_rel t t' -> trelk (bfk_fresh t) (bfk_fresh t').
  Proof. intros H. unfold bfk_fresh. apply fresh_rel; [exact rel_f_zero_lay|exact H]. Qed.
  (* fresh trees, the input scaled functionally: the run on the scaled tree succeeds iff the original does, and the root output and EVERY
     node's stored unrounded layout are the original ones with every length multiplied by k *)
  Theorem bf_engine_scaled_layouts f (t t' : sk (BFNode XQ)) i o t1 :
    skrel (BFNode XQ) bfnode_rel t t' ->
    bf_memo_t (Fin k) f (bfk_fresh t') (fin_scale k i) = bf_memo f (bfk_fresh t') (fin_scale k i) ->
    bf_memo f (bfk_fresh t) i = Some (o, t1) ->
    exists o' t1',
      bf_memo f (bfk_fresh t') (fin_scale k i) = Some (o', t1') /\ output_rel k o o' /\
      Forall2 (flay_rel k) (lays (BFNode XQ) (FIn XQ) (LayoutOutput XQ) (FLay XQ) t1) (lays (BFNode XQ) (FIn XQ) (LayoutOutput XQ) (FLay XQ) t1').
  Proof.
    intros Hsk Eins E.
    pose proof (bf_engine_partial f (bfk_fresh t) (bfk_fresh t') i (fin_scale k i) (bf_fresh_rel _ _ Hsk) (fin_rel_scale k i) Eins) as H.
    rewrite E in H. unfold oprel in H.
    destruct (bf_memo f (bfk_fresh t') (fin_scale k i)) as [[o' t1']|]; [|contradiction].
    destruct H as [Ho Ht1]. cbn [fst snd] in Ho, Ht1. exists o', t1'. split; [reflexivity|]. split; [exact Ho|].
    apply (trel_lays (BFNode XQ) (FIn XQ) (LayoutOutput XQ) (FLay XQ) bfnode_rel (fin_rel k) (output_rel k) (flay_rel k)). exact Ht1.
  Qed.
End C04.

(* ------------------------------------------------------------------------------------------------ C12 *)
Section C12.
  Notation L := (sc 1).
  Notation O := (op_rel (sc 1)).

  (* a node and its rewrite: the measure function must not distinguish equal rationals (premise of C12_leaf); the class is the
     direction-free one (Model/FlexBoxSizing.v f_eligible_anyb: a flex_basis that is not a length) *)
  Definition bfn_ok (n : BFNode XQ) : Prop := measure_respects_xeq (bfn_measure n).
  Definition bfn_elig (n : BFNode XQ) : Prop := bfn_eligibleb n = true.
  Definition bfnode_bb : BFNode XQ -> BFNode XQ -> Prop := bsrel bfn_ok bfn_tb bfn_elig.

  Lemma any_elig s : f_eligible_anyb s = true -> f_eligibleb s = true /\ @basis_is_length XQ (fs_flex_basis s) = false.
  Proof. unfold f_eligible_anyb. intros E. apply andb_prop in E. destruct E as [E1 E2]. split; [exact E1|]. destruct (basis_is_length _); [discriminate|reflexivity]. Qed.
  Lemma tb_any_dir row (s : FStyle XQ) : basis_is_length (fs_flex_basis s) = false -> f_to_border_box_in row s = f_to_border_box s.
  Proof.
    intros E. unfold f_to_border_box, f_to_border_box_in. f_equal. unfold flex_basis_to_border_box.
    destruct (fs_flex_basis s); [reflexivity|discriminate E|reflexivity].
  Qed.

  Lemma bfnode_bb_flex row n n' : bfnode_bb n n' -> fbb_rel row (bfn_flex n) (bfn_flex n').
  Proof.
    intros [_ [->|[El ->]]]; [left; reflexivity|]. destruct (any_elig _ El) as [E1 E2]. right. split; [exact E1|].
    unfold bfn_tb, bfn_flex, bf_to_border_box. cbn [bfn_style bf_flex]. symmetry. apply tb_any_dir. exact E2.
  Qed.
  Lemma bfnodes_bb_flex row st st' : Forall2 bfnode_bb st st' -> Forall2 (fbb_rel row) (map bfn_flex st) (map bfn_flex st').
  Proof. induction 1; cbn [map]; constructor; [apply bfnode_bb_flex; assumption|assumption]. Qed.
  Lemma bfnode_bb_measure n n' : bfnode_bb n n' -> bfn_measure n' = bfn_measure n.
  Proof. intros [_ [->|[El ->]]]; reflexivity. Qed.

  (* ---- the block view of the rewrite is the block rewrite *)
  Lemma to_bstyle_eligible (s : BFStyle XQ) : f_eligibleb (bf_flex s) = true -> BlockEngine.b_eligibleb (to_bstyle s) = true.
  Proof.
    intros El. unfold f_eligibleb in El. apply andb_prop in El. destruct El as [El _].
    destruct (eligible_parts _ El) as (Ebs & Ep & Eb & Ear & Esz & Emn & Emx).
    unfold BlockEngine.b_eligibleb, to_bstyle.
    cbn [Block.st_content_box Block.st_padding Block.st_border Block.st_aspect_ratio Block.st_size Block.st_min_size Block.st_max_size].
    rewrite Ebs, Ear.
    assert (Hlen : forall d : LengthPercentage XQ, BlockEngine.lpa_is_len (b_lp d) = lp_is_length d) by (intros d; destruct d; reflexivity).
    assert (Hpct : forall d : Dimension XQ, BlockEngine.lpa_not_pct (b_lpa d) = dim_not_percent d) by (intros d; destruct d; reflexivity).
    unfold BlockEngine.brect_forallb, BlockEngine.bsize_forallb, b_rect, b_size.
    cbn [Block.r_left Block.r_right Block.r_top Block.r_bottom Block.s_w Block.s_h]. rewrite !Hlen, !Hpct.
    unfold rect_forallb in Ep, Eb. unfold size_forallb in Esz, Emn, Emx. rewrite Ep, Eb. cbn [andb].
    apply andb_true_intro; split; [apply andb_true_intro; split; [exact Esz|exact Emn]|exact Emx].
  Qed.
  Lemma b_lp_resolve_none (d : LengthPercentage XQ) : Block.lpa_resolve_or_zero (b_lp d) None = resolve_or_zero_lp d None.
  Proof. destruct d; reflexivity. Qed.
  Lemma b_lpa_grow pb (d : Dimension XQ) : b_lpa (grow_dim pb d) = BlockEngine.b_grow pb (b_lpa d).
  Proof. destruct d; reflexivity. Qed.
  Lemma to_bstyle_pb (s : BFStyle XQ) : BlockEngine.b_style_pb (to_bstyle s) = b_size (fun x => x) (style_pb (fs_core (bf_flex s))).
  Proof.
    unfold BlockEngine.b_style_pb, style_pb, to_bstyle, b_size, b_rect, Block.sum_axes, Block.h_sum, Block.v_sum, Block.rect_add, Block.rect_resolve_or_zero,
      sum_axes, horizontal_axis_sum, vertical_axis_sum, rect_add, rect_zip_map, rect_resolve_or_zero_lp, rect_map.
    cbn [Block.st_padding Block.st_border Block.r_left Block.r_right Block.r_top Block.r_bottom r_left r_right r_top r_bottom width height].
    rewrite !b_lp_resolve_none. reflexivity.
  Qed.
  Lemma to_bstyle_tb (s : BFStyle XQ) : to_bstyle (bf_to_border_box s) = BlockEngine.b_to_border_box (to_bstyle s).
  Proof.
    unfold BlockEngine.b_to_border_box. rewrite to_bstyle_pb. unfold to_bstyle, bf_to_border_box, f_to_border_box, f_to_border_box_in, to_border_box.
    cbn [bf_flex bf_is_table bf_text_align fs_core fs_inset display position box_sizing overflow scrollbar_width size min_size max_size aspect_ratio margin padding border
         Block.st_display Block.st_is_table Block.st_content_box Block.st_overflow_x Block.st_overflow_y Block.st_scrollbar_width Block.st_position
         Block.st_inset Block.st_size Block.st_min_size Block.st_max_size Block.st_aspect_ratio Block.st_margin Block.st_padding Block.st_border Block.st_text_align].
    unfold BlockEngine.b_grow_size, grow_size, b_size. cbn [Block.s_w Block.s_h width height]. rewrite !b_lpa_grow. reflexivity.
  Qed.

  Definition bfstyle_bb (s s' : BFStyle XQ) : Prop := s' = s \/ (f_eligibleb (bf_flex s) = true /\ s' = bf_to_border_box s).
  Lemma to_bstyle_bb s s' : bfstyle_bb s s' -> EngineBoxSizing.bb_rel (to_bstyle s) (to_bstyle s').
  Proof.
    intros [->|[El ->]]; [left; reflexivity|]. right. split; [apply to_bstyle_eligible; exact El|apply to_bstyle_tb].
  Qed.
  Lemma bfnode_bb_style n n' : bfnode_bb n n' -> bfstyle_bb (bfn_style n) (bfn_style n').
  Proof. intros [_ [->|[El ->]]]; [left; reflexivity|]. right. split; [exact (proj1 (any_elig _ El))|reflexivity]. Qed.
  Lemma bfnodes_bb_style st st' : Forall2 bfnode_bb st st' -> Forall2 bfstyle_bb (map bfn_style st) (map bfn_style st').
  Proof. induction 1; cbn [map]; constructor; [apply bfnode_bb_style; assumption|assumption]. Qed.

  (* ---- the leaf *)
  Lemma mset1_trans a b c : mset_rel 1 a b -> mset_rel 1 b c -> mset_rel 1 a c.
  Proof. intros [A1 A2] [B1 B2]. split; eapply s1_trans; eassumption. Qed.
  Lemma output_rel1_trans a b c : output_rel 1 a b -> output_rel 1 b c -> output_rel 1 a c.
  Proof.
    intros (A1 & A2 & [A3 A3'] & A4 & A5 & A6) (B1 & B2 & [B3 B3'] & B4 & B5 & B6). unfold output_rel.
    split; [eapply (sz_trans (sc 1)); [exact s1_trans|eassumption|eassumption]|].
    split; [eapply (sz_trans (sc 1)); [exact s1_trans|eassumption|eassumption]|].
    split; [split; eapply o1_trans; eassumption|]. split; [eapply mset1_trans; eassumption|]. split; [eapply mset1_trans; eassumption|congruence].
  Qed.
  Lemma output_rel1_of_xeq o o' : output_xeq o' o -> output_rel 1 o o'.
  Proof.
    intros ([S1 S2] & [C1 C2] & B1 & B2 & [T1 T2] & [M1 M2] & Ect). unfold output_rel.
    assert (OX : forall a b, LeafAxis.opt_xeq b a -> op_rel (sc 1) a b) by (intros a b; destruct a, b; cbn; try tauto; apply s1_iff).
    split; [split; apply s1_iff; assumption|]. split; [split; apply s1_iff; assumption|]. split; [split; apply OX; assumption|].
    split; [split; apply s1_iff; assumption|]. split; [split; apply s1_iff; assumption|exact Ect].
  Qed.
  Lemma respects_homog1 m : measure_respects_xeq m -> measure_homog 1 m m.
  Proof. exact (EngineBoxSizing.respects_homog1 m). Qed.

  Theorem bf_leaf_out_bb n n' i i' : bfnode_bb n n' -> fin_rel 1 i i' -> output_rel 1 (bf_leaf_out n i) (bf_leaf_out n' i').
  Proof.
    intros Hn Hi. pose proof Hn as [Hok Hcase].
    assert (H1 : output_rel 1 (bf_leaf_out n i) (bf_leaf_out n i')).
    { apply (bf_leaf_out_homog 1 Q01); [|exact Hi]. split; [split; [apply fstyle_rel1_refl|split; reflexivity]|apply respects_homog1; exact Hok]. }
    destruct Hcase as [->|[El ->]]; [exact H1|]. eapply output_rel1_trans; [exact H1|].
    destruct (any_elig _ El) as [E1 _]. unfold f_eligibleb in E1. apply andb_prop in E1. destruct E1 as [Ec _].
    unfold bf_leaf_out, bfn_core, bfn_tb, bfn_flex, bf_to_border_box, f_to_border_box, f_to_border_box_in. cbn [bfn_style bfn_measure bf_flex fs_core].
    pose proof (leaf_invariant (bf_leaf_input i') (fs_core (bf_flex (bfn_style n))) (bfn_measure n) Ec Hok) as H2. unfold result_xeq in H2.
    destruct (compute_leaf_layout (bf_leaf_input i') (to_border_box (fs_core (bf_flex (bfn_style n)))) (bfn_measure n)) as [[o c]|],
             (compute_leaf_layout (bf_leaf_input i') (fs_core (bf_flex (bfn_style n))) (bfn_measure n)) as [[o' c']|]; try contradiction.
    - apply output_rel1_of_xeq. apply H2.
    - apply (output_HIDDEN_rel 1).
  Qed.

  Lemma is_flex_bb n n' : bfnode_bb n n' -> is_flex n' = is_flex n.
  Proof. intros [_ [->|[El ->]]]; reflexivity. Qed.

  Notation BFBlind := (BoxSizingBlind (BFNode XQ) (FIn XQ) (LayoutOutput XQ) (FLay XQ) bfn_ok bfn_tb bfn_elig (fin_rel 1) (output_rel 1) (flay_rel 1)).

  Theorem bfn_algo_box_sizing_blind pre abs_child :
    BR.PreRel 1 EngineBoxSizing.bb_rel pre -> BR.AbsChildRel 1 EngineBoxSizing.bb_rel abs_child -> BFBlind (bfn_algo one pre abs_child).
  Proof.
    intros Hpre Habs n n' st st' i i' Hn Hst Hi. unfold bfn_algo.
    destruct Hst as [|x y l l' Hxy Hl]; [apply AR_ret; apply bf_leaf_out_bb; assumption|].
    rewrite (is_flex_bb _ _ Hn). destruct (is_flex n).
    - rewrite !flex_alg_t_one. apply (flex_alg_box_sizing_blind true); [apply bfnode_bb_flex; exact Hn| |exact Hi].
      apply (bfnodes_bb_flex _ (x :: l) (y :: l')). constructor; assumption.
    - apply (block_alg_bf_rel 1 EngineBoxSizing.bb_rel bfstyle_bb pre abs_child Q01 EngineBoxSizing.bb_weak Hpre Habs to_bstyle_bb);
        [apply bfnode_bb_style; exact Hn| |exact Hi].
      apply (bfnodes_bb_style (x :: l) (y :: l')). constructor; assumption.
  Qed.

  Corollary bfn_algo_box_sizing_blind_real : BFBlind (bfn_algo one BlockEngine.block_pre BlockAbs.abs_child_block).
  Proof.
    apply bfn_algo_box_sizing_blind.
    - apply (BlockAlgRel.block_pre_rel 1 Q01 EngineBoxSizing.bb_rel EngineBoxSizing.bb_weak).
    - apply BlockAbsRel.abs_child_block_box_sizing_blind.
  Qed.

  Lemma bfn_is_none_bb n n' : bfnode_bb n n' -> bfn_is_none n' = bfn_is_none n.
  Proof. intros [_ [->|[El ->]]]; reflexivity. Qed.

  Notation trel1 := (trel (BFNode XQ) (FIn XQ) (LayoutOutput XQ) (FLay XQ) bfnode_bb (fin_rel 1) (output_rel 1) (flay_rel 1)).
  Notation res_rel1 := (res_rel (BFNode XQ) (FIn XQ) (LayoutOutput XQ) (FLay XQ) bfnode_bb (fin_rel 1) (output_rel 1) (flay_rel 1)).

  Theorem bf_engine_box_sizing f t t' i i' : trel1 t t' -> fin_rel 1 i i' -> oprel res_rel1 (bf_memo f t i) (bf_memo f t' i').
  Proof.
    intros Htt Hi. unfold bf_memo, bfk_memo.
    apply (memo_rel (BFNode XQ) (FIn XQ) (LayoutOutput XQ) (FLay XQ) qi_mode fin_eqb bfn_is_none output_HIDDEN f_zero_lay
                    (bfn_algo one BlockEngine.block_pre BlockAbs.abs_child_block) (bfn_algo one BlockEngine.block_pre BlockAbs.abs_child_block)
                    bfnode_bb (fin_rel 1) (output_rel 1) (flay_rel 1)); try assumption.
    - exact (qi_mode_rel 1).
    - exact bfn_is_none_bb.
    - exact (output_HIDDEN_rel 1).
    - exact (rel_f_zero_lay 1).
    - exact (fin_eqb_rel 1 Q01).
    - exact bfn_algo_box_sizing_blind_real.
  Qed.

  Lemma bfnode_bb_refl n : bfn_ok n -> bfnode_bb n n.
  Proof. intros Hok. split; [exact Hok|left; reflexivity]. Qed.
  Lemma bfn_to_border_box_bb n : bfn_ok n -> bfnode_bb n (bfn_to_border_box n).
  Proof.
    intros Hok. split; [exact Hok|]. unfold bfn_to_border_box. destruct (bfn_eligibleb n) eqn:E; [right|left; reflexivity]. split; [exact E|reflexivity].
  Qed.
  Lemma bf_fresh_bb t t' : skrel (BFNode XQ) bfnode_bb t t' -> trel1 (bfk_fresh t) (bfk_fresh t').
  Proof. intros H. unfold bfk_fresh. apply fresh_rel; [exact (rel_f_zero_lay 1)|exact H]. Qed.
  Lemma bf_rewrite_where t w : sk_all (BFNode XQ) bfn_ok t -> skrel (BFNode XQ) bfnode_bb t (sk_map_where (BFNode XQ) bfn_to_border_box w t).
  Proof. apply skrel_map_where; [exact bfnode_bb_refl|exact bfn_to_border_box_bb]. Qed.
  (* every subset of the eligible nodes of a fresh tree, the SAME input: the run on the rewritten tree succeeds iff the original does; root
     outputs and all stored layouts are equal as numbers *)
  Theorem bf_engine_rewritten_layouts f (t : sk (BFNode XQ)) (w : list nat -> bool) i o t1 :
    sk_all (BFNode XQ) bfn_ok t -> bf_memo f (bfk_fresh t) i = Some (o, t1) ->
    exists o' t1',
      bf_memo f (bfk_fresh (sk_map_where (BFNode XQ) bfn_to_border_box w t)) i = Some (o', t1') /\ output_rel 1 o o' /\
      Forall2 (flay_rel 1) (lays (BFNode XQ) (FIn XQ) (LayoutOutput XQ) (FLay XQ) t1) (lays (BFNode XQ) (FIn XQ) (LayoutOutput XQ) (FLay XQ) t1').
  Proof.
    intros Hall E.
    pose proof (bf_engine_box_sizing f (bfk_fresh t) (bfk_fresh (sk_map_where (BFNode XQ) bfn_to_border_box w t)) i i
                  (bf_fresh_bb _ _ (bf_rewrite_where t w Hall)) (fin_rel1_refl i)) as H.
    rewrite E in H. unfold oprel in H.
    destruct (bf_memo f (bfk_fresh (sk_map_where (BFNode XQ) bfn_to_border_box w t)) i) as [[o' t1']|]; [|contradiction].
    destruct H as [Ho Ht1]. cbn [fst snd] in Ho, Ht1. exists o', t1'. split; [reflexivity|]. split; [exact Ho|].
    apply (trel_lays (BFNode XQ) (FIn XQ) (LayoutOutput XQ) (FLay XQ) bfnode_bb (fin_rel 1) (output_rel 1) (flay_rel 1)). exact Ht1.
  Qed.
End C12.
