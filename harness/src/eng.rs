//! Engine correspondence (C01 / C15 / C16 / C17 share it): histories of TaffyTree API calls, encoded as integers for the
//! Coq engine model, with TaffyTree::dirty of every live node observed after every call; plus trace validation of the
//! interface hypotheses the engine theorems assume about the layout algorithms (WF, H1) and of the no-scribble property.
use crate::hist::*;
use crate::rng::Rng;
use crate::treegen::*;
use taffy::prelude::*;

fn is_none(s: &Style) -> i64 {
    (s.display == Display::None) as i64
}

fn flags(w: &World) -> Vec<i64> {
    w.live().iter().map(|i| w.t.dirty(w.pool[*i].unwrap()).unwrap() as i64).collect()
}

fn push_op(c: &mut Vec<i64>, op: &[i64]) {
    c.push(op.len() as i64);
    c.extend_from_slice(op);
}

/// Trace validation of one layout pass. Returns violated hypothesis names.
#[cfg(taffy_verif)]
pub fn validate_trace(w: &World, trace: &[taffy::verif_hooks::Event]) -> Vec<String> {
    use taffy::verif_hooks::Event;
    use taffy::RunMode;
    let mut bad = vec![];
    // stack of (node, run_mode, hit, children that received a PerformLayout query, per child: (event index of its last Query,
    // event index of its last SetLayout))
    let mut stack: Vec<(NodeId, RunMode, bool, Vec<NodeId>, std::collections::HashMap<NodeId, (Option<usize>, Option<usize>)>)> = vec![];
    let is_none = |n: NodeId| w.t.style(n).map(|s| s.display == Display::None).unwrap_or(false);
    for (k, ev) in trace.iter().enumerate() {
        match ev {
            Event::Query { node, input, hit } => {
                if input.run_mode == RunMode::PerformHiddenLayout {
                    // WF: only compute_hidden_layout issues hidden-mode queries (they bypass compute_cached_layout in TaffyTree,
                    // so a Query event in hidden mode means an algorithm issued it through the cached path)
                    bad.push(format!("WF: hidden-mode query reached compute_cached_layout at {:?}", node));
                }
                // HQ (hypothesis of the layout-level theorem): a display:none child never receives a size query
                if input.run_mode == RunMode::ComputeSize && is_none(*node) && !stack.is_empty() {
                    bad.push(format!("HQ: display:none node {:?} received a ComputeSize query", node));
                }
                if let Some(top) = stack.last_mut() {
                    if input.run_mode == RunMode::PerformLayout {
                        top.3.push(*node);
                    }
                    top.4.entry(*node).or_insert((None, None)).0 = Some(k);
                }
                stack.push((*node, input.run_mode, *hit, vec![], std::collections::HashMap::new()));
            }
            Event::Return { node } => {
                let (n, mode, hit, visited, per_child) = stack.pop().unwrap();
                if n != *node {
                    bad.push("trace nesting broken".to_string());
                }
                if !hit && mode == RunMode::PerformLayout && !is_none(n) {
                    for ch in w.t.children(n).unwrap() {
                        // H1: a PerformLayout miss at a box-generating node queries every child with PerformLayout
                        if !visited.contains(&ch) {
                            bad.push(format!("H1: PerformLayout miss at {:?} did not PerformLayout child {:?}", n, ch));
                        }
                        // H3 (layout-level theorem): every child gets its layout stored, a display:none child after its last query
                        match per_child.get(&ch) {
                            Some((q, Some(sl))) => {
                                if is_none(ch) && q.map(|q| q > *sl).unwrap_or(false) {
                                    bad.push(format!("H3: display:none child {:?} of {:?} was queried after its layout was stored", ch, n));
                                }
                            }
                            _ => bad.push(format!("H3: PerformLayout miss at {:?} stored no layout for child {:?}", n, ch)),
                        }
                    }
                }
            }
            Event::Hidden { .. } => {}
            Event::SetLayout { node } => {
                // NoScribble (NOT assumed by the output-level theorems; hypothesis NS of the layout-level theorem; recorded as
                // evidence of the known finding): a stored layout written while some enclosing evaluation only computes a size
                if stack.iter().any(|e| e.1 == RunMode::ComputeSize) {
                    SCRIBBLES.with(|c| c.set(c.get() + 1));
                }
                if let Some(top) = stack.last_mut() {
                    top.4.entry(*node).or_insert((None, None)).1 = Some(k);
                }
            }
        }
    }
    bad
}

thread_local! {
    pub static SCRIBBLES: std::cell::Cell<u64> = const { std::cell::Cell::new(0) };
}

pub fn run_history(seed: u64, idx: u64, emit: bool) -> (Vec<i64>, Vec<i64>, Vec<String>, u64) {
    let mut rng = Rng::new(seed.wrapping_mul(0x9E37_79B9).wrapping_add(idx) ^ 0xE16);
    let mut cfg = GenCfg::default();
    cfg.max_nodes = 9;
    cfg.p_hidden = 120;
    let spec = tree(&mut rng, &cfg);
    let (mut w, _root) = World::new(&spec);
    // encode initial forest: pre-order ids with parent index
    let mut c: Vec<i64> = vec![w.pool.len() as i64];
    for i in 0..w.pool.len() {
        let n = w.pool[i].unwrap();
        let par = w.t.parent(n).map(|p| w.pool.iter().position(|x| *x == Some(p)).unwrap() as i64).unwrap_or(-1);
        c.push(par);
        c.push(is_none(w.t.style(n).unwrap()));
    }
    let mut r: Vec<i64> = flags(&w);
    let mut avails: Vec<Size<AvailableSpace>> = vec![];
    let mut hyp_bad = vec![];
    let mut layouts = 0u64;
    let nops = 6 + rng.below(24);
    for step in 0..nops {
        let op = if step == 0 { Op::Layout(0, avail(&mut rng, &cfg)) } else { gen_op(&mut rng, &cfg, &w) };
        let before_pool = w.pool.len();
        #[cfg(taffy_verif)]
        if matches!(op, Op::Layout(..)) {
            taffy::verif_hooks::start_trace();
        }
        let applied = w.apply(&op);
        #[cfg(taffy_verif)]
        {
            let trace = taffy::verif_hooks::take_trace();
            if applied && matches!(op, Op::Layout(..)) {
                hyp_bad.extend(validate_trace(&w, &trace));
                layouts += 1;
            }
        }
        if !applied {
            // an op may have created a leaf before failing? (no: leaves are only created for live parents)
            assert_eq!(before_pool, w.pool.len());
            continue;
        }
        let nid = (w.pool.len() - 1) as i64;
        let enc: Vec<i64> = match &op {
            Op::SetStyle(i, s) => vec![0, *i as i64, is_none(s)],
            Op::AddLeaf(p, s, _) => vec![1, *p as i64, nid, is_none(s)],
            Op::InsertLeaf(p, idx, s, _) => {
                let cnt = w.t.child_count(w.pool[*p].unwrap()) - 1;
                vec![2, *p as i64, (idx % (cnt + 1)) as i64, nid, is_none(s)]
            }
            Op::RemoveChildAt(p, idx) => {
                let cnt = w.t.child_count(w.pool[*p].unwrap()) + 1;
                vec![3, *p as i64, (idx % cnt) as i64]
            }
            Op::ReplaceChildAt(p, idx, s, _) => {
                let cnt = w.t.child_count(w.pool[*p].unwrap());
                vec![4, *p as i64, (idx % cnt) as i64, nid, is_none(s)]
            }
            Op::Rotate(p) => vec![5, *p as i64],
            Op::DropChild(p, idx) => {
                // same effect as remove_child_at_index: the parent is marked dirty, the dropped child becomes a root
                let cnt = w.t.child_count(w.pool[*p].unwrap()) + 1;
                vec![3, *p as i64, (idx % cnt) as i64]
            }
            Op::Reparent(n, p) => vec![6, *n as i64, *p as i64],
            Op::Remove(i) => vec![7, *i as i64],
            Op::SetCtx(i, _) => vec![8, *i as i64],
            Op::MarkDirty(i) => vec![9, *i as i64],
            Op::Rounding(_) => vec![11],
            Op::Layout(i, a) => {
                let tag = match avails.iter().position(|x| x == a) {
                    Some(k) => k,
                    None => {
                        avails.push(*a);
                        avails.len() - 1
                    }
                };
                vec![10, *i as i64, tag as i64]
            }
        };
        push_op(&mut c, &enc);
        r.push(-1);
        r.extend(flags(&w));
    }
    let _ = emit;
    (c, r, hyp_bad, layouts)
}

pub fn main(args: &[String]) {
    if std::env::var("VH_PANIC").is_err() { std::panic::set_hook(Box::new(|_| {})); }
    match args[0].as_str() {
        "cases" => {
            let seed: u64 = args[1].parse().unwrap();
            let n: u64 = args[2].parse().unwrap();
            let mut passes = 0;
            let mut nbad = 0;
            for idx in 0..n {
                let (c, r, bad, l) = run_history(seed, idx, true);
                passes += l;
                println!("C {}", c.iter().map(|x| x.to_string()).collect::<Vec<_>>().join(" "));
                println!("R {}", r.iter().map(|x| x.to_string()).collect::<Vec<_>>().join(" "));
                for b in bad.iter().take(3) {
                    println!("HYP {idx} {b}");
                    nbad += 1;
                }
            }
            println!("TRACES {passes} {nbad}");
            println!("SCRIBBLES {}", SCRIBBLES.with(|c| c.get()));
        }
        _ => std::process::exit(2),
    }
}
