(* Executable driver for the correspondence check of C08 / C03(placement): decodes one harness case
   `ec er flow n (kind rs_t rs_v re_t re_v cs_t cs_v ce_t ce_v)*n`, runs Model.Placement.grid_placement_run (the
   definitions the theorems are about) and encodes what `vh c08 cases` prints after `R`:
   `1 (row_start row_end col_start col_end)*in_flow rneg rexp rpos cneg cexp cpos`, or `0` for any Err. *)
From Coq Require Import ZArith Bool List.
From TV Require Import Model.PlacementBase Gen.PlacementGen Model.Placement.
Import ListNotations.
Open Scope Z_scope.

Definition dec_gp (t v : Z) : GP := if t =? 0 then Auto else if t =? 1 then Line v else Span v.
Definition dec_kind (k : Z) : child_kind := if k =? 0 then InFlow else if k =? 1 then Hidden else Absolute.
Definition dec_flow (f : Z) : flow := if f =? 0 then FRow else if f =? 1 then FColumn else if f =? 2 then FRowDense else FColumnDense.

Fixpoint dec_children (fuel : nat) (l : list Z) : list (child_kind * child) :=
  match fuel with
  | O => []
  | S f =>
      match l with
      | k :: rst :: rsv :: ret :: rev :: cst :: csv :: cet :: cev :: rest =>
          (dec_kind k, mkChild (mkLn (dec_gp rst rsv) (dec_gp ret rev)) (mkLn (dec_gp cst csv) (dec_gp cet cev)))
            :: dec_children f rest
      | _ => []
      end
  end.

Definition enc_outcome (o : outcome) : list Z :=
  [1] ++ flat_map (fun p => [p_row_start p; p_row_end p; p_col_start p; p_col_end p]) (o_items o)
      ++ [tc_neg (o_rows o); tc_explicit (o_rows o); tc_pos (o_rows o); tc_neg (o_cols o); tc_explicit (o_cols o); tc_pos (o_cols o)].

Definition run_case (c : list Z) : list Z :=
  match c with
  | ec :: er :: fl :: n :: rest =>
      match grid_placement_run ec er (dec_flow fl) (dec_children (Z.to_nat n) rest) with
      | Ok o => enc_outcome o
      | Err _ => [0]
      end
  | _ => []
  end.

(* the error class, for diagnostics: 0 ok, 1 Overflow, 2 OutOfBounds, 3 NegativeExpansion, 4 OutOfFuel, 5 Panic *)
Definition run_class (c : list Z) : list Z :=
  match c with
  | ec :: er :: fl :: n :: rest =>
      match grid_placement_run ec er (dec_flow fl) (dec_children (Z.to_nat n) rest) with
      | Ok _ => [0]
      | Err Overflow => [1] | Err OutOfBounds => [2] | Err NegativeExpansion => [3] | Err OutOfFuel => [4] | Err Panic => [5]
      end
  | _ => []
  end.
