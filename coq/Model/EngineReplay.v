(* Event-level tie between the engine skeleton (Model/Engine.v) and the implementation.

   (1) TRACED memo: the same recursion as Engine.memo, additionally returning the list of events the implementation logs
       through its cfg(taffy_verif) trace hook (src/verif_hooks.rs):
         EQuery s i hit   compute_cached_layout entered for the node with style s and input i; did the cache answer
         EReturn s        compute_cached_layout returned
         EHidden s        compute_hidden_layout ran on the node
         ESetLayout s     set_unrounded_layout was called for the node
       Proofs/EngineReplay.v proves that forgetting the events gives exactly Engine.memo (memo_traced_fst), so the
       events are those of the function the C01/C15/C17 theorems are about.
   (2) REPLAY instance: S := (node id, style version, display:none), In := input id (3*k + run mode), Out := output id,
       and `algo` := the resumption unfolded from a SCRIPT TABLE recorded from the real algorithms (harness/src/engev.rs):
       per (node id, style version, [child id, child style version], input id) a trie of the direct actions the real
       algorithm performed (Query child input, branching on the output id it received / SetLayout child / Ret output).
       A key or branch that is not in the table unfolds to `Ret err_out`, so a divergence is visible.
   Definitions only. *)
From Coq Require Import List Bool Arith NArith ZArith Lia.
From TV Require Import Model.Engine.
Import ListNotations.

Section Traced.
  Variables (S In Out Lay : Type).
  Variable mode : In -> RunMode.
  Variable in_eqb : In -> In -> bool.
  Variable is_none : S -> bool.
  Variable hidden_out : Out.
  Variable zero_lay : Lay.
  Variable algo : S -> list S -> In -> Alg In Out Lay.
  Notation tree := (Engine.tree S In Out Lay).
  Notation cache := (Engine.cache In Out).

  Inductive event :=
  | EQuery (s : S) (i : In) (hit : bool)
  | EReturn (s : S)
  | EHidden (s : S)
  | ESetLayout (s : S).

  (* compute_hidden_layout: Hidden{node}; cache_clear; set_unrounded_layout(node, zero); then every child in order
     (TaffyView::compute_child_layout short-circuits hidden-mode inputs BEFORE compute_cached_layout: no Query event) *)
  Fixpoint hide_tr (t : tree) : list event :=
    match t with Node _ _ _ _ s _ _ kids => EHidden s :: ESetLayout s :: flat_map hide_tr kids end.

  Fixpoint run_memo_tr (ev : tree -> In -> option (Out * tree * list event)) (kids : list tree) (a : Alg In Out Lay)
    : option (Out * list tree * list event) :=
    match a with
    | Ret _ _ _ o => Some (o, kids, [])
    | Query _ _ _ c i k =>
        match nth_error kids c with
        | Some t =>
            match ev t i with
            | Some (o, t', e1) =>
                match run_memo_tr ev (replace_nth c t' kids) (k o) with
                | Some (o', ks, e2) => Some (o', ks, e1 ++ e2)
                | None => None
                end
            | None => None
            end
        | None => None
        end
    | SetLayout _ _ _ c l k =>
        match nth_error kids c with
        | Some t =>
            match run_memo_tr ev (replace_nth c (set_lay S In Out Lay t l) kids) k with
            | Some (o', ks, e2) => Some (o', ks, ESetLayout (style_of S In Out Lay t) :: e2)
            | None => None
            end
        | None => None
        end
    end.

  Fixpoint memo_tr (fuel : nat) (t : tree) (i : In) : option (Out * tree * list event) :=
    match fuel with
    | O => None
    | Datatypes.S f =>
        match t with
        | Node _ _ _ _ s c l kids =>
            match mode i with
            | PerformHiddenLayout => Some (hidden_out, hide S In Out Lay zero_lay t, hide_tr t)
            | _ =>
                match cget In Out mode in_eqb c i with
                | Some o => Some (o, t, [EQuery s i true; EReturn s])
                | None =>
                    if is_none s then
                      Some (hidden_out,
                            Node S In Out Lay s (cstore In Out mode (cempty In Out) i hidden_out) zero_lay (map (hide S In Out Lay zero_lay) kids),
                            EQuery s i false :: hide_tr t ++ [EReturn s])
                    else
                      match run_memo_tr (memo_tr f) kids (algo s (map (style_of S In Out Lay) kids) i) with
                      | Some (o, kids', e) =>
                          Some (o, Node S In Out Lay s (cstore In Out mode c i o) l kids', EQuery s i false :: e ++ [EReturn s])
                      | None => None
                      end
                end
            end
        end
    end.

End Traced.

(* ---------------------------------------------------------------------------------------------------------------- *)
(* scripts: the recorded behaviour of one algorithm evaluation as data *)
Inductive script :=
| SRet (o : N)
| SQuery (c : nat) (i : N) (branches : list (N * script))
| SSet (c : nat) (k : script).

Definition RS : Type := (N * N * bool)%type.        (* node id, style version, display:none *)
Definition RIn : Type := N.                         (* 3 * (id of the complete LayoutInput) + run mode *)
Definition ROut : Type := N.
Definition RLay : Type := unit.
Definition rs_id (s : RS) : N := fst (fst s).
Definition rs_ver (s : RS) : N := snd (fst s).
Definition rs_none (s : RS) : bool := snd s.
Definition r_mode (i : RIn) : RunMode :=
  match (i mod 3)%N with 0%N => PerformLayout | 1%N => ComputeSize | _ => PerformHiddenLayout end.
Definition r_hidden_out : ROut := 0%N.              (* LayoutOutput::HIDDEN *)
Definition err_out : ROut := 1%N.                   (* "the table has no such entry": recorded output ids start at 2 *)

Fixpoint unfold (s : script) : Alg RIn ROut RLay :=
  match s with
  | SRet o => Ret _ _ _ o
  | SQuery c i brs =>
      Query _ _ _ c i (fun o =>
        (fix pick (l : list (N * script)) : Alg RIn ROut RLay :=
           match l with
           | [] => Ret _ _ _ err_out
           | (o', s') :: r => if N.eqb o o' then unfold s' else pick r
           end) brs)
  | SSet c k => SetLayout _ _ _ c tt (unfold k)
  end.

(* key of a table entry: node id, style version, children (id, version), input *)
Record skey := { k_id : N; k_ver : N; k_kids : list (N * N); k_in : N }.
Definition table := list (skey * script).

Fixpoint kids_eqb (a b : list (N * N)) : bool :=
  match a, b with
  | [], [] => true
  | (x, y) :: a', (x', y') :: b' => N.eqb x x' && N.eqb y y' && kids_eqb a' b'
  | _, _ => false
  end.
Definition key_eqb (a b : skey) : bool :=
  N.eqb (k_id a) (k_id b) && N.eqb (k_in a) (k_in b) && N.eqb (k_ver a) (k_ver b) && kids_eqb (k_kids a) (k_kids b).

Fixpoint lookup (tb : table) (k : skey) : option script :=
  match tb with
  | [] => None
  | (k', s) :: r => if key_eqb k' k then Some s else lookup r k
  end.

Definition r_algo (tb : table) (s : RS) (st : list RS) (i : RIn) : Alg RIn ROut RLay :=
  match lookup tb {| k_id := rs_id s; k_ver := rs_ver s; k_kids := map (fun c => (rs_id c, rs_ver c)) st; k_in := i |} with
  | Some sc => unfold sc
  | None => Ret _ _ _ err_out
  end.

Notation rtree := (tree RS RIn ROut RLay).
Definition r_memo (tb : table) := memo RS RIn ROut RLay r_mode N.eqb rs_none r_hidden_out tt (r_algo tb).
Definition r_memo_tr (tb : table) := memo_tr RS RIn ROut RLay r_mode N.eqb rs_none r_hidden_out tt (r_algo tb).
