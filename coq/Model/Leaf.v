(* compute_leaf_layout (src/compute/leaf.rs, all of it), generic over `Num`.  Definitions only.
   The measure function is an argument; every call the Rust code makes is also recorded in a log so that "called at most
   once, with these arguments" is a statement about the model.  Float operations are in source order. *)
From Coq Require Import List Bool.
From TV Require Import Model.Common.
Import ListNotations.

(* ---- the style fields compute_leaf_layout / compute_root_layout read (trait CoreStyle) *)
Inductive Display := DBlock | DFlex | DGrid | DNone.
Inductive Position := Relative | Absolute.
Inductive BoxSizing := BorderBox | ContentBox.
Inductive Overflow := Visible | Clip | Hidden | Scroll.
Inductive RunMode := PerformLayout | ComputeSize | PerformHiddenLayout.
Inductive SizingMode := ContentSize | InherentSize.

Definition display_eqb (a b : Display) : bool :=
  match a, b with DBlock, DBlock | DFlex, DFlex | DGrid, DGrid | DNone, DNone => true | _, _ => false end.
Definition is_scroll (o : Overflow) : bool := match o with Scroll => true | _ => false end.
(* Overflow::is_scroll_container *)
Definition is_scroll_container (o : Overflow) : bool := match o with Visible | Clip => false | Hidden | Scroll => true end.

Record Style (T : Type) := mkStyle {
  display : Display;
  position : Position;
  box_sizing : BoxSizing;
  overflow : Point Overflow;
  scrollbar_width : T;
  size : Size (Dimension T);
  min_size : Size (Dimension T);
  max_size : Size (Dimension T);
  aspect_ratio : option T;
  margin : Rect (LengthPercentageAuto T);
  padding : Rect (LengthPercentage T);
  border : Rect (LengthPercentage T);
}.
Arguments display {T}. Arguments position {T}. Arguments box_sizing {T}. Arguments overflow {T}.
Arguments scrollbar_width {T}. Arguments size {T}. Arguments min_size {T}. Arguments max_size {T}.
Arguments aspect_ratio {T}. Arguments margin {T}. Arguments padding {T}. Arguments border {T}.
Arguments mkStyle {T}.

(* CoreStyle::is_block for Style *)
Definition is_block {T} (s : Style T) : bool := match display s with DBlock => true | _ => false end.

(* tree/layout.rs: LayoutInput (axis and vertical_margins_are_collapsible are not read by the leaf routine) *)
Record LayoutInput (T : Type) := mkInput {
  run_mode : RunMode;
  sizing_mode : SizingMode;
  known_dimensions : Size (option T);
  parent_size : Size (option T);
  available_space : Size (AvailableSpace T);
}.
Arguments run_mode {T}. Arguments sizing_mode {T}. Arguments known_dimensions {T}. Arguments parent_size {T}.
Arguments available_space {T}. Arguments mkInput {T}.

(* CollapsibleMarginSet { positive, negative } *)
Record MarginSet (T : Type) := mkMarginSet { ms_positive : T; ms_negative : T }.
Arguments mkMarginSet {T}. Arguments ms_positive {T}. Arguments ms_negative {T}.

Record LayoutOutput (T : Type) := mkOutput {
  out_size : Size T;
  out_content_size : Size T;
  first_baselines : Point (option T);
  top_margin : MarginSet T;
  bottom_margin : MarginSet T;
  margins_can_collapse_through : bool;
}.
Arguments out_size {T}. Arguments out_content_size {T}. Arguments first_baselines {T}. Arguments top_margin {T}.
Arguments bottom_margin {T}. Arguments margins_can_collapse_through {T}. Arguments mkOutput {T}.

(* one invocation of the measure function: (known_dimensions, available_space) *)
Definition MeasureCall (T : Type) : Type := (Size (option T) * Size (AvailableSpace T))%type.
Definition MeasureFn (T : Type) : Type := Size (option T) -> Size (AvailableSpace T) -> Size T.

Section Leaf.
  Context {T : Type} `{Num T}.

  Definition margin_set_ZERO : MarginSet T := mkMarginSet zero zero.

  (* LayoutOutput::HIDDEN *)
  Definition output_HIDDEN : LayoutOutput T :=
    mkOutput size_ZERO size_ZERO point_NONE margin_set_ZERO margin_set_ZERO false.

  (* the values computed before the early return; shared by the theorems *)
  Record LeafEnv := mkLeafEnv {
    le_margin : Rect T;
    le_padding : Rect T;
    le_border : Rect T;
    le_padding_border : Rect T;
    le_node_size : Size (option T);
    le_node_min_size : Size (option T);
    le_node_max_size : Size (option T);
    le_aspect_ratio : option T;
    le_content_box_inset : Rect T;
    le_prevent_collapse : bool;      (* has_styles_preventing_being_collapsed_through *)
  }.

  Definition leaf_env (inputs : LayoutInput T) (style : Style T) : LeafEnv :=
    let known_dimensions := known_dimensions inputs in
    let parent_size := parent_size inputs in
    (* percentage padding/border/margin of both axes resolve against the inline size (width) *)
    let margin := rect_resolve_or_zero_lpa (margin style) (width parent_size) in
    let padding := rect_resolve_or_zero_lp (padding style) (width parent_size) in
    let border := rect_resolve_or_zero_lp (border style) (width parent_size) in
    let padding_border := rect_add padding border in
    let pb_sum := sum_axes padding_border in
    let box_sizing_adjustment := match box_sizing style with ContentBox => pb_sum | BorderBox => size_ZERO end in
    let '(node_size, node_min_size, node_max_size, aspect_ratio) :=
      match sizing_mode inputs with
      | ContentSize => (known_dimensions, size_NONE, size_NONE, None)
      | InherentSize =>
          let aspect_ratio := aspect_ratio style in
          let style_size :=
            size_maybe_add_of
              (maybe_apply_aspect_ratio (size_maybe_resolve_dim (size style) parent_size) aspect_ratio)
              box_sizing_adjustment in
          let style_min_size :=
            size_maybe_add_of
              (maybe_apply_aspect_ratio (size_maybe_resolve_dim (min_size style) parent_size) aspect_ratio)
              box_sizing_adjustment in
          let style_max_size :=
            size_maybe_add_of (size_maybe_resolve_dim (max_size style) parent_size) box_sizing_adjustment in
          let node_size := size_or known_dimensions style_size in
          (node_size, style_min_size, style_max_size, aspect_ratio)
      end in
    (* scrollbar gutters: axes transposed (a node that scrolls vertically reserves horizontal space) *)
    let scrollbar_gutter :=
      point_map (fun o => match o with Scroll => scrollbar_width style | _ => zero end)
                (point_transpose (overflow style)) in
    let content_box_inset :=
      mkRect (r_left padding_border) (add (r_right padding_border) (px scrollbar_gutter))
             (r_top padding_border) (add (r_bottom padding_border) (py scrollbar_gutter)) in
    let prevent :=
      negb (is_block style)
      || is_scroll_container (px (overflow style))
      || is_scroll_container (py (overflow style))
      || match position style with Absolute => true | Relative => false end
      || gtb (r_top padding) zero
      || gtb (r_bottom padding) zero
      || gtb (r_top border) zero
      || gtb (r_bottom border) zero
      || opt_gt_zero (height node_size)
      || opt_gt_zero (height node_min_size) in
    mkLeafEnv margin padding border padding_border node_size node_min_size node_max_size aspect_ratio
              content_box_inset prevent.

  (* the early return: RunMode::ComputeSize, not collapsible-through, both dimensions known *)
  Definition leaf_early (inputs : LayoutInput T) (env : LeafEnv) : option (LayoutOutput T) :=
    match run_mode inputs with
    | ComputeSize =>
        if le_prevent_collapse env then
          match width (le_node_size env), height (le_node_size env) with
          | Some w, Some h =>
              let size :=
                size_maybe_max_fo
                  (size_maybe_clamp_fo (mkSize w h) (le_node_min_size env) (le_node_max_size env))
                  (size_map Some (sum_axes (le_padding_border env))) in
              Some (mkOutput size size_ZERO point_NONE margin_set_ZERO margin_set_ZERO false)
          | _, _ => None
          end
        else None
    | _ => None
    end.

  (* the available space handed to the measure function *)
  Definition leaf_available_space (inputs : LayoutInput T) (env : LeafEnv) : Size (AvailableSpace T) :=
    let kd := known_dimensions inputs in
    let av := available_space inputs in
    mkSize
      (avail_map_definite_value
         (avail_maybe_set
            (avail_maybe_set
               (maybe_sub_af
                  (opt_unwrap_or (option_map (@Definite T) (width kd)) (width av))
                  (horizontal_axis_sum (le_margin env)))
               (width kd))
            (width (le_node_size env)))
         (fun size => sub (maybe_clamp_fo size (width (le_node_min_size env)) (width (le_node_max_size env)))
                          (horizontal_axis_sum (le_content_box_inset env))))
      (avail_map_definite_value
         (avail_maybe_set
            (avail_maybe_set
               (maybe_sub_af
                  (opt_unwrap_or (option_map (@Definite T) (height kd)) (height av))
                  (vertical_axis_sum (le_margin env)))
               (height kd))
            (height (le_node_size env)))
         (fun size => sub (maybe_clamp_fo size (height (le_node_min_size env)) (height (le_node_max_size env)))
                          (vertical_axis_sum (le_content_box_inset env)))).

  (* first argument of the measure call; None = `unreachable!()` *)
  Definition leaf_measure_known (inputs : LayoutInput T) : option (Size (option T)) :=
    match run_mode inputs with
    | ComputeSize => Some (known_dimensions inputs)
    | PerformLayout => Some size_NONE
    | PerformHiddenLayout => None
    end.

  (* the part after the measure call *)
  Definition leaf_finish (inputs : LayoutInput T) (env : LeafEnv) (measured_size : Size T) : LayoutOutput T :=
    let clamped_size :=
      size_maybe_clamp_fo
        (size_unwrap_or (size_or (known_dimensions inputs) (le_node_size env))
                        (size_add measured_size (sum_axes (le_content_box_inset env))))
        (le_node_min_size env) (le_node_max_size env) in
    let size :=
      mkSize (width clamped_size)
             (fmax (height clamped_size)
                   (opt_unwrap_or (option_map (fun ratio => div (width clamped_size) ratio) (le_aspect_ratio env)) zero)) in
    let size := size_maybe_max_fo size (size_map Some (sum_axes (le_padding_border env))) in
    mkOutput size
             (size_add measured_size (sum_axes (le_padding env)))
             point_NONE margin_set_ZERO margin_set_ZERO
             (negb (le_prevent_collapse env) && eqb (height size) zero && eqb (height measured_size) zero).

  (* compute_leaf_layout: None = panic (`unreachable!()` for RunMode::PerformHiddenLayout); otherwise the output
     and the log of measure calls *)
  Definition compute_leaf_layout (inputs : LayoutInput T) (style : Style T) (measure : MeasureFn T)
    : option (LayoutOutput T * list (MeasureCall T)) :=
    let env := leaf_env inputs style in
    match leaf_early inputs env with
    | Some out => Some (out, [])
    | None =>
        let avail := leaf_available_space inputs env in
        match leaf_measure_known inputs with
        | None => None
        | Some known =>
            let measured_size := measure known avail in
            Some (leaf_finish inputs env measured_size, [(known, avail)])
        end
    end.
End Leaf.
