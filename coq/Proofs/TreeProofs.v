From Coq Require Import NArith List Bool Arith Lia.
From TV Require Import Model.Tree.
Import ListNotations.
Lemma stub : True. Proof. exact I. Qed.
