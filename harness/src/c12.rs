//! C12: content-box and border-box sizing are interchangeable.
//!
//! A node is *eligible* when its padding and border are lengths, it has no aspect ratio and each of size / min_size /
//! max_size (both axes) / flex_basis is `auto` or a length.  *Switching* an eligible node rewrites
//!   content-box -> border-box with every such length increased by padding+border of its axis
//!   border-box  -> content-box with every such length decreased by it (only when every length is >= padding+border)
//! (flex_basis: the main axis of the parent flex container; untouched when the parent is not a flex container, where it is
//! never read).  The property: the two trees lay out identically, node for node.
//!
//! `vh c12 oracle <seed> <start> <n>`  random trees (treegen, dyadic lengths so that `l + pb` is exact in every association
//!       the 15 sites use), a random subset of nodes made eligible and switched, both trees laid out from scratch without
//!       rounding, every node's unrounded Layout compared bit for bit.  Lines:
//!         FAIL <idx> ...    a difference that is not explained by a recorded finding (replay: vh c12 one <seed> <idx>)
//!         KNOWN <idx> <id>  a difference that vanishes when the trigger of the recorded finding <id> is removed
//!         ORACLE k=v ...    counters
//! `vh c12 one <seed> <idx>`           the same for one case, verbose.
//! `vh c12 demo`                       the minimal reproducer of the recorded finding (grid item, compressible replaced).
//! `vh c12 cases <seed> <n>`           K: C19-format leaf cases (62 integers, see c19.rs) restricted to eligible content-box
//!       styles; `R <len r1> <r1...> <r2...>` = the implementation's C19 result line on the content-box style (r1) and on
//!       the style rewritten to border-box by this harness (r2).  The model side (Model/BoxSizingRun.v) runs the Coq
//!       `to_border_box` on the same content-box style.
use crate::c19;
use crate::rng::Rng;
use crate::treegen::*;
use std::collections::HashSet;
use taffy::prelude::*;
use taffy::{BoxSizing, CompactLength};

pub const KNOWN_ID: &str = "grid-compressible-replaced-max-size";

fn lp_len(v: LengthPercentage) -> Option<f32> {
    let r = v.into_raw();
    if r.tag() == CompactLength::LENGTH_TAG {
        Some(r.value())
    } else {
        None
    }
}

/// 0 auto, 1 length, 2 percent (calc never generated)
fn dim_kind(d: Dimension) -> (u8, f32) {
    let r = d.into_raw();
    if r.tag() == CompactLength::AUTO_TAG {
        (0, 0.0)
    } else if r.tag() == CompactLength::LENGTH_TAG {
        (1, r.value())
    } else {
        (2, r.value())
    }
}

/// padding + border per axis, associated as the source does: `(padding + border).sum_axes()`
pub fn pb_of(s: &Style) -> Option<Size<f32>> {
    let p = &s.padding;
    let b = &s.border;
    let (pl, pr, pt, pbm) = (lp_len(p.left)?, lp_len(p.right)?, lp_len(p.top)?, lp_len(p.bottom)?);
    let (bl, br, bt, bb) = (lp_len(b.left)?, lp_len(b.right)?, lp_len(b.top)?, lp_len(b.bottom)?);
    Some(Size { width: (pl + bl) + (pr + br), height: (pt + bt) + (pbm + bb) })
}

fn dims(s: &Style) -> [Dimension; 7] {
    [s.size.width, s.size.height, s.min_size.width, s.min_size.height, s.max_size.width, s.max_size.height, s.flex_basis]
}

pub fn eligible(s: &Style) -> bool {
    pb_of(s).is_some() && s.aspect_ratio.is_none() && dims(s).iter().all(|d| dim_kind(*d).0 != 2)
}

/// Turn a generated style into an eligible one, keeping everything else.
fn make_eligible(rng: &mut Rng, cfg: &GenCfg, s: &mut Style) {
    let fix_lp = |rng: &mut Rng, v: &mut LengthPercentage, max: u64| {
        if lp_len(*v).is_none() {
            *v = LengthPercentage::length(len_value(rng, cfg, max));
        }
    };
    for v in [&mut s.padding.left, &mut s.padding.right, &mut s.padding.top, &mut s.padding.bottom] {
        fix_lp(rng, v, 10);
    }
    for v in [&mut s.border.left, &mut s.border.right, &mut s.border.top, &mut s.border.bottom] {
        fix_lp(rng, v, 6);
    }
    s.aspect_ratio = None;
    let fix_dim = |rng: &mut Rng, d: &mut Dimension| {
        if dim_kind(*d).0 == 2 {
            *d = if rng.chance(1, 4) { Dimension::auto() } else { Dimension::length(len_value(rng, cfg, 200)) };
        }
    };
    fix_dim(rng, &mut s.size.width);
    fix_dim(rng, &mut s.size.height);
    fix_dim(rng, &mut s.min_size.width);
    fix_dim(rng, &mut s.min_size.height);
    fix_dim(rng, &mut s.max_size.width);
    fix_dim(rng, &mut s.max_size.height);
    fix_dim(rng, &mut s.flex_basis);
}

/// The other box-sizing mode of an eligible style.  `parent_row`: Some(is_row) when the parent is a flex container.
/// None when the node cannot be switched (border-box with a length below padding+border).
pub fn switch(s: &Style, parent_row: Option<bool>) -> Option<Style> {
    let pb = pb_of(s)?;
    if !eligible(s) {
        return None;
    }
    let to_border = s.box_sizing == BoxSizing::ContentBox;
    let mut ok = true;
    let mut mv = |d: Dimension, by: f32| -> Dimension {
        match dim_kind(d) {
            (1, l) => {
                if to_border {
                    Dimension::length(l + by)
                } else {
                    if l < by {
                        ok = false;
                    }
                    Dimension::length(l - by)
                }
            }
            _ => d,
        }
    };
    let mut t = s.clone();
    t.size = Size { width: mv(s.size.width, pb.width), height: mv(s.size.height, pb.height) };
    t.min_size = Size { width: mv(s.min_size.width, pb.width), height: mv(s.min_size.height, pb.height) };
    t.max_size = Size { width: mv(s.max_size.width, pb.width), height: mv(s.max_size.height, pb.height) };
    if let Some(row) = parent_row {
        t.flex_basis = mv(s.flex_basis, if row { pb.width } else { pb.height });
    }
    t.box_sizing = if to_border { BoxSizing::BorderBox } else { BoxSizing::ContentBox };
    if ok {
        Some(t)
    } else {
        None
    }
}

/// does the switch change more than the box_sizing flag?
fn nontrivial_switch(a: &Style, b: &Style) -> bool {
    dims(a).iter().zip(dims(b).iter()).any(|(x, y)| dim_kind(*x) != dim_kind(*y))
}

pub struct Case {
    pub a: NodeSpec,
    pub b: NodeSpec,
    pub avail: Size<AvailableSpace>,
    /// pre-order indices of the switched nodes
    pub switched: Vec<usize>,
    /// switched nodes that are children of a grid container, compressible-replaced, with a length max_size: the trigger of KNOWN_ID
    pub trigger: Vec<usize>,
    pub nontrivial: bool,
}

fn prepare(rng: &mut Rng, cfg: &GenCfg, n: &mut NodeSpec) {
    if rng.chance(1, 8) {
        n.style.item_is_replaced = true;
    }
    // the other rarely used style flag: a table box is sized like any other as far as box-sizing goes
    if rng.chance(1, 10) {
        n.style.item_is_table = true;
    }
    if rng.chance(1, 2) {
        make_eligible(rng, cfg, &mut n.style);
        if rng.chance(1, 2) {
            n.style.box_sizing = BoxSizing::ContentBox;
        }
        // mark as candidate through a scratch field that layout never reads: none available, so recompute eligibility later
    }
    for c in n.children.iter_mut() {
        prepare(rng, cfg, c);
    }
}

#[allow(clippy::too_many_arguments)]
fn rewrite(rng: &mut Rng, a: &NodeSpec, parent: Option<&Style>, idx: &mut usize, sw: &mut Vec<usize>, trig: &mut Vec<usize>, nontriv: &mut bool) -> NodeSpec {
    let me = *idx;
    *idx += 1;
    let mut out = NodeSpec { style: a.style.clone(), ctx: a.ctx.clone(), children: vec![] };
    if eligible(&a.style) && rng.chance(2, 3) {
        let parent_row = match parent {
            Some(p) if p.display == Display::Flex => Some(matches!(p.flex_direction, FlexDirection::Row | FlexDirection::RowReverse)),
            _ => None,
        };
        if let Some(t) = switch(&a.style, parent_row) {
            if nontrivial_switch(&a.style, &t) {
                *nontriv = true;
            }
            let grid_child = matches!(parent, Some(p) if p.display == Display::Grid);
            if grid_child && a.style.item_is_replaced && (dim_kind(a.style.max_size.width).0 == 1 || dim_kind(a.style.max_size.height).0 == 1) {
                trig.push(me);
            }
            out.style = t;
            sw.push(me);
        }
    }
    for c in &a.children {
        let ch = rewrite(rng, c, Some(&a.style), idx, sw, trig, nontriv);
        out.children.push(ch);
    }
    out
}

pub fn case(seed: u64, idx: u64) -> Case {
    let mut rng = Rng::new(seed.wrapping_mul(0x9E37_79B9).wrapping_add(idx).wrapping_mul(0xC12));
    let mut cfg = GenCfg::default();
    cfg.fractional = false;
    cfg.content_box = true;
    match idx % 5 {
        1 => {
            cfg.displays = vec![Display::Grid];
            cfg.max_depth = 2;
            cfg.p_absolute = 120;
        }
        2 => cfg.displays = vec![Display::Flex],
        3 => cfg.displays = vec![Display::Block],
        4 => {
            cfg.max_nodes = 20;
            cfg.max_children = 5;
        }
        _ => {}
    }
    let mut a = tree(&mut rng, &cfg);
    let avail = avail(&mut rng, &cfg);
    prepare(&mut rng, &cfg, &mut a);
    let (mut i, mut sw, mut trig, mut nontriv) = (0usize, vec![], vec![], false);
    let b = rewrite(&mut rng, &a, None, &mut i, &mut sw, &mut trig, &mut nontriv);
    Case { a, b, avail, switched: sw, trigger: trig, nontrivial: nontriv }
}

fn layouts(spec: &NodeSpec, avail: Size<AvailableSpace>) -> Result<Vec<Vec<u32>>, String> {
    let r = std::panic::catch_unwind(|| {
        let mut t: TaffyTree<Ctx> = TaffyTree::new();
        t.disable_rounding();
        let mut ids = vec![];
        let root = build(&mut t, spec, &mut ids);
        compute(&mut t, root, avail);
        ids.iter().map(|id| layout_bits(t.unrounded_layout(*id))).collect::<Vec<_>>()
    });
    r.map_err(|e| e.downcast_ref::<String>().cloned().or_else(|| e.downcast_ref::<&str>().map(|s| s.to_string())).unwrap_or_default())
}

const FIELDS: [&str; 21] = [
    "order", "location.x", "location.y", "size.width", "size.height", "content_size.width", "content_size.height", "scrollbar_size.width",
    "scrollbar_size.height", "border.left", "border.right", "border.top", "border.bottom", "padding.left", "padding.right", "padding.top",
    "padding.bottom", "margin.left", "margin.right", "margin.top", "margin.bottom",
];

/// first difference: (node, field, value in a, value in b), and the largest relative difference over all fields
fn first_diff(la: &[Vec<u32>], lb: &[Vec<u32>]) -> Option<(usize, usize, f32, f32, f32)> {
    let mut first = None;
    let mut worst = 0.0f32;
    for (n, (x, y)) in la.iter().zip(lb.iter()).enumerate() {
        for k in 0..x.len() {
            if x[k] != y[k] {
                let (fa, fb) = if k == 0 { (x[k] as f32, y[k] as f32) } else { (f32::from_bits(x[k]), f32::from_bits(y[k])) };
                if fa.is_nan() && fb.is_nan() {
                    continue;
                }
                let rel = (fa - fb).abs() / (1.0 + fa.abs().max(fb.abs()));
                worst = worst.max(if rel.is_nan() { f32::INFINITY } else { rel });
                if first.is_none() {
                    first = Some((n, k, fa, fb));
                }
            }
        }
    }
    first.map(|(n, k, fa, fb)| (n, k, fa, fb, worst))
}

fn clear_trigger(n: &mut NodeSpec, idx: &mut usize, trig: &[usize]) {
    if trig.contains(idx) {
        n.style.item_is_replaced = false;
    }
    *idx += 1;
    for c in n.children.iter_mut() {
        clear_trigger(c, idx, trig);
    }
}

pub enum Verdict {
    Same,
    BothPanic,
    Fail(String),
    Known(String),
}

pub fn judge(c: &Case) -> Verdict {
    let la = layouts(&c.a, c.avail);
    let lb = layouts(&c.b, c.avail);
    match (la, lb) {
        (Err(_), Err(_)) => Verdict::BothPanic,
        (Err(m), Ok(_)) => Verdict::Fail(format!("original tree panics ({}), switched tree does not", m.replace('\n', " "))),
        (Ok(_), Err(m)) => Verdict::Fail(format!("switched tree panics ({}), original tree does not", m.replace('\n', " "))),
        (Ok(la), Ok(lb)) => match first_diff(&la, &lb) {
            None => Verdict::Same,
            Some((n, k, fa, fb, worst)) => {
                let msg = format!("node={} field={} original={} switched={} max_rel_diff={:e} switched_nodes={:?}", n, FIELDS[k], fa, fb, worst, c.switched);
                if !c.trigger.is_empty() {
                    // the recorded finding: GridItem::minimum_contribution caps a compressible replaced item by its raw max_size
                    let (mut a2, mut b2) = (c.a.clone(), c.b.clone());
                    clear_trigger(&mut a2, &mut 0, &c.trigger);
                    clear_trigger(&mut b2, &mut 0, &c.trigger);
                    if let (Ok(x), Ok(y)) = (layouts(&a2, c.avail), layouts(&b2, c.avail)) {
                        if first_diff(&x, &y).is_none() {
                            return Verdict::Known(format!("{} trigger_nodes={:?}", msg, c.trigger));
                        }
                    }
                }
                Verdict::Fail(msg)
            }
        },
    }
}

/// The minimal reproducer of the recorded finding: a 0-wide grid with one `auto` column and one child (measured 100x10,
/// padding 5+5, max-width 10 content-box resp. 20 border-box); returns the child's width in the two modes.
pub fn demo(replaced: bool) -> (f32, f32) {
    let run = |bs: BoxSizing, max_w: f32| {
        let child = NodeSpec {
            style: Style {
                box_sizing: bs,
                item_is_replaced: replaced,
                max_size: Size { width: Dimension::length(max_w), height: Dimension::auto() },
                padding: Rect { left: LengthPercentage::length(5.0), right: LengthPercentage::length(5.0), top: zero(), bottom: zero() },
                ..Default::default()
            },
            ctx: Some(Ctx::Fixed(100.0, 10.0)),
            children: vec![],
        };
        let root = NodeSpec {
            style: Style { display: Display::Grid, size: Size { width: Dimension::length(0.0), height: Dimension::auto() }, grid_template_columns: vec![auto()], ..Default::default() },
            ctx: None,
            children: vec![child],
        };
        let l = layouts(&root, Size::MAX_CONTENT).unwrap();
        // the child's border-box width = the width of the only column (index 3 = size.width)
        f32::from_bits(l[1][3])
    };
    (run(BoxSizing::ContentBox, 10.0), run(BoxSizing::BorderBox, 20.0))
}

// ------------------------------------------------------------------------------------------------ K cases

fn b(x: f32) -> u64 {
    x.to_bits() as u64
}
fn f(bits: u64) -> f32 {
    f32::from_bits(bits as u32)
}

/// an eligible content-box C19 case and its border-box rewrite
pub fn leaf_pair(rng: &mut Rng, kind: u64) -> (Vec<u64>, Vec<u64>) {
    let mut c = c19::gen_case(rng, kind, false);
    let dy = |rng: &mut Rng, max: u64| b((rng.below(max * 4) as f32) / 4.0);
    c[3] = 1;
    c[19] = 0;
    c[20] = 0;
    for base in [29usize, 37] {
        for i in 0..4 {
            if c[base + 2 * i] != 1 {
                c[base + 2 * i] = 1;
                c[base + 1 + 2 * i] = dy(rng, if base == 29 { 10 } else { 6 });
            }
        }
    }
    for i in 0..6 {
        if c[7 + 2 * i] == 2 {
            c[7 + 2 * i] = 1;
            c[8 + 2 * i] = dy(rng, 200);
        }
    }
    // (padding + border).sum_axes(): (l + l') + (r + r')
    let pbw = (f(c[30]) + f(c[38])) + (f(c[32]) + f(c[40]));
    let pbh = (f(c[34]) + f(c[42])) + (f(c[36]) + f(c[44]));
    let mut d = c.clone();
    d[3] = 0;
    for i in 0..6 {
        if c[7 + 2 * i] == 1 {
            let by = if i % 2 == 0 { pbw } else { pbh };
            d[8 + 2 * i] = b(f(c[8 + 2 * i]) + by);
        }
    }
    (c, d)
}

fn join(v: &[u64]) -> String {
    v.iter().map(|x| x.to_string()).collect::<Vec<_>>().join(" ")
}

pub fn main(args: &[String]) {
    if std::env::var("VH_BACKTRACE").is_err() {
        std::panic::set_hook(Box::new(|_| {}));
    }
    match args[0].as_str() {
        "oracle" => {
            let seed: u64 = args[1].parse().unwrap();
            let start: u64 = args[2].parse().unwrap();
            let n: u64 = args[3].parse().unwrap();
            let (mut compared, mut exact, mut panics, mut known, mut fails, mut nontrivial, mut switched, mut to_border, mut to_content) = (0u64, 0u64, 0u64, 0u64, 0u64, 0u64, 0u64, 0u64, 0u64);
            let mut distinct: HashSet<u64> = HashSet::new();
            for idx in start..start + n {
                let c = case(seed, idx);
                switched += c.switched.len() as u64;
                if c.nontrivial {
                    nontrivial += 1;
                    use std::hash::{Hash, Hasher};
                    let mut h = std::collections::hash_map::DefaultHasher::new();
                    format!("{:?}{:?}{:?}", c.a, c.switched, c.avail).hash(&mut h);
                    distinct.insert(h.finish());
                }
                count_dirs(&c.a, &c.b, &mut to_border, &mut to_content);
                match judge(&c) {
                    Verdict::Same => {
                        compared += 1;
                        exact += 1;
                    }
                    Verdict::BothPanic => panics += 1,
                    Verdict::Known(m) => {
                        compared += 1;
                        known += 1;
                        if known <= 5 {
                            println!("KNOWN {idx} {KNOWN_ID} {m}");
                        }
                    }
                    Verdict::Fail(m) => {
                        compared += 1;
                        fails += 1;
                        if fails <= 20 {
                            println!("FAIL {idx} {m}");
                        }
                    }
                }
            }
            println!(
                "ORACLE trees={} compared={} exact={} both_panic={} known={} fails={} nontrivial={} distinct_nontrivial={} switched_nodes={} to_border_box={} to_content_box={}",
                n, compared, exact, panics, known, fails, nontrivial, distinct.len(), switched, to_border, to_content
            );
        }
        "one" => {
            let seed: u64 = args[1].parse().unwrap();
            let idx: u64 = args[2].parse().unwrap();
            let c = case(seed, idx);
            println!("ORIGINAL {:#?}\nSWITCHED {:#?}\navail={:?} switched={:?} trigger={:?}", c.a, c.b, c.avail, c.switched, c.trigger);
            match judge(&c) {
                Verdict::Same => println!("SAME"),
                Verdict::BothPanic => println!("BOTH-PANIC"),
                Verdict::Known(m) => println!("KNOWN {idx} {KNOWN_ID} {m}"),
                Verdict::Fail(m) => println!("FAIL {idx} {m}"),
            }
        }
        "demo" => {
            let (cb, bb) = demo(true);
            let (cb0, bb0) = demo(false);
            println!("DEMO replaced content_box={} border_box={}", cb, bb);
            println!("DEMO plain content_box={} border_box={}", cb0, bb0);
        }
        "cases" => {
            let seed: u64 = args[1].parse().unwrap();
            let n: u64 = args[2].parse().unwrap();
            let mut rng = Rng::new(seed ^ 0xC12C12);
            for i in 0..n {
                let (c, d) = leaf_pair(&mut rng, i % 2);
                let r1 = c19::run_impl(&c);
                let r2 = c19::run_impl(&d);
                let mut r = vec![r1.len() as u64];
                r.extend(r1);
                r.extend(r2);
                println!("C {}\nR {}", join(&c), join(&r));
            }
        }
        "pair" => {
            // one K case given as 62 integers
            let c: Vec<u64> = args[1..].iter().map(|x| x.parse().unwrap()).collect();
            let pbw = (f(c[30]) + f(c[38])) + (f(c[32]) + f(c[40]));
            let pbh = (f(c[34]) + f(c[42])) + (f(c[36]) + f(c[44]));
            let mut d = c.clone();
            d[3] = 0;
            for i in 0..6 {
                if c[7 + 2 * i] == 1 {
                    d[8 + 2 * i] = b(f(c[8 + 2 * i]) + if i % 2 == 0 { pbw } else { pbh });
                }
            }
            let r1 = c19::run_impl(&c);
            let r2 = c19::run_impl(&d);
            let mut r = vec![r1.len() as u64];
            r.extend(r1);
            r.extend(r2);
            println!("C {}\nR {}", join(&c), join(&r));
        }
        _ => std::process::exit(2),
    }
}

fn count_dirs(a: &NodeSpec, b: &NodeSpec, to_border: &mut u64, to_content: &mut u64) {
    if a.style.box_sizing != b.style.box_sizing {
        if a.style.box_sizing == BoxSizing::ContentBox {
            *to_border += 1;
        } else {
            *to_content += 1;
        }
    }
    for (x, y) in a.children.iter().zip(b.children.iter()) {
        count_dirs(x, y, to_border, to_content);
    }
}
