(* Engine skeleton (Model/Engine.v): a Hoare-style reading of the algorithms that lets whole-tree facts about STORED LAYOUTS
   and the child outputs the engine REALLY computed be proved by induction over a resumption alone -- no tree, no cache, no
   evaluation function in that induction.

     St            abstract state of a container's children during one run of its algorithm: per child position its own
                   stored layout and its final-layout cache entry (the input it was last laid out with and the output it
                   returned -- the REAL output, the one the parent's algorithm consumed)
     Post Phi s a  every run of the resumption `a` from abstract state s -- each query a PerformLayout query, answered by ANY
                   output, the child's final entry becoming (a key matching the input, that output); each SetLayout overwriting the
                   child's own layout -- ends in a state / output satisfying Phi
     run_memo_post the memoised evaluation refines it: children that are not display:none keep their own layout through an
                   evaluation and end with exactly that final entry
     TInv          tree invariant "every node whose final entry is (i, o) and that is not display:none satisfies
                   Phi (its style) (its children's styles) i (the abstract state of its children) o"; established by `fresh`,
                   preserved by every PerformLayout evaluation (memo_tinv) and by set_lay, given Post for the algorithm.
   Used by Proofs/BlockTreeFlow.v (C10 whole-tree theorems). *)
From Coq Require Import List Bool Arith Lia.
From TV Require Import Model.Engine.
Import ListNotations.

Section EnginePost.
  Variables (S In Out Lay : Type).
  Variable mode : In -> RunMode.
  Variable in_eqb : In -> In -> bool.
  Variable is_none : S -> bool.
  Variable hidden_out : Out.
  Variable zero_lay : Lay.
  Variable algo : S -> list S -> In -> Alg In Out Lay.

  Notation tree := (tree S In Out Lay).
  Notation Alg := (Alg In Out Lay).
  Notation memo := (memo S In Out Lay mode in_eqb is_none hidden_out zero_lay algo).
  Notation run_memo := (run_memo S In Out Lay).
  Notation style_of := (style_of S In Out Lay).
  Notation lay_of := (lay_of S In Out Lay).
  Notation cache_of := (cache_of S In Out Lay).
  Notation final := (final In Out).
  Notation hide := (hide S In Out Lay zero_lay).
  Notation fresh := (fresh S In Out Lay zero_lay).

  Definition St : Type := nat -> Lay * option (In * Out).
  Definition upd (s : St) (c : nat) (v : Lay * option (In * Out)) : St := fun c' => if Nat.eqb c' c then v else s c'.
  (* the key of the entry that answers / records a query with input i: i itself (miss) or a key the memo identifies with it (hit) *)
  Definition key_match (i' i : In) : Prop := i' = i \/ in_eqb i' i = true.

  Inductive Post (Phi : St -> Out -> Prop) : St -> Alg -> Prop :=
  | P_ret s o : Phi s o -> Post Phi s (Ret In Out Lay o)
  | P_query s c i k : mode i = PerformLayout ->
      (forall o i', key_match i' i -> Post Phi (upd s c (fst (s c), Some (i', o))) (k o)) -> Post Phi s (Query In Out Lay c i k)
  | P_set s c l k : Post Phi (upd s c (l, snd (s c))) k -> Post Phi s (SetLayout In Out Lay c l k).

  Lemma upd_same s c v : upd s c v c = v.
  Proof. unfold upd. rewrite Nat.eqb_refl. reflexivity. Qed.
  Lemma upd_other s c v c' : c' <> c -> upd s c v c' = s c'.
  Proof. intros Hn. unfold upd. destruct (Nat.eqb c' c) eqn:E; [apply Nat.eqb_eq in E; contradiction|reflexivity]. Qed.

  Lemma Post_weaken (Phi Psi : St -> Out -> Prop) : (forall s o, Phi s o -> Psi s o) -> forall s a, Post Phi s a -> Post Psi s a.
  Proof.
    intros Himp s a H. induction H as [s o Ho|s c i k Hm Hk IH|s c l k Hk IH].
    - apply P_ret. apply Himp. exact Ho.
    - apply P_query; [exact Hm|]. intros o i' Hi. apply IH. exact Hi.
    - apply P_set. exact IH.
  Qed.

  (* ---- the concrete side *)
  Definition obs (t : tree) : Lay * option (In * Out) := (lay_of t, final (cache_of t)).
  Definition agrees (kids : list tree) (s : St) : Prop :=
    forall c t, nth_error kids c = Some t -> is_none (style_of t) = false -> s c = obs t.
  (* the abstract state read off a child list *)
  Definition st_of (kids : list tree) : St := fun c => match nth_error kids c with Some t => obs t | None => (zero_lay, None) end.
  Lemma agrees_st_of kids : agrees kids (st_of kids).
  Proof. intros c t Hn _. unfold st_of. rewrite Hn. reflexivity. Qed.

  Definition ev_ok (ev : tree -> In -> option (Out * tree)) : Prop :=
    forall t i o t', ev t i = Some (o, t') -> mode i = PerformLayout ->
      style_of t' = style_of t /\
      (is_none (style_of t) = false -> lay_of t' = lay_of t /\ exists i', key_match i' i /\ final (cache_of t') = Some (i', o)).

  Lemma nth_error_replace_same {A} (l : list A) c x y : nth_error l c = Some y -> nth_error (replace_nth c x l) c = Some x.
  Proof.
    revert l; induction c as [|c IH]; intros [|a l] H; try discriminate; cbn in *; [reflexivity|].
    unfold replace_nth in *. cbn. apply IH. exact H.
  Qed.
  Lemma nth_error_replace_other {A} (l : list A) c c' x y : nth_error l c = Some y -> c' <> c ->
    nth_error (replace_nth c x l) c' = nth_error l c'.
  Proof.
    unfold replace_nth. revert c' l; induction c as [|c IH]; intros c' [|a l] Hn Hne; cbn in Hn; try discriminate.
    - destruct c' as [|c']; [congruence|reflexivity].
    - destruct c' as [|c']; [reflexivity|]. cbn. apply IH; [exact Hn|congruence].
  Qed.
  Lemma map_replace_same {A B} (f : A -> B) (l : list A) c x y : nth_error l c = Some y -> f x = f y -> map f (replace_nth c x l) = map f l.
  Proof.
    intros Hn Hf. unfold replace_nth. revert l Hn; induction c as [|c IH]; intros [|a l] Hn; cbn in Hn; try discriminate.
    - injection Hn as ->. cbn. rewrite Hf. reflexivity.
    - cbn. f_equal. apply IH. exact Hn.
  Qed.

  Lemma run_memo_post ev (Phi : St -> Out -> Prop) : ev_ok ev ->
    forall a s, Post Phi s a -> forall kids o kids', agrees kids s -> run_memo ev kids a = Some (o, kids') ->
      exists s', Phi s' o /\ agrees kids' s' /\ map style_of kids' = map style_of kids.
  Proof.
    intros Hev a s HP. induction HP as [s o Ho|s c i k Hm Hk IH|s c l k Hk IH]; intros kids o0 kids' Hag Hrun; cbn [Engine.run_memo] in Hrun.
    - injection Hrun as <- <-. exists s. split; [exact Ho|]. split; [exact Hag|reflexivity].
    - destruct (nth_error kids c) as [t|] eqn:En; [|discriminate].
      destruct (ev t i) as [[o1 t1]|] eqn:Ee; [|discriminate].
      destruct (Hev t i o1 t1 Ee Hm) as [Hst Hnn].
      assert (Hkey : exists i', key_match i' i /\ (is_none (style_of t) = false -> lay_of t1 = lay_of t /\ final (cache_of t1) = Some (i', o1))).
      { destruct (is_none (style_of t)) eqn:Enone.
        - exists i. split; [left; reflexivity|discriminate].
        - destruct (Hnn eq_refl) as (Hl & i' & Hi' & Hf). exists i'. split; [exact Hi'|]. intros _. split; assumption. }
      destruct Hkey as (i' & Hi' & Hrec).
      destruct (IH o1 i' Hi' (replace_nth c t1 kids) o0 kids') as (s' & Hphi & Hag' & Hsty); [|exact Hrun|].
      + intros c' t' Hn' Hnone'. destruct (Nat.eq_dec c' c) as [->|Hne].
        * rewrite (nth_error_replace_same kids c t1 t En) in Hn'. injection Hn' as <-. rewrite upd_same.
          rewrite Hst in Hnone'. destruct (Hrec Hnone') as [Hl Hf]. unfold obs. rewrite Hl, Hf.
          rewrite (Hag c t En Hnone'). reflexivity.
        * rewrite upd_other by exact Hne. apply Hag; [|exact Hnone'].
          rewrite (nth_error_replace_other kids c c' _ t En Hne) in Hn'. exact Hn'.
      + exists s'. split; [exact Hphi|]. split; [exact Hag'|]. rewrite Hsty. apply (map_replace_same style_of kids c t1 t En Hst).
    - destruct (nth_error kids c) as [t|] eqn:En; [|discriminate].
      destruct (IH (replace_nth c (set_lay S In Out Lay t l) kids) o0 kids') as (s' & Hphi & Hag' & Hsty); [|exact Hrun|].
      + intros c' t' Hn' Hnone'. destruct (Nat.eq_dec c' c) as [->|Hne].
        * rewrite (nth_error_replace_same kids c _ t En) in Hn'. injection Hn' as <-. rewrite upd_same.
          destruct t as [s0 c0 l0 k0]. cbn in Hnone'. rewrite (Hag c _ En Hnone'). reflexivity.
        * rewrite upd_other by exact Hne. apply Hag; [|exact Hnone'].
          rewrite (nth_error_replace_other kids c c' _ t En Hne) in Hn'. exact Hn'.
      + exists s'. split; [exact Hphi|]. split; [exact Hag'|]. rewrite Hsty. apply (map_replace_same style_of kids c _ t En).
        destruct t; reflexivity.
  Qed.

  (* ---- the tree invariant *)
  Variable Phi : S -> list S -> In -> St -> Out -> Prop.
  Hypothesis algo_post : forall s st i sg, mode i = PerformLayout -> Post (Phi s st i) sg (algo s st i).

  Definition node_fact (s : S) (kids : list tree) (i : In) (o : Out) : Prop :=
    exists sg, agrees kids sg /\ Phi s (map style_of kids) i sg o.

  Inductive TInv : tree -> Prop :=
  | TI_node s c l kids : Forall TInv kids ->
      (forall i o, final c = Some (i, o) -> is_none s = false -> node_fact s kids i o) -> TInv (Node S In Out Lay s c l kids).

  Lemma tree_ind_post (P : tree -> Prop) :
    (forall s c l kids, Forall P kids -> P (Node S In Out Lay s c l kids)) -> forall t, P t.
  Proof.
    intros H. fix IH 1. intros [s c l kids]. apply H. induction kids as [|k kids IHk]; constructor; [apply IH|exact IHk].
  Qed.

  Lemma tinv_hide t : TInv (hide t).
  Proof.
    induction t as [s c l kids IH] using tree_ind_post. cbn [Engine.hide]. constructor.
    - apply Forall_forall. intros x Hx. apply in_map_iff in Hx. destruct Hx as [y [<- Hy]]. rewrite Forall_forall in IH. apply IH. exact Hy.
    - intros i o Hf. discriminate Hf.
  Qed.
  Lemma sk_ind_post (P : sk S -> Prop) :
    (forall s kids, Forall P kids -> P (SNode S s kids)) -> forall t, P t.
  Proof.
    intros H. fix IH 1. intros [s kids]. apply H. induction kids as [|k kids IHk]; constructor; [apply IH|exact IHk].
  Qed.
  Lemma tinv_fresh k : TInv (fresh k).
  Proof.
    induction k as [s kids IH] using sk_ind_post. cbn [Engine.fresh]. constructor.
    - apply Forall_forall. intros x Hx. apply in_map_iff in Hx. destruct Hx as [y [<- Hy]]. rewrite Forall_forall in IH. apply IH. exact Hy.
    - intros i o Hf. discriminate Hf.
  Qed.
  Lemma tinv_set_lay t l : TInv t -> TInv (set_lay S In Out Lay t l).
  Proof. intros H. destruct H as [s c l0 kids Hk Hf]. cbn. constructor; assumption. Qed.

  Definition ev_tinv (ev : tree -> In -> option (Out * tree)) : Prop :=
    forall t i o t', ev t i = Some (o, t') -> mode i = PerformLayout -> TInv t -> TInv t'.

  Lemma Forall_firstn_p {A} (P : A -> Prop) l : Forall P l -> forall n, Forall P (firstn n l).
  Proof. induction 1 as [|x l Hx Hl IH]; intros [|n]; cbn [firstn]; constructor; [exact Hx|apply IH]. Qed.
  Lemma Forall_skipn_p {A} (P : A -> Prop) l : Forall P l -> forall n, Forall P (skipn n l).
  Proof. induction 1 as [|x l Hx Hl IH]; intros [|n]; cbn [skipn]; try constructor; try assumption. apply IH. Qed.
  Lemma Forall_replace {A} (P : A -> Prop) l c x : Forall P l -> P x -> Forall P (replace_nth c x l).
  Proof.
    intros Hl Hx. unfold replace_nth. apply Forall_app. split; [apply Forall_firstn_p; exact Hl|].
    constructor; [exact Hx|apply Forall_skipn_p; exact Hl].
  Qed.
  Lemma Forall_nth {A} (P : A -> Prop) l c x : Forall P l -> nth_error l c = Some x -> P x.
  Proof. intros Hl Hn. rewrite Forall_forall in Hl. apply Hl. eapply nth_error_In; exact Hn. Qed.

  Lemma run_memo_tinv ev : ev_tinv ev -> forall (F : St -> Out -> Prop) a s, Post F s a ->
    forall kids o kids', Forall TInv kids -> run_memo ev kids a = Some (o, kids') -> Forall TInv kids'.
  Proof.
    intros Hev F a s HP. induction HP as [s o Ho|s c i k Hm Hk IH|s c l k Hk IH]; intros kids o0 kids' Hall Hrun; cbn [Engine.run_memo] in Hrun.
    - injection Hrun as <- <-. exact Hall.
    - destruct (nth_error kids c) as [t|] eqn:En; [|discriminate].
      destruct (ev t i) as [[o1 t1]|] eqn:Ee; [|discriminate].
      apply (IH o1 i (or_introl eq_refl) (replace_nth c t1 kids) o0 kids'); [|exact Hrun].
      apply Forall_replace; [exact Hall|]. apply (Hev t i o1 t1 Ee Hm). eapply Forall_nth; eassumption.
    - destruct (nth_error kids c) as [t|] eqn:En; [|discriminate].
      apply (IH (replace_nth c (set_lay S In Out Lay t l) kids) o0 kids'); [|exact Hrun].
      apply Forall_replace; [exact Hall|]. apply tinv_set_lay. eapply Forall_nth; eassumption.
  Qed.

  (* what one memoised evaluation does to the evaluated node itself *)
  Lemma memo_ev_ok f : ev_ok (memo f).
  Proof.
    intros t i o t' H Hm. destruct f as [|f]; [discriminate|]. destruct t as [s c l kids]. cbn [Engine.memo] in H. rewrite Hm in H.
    destruct (cget In Out mode in_eqb c i) as [o1|] eqn:Eg.
    - injection H as <- <-. split; [reflexivity|]. intros _. split; [reflexivity|].
      unfold cget in Eg. rewrite Hm in Eg. destruct (final c) as [[i' o']|] eqn:Ef; [|discriminate].
      destruct (in_eqb i' i) eqn:Ek; [|discriminate]. injection Eg as <-. exists i'. split; [right; exact Ek|exact Ef].
    - destruct (is_none s) eqn:En.
      + injection H as <- <-. split; [reflexivity|]. cbn. rewrite En. discriminate.
      + destruct (Engine.run_memo S In Out Lay (memo f) kids (algo s (map style_of kids) i)) as [[o1 kids1]|]; [|discriminate].
        injection H as <- <-. split; [reflexivity|]. intros _. split; [reflexivity|].
        exists i. split; [left; reflexivity|]. cbn. unfold cstore. rewrite Hm. reflexivity.
  Qed.

  Theorem memo_tinv : forall f, ev_tinv (memo f).
  Proof.
    induction f as [|f IH]; intros t i o t' H Hm HT; [discriminate|].
    destruct t as [s c l kids]. cbn [Engine.memo] in H. rewrite Hm in H.
    destruct (cget In Out mode in_eqb c i) as [o1|] eqn:Eg; [injection H as <- <-; exact HT|].
    inversion HT as [s0 c0 l0 k0 Hkids Hfact]; subst.
    destruct (is_none s) eqn:En.
    - injection H as <- <-. constructor.
      + apply Forall_forall. intros x Hx. apply in_map_iff in Hx. destruct Hx as [y [<- _]]. apply tinv_hide.
      + intros i0 o0 _ Hnone. congruence.
    - destruct (Engine.run_memo S In Out Lay (memo f) kids (algo s (map style_of kids) i)) as [[o1 kids1]|] eqn:Er; [|discriminate].
      injection H as <- <-.
      pose proof (algo_post s (map style_of kids) i (st_of kids) Hm) as HP.
      constructor.
      + eapply run_memo_tinv; [exact IH|exact HP|exact Hkids|exact Er].
      + intros i0 o0 Hf _. cbn in Hf. unfold cstore in Hf. rewrite Hm in Hf. cbn in Hf. injection Hf as <- <-.
        destruct (run_memo_post (memo f) _ (memo_ev_ok f) _ _ HP kids o1 kids1 (agrees_st_of kids) Er) as (sg & Hphi & Hag & Hsty).
        exists sg. split; [exact Hag|]. rewrite Hsty. exact Hphi.
  Qed.

  (* a PerformLayout pass on a freshly built tree *)
  Corollary fresh_pass_tinv f k i o t' : mode i = PerformLayout -> memo f (fresh k) i = Some (o, t') -> TInv t'.
  Proof. intros Hm H. exact (memo_tinv f _ _ _ _ H Hm (tinv_fresh k)). Qed.
End EnginePost.
