//! C13 -- pixel rounding.
//! `vh c13 cases <seed> <n> [start]`: random trees (shared generator, fractional lengths, some dyadic) laid out by the real TaffyTree
//!   under a history of compute_layout / enable_rounding / disable_rounding calls.
//!   `C nops op.. (tree: pre-order, per node: child count, order, 20 f32 bit patterns of unrounded_layout)`
//!   `R (per node, pre-order: order, 20 f32 bit patterns of layout())`
//! `vh c13 oracle <seed> <n> [start]`: the clauses of the property as predicates on the implementation; prints `FAIL <idx> <msg>`.
//! `vh c13 one <seed> <idx>` / `vh c13 oracle1 <seed> <idx>`: a single case (replay), verbose.
//! `vh c13 half`: the half-pixel example of notes/C13.md on the implementation.
//! `vh c13 stale`: the known finding (enable_rounding without compute_layout) on the implementation.
use crate::rng::Rng;
use crate::treegen::*;
use taffy::prelude::*;

const OP_DISABLE: u64 = 0;
const OP_ENABLE: u64 = 1;
const OP_COMPUTE: u64 = 2;

fn int_len(rng: &mut Rng, max: u64) -> f32 {
    rng.below(max) as f32
}

/// Replace every length of a style by a whole number of pixels (keeps the display mode, alignment and flex factors).
fn intify(rng: &mut Rng, s: &mut Style) {
    let d = |rng: &mut Rng, max: u64| if rng.chance(1, 2) { Dimension::auto() } else { Dimension::length(int_len(rng, max)) };
    s.size = Size { width: d(rng, 300), height: d(rng, 200) };
    s.min_size = Size { width: Dimension::auto(), height: Dimension::auto() };
    s.max_size = Size { width: Dimension::auto(), height: Dimension::auto() };
    s.aspect_ratio = None;
    s.flex_basis = Dimension::auto();
    let m = |rng: &mut Rng| {
        let sign = if rng.chance(1, 6) { -1.0 } else { 1.0 };
        LengthPercentageAuto::length(sign * int_len(rng, 20))
    };
    if rng.chance(1, 2) {
        s.margin = Rect { left: m(rng), right: m(rng), top: m(rng), bottom: m(rng) };
    } else {
        s.margin = Rect { left: zero(), right: zero(), top: zero(), bottom: zero() };
    }
    let p = |rng: &mut Rng, max: u64| LengthPercentage::length(int_len(rng, max));
    s.padding = Rect { left: p(rng, 10), right: p(rng, 10), top: p(rng, 10), bottom: p(rng, 10) };
    s.border = Rect { left: p(rng, 5), right: p(rng, 5), top: p(rng, 5), bottom: p(rng, 5) };
    if s.position == Position::Absolute {
        let i = |rng: &mut Rng| if rng.chance(1, 2) { LengthPercentageAuto::auto() } else { LengthPercentageAuto::length(int_len(rng, 60) - 20.0) };
        s.inset = Rect { left: i(rng), right: i(rng), top: i(rng), bottom: i(rng) };
    } else {
        s.inset = Rect { left: auto(), right: auto(), top: auto(), bottom: auto() };
    }
    s.gap = Size { width: p(rng, 12), height: p(rng, 12) };
    s.scrollbar_width = int_len(rng, 16);
    // alignment modes that halve free space produce half pixels from whole ones: keep start/end/stretch
    s.justify_content = None;
    s.align_content = None;
    s.align_items = None;
    s.align_self = None;
    s.justify_items = None;
    s.justify_self = None;
    s.text_align = taffy::TextAlign::Auto;
    s.grid_template_rows = vec![];
    s.grid_template_columns = vec![];
    s.grid_auto_rows = vec![];
    s.grid_auto_columns = vec![];
}

/// Snap mode: most nodes get whole-pixel styles, so that deep nodes sit under integral ancestors; the remaining nodes
/// (and all measured leaves left untouched) keep their fractional lengths.
fn snap(rng: &mut Rng, n: &mut NodeSpec, depth: usize) {
    let keep_fractional = rng.chance(1, 4);
    if !keep_fractional {
        intify(rng, &mut n.style);
        if n.children.is_empty() {
            n.ctx = if rng.chance(1, 2) { Some(Ctx::Fixed(int_len(rng, 120), int_len(rng, 60))) } else { None };
        }
    }
    for c in n.children.iter_mut() {
        snap(rng, c, depth + 1);
    }
}

/// Near-half mode (on top of snap mode): some nodes get a margin / size a tiny dyadic distance (2^-10 .. 2^-13 px) off a half
/// pixel, so that absolute edges lie just beside -- not on -- a half pixel, well outside the f32 accumulation error of
/// the premise but inside any coarser re-quantisation of the running sums.
fn near_half_perturb(rng: &mut Rng, n: &mut NodeSpec, depth: usize) {
    let v = |rng: &mut Rng, max: u64| {
        let delta = [1.0 / 1024.0, 1.0 / 2048.0, 1.0 / 4096.0, 1.0 / 8192.0][rng.below(4) as usize];
        let sign = if rng.chance(1, 2) { -1.0 } else { 1.0 };
        int_len(rng, max) + 0.5 + sign * delta
    };
    if depth > 0 && rng.chance(1, 3) {
        match rng.below(4) {
            0 => n.style.margin.left = LengthPercentageAuto::length(v(rng, 20)),
            1 => n.style.margin.top = LengthPercentageAuto::length(v(rng, 20)),
            2 => n.style.size.width = Dimension::length(v(rng, 200)),
            _ => n.style.size.height = Dimension::length(v(rng, 100)),
        }
    }
    for c in n.children.iter_mut() {
        near_half_perturb(rng, c, depth + 1);
    }
}

pub struct Case {
    pub spec: NodeSpec,
    pub avail: Size<AvailableSpace>,
    pub history: Vec<u64>,
}

pub fn case(seed: u64, idx: u64) -> Case {
    let mut rng = Rng::new(seed.wrapping_mul(0xC13C_13C1_3C13).wrapping_add(idx));
    let mut cfg = GenCfg::default();
    cfg.fractional = idx % 4 != 3; // a quarter of the cases on the dyadic (quarter pixel) grid: exact half pixels are common there
    cfg.max_nodes = 10;
    cfg.p_hidden = 30;
    let mut spec = tree(&mut rng, &cfg);
    let avail = avail(&mut rng, &cfg);
    if idx % 3 == 1 {
        snap(&mut rng, &mut spec, 0);
        if idx % 6 == 1 {
            near_half_perturb(&mut rng, &mut spec, 0);
        }
    }
    // history: mostly a single compute_layout with the default flag; every fifth case a random sequence
    let mut history = vec![OP_COMPUTE];
    if idx % 5 == 4 {
        let n = 2 + rng.below(4);
        history = (0..n).map(|_| rng.below(3)).collect();
        if !history.contains(&OP_COMPUTE) {
            let k = rng.below(n) as usize;
            history[k] = OP_COMPUTE;
        }
    }
    Case { spec, avail, history }
}

fn canon(b: u32) -> u64 {
    if f32::from_bits(b).is_nan() {
        0x7fc0_0000
    } else {
        b as u64
    }
}

fn shape(spec: &NodeSpec, out: &mut Vec<usize>) {
    out.push(spec.children.len());
    for c in &spec.children {
        shape(c, out);
    }
}

fn apply(t: &mut TaffyTree<Ctx>, root: NodeId, avail: Size<AvailableSpace>, op: u64) {
    match op {
        OP_DISABLE => t.disable_rounding(),
        OP_ENABLE => t.enable_rounding(),
        _ => compute(t, root, avail),
    }
}

/// Returns the `C` and `R` lines, or None when the layout engine panics on this tree (C03's business).
pub fn case_lines(c: &Case) -> Option<(String, String)> {
    let r = std::panic::catch_unwind(|| {
        let mut t: TaffyTree<Ctx> = TaffyTree::new();
        let mut ids = vec![];
        let root = build(&mut t, &c.spec, &mut ids);
        for op in &c.history {
            apply(&mut t, root, c.avail, *op);
        }
        let mut counts = vec![];
        shape(&c.spec, &mut counts);
        let mut cl: Vec<u64> = vec![c.history.len() as u64];
        cl.extend(c.history.iter().cloned());
        let mut rl: Vec<u64> = vec![];
        for (i, id) in ids.iter().enumerate() {
            cl.push(counts[i] as u64);
            let u = layout_bits(t.unrounded_layout(*id));
            cl.push(u[0] as u64);
            cl.extend(u[1..].iter().map(|b| canon(*b)));
            let l = layout_bits(t.layout(*id).unwrap());
            rl.push(l[0] as u64);
            rl.extend(l[1..].iter().map(|b| canon(*b)));
        }
        let f = |v: Vec<u64>| v.iter().map(|x| x.to_string()).collect::<Vec<_>>().join(" ");
        (format!("C {}", f(cl)), format!("R {}", f(rl)))
    });
    r.ok()
}

// ------------------------------------------------------------------------------------------------ oracle

fn is_int(x: f32) -> bool {
    x.is_finite() && x.fract() == 0.0
}

/// `x` (an exact f64 sum) is so close to a half pixel that the implementation's f32 running sums -- exact on the integral
/// ancestors, then one rounding for the node's own offset and one for its size: at most an ulp of the larger of the
/// two edges, `scale` -- may land on the other side: 4 ulps of margin.
fn near_half_at(x: f64, scale: f64) -> bool {
    let margin = 4.0 * f32::EPSILON as f64 * scale.abs().max(1.0);
    let f = (x - x.floor() - 0.5).abs();
    f <= margin
}

fn near_half(x: f64) -> bool {
    let margin = 1e-3 * (x.abs() / 256.0).max(1.0);
    let f = (x - x.floor() - 0.5).abs();
    f <= margin
}

fn parents(spec: &NodeSpec) -> Vec<Option<usize>> {
    fn go(n: &NodeSpec, me: usize, next: &mut usize, out: &mut Vec<Option<usize>>) {
        for c in &n.children {
            let ci = *next;
            *next += 1;
            out.push(Some(me));
            go(c, ci, next, out);
        }
    }
    let mut out = vec![None];
    let mut next = 1;
    go(spec, 0, &mut next, &mut out);
    out
}

#[derive(Default)]
pub struct Stats {
    pub trees: u64,
    pub nodes: u64,
    pub edge_nodes: u64,
    pub deep_edge_nodes: u64,
    pub seams: u64,
    pub panics: u64,
    pub nonfinite: u64,
    pub diag: Option<String>,
    pub diags: u64,
}

fn all_bits(t: &TaffyTree<Ctx>, ids: &[NodeId], rounded: bool) -> Vec<Vec<u64>> {
    ids.iter()
        .map(|id| {
            let l = if rounded { t.layout(*id).unwrap() } else { t.unrounded_layout(*id) };
            layout_bits(l).iter().map(|b| canon(*b)).collect()
        })
        .collect()
}

/// The property, clause by clause, on the implementation.  Err(message) = a counterexample.
pub fn oracle_case(seed: u64, idx: u64, st: &mut Stats, verbose: bool) -> Result<(), String> {
    let c = case(seed, idx);
    let mut rng = Rng::new(seed ^ idx.wrapping_mul(0x5851_F42D_4C95_7F2D));
    let r = std::panic::catch_unwind(move || -> Result<Stats, String> {
        let mut st = Stats::default();
        let mut t: TaffyTree<Ctx> = TaffyTree::new();
        let mut ids = vec![];
        let root = build(&mut t, &c.spec, &mut ids);
        compute(&mut t, root, c.avail);
        let n = ids.len();
        let par = parents(&c.spec);
        let u: Vec<taffy::Layout> = ids.iter().map(|id| *t.unrounded_layout(*id)).collect();
        let r: Vec<taffy::Layout> = ids.iter().map(|id| *t.layout(*id).unwrap()).collect();
        if verbose {
            for i in 0..n {
                println!("node {i} parent {:?}\n  unrounded {:?}\n  rounded   {:?}", par[i], u[i], r[i]);
            }
        }
        if u.iter().any(|l| layout_floats(l).iter().any(|x| !x.is_finite())) {
            st.nonfinite = 1;
            return Ok(st);
        }
        st.trees = 1;
        st.nodes = n as u64;
        // (1) integral
        for i in 0..n {
            let l = &r[i];
            let fields = [
                ("location.x", l.location.x),
                ("location.y", l.location.y),
                ("size.width", l.size.width),
                ("size.height", l.size.height),
                ("padding.left", l.padding.left),
                ("padding.right", l.padding.right),
                ("padding.top", l.padding.top),
                ("padding.bottom", l.padding.bottom),
                ("border.left", l.border.left),
                ("border.right", l.border.right),
                ("border.top", l.border.top),
                ("border.bottom", l.border.bottom),
            ];
            for (nm, v) in fields {
                if !is_int(v) {
                    return Err(format!("node {i}: rounded {nm} = {v} is not an integer (unrounded layout {:?})", u[i]));
                }
            }
        }
        // absolute positions (f64 sums of the f32 parent-relative locations: exact)
        let mut ax = vec![0f64; n];
        let mut ay = vec![0f64; n];
        let mut rx = vec![0f64; n];
        let mut ry = vec![0f64; n];
        let mut anc_int = vec![true; n]; // all proper ancestors at integral unrounded offsets
        let mut depth = vec![0usize; n];
        for i in 0..n {
            let (px, py, prx, pry, pint, d) = match par[i] {
                None => (0.0, 0.0, 0.0, 0.0, true, 0),
                Some(p) => (ax[p], ay[p], rx[p], ry[p], anc_int[p] && is_int(u[p].location.x) && is_int(u[p].location.y), depth[p] + 1),
            };
            ax[i] = px + u[i].location.x as f64;
            ay[i] = py + u[i].location.y as f64;
            rx[i] = prx + r[i].location.x as f64;
            ry[i] = pry + r[i].location.y as f64;
            anc_int[i] = pint;
            depth[i] = d;
        }
        // (2) within one pixel
        for i in 0..n {
            let scale = ax[i].abs().max(ay[i].abs()).max(u[i].size.width.abs() as f64).max(u[i].size.height.abs() as f64);
            let tol = 1e-3 * (scale / 256.0).max(1.0);
            let dw = (r[i].size.width as f64 - u[i].size.width as f64).abs();
            let dh = (r[i].size.height as f64 - u[i].size.height as f64).abs();
            if dw > 1.0 + tol {
                return Err(format!("node {i}: rounded width {} vs unrounded {} differ by more than one pixel", r[i].size.width, u[i].size.width));
            }
            if dh > 1.0 + tol {
                return Err(format!("node {i}: rounded height {} vs unrounded {} differ by more than one pixel", r[i].size.height, u[i].size.height));
            }
        }
        // diagnostic only (stronger than the property, never a FAIL): for any ancestors, a size is the difference of the
        // rounded absolute edges (theorem C13_size_from_absolute_edges)
        for i in 0..n {
            let (l, rt) = (ax[i], ax[i] + u[i].size.width as f64);
            let (tp, bt) = (ay[i], ay[i] + u[i].size.height as f64);
            if !near_half(l) && !near_half(rt) && r[i].size.width as f64 != rt.round() - l.round() && st.diag.is_none() {
                st.diag = Some(format!("node {i} (depth {}): rounded width {} != round({rt}) - round({l})", depth[i], r[i].size.width));
            }
            if !near_half(tp) && !near_half(bt) && r[i].size.height as f64 != bt.round() - tp.round() && st.diag.is_none() {
                st.diag = Some(format!("node {i} (depth {}): rounded height {} != round({bt}) - round({tp})", depth[i], r[i].size.height));
            }
        }
        // (4) edges: under integral ancestors and off half pixels, rounded absolute edges = round(unrounded absolute edges)
        let edges_ok = |i: usize| -> bool {
            let (l, rt) = (ax[i], ax[i] + u[i].size.width as f64);
            let (tp, bt) = (ay[i], ay[i] + u[i].size.height as f64);
            let (sx, sy) = (l.abs().max(rt.abs()), tp.abs().max(bt.abs()));
            anc_int[i] && !near_half_at(l, sx) && !near_half_at(rt, sx) && !near_half_at(tp, sy) && !near_half_at(bt, sy)
        };
        for i in 0..n {
            if !edges_ok(i) {
                continue;
            }
            st.edge_nodes += 1;
            if depth[i] >= 2 {
                st.deep_edge_nodes += 1;
            }
            let (l, rt) = (ax[i], ax[i] + u[i].size.width as f64);
            let (tp, bt) = (ay[i], ay[i] + u[i].size.height as f64);
            let checks = [
                ("left", rx[i], l),
                ("right", rx[i] + r[i].size.width as f64, rt),
                ("top", ry[i], tp),
                ("bottom", ry[i] + r[i].size.height as f64, bt),
            ];
            for (nm, got, unr) in checks {
                if got != unr.round() {
                    return Err(format!(
                        "node {i} (depth {}, ancestors at integral offsets): rounded absolute {nm} edge {got} != round({unr}) = {}",
                        depth[i],
                        unr.round()
                    ));
                }
            }
        }
        // seams: siblings with a common unrounded edge keep a common rounded edge
        for a in 0..n {
            for b in 0..n {
                if a == b || par[a] != par[b] || par[a].is_none() || !edges_ok(a) || !edges_ok(b) {
                    continue;
                }
                if ax[a] + u[a].size.width as f64 == ax[b] && u[a].size.width > 0.0 {
                    st.seams += 1;
                    if rx[a] + r[a].size.width as f64 != rx[b] {
                        return Err(format!("nodes {a},{b}: right edge of {a} = left edge of {b} = {} before rounding, {} vs {} after", ax[b], rx[a] + r[a].size.width as f64, rx[b]));
                    }
                }
                if ay[a] + u[a].size.height as f64 == ay[b] && u[a].size.height > 0.0 {
                    st.seams += 1;
                    if ry[a] + r[a].size.height as f64 != ry[b] {
                        return Err(format!("nodes {a},{b}: bottom edge of {a} = top edge of {b} = {} before rounding, {} vs {} after", ay[b], ry[a] + r[a].size.height as f64, ry[b]));
                    }
                }
            }
        }
        // (3) unrounded layout untouched, no drift
        let u1 = all_bits(&t, &ids, false);
        let r1 = all_bits(&t, &ids, true);
        {
            // the rounding pass leaves the unrounded layout as a tree that never rounds computes it
            let mut t2: TaffyTree<Ctx> = TaffyTree::new();
            t2.disable_rounding();
            let mut ids2 = vec![];
            let root2 = build(&mut t2, &c.spec, &mut ids2);
            compute(&mut t2, root2, c.avail);
            let u2 = all_bits(&t2, &ids2, false);
            if let Some(i) = (0..n).find(|i| u1[*i] != u2[*i]) {
                return Err(format!(
                    "node {i}: unrounded_layout differs between a tree with rounding enabled and one with rounding disabled: {:?} vs {:?}",
                    t.unrounded_layout(ids[i]),
                    t2.unrounded_layout(ids2[i])
                ));
            }
            if all_bits(&t2, &ids2, true) != u2 {
                return Err("with rounding disabled layout() is not the unrounded layout".to_string());
            }
        }
        {
            // (3b) a tree whose FIRST pass ran with rounding disabled: disable; compute; enable; compute must report what a
            // tree that always rounded reports (enable_rounding WITHOUT a following compute is the known finding, not this)
            let mut t3: TaffyTree<Ctx> = TaffyTree::new();
            t3.disable_rounding();
            let mut ids3 = vec![];
            let root3 = build(&mut t3, &c.spec, &mut ids3);
            compute(&mut t3, root3, c.avail);
            t3.enable_rounding();
            compute(&mut t3, root3, c.avail);
            let r3 = all_bits(&t3, &ids3, true);
            if let Some(i) = (0..n).find(|i| r3[*i] != r1[*i]) {
                return Err(format!(
                    "node {i}: after disable_rounding; compute_layout; enable_rounding; compute_layout layout() is {:?} but a tree that always rounded reports {:?}",
                    t3.layout(ids3[i]).unwrap(),
                    t.layout(ids[i]).unwrap()
                ));
            }
        }
        let mut flag = true;
        let steps = 3 + rng.below(6);
        let mut hist = vec![];
        for k in 0..steps {
            let op = if k == 0 { OP_COMPUTE } else { rng.below(3) };
            hist.push(op);
            apply(&mut t, root, c.avail, op);
            if op == OP_DISABLE {
                flag = false;
            } else if op == OP_ENABLE {
                flag = true;
            }
            let un = all_bits(&t, &ids, false);
            if let Some(i) = (0..n).find(|i| un[*i] != u1[*i]) {
                return Err(format!("node {i}: unrounded_layout changed after history {:?} (0 disable, 1 enable, 2 compute): {:?} (was {:?})", hist, t.unrounded_layout(ids[i]), u[i]));
            }
            let la = all_bits(&t, &ids, true);
            let want = if flag { &r1 } else { &u1 };
            if let Some(i) = (0..n).find(|i| la[*i] != want[*i]) {
                return Err(format!(
                    "node {i}: layout() drifted after history {:?} (0 disable, 1 enable, 2 compute; rounding now {}): {:?} (first pass: rounded {:?}, unrounded {:?})",
                    hist,
                    flag,
                    t.layout(ids[i]).unwrap(),
                    r[i],
                    u[i]
                ));
            }
        }
        Ok(st)
    });
    match r {
        Err(_) => {
            st.panics += 1;
            Ok(())
        }
        Ok(Err(m)) => Err(m),
        Ok(Ok(s)) => {
            st.trees += s.trees;
            st.nodes += s.nodes;
            st.edge_nodes += s.edge_nodes;
            st.deep_edge_nodes += s.deep_edge_nodes;
            st.seams += s.seams;
            st.nonfinite += s.nonfinite;
            if let Some(d) = s.diag {
                st.diags += 1;
                if st.diags <= 3 {
                    println!("DIAG {idx} {d}");
                }
            }
            Ok(())
        }
    }
}

/// notes/C13.md: with half-away-from-zero rounding the half-pixel premise is needed even in exact arithmetic.
/// parent at x = 2; child A at -3.5 (width 3) and child B at -0.5 touch at absolute x = 1.5.
fn half_pixel_example() {
    let mut t: TaffyTree<Ctx> = TaffyTree::new();
    let abs = |left: f32, w: f32| Style {
        position: Position::Absolute,
        inset: Rect { left: LengthPercentageAuto::length(left), right: auto(), top: LengthPercentageAuto::length(0.0), bottom: auto() },
        size: Size { width: Dimension::length(w), height: Dimension::length(10.0) },
        ..Default::default()
    };
    let a = t.new_leaf(abs(-3.5, 3.0)).unwrap();
    let b = t.new_leaf(abs(-0.5, 3.0)).unwrap();
    let p = t
        .new_with_children(
            Style {
                margin: Rect { left: LengthPercentageAuto::length(2.0), right: zero(), top: zero(), bottom: zero() },
                size: Size { width: Dimension::length(20.0), height: Dimension::length(10.0) },
                ..Default::default()
            },
            &[a, b],
        )
        .unwrap();
    let root = t.new_with_children(Style { size: Size { width: Dimension::length(40.0), height: Dimension::length(10.0) }, ..Default::default() }, &[p]).unwrap();
    t.compute_layout(root, Size::MAX_CONTENT).unwrap();
    let px = t.layout(p).unwrap().location.x;
    let (ua, ub) = (*t.unrounded_layout(a), *t.unrounded_layout(b));
    let (la, lb) = (*t.layout(a).unwrap(), *t.layout(b).unwrap());
    println!("parent x = {} (unrounded {})", px, t.unrounded_layout(p).location.x);
    println!("A unrounded: x = {}, width = {}  -> absolute right edge {}", ua.location.x, ua.size.width, px + ua.location.x + ua.size.width);
    println!("B unrounded: x = {}              -> absolute left edge  {}", ub.location.x, px + ub.location.x);
    println!("A rounded:   x = {}, width = {}  -> absolute right edge {}", la.location.x, la.size.width, px + la.location.x + la.size.width);
    println!("B rounded:   x = {}              -> absolute left edge  {}", lb.location.x, px + lb.location.x);
    println!("HALF {} {}", px + la.location.x + la.size.width, px + lb.location.x);
}

/// Deterministic corpus of values where a re-implementation of `round` typically goes wrong: one ulp below a half, odd integers
/// above 2^23, negative offsets. A column of leaves at x = 0 with these widths / a row of leaves with these heights: the rounded
/// size must be `f32::round` of the unrounded one (the near edge is 0, the far edge is the size itself; exact halves excluded).
pub fn edge_corpus() -> Vec<String> {
    let half_minus = f32::from_bits(0.5f32.to_bits() - 1);
    let vals = [half_minus, 1.0 + half_minus, 2.5 - 2.5 * f32::EPSILON, 8388609.0, 12582913.0, 4194304.5, 0.1, 1e-7, 2.4999998];
    let mut out = vec![];
    for (k, v) in vals.iter().enumerate() {
        if (v.fract() - 0.5).abs() == 0.0 {
            continue;
        }
        let mut t: TaffyTree<Ctx> = TaffyTree::new();
        let leaf = t.new_leaf(Style { size: Size { width: length(*v), height: length(*v) }, flex_shrink: 0.0, ..Default::default() }).unwrap();
        let root = t
            .new_with_children(Style { display: Display::Flex, align_items: Some(AlignItems::Start), ..Default::default() }, &[leaf])
            .unwrap();
        compute(&mut t, root, Size::MAX_CONTENT);
        let u = *t.unrounded_layout(leaf);
        let r = *t.layout(leaf).unwrap();
        if u.location.x != 0.0 || u.location.y != 0.0 || u.size.width != *v {
            continue; // not the shape this corpus relies on
        }
        if r.size.width != v.round() || r.size.height != v.round() {
            out.push(format!(
                "edge corpus #{k}: unrounded size {:?} (bits {:#x}) at offset 0 must round to {}, layout() reports {}x{}",
                v,
                v.to_bits(),
                v.round(),
                r.size.width,
                r.size.height
            ));
        }
    }
    out
}

/// Known finding: enable_rounding() does not round.  disable_rounding; compute_layout; enable_rounding: layout() now reads
/// final_layout, which no rounding pass has written (Layout::new()), until the next compute_layout.
fn stale_example() {
    let mut t: TaffyTree<Ctx> = TaffyTree::new();
    let leaf = t.new_leaf(Style { size: Size { width: Dimension::length(100.4), height: Dimension::length(50.6) }, ..Default::default() }).unwrap();
    t.disable_rounding();
    t.compute_layout(leaf, Size::MAX_CONTENT).unwrap();
    t.enable_rounding();
    let (l, u) = (*t.layout(leaf).unwrap(), *t.unrounded_layout(leaf));
    println!("after disable_rounding; compute_layout; enable_rounding: layout() = {:?}x{:?}, unrounded_layout() = {:?}x{:?}", l.size.width, l.size.height, u.size.width, u.size.height);
    println!("STALE {} {}", l.size.width, u.size.width.round());
    t.compute_layout(leaf, Size::MAX_CONTENT).unwrap();
    let l = *t.layout(leaf).unwrap();
    println!("after one more compute_layout: layout() = {:?}x{:?}", l.size.width, l.size.height);
}

/// `START idx` is flushed before a case is laid out: a hang of the layout engine (not this property's business) is
/// recognised by the driver, which restarts after the case.
fn start_line(idx: u64) {
    use std::io::Write;
    let out = std::io::stdout();
    let mut o = out.lock();
    writeln!(o, "START {idx}").unwrap();
    o.flush().unwrap();
}

pub fn main(args: &[String]) {
    std::panic::set_hook(Box::new(|_| {}));
    match args[0].as_str() {
        "cases" => {
            let seed: u64 = args[1].parse().unwrap();
            let n: u64 = args[2].parse().unwrap();
            let start: u64 = args.get(3).map(|s| s.parse().unwrap()).unwrap_or(0);
            for idx in start..start + n {
                start_line(idx);
                match case_lines(&case(seed, idx)) {
                    Some((c, r)) => println!("I {idx}\n{c}\n{r}"),
                    None => println!("SKIP {idx}"),
                }
            }
        }
        "one" => {
            let seed: u64 = args[1].parse().unwrap();
            let idx: u64 = args[2].parse().unwrap();
            let c = case(seed, idx);
            if args.len() > 3 {
                println!("{:#?}\navail={:?} history={:?}", c.spec, c.avail, c.history);
            }
            match case_lines(&c) {
                Some((c, r)) => println!("I {idx}\n{c}\n{r}"),
                None => println!("SKIP {idx}"),
            }
        }
        "oracle" => {
            let seed: u64 = args[1].parse().unwrap();
            let n: u64 = args[2].parse().unwrap();
            let start: u64 = args.get(3).map(|s| s.parse().unwrap()).unwrap_or(0);
            let mut st = Stats::default();
            let mut fails = 0;
            if start == 0 {
                for m in edge_corpus() {
                    fails += 1;
                    println!("FAIL 0 {}", m);
                }
            }
            for idx in start..start + n {
                start_line(idx);
                if let Err(m) = oracle_case(seed, idx, &mut st, false) {
                    fails += 1;
                    if fails <= 20 {
                        println!("FAIL {idx} {}", m.replace('\n', " "));
                    }
                }
            }
            println!(
                "ORACLE trees={} nodes={} edge_nodes={} deep_edge_nodes={} seams={} panics={} nonfinite={} diagnostics={} fails={}",
                st.trees, st.nodes, st.edge_nodes, st.deep_edge_nodes, st.seams, st.panics, st.nonfinite, st.diags, fails
            );
        }
        "oracle1" => {
            let seed: u64 = args[1].parse().unwrap();
            let idx: u64 = args[2].parse().unwrap();
            let c = case(seed, idx);
            println!("{:#?}\navail={:?}", c.spec, c.avail);
            let mut st = Stats::default();
            match oracle_case(seed, idx, &mut st, true) {
                Err(m) => println!("FAIL {idx} {m}"),
                Ok(()) => println!("OK {idx}"),
            }
        }
        "half" => half_pixel_example(),
        "stale" => stale_example(),
        _ => {
            eprintln!("c13: unknown command");
            std::process::exit(2);
        }
    }
}
