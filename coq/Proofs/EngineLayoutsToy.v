(* The toy instance of Model/EngineLayoutsToy.v satisfies every hypothesis of the layout-level history theorem
   (non-vacuity), and a concrete history with a display:none node, a style change, an attached fresh subtree and
   three layout passes is well-formed. *)
From Coq Require Import List Bool Arith NArith Lia.
From TV Require Import Model.Engine Model.EngineToy Model.EngineLayouts Model.EngineLayoutsToy
  Proofs.EngineMemo Proofs.EngineDirty Proofs.EngineHistory Proofs.EngineNoScribble Proofs.EngineToyProofs
  Proofs.EngineLayoutsMemo Proofs.EngineLayoutsHistory.
Import ListNotations.

Lemma lall_WF st : forall k i acc, t_mode i <> PerformHiddenLayout -> WFAlg TIn TOut TLay t_mode (lall st k i acc).
Proof.
  induction st as [|s st IH]; intros k i acc Hm; cbn [lall].
  - constructor.
  - destruct (t_is_none s).
    + destruct (t_mode i) eqn:E; try (apply IH; rewrite E; exact Hm).
      constructor; [cbn; discriminate|]. intros o. constructor. apply IH. rewrite E. exact Hm.
    + constructor; [exact Hm|]. intros o. destruct (t_mode i) eqn:E; try (apply IH; rewrite E; exact Hm).
      constructor. apply IH. rewrite E. exact Hm.
Qed.

Lemma l_algo_WF s st i : WFAlg TIn TOut TLay t_mode (l_algo s st i).
Proof.
  unfold l_algo. destruct (t_mode i) eqn:E.
  - apply lall_WF. congruence.
  - apply lall_WF. congruence.
  - constructor.
Qed.

Lemma lall_visits st : forall k i acc, t_mode i = PerformLayout ->
  Visits TIn TOut TLay t_mode (seq k (length st)) (lall st k i acc).
Proof.
  induction st as [|s st IH]; intros k i acc Hm.
  - cbn. constructor.
  - cbn [lall length]. rewrite Hm. destruct (t_is_none s).
    + constructor. intros o. change (t_mode hidden_child_key) with PerformLayout. cbv iota.
      rewrite remove_head_seq. constructor. apply IH. exact Hm.
    + constructor. intros o. rewrite Hm. rewrite remove_head_seq. constructor. apply IH. exact Hm.
Qed.

Lemma l_algo_H1 s st i : t_mode i = PerformLayout -> Visits TIn TOut TLay t_mode (seq 0 (length st)) (l_algo s st i).
Proof. intros Hm. unfold l_algo. rewrite Hm. apply lall_visits. exact Hm. Qed.

Lemma remove_cons_head_seq k n : remove Nat.eq_dec k (k :: seq k (S n)) = seq (S k) n.
Proof.
  change (k :: seq k (S n)) with ([k] ++ seq k (S n)). rewrite remove_app, remove_head_seq.
  cbn. destruct (Nat.eq_dec k k) as [_|C]; [reflexivity|congruence].
Qed.

Lemma lall_sets st : forall k i acc (none : nat -> bool), t_mode i = PerformLayout ->
  (forall j s, nth_error st j = Some s -> none (k + j) = t_is_none s) ->
  SetsLast TIn TOut TLay none (seq k (length st)) (lall st k i acc).
Proof.
  induction st as [|s st IH]; intros k i acc none Hm Hn.
  - cbn. constructor.
  - assert (Hk : none k = t_is_none s) by (rewrite <- (Hn 0 s eq_refl); f_equal; lia).
    assert (Hn' : forall j s', nth_error st j = Some s' -> none (S k + j) = t_is_none s').
    { intros j s' E. rewrite <- (Hn (S j) s' E). f_equal. lia. }
    cbn [lall length]. rewrite Hm. destruct (t_is_none s) eqn:En.
    + constructor. intros o. rewrite Hk. constructor. rewrite remove_cons_head_seq. apply IH; assumption.
    + constructor. intros o. rewrite Hk. constructor. rewrite remove_head_seq. apply IH; assumption.
Qed.

Lemma l_algo_H3 s st i : t_mode i = PerformLayout ->
  SetsLast TIn TOut TLay (nones TS t_is_none st) (seq 0 (length st)) (l_algo s st i).
Proof.
  intros Hm. unfold l_algo. rewrite Hm. apply lall_sets; [exact Hm|].
  intros j s' E. unfold nones. cbn. rewrite E. reflexivity.
Qed.

Lemma lall_nhs st : forall k i acc (none : nat -> bool),
  (forall j s, nth_error st j = Some s -> none (k + j) = t_is_none s) ->
  NoHiddenSize TIn TOut TLay t_mode none (lall st k i acc).
Proof.
  induction st as [|s st IH]; intros k i acc none Hn.
  - cbn. constructor.
  - assert (Hk : none k = t_is_none s) by (rewrite <- (Hn 0 s eq_refl); f_equal; lia).
    assert (Hn' : forall j s', nth_error st j = Some s' -> none (S k + j) = t_is_none s').
    { intros j s' E. rewrite <- (Hn (S j) s' E). f_equal. lia. }
    cbn [lall]. destruct (t_is_none s) eqn:En.
    + destruct (t_mode i); try (apply IH; exact Hn').
      constructor; [cbn; discriminate|]. intros o. constructor. apply IH. exact Hn'.
    + constructor; [intros _; exact Hk|]. intros o. destruct (t_mode i); try (apply IH; exact Hn').
      constructor. apply IH. exact Hn'.
Qed.

Lemma l_algo_HQ s st i : NoHiddenSize TIn TOut TLay t_mode (nones TS t_is_none st) (l_algo s st i).
Proof.
  assert (Hn : forall j s', nth_error st j = Some s' -> nones TS t_is_none st (0 + j) = t_is_none s').
  { intros j s' E. unfold nones. cbn. rewrite E. reflexivity. }
  unfold l_algo. destruct (t_mode i); [apply lall_nhs; exact Hn|apply lall_nhs; exact Hn|constructor].
Qed.

Lemma lall_size st : forall k i acc, t_mode i = ComputeSize -> SizeOnly TIn TOut TLay t_mode (lall st k i acc).
Proof.
  induction st as [|s st IH]; intros k i acc Hm; cbn [lall].
  - constructor.
  - rewrite Hm. destruct (t_is_none s); [apply IH; exact Hm|].
    constructor; [exact Hm|]. intros o. apply IH. exact Hm.
Qed.

Lemma l_algo_NS s st i : t_mode i = ComputeSize -> SizeOnly TIn TOut TLay t_mode (l_algo s st i).
Proof. intros Hm. unfold l_algo. rewrite Hm. apply lall_size. exact Hm. Qed.

(* a concrete history: root(0) with children 1 (display:none, with a child 3) and 2 (with a child 4);
   pass; node 1 becomes visible; pass with another input; a fresh two-node subtree replaces the children of node 2;
   and the final tree is laid out once more by the theorem's last pass *)
Definition lx_tree : ttree :=
  fresh TS TIn TOut TLay 0%N
    (SNode TS (0%N, false) [SNode TS (1%N, true) [SNode TS (3%N, false) []]; SNode TS (2%N, false) [SNode TS (4%N, false) []]]).
Definition lx_sub : ttree := fresh TS TIn TOut TLay 0%N (SNode TS (5%N, false) [SNode TS (6%N, true) []]).
Definition lx_ops : list (op TS TIn TOut TLay) :=
  [OLayout _ _ _ _ 8 (PerformLayout, 5%N);
   OMutate _ _ _ _ [0] (ESetStyle _ _ _ _ (1%N, false));
   OLayout _ _ _ _ 8 (PerformLayout, 9%N);
   OMutate _ _ _ _ [1] (ESetKids _ _ _ _ [lx_sub]);
   OMutate _ _ _ _ [1; 0] (ENone _ _ _ _)].
Definition lx_run := run_ops TS TIn TOut TLay t_mode t_in_eqb t_is_none 0%N 0%N l_algo lx_tree lx_ops.

Example lx_run_ok : run_ok_l TS TIn TOut TLay t_mode t_in_eqb t_is_none 0%N 0%N l_algo lx_tree lx_ops.
Proof.
  unfold lx_ops. cbn [run_ok_l]. unfold op_ok_l, op_ok, edit_ok, edit_coh.
  repeat match goal with |- _ /\ _ => split end; try exact I; try reflexivity.
  - vm_compute. auto.
  - vm_compute. auto.
  - constructor; [apply Valid_fresh|constructor].
  - constructor; [apply (Inv_fresh TS TIn TOut TLay t_mode t_is_none 0%N 0%N l_algo)|constructor].
  - constructor; [apply (Inv_fresh TS TIn TOut TLay t_mode t_is_none 0%N 0%N l_algo)|constructor].
  - constructor; [apply Coh_fresh|constructor].
  - vm_compute. auto.
Qed.

(* the passes of the example are defined (enough fuel), the two sides of the theorem store the same non-trivial layouts *)
Example lx_conclusion :
  option_map (fun p => lays TS TIn TOut TLay (snd p)) (l_memo 8 lx_run (PerformLayout, 9%N)) =
  option_map (fun p => lays TS TIn TOut TLay (snd p))
             (l_memo 8 (fresh TS TIn TOut TLay 0%N (skel TS TIn TOut TLay lx_run)) (PerformLayout, 9%N)) /\
  option_map (fun p => lays TS TIn TOut TLay (snd p)) (l_memo 8 lx_run (PerformLayout, 9%N)) =
  Some (LNode TLay 0%N [LNode TLay 23%N [LNode TLay 13%N []]; LNode TLay 26%N [LNode TLay 15%N [LNode TLay 100%N []]]]).
Proof. vm_compute. split; reflexivity. Qed.

(* ---------- HQ cannot be dropped ---------- *)
Lemma q_algo_cases s st i :
  q_algo s st i = l_algo s st i \/
  (exists x, st = [x] /\
     ((t_mode i = PerformLayout /\
       q_algo s st i = Query _ _ _ 0 (ComputeSize, snd i)
                        (fun _ => Query _ _ _ 0 (PerformLayout, 7%N) (fun o => SetLayout _ _ _ 0 1%N (Ret _ _ _ o)))) \/
      (t_mode i <> PerformLayout /\ q_algo s st i = Ret _ _ _ 0%N) \/
      (t_mode i = PerformLayout /\
       q_algo s st i = Query _ _ _ 0 hidden_child_key (fun _ => SetLayout _ _ _ 0 50%N (Ret _ _ _ 0%N))) \/
      (t_mode i = ComputeSize /\ q_algo s st i = Query _ _ _ 0 (ComputeSize, snd i) (fun o => Ret _ _ _ o)))).
Proof.
  destruct s as [[|[p|p|]] b]; destruct st as [|x [|y r]]; unfold q_algo; cbn [fst]; try (left; reflexivity); right; exists x;
    (split; [reflexivity|]); destruct (t_mode i) eqn:E; auto 6.
  - right. left. split; [congruence|reflexivity].
  - right. left. split; [congruence|reflexivity].
  - right. left. split; [congruence|reflexivity].
Qed.

Lemma q_algo_WF s st i : WFAlg TIn TOut TLay t_mode (q_algo s st i).
Proof.
  destruct (q_algo_cases s st i) as [->|[x [_ [[_ ->]|[[_ ->]|[[_ ->]|[_ ->]]]]]]]; [apply l_algo_WF| | | |];
    repeat (constructor; try (cbn; discriminate); intros).
Qed.

Lemma q_algo_H1 s st i : t_mode i = PerformLayout -> Visits TIn TOut TLay t_mode (seq 0 (length st)) (q_algo s st i).
Proof.
  intros Hm. destruct (q_algo_cases s st i) as [->|[x [-> [[_ ->]|[[C _]|[[_ ->]|[C _]]]]]]]; [apply l_algo_H1; exact Hm| |congruence| |congruence].
  - constructor. intros o. cbn. constructor. intros o'. cbn. constructor. constructor.
  - constructor. intros o. cbn. constructor. constructor.
Qed.

Lemma q_algo_H3 s st i : t_mode i = PerformLayout ->
  SetsLast TIn TOut TLay (nones TS t_is_none st) (seq 0 (length st)) (q_algo s st i).
Proof.
  intros Hm. destruct (q_algo_cases s st i) as [->|[x [-> [[_ ->]|[[C _]|[[_ ->]|[C _]]]]]]]; [apply l_algo_H3; exact Hm| |congruence| |congruence].
  - constructor. intros o. constructor. intros o'. constructor.
    destruct (nones TS t_is_none [x] 0); cbn; constructor.
  - constructor. intros o. constructor. destruct (nones TS t_is_none [x] 0); cbn; constructor.
Qed.

Lemma q_algo_NS s st i : t_mode i = ComputeSize -> SizeOnly TIn TOut TLay t_mode (q_algo s st i).
Proof.
  intros Hm. destruct (q_algo_cases s st i) as [->|[x [_ [[C _]|[[_ ->]|[[C _]|[_ ->]]]]]]]; [apply l_algo_NS; exact Hm|congruence| |congruence|].
  - constructor.
  - constructor; [reflexivity|]. intros o. constructor.
Qed.

(* two passes with root inputs 1 then 2 leave the display:none leaf with layout 0; a fresh tree laid out with input 2
   stores 50 there; same skeleton (nothing is mutated) *)
Lemma hq_witness :
  option_map q_leaf_lay (q_after [1%N; 2%N]) = Some (Some 0%N) /\
  option_map q_leaf_lay (q_after [2%N]) = Some (Some 50%N) /\
  option_map (skel TS TIn TOut TLay) (q_after [1%N; 2%N]) = option_map (skel TS TIn TOut TLay) (q_after [2%N]).
Proof. vm_compute. repeat split; reflexivity. Qed.

(* ---------- the order part of H3 cannot be dropped ---------- *)
Lemma o_algo_cases s st i :
  o_algo s st i = l_algo s st i \/
  (exists x, st = [x] /\
     ((t_mode i = PerformLayout /\
       o_algo s st i = SetLayout _ _ _ 0 50%N (Query _ _ _ 0 hidden_child_key (fun o => Ret _ _ _ (o + snd i)%N))) \/
      (t_mode i <> PerformLayout /\ o_algo s st i = Ret _ _ _ 0%N))).
Proof.
  destruct s as [[|p] b]; destruct st as [|x [|y r]]; unfold o_algo; cbn [fst]; try (left; reflexivity); right; exists x;
    (split; [reflexivity|]); destruct (t_mode i) eqn:E;
    [left; split; reflexivity | right; split; [congruence|reflexivity] | right; split; [congruence|reflexivity]].
Qed.

Lemma o_algo_WF s st i : WFAlg TIn TOut TLay t_mode (o_algo s st i).
Proof.
  destruct (o_algo_cases s st i) as [->|[x [_ [[_ ->]|[_ ->]]]]]; [apply l_algo_WF| |];
    repeat (constructor; try (cbn; discriminate); intros).
Qed.

Lemma o_algo_H1 s st i : t_mode i = PerformLayout -> Visits TIn TOut TLay t_mode (seq 0 (length st)) (o_algo s st i).
Proof.
  intros Hm. destruct (o_algo_cases s st i) as [->|[x [-> [[_ ->]|[C _]]]]]; [apply l_algo_H1; exact Hm| |congruence].
  constructor. constructor. intros o. cbn. constructor.
Qed.

Lemma o_algo_NS s st i : t_mode i = ComputeSize -> SizeOnly TIn TOut TLay t_mode (o_algo s st i).
Proof.
  intros Hm. destruct (o_algo_cases s st i) as [->|[x [_ [[C _]|[_ ->]]]]]; [apply l_algo_NS; exact Hm|congruence|constructor].
Qed.

Lemma o_algo_HQ s st i : NoHiddenSize TIn TOut TLay t_mode (nones TS t_is_none st) (o_algo s st i).
Proof.
  destruct (o_algo_cases s st i) as [->|[x [_ [[_ ->]|[_ ->]]]]]; [apply l_algo_HQ| |];
    repeat (constructor; try (cbn; discriminate); intros).
Qed.

(* it does store every child's layout in a PerformLayout evaluation (H3 without the order requirement) *)
Lemma o_algo_sets_every_child s st i : t_mode i = PerformLayout ->
  SetsLast TIn TOut TLay (fun _ => false) (seq 0 (length st)) (o_algo s st i).
Proof.
  intros Hm. destruct (o_algo_cases s st i) as [->|[x [-> [[_ ->]|[C _]]]]]; [|repeat (constructor; intros)|congruence].
  unfold l_algo. rewrite Hm. generalize (fst s + snd i)%N. generalize 0 as k. clear s.
  induction st as [|s st IH]; intros k acc; cbn [lall length]; [constructor|].
  rewrite Hm. destruct (t_is_none s); constructor; intros o; cbv iota; constructor; rewrite remove_head_seq; apply IH.
Qed.

(* passes with root inputs 1 then 2: the second pass hits the display:none child's entry, the layout stored before the query
   survives (50); a fresh tree: the query misses and zeroes it (0) *)
Lemma order_witness :
  option_map o_child_lay (o_after [1%N; 2%N]) = Some (Some 50%N) /\
  option_map o_child_lay (o_after [2%N]) = Some (Some 0%N) /\
  option_map (skel TS TIn TOut TLay) (o_after [1%N; 2%N]) = option_map (skel TS TIn TOut TLay) (o_after [2%N]).
Proof. vm_compute. repeat split; reflexivity. Qed.
