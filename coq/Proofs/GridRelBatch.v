(* The monadic 11.5 steps of the grid sizing phase (Model/GridAlg.v: m_span1_item .. m_resolve_intrinsic) are relational: related items / tracks /
   sizes give sizing programs in lockstep (Model/GridAlgRel.v `ProgRel`) with related tracks and items as results.  The distribution kernels go
   through the two absolute thresholds of the implementation, so everything here is under the hypotheses Hthr / Hthr2 of Proofs/GridRelKernels.v
   (true at k = 1: `thr_one`, `base_thr_one`). *)
From Coq Require Import QArith Bool List ZArith Lia.
From TV Require Import Num.Num Num.QNum Model.Common Model.Leaf Gen.GridTracksGen Model.GridTracks Model.GridIntrinsic.
From TV Require Import Model.GridAlgBase Model.GridAlg Model.FlexAlgBase Model.FlexAlgRel Model.GridAlgRel.
From TV Require Import Model.Scale Model.ScaleGrid Model.Engine Model.EngineRel.
From TV Require Import Proofs.ScalePrim Proofs.ScaleKit Proofs.ScaleProofs Proofs.ScaleGrid Proofs.GridRelKit Proofs.GridRelItems.
From TV Require Import Proofs.GridRelKernels.
Import Model.GridAlg.
Import ListNotations.
Close Scope Z_scope.

Local Notation "'do' ' p <- m ;; k" := (pbind m (fun p => k)) (at level 200, p pattern, m at level 100, k at level 200).

Section Batch.
  Variable k : Q.
  Hypothesis Hk : (0 < k)%Q.
  Hypothesis Hthr : sc k (threshold (T := XQ)) threshold.
  Hypothesis Hthr2 : sc k (base_threshold (T := XQ)) base_threshold.
  Notation L := (sc k).
  Notation O := (op_rel (sc k)).
  Notation VI := (pair_rel (sc k) (gitem_rel k)).
  Notation VT := (pair_rel (tracks_rel k) (gitem_rel k)).
  Notation VB := (pair_rel (tracks_rel k) (Forall2 (gitem_rel k))).

  (* the common shape of a step: a pmap_acc over the batch, then a flush of the tracks *)
  Lemma rel_step_shape (f f' : list (track XQ) -> @GItem XQ -> Prog (list (track XQ) * @GItem XQ)) (fl fl' : list (track XQ) -> list (track XQ))
        b b' ts ts' :
    (forall s s' g g', tracks_rel k s s' -> gitem_rel k g g' -> ProgRel k VT (f s g) (f' s' g')) ->
    (forall s s', tracks_rel k s s' -> tracks_rel k (fl s) (fl' s')) ->
    Forall2 (gitem_rel k) b b' -> tracks_rel k ts ts' ->
    ProgRel k VB (do '(ts, b) <- pmap_acc f b ts ;; PRet (fl ts, b)) (do '(ts, b) <- pmap_acc f' b' ts' ;; PRet (fl' ts, b)).
  Proof.
    intros Hf Hfl Hb Hts. eapply pbind_rel.
    - apply (pmap_acc_rel k (tracks_rel k) (gitem_rel k)); [exact Hf|exact Hb|exact Hts].
    - intros [t1 b1] [t1' b1'] [Ht1 Hb1]. cbn [fst snd] in Ht1, Hb1. constructor. split; cbn [fst snd]; [apply Hfl; exact Ht1|exact Hb1].
  Qed.

  Lemma rel_m_step_content_minimums ax inner inner' fp ot ot' oadj oadj' flex uff b b' ts ts' :
    sz_rel O inner inner' -> tracks_rel k ot ot' -> L oadj oadj' -> Forall2 (gitem_rel k) b b' -> tracks_rel k ts ts' ->
    ProgRel k VB (m_step_content_minimums ax inner fp ot oadj flex uff b ts) (m_step_content_minimums ax inner' fp ot' oadj' flex uff b' ts').
  Proof.
    intros Hin Hot Hadj Hb Hts. unfold m_step_content_minimums.
    apply rel_step_shape; [|intros; apply rel_flush_planned_base; assumption|exact Hb|exact Hts].
    intros s s' g g' Hs Hg. eapply pbind_rel; [apply (rel_m_min_content k Hk); eassumption|].
    intros [v g1] [v' g1'] [Hv Hg1]. cbn [fst snd] in Hv, Hg1. constructor. split; cbn [fst snd]; [|exact Hg1].
    rewrite (view_rel k ax _ _ Hg1).
    apply (rel_to_base k Hk Hthr Hthr2); [exact Hv|apply aff_min_or_max_content_min| |exact Hs].
    apply (rel_scroll_limit k Hk). apply rel_get_ax. exact Hin.
  Qed.

  Lemma rel_m_step_max_content_all ax inner inner' fp ot ot' oadj oadj' flex uff b b' ts ts' :
    sz_rel O inner inner' -> tracks_rel k ot ot' -> L oadj oadj' -> Forall2 (gitem_rel k) b b' -> tracks_rel k ts ts' ->
    ProgRel k VB (m_step_max_content_all ax inner fp ot oadj flex uff b ts) (m_step_max_content_all ax inner' fp ot' oadj' flex uff b' ts').
  Proof.
    intros Hin Hot Hadj Hb Hts. unfold m_step_max_content_all.
    apply rel_step_shape; [|intros; apply rel_flush_planned_base; assumption|exact Hb|exact Hts].
    intros s s' g g' Hs Hg. eapply pbind_rel; [apply (rel_m_max_content k Hk); eassumption|].
    intros [v g1] [v' g1'] [Hv Hg1]. cbn [fst snd] in Hv, Hg1. constructor. split; cbn [fst snd]; [|exact Hg1].
    rewrite (view_rel k ax _ _ Hg1).
    apply (rel_to_base k Hk Hthr Hthr2); [exact Hv|apply aff_has_max_content_min|apply tfun_growth_limit|exact Hs].
  Qed.

  Lemma rel_m_step_intrinsic_maximums ax inner inner' fp ot ot' oadj oadj' b b' ts ts' :
    sz_rel O inner inner' -> tracks_rel k ot ot' -> L oadj oadj' -> Forall2 (gitem_rel k) b b' -> tracks_rel k ts ts' ->
    ProgRel k VB (m_step_intrinsic_maximums ax inner fp ot oadj b ts) (m_step_intrinsic_maximums ax inner' fp ot' oadj' b' ts').
  Proof.
    intros Hin Hot Hadj Hb Hts. unfold m_step_intrinsic_maximums.
    apply rel_step_shape; [|intros; apply (rel_flush_planned_growth_limit_increases k Hk); assumption|exact Hb|exact Hts].
    intros s s' g g' Hs Hg. eapply pbind_rel; [apply (rel_m_min_content k Hk); eassumption|].
    intros [v g1] [v' g1'] [Hv Hg1]. cbn [fst snd] in Hv, Hg1. constructor. split; cbn [fst snd]; [|exact Hg1].
    rewrite (view_rel k ax _ _ Hg1). pose proof (rel_get_ax O _ _ ax Hin) as Hi.
    apply (rel_to_limit k Hk Hthr); [exact Hi|exact Hv|apply aff_no_definite_max; exact Hi|exact Hs].
  Qed.

  Lemma rel_m_step_max_content_maximums ax inner inner' fp ot ot' oadj oadj' b b' ts ts' :
    sz_rel O inner inner' -> tracks_rel k ot ot' -> L oadj oadj' -> Forall2 (gitem_rel k) b b' -> tracks_rel k ts ts' ->
    ProgRel k VB (m_step_max_content_maximums ax inner fp ot oadj b ts) (m_step_max_content_maximums ax inner' fp ot' oadj' b' ts').
  Proof.
    intros Hin Hot Hadj Hb Hts. unfold m_step_max_content_maximums.
    apply rel_step_shape; [|intros; apply (rel_flush_planned_growth_limit_increases k Hk); assumption|exact Hb|exact Hts].
    intros s s' g g' Hs Hg. eapply pbind_rel; [apply (rel_m_max_content k Hk); eassumption|].
    intros [v g1] [v' g1'] [Hv Hg1]. cbn [fst snd] in Hv, Hg1. constructor. split; cbn [fst snd]; [|exact Hg1].
    rewrite (view_rel k ax _ _ Hg1). pose proof (rel_get_ax O _ _ ax Hin) as Hi.
    apply (rel_to_limit k Hk Hthr); [exact Hi|exact Hv|apply aff_has_max_content_max; exact Hi|exact Hs].
  Qed.

  Lemma rel_m_step_max_content_minimums ax inner inner' avail avail' fp ot ot' oadj oadj' flex uff b b' ts ts' :
    sz_rel O inner inner' -> gavail_rel k avail avail' -> tracks_rel k ot ot' -> L oadj oadj' -> Forall2 (gitem_rel k) b b' -> tracks_rel k ts ts' ->
    ProgRel k VB (m_step_max_content_minimums ax inner avail fp ot oadj flex uff b ts)
                 (m_step_max_content_minimums ax inner' avail' fp ot' oadj' flex uff b' ts').
  Proof.
    intros Hin Hav Hot Hadj Hb Hts. unfold m_step_max_content_minimums.
    destruct avail, avail'; cbn [gavail_rel] in Hav; try contradiction; try (constructor; split; assumption).
    apply rel_step_shape; [|intros; apply rel_flush_planned_base; assumption|exact Hb|exact Hts].
    intros s s' g g' Hs Hg. eapply pbind_rel; [apply (rel_m_max_content k Hk); eassumption|].
    intros [v g1] [v' g1'] [Hv Hg1]. cbn [fst snd] in Hv, Hg1. constructor. split; cbn [fst snd]; [|exact Hg1].
    rewrite (view_rel k ax _ _ Hg1). pose proof (rel_get_ax O _ _ ax Hin) as Hi.
    assert (Hsp : L (maybe_min_fo v (spanned_track_limit (get_ax inner ax) (view ax g1) s))
                    (maybe_min_fo v' (spanned_track_limit (get_ax inner' ax) (view ax g1) s'))).
    { apply (rel_maybe_min_fo k Hk); [exact Hv|]. apply (rel_spanned_track_limit k Hk); assumption. }
    rewrite (rel_existsb (track_rel k) has_max_content_min has_max_content_min _ _ (rel_has_max_content_min k)
                         (rel_item_slice k (view ax g1) _ _ Hs)).
    destruct (existsb has_max_content_min (item_slice (view ax g1) s)).
    - apply (rel_to_base k Hk Hthr Hthr2); [exact Hsp|apply aff_has_max_content_min|apply tfun_infinity|exact Hs].
    - apply (rel_to_base k Hk Hthr Hthr2); [exact Hsp|apply aff_has_auto_min| |exact Hs].
      apply (tfun_fit_content_limited_growth_limit k Hk). exact Hi.
  Qed.

  Lemma rel_m_step_minimums ax inner inner' avail avail' fp ot ot' oadj oadj' flex uff b b' ts ts' :
    sz_rel O inner inner' -> gavail_rel k avail avail' -> tracks_rel k ot ot' -> L oadj oadj' -> Forall2 (gitem_rel k) b b' -> tracks_rel k ts ts' ->
    ProgRel k VB (m_step_minimums ax inner avail fp ot oadj flex uff b ts) (m_step_minimums ax inner' avail' fp ot' oadj' flex uff b' ts').
  Proof.
    intros Hin Hav Hot Hadj Hb Hts. unfold m_step_minimums.
    apply rel_step_shape; [|intros; apply rel_flush_planned_base; assumption|exact Hb|exact Hts].
    intros s s' g g' Hs Hg. pose proof (rel_get_ax O _ _ ax Hin) as Hi.
    assert (Ex : g_xintr g' = g_xintr g) by (gi_open Hg; assumption). rewrite Ex.
    destruct (get_ax (g_xintr g) ax); [|constructor; split; assumption].
    eapply pbind_rel.
    - apply (rel_m_intrinsic_minimum_space k Hk); try eassumption.
      intros h h' Hh. rewrite (view_rel k ax _ _ Hh). apply (rel_spanned_track_limit k Hk); assumption.
    - intros [v g1] [v' g1'] [Hv Hg1]. cbn [fst snd] in Hv, Hg1. constructor. split; cbn [fst snd]; [|exact Hg1].
      rewrite (view_rel k ax _ _ Hg1).
      apply (rel_to_base k Hk Hthr Hthr2); [exact Hv|apply (aff_has_intrinsic_min k Hk); exact Hi| |exact Hs].
      apply (rel_scroll_limit k Hk). exact Hi.
  Qed.

  Lemma rel_m_general_batch ax inner inner' avail avail' fp ot ot' oadj oadj' flex uff b b' ts ts' :
    sz_rel O inner inner' -> gavail_rel k avail avail' -> tracks_rel k ot ot' -> L oadj oadj' -> Forall2 (gitem_rel k) b b' -> tracks_rel k ts ts' ->
    ProgRel k VB (m_general_batch ax inner avail fp ot oadj flex uff b ts) (m_general_batch ax inner' avail' fp ot' oadj' flex uff b' ts').
  Proof.
    intros Hin Hav Hot Hadj Hb Hts. unfold m_general_batch.
    eapply pbind_rel; [apply rel_m_step_minimums; eassumption|]. intros [t1 b1] [t1' b1'] [Ht1 Hb1]. cbn [fst snd] in Ht1, Hb1.
    eapply pbind_rel; [apply rel_m_step_content_minimums; eassumption|]. intros [t2 b2] [t2' b2'] [Ht2 Hb2]. cbn [fst snd] in Ht2, Hb2.
    eapply pbind_rel; [apply rel_m_step_max_content_minimums; eassumption|]. intros [t3 b3] [t3' b3'] [Ht3 Hb3]. cbn [fst snd] in Ht3, Hb3.
    eapply pbind_rel; [apply rel_m_step_max_content_all; eassumption|]. intros [t4 b4] [t4' b4'] [Ht4 Hb4]. cbn [fst snd] in Ht4, Hb4.
    pose proof (rel_fix_growth_limits k Hk _ _ Ht4) as Ht5. cbv zeta.
    destruct flex; [constructor; split; assumption|].
    eapply pbind_rel; [apply rel_m_step_intrinsic_maximums; eassumption|]. intros [t6 b6] [t6' b6'] [Ht6 Hb6]. cbn [fst snd] in Ht6, Hb6.
    apply rel_m_step_max_content_maximums; assumption.
  Qed.

  (* ---- step 2: one item of a span-1 batch *)
  Lemma rel_max_with (b b' : XQ) (p p' : Prog (XQ * @GItem XQ)) :
    L b b' -> ProgRel k VI p p' ->
    ProgRel k VI (do '(v, g1) <- p ;; PRet (fmax b v, g1)) (do '(v, g1) <- p' ;; PRet (fmax b' v, g1)).
  Proof.
    intros Hb Hp. eapply pbind_rel; [exact Hp|]. intros [v g1] [v' g1'] [Hv Hg1]. cbn [fst snd] in Hv, Hg1.
    constructor. split; cbn [fst snd]; [apply (sc_max k); assumption|exact Hg1].
  Qed.

  Lemma rel_m_span1_item ax inner inner' avail avail' fp ot ot' oadj oadj' ts ts' g g' :
    sz_rel O inner inner' -> gavail_rel k avail avail' -> tracks_rel k ot ot' -> L oadj oadj' -> tracks_rel k ts ts' -> gitem_rel k g g' ->
    ProgRel k VT (m_span1_item ax inner avail fp ot oadj ts g) (m_span1_item ax inner' avail' fp ot' oadj' ts' g').
  Proof.
    intros Hin Hav Hot Hadj Hts Hg. unfold m_span1_item. pose proof (rel_get_ax O _ _ ax Hin) as Hi.
    assert (Ex : g_ix g' = g_ix g) by (gi_open Hg; assumption). rewrite Ex. cbv zeta.
    set (idx := S (fst (get_ax (g_ix g) ax))).
    pose proof (rel_nth_error (track_rel k) idx ts ts' Hts) as Hn.
    destruct (nth_error ts idx) as [t|], (nth_error ts' idx) as [t'|]; cbn [op_rel] in Hn; try contradiction;
      [|constructor; split; assumption].
    assert (Hmin : sfn_rel k (minf t) (minf t')) by (track_open Hn; assumption).
    assert (Hmaxt : sfn_rel k (maxf t) (maxf t')) by (track_open Hn; assumption).
    assert (Hbase : L (base_size t) (base_size t')) by (track_open Hn; assumption).
    assert (Hmc : forall h h', gitem_rel k h h' -> ProgRel k VI (m_min_content ax inner fp ot oadj h) (m_min_content ax inner' fp ot' oadj' h'))
      by (intros; apply (rel_m_min_content k Hk); assumption).
    assert (Hxc : forall h h', gitem_rel k h h' -> ProgRel k VI (m_max_content ax inner fp ot oadj h) (m_max_content ax inner' fp ot' oadj' h'))
      by (intros; apply (rel_m_max_content k Hk); assumption).
    eapply pbind_rel with (RA := VI).
    - rewrite (rel_is_none k _ _ Hi).
      destruct (minf t), (minf t'); cbn [sfn_rel] in Hmin; try contradiction;
        try (constructor; split; assumption); try (apply rel_max_with; [exact Hbase|auto]).
      + destruct (is_none (get_ax inner ax)); [apply rel_max_with; [exact Hbase|auto]|constructor; split; assumption].
      + (* SAuto: rel_max_with applied, the minimum space is left *)
        apply (rel_m_intrinsic_minimum_space k Hk); try eassumption.
        intros h h' Hh. apply (rel_definite_limit k Hk); assumption.
    - intros [nb g1] [nb' g1'] [Hnb Hg1]. cbn [fst snd] in Hnb, Hg1. cbv beta iota.
      pose proof (rel_set_base k _ _ _ _ Hn Hnb) as Ht1.
      set (t1 := set_base t nb) in *. set (t1' := set_base t' nb') in *. clearbody t1 t1'.
      assert (Hmx1 : sfn_rel k (maxf t1) (maxf t1')) by (track_open Ht1; assumption).
      assert (Hlp1 : L (limit_planned t1) (limit_planned t1')) by (track_open Ht1; assumption).
      eapply pbind_rel with (RA := pair_rel (track_rel k) (gitem_rel k)).
      + rewrite (rel_is_fit_content k _ _ Hmx1), (rel_is_max_content_alike k _ _ Hmx1), (rel_uses_percentage k _ _ Hmx1),
                (rel_is_intrinsic k _ _ Hmx1), (rel_is_none k _ _ Hi).
        destruct (is_fit_content (maxf t1)).
        * eapply pbind_rel with (RA := VI).
          -- rewrite (rel_g_scroll k ax _ _ Hg1).
             destruct (negb (g_scroll ax g1)); [apply rel_max_with; [exact Hlp1|auto]|constructor; split; assumption].
          -- intros [p1 g2] [p1' g2'] [Hp1 Hg2]. cbn [fst snd] in Hp1, Hg2.
             eapply pbind_rel; [apply Hxc; exact Hg2|]. intros [mx g3] [mx' g3'] [Hmx Hg3]. cbn [fst snd] in Hmx, Hg3.
             constructor. split; cbn [fst snd]; [|exact Hg3].
             apply rel_set_limit_planned; [exact Ht1|]. apply (sc_max k); [exact Hk|exact Hp1|].
             apply (sc_min k); [exact Hk|exact Hmx|]. apply (rel_fit_content_limit k Hk); assumption.
        * destruct (is_max_content_alike (maxf t1) || uses_percentage (maxf t1) && is_none (get_ax inner ax)).
          -- eapply pbind_rel; [apply Hxc; exact Hg1|]. intros [mx g2] [mx' g2'] [Hmx Hg2]. cbn [fst snd] in Hmx, Hg2.
             constructor. split; cbn [fst snd]; [|exact Hg2].
             apply rel_set_limit_planned; [exact Ht1|]. apply (sc_max k); assumption.
          -- destruct (is_intrinsic (maxf t1)); [|constructor; split; assumption].
             eapply pbind_rel; [apply Hmc; exact Hg1|]. intros [mn g2] [mn' g2'] [Hmn Hg2]. cbn [fst snd] in Hmn, Hg2.
             constructor. split; cbn [fst snd]; [|exact Hg2].
             apply rel_set_limit_planned; [exact Ht1|]. apply (sc_max k); assumption.
      + intros [t2 g2] [t2' g2'] [Ht2 Hg2]. cbn [fst snd] in Ht2, Hg2. constructor. split; cbn [fst snd]; [|exact Hg2].
        apply rel_update_nth; [intros; exact Ht2|exact Hts].
  Qed.

  Lemma rel_m_span1_batch ax inner inner' avail avail' fp ot ot' oadj oadj' b b' ts ts' :
    sz_rel O inner inner' -> gavail_rel k avail avail' -> tracks_rel k ot ot' -> L oadj oadj' -> Forall2 (gitem_rel k) b b' -> tracks_rel k ts ts' ->
    ProgRel k VB (m_span1_batch ax inner avail fp ot oadj b ts) (m_span1_batch ax inner' avail' fp ot' oadj' b' ts').
  Proof.
    intros Hin Hav Hot Hadj Hb Hts. unfold m_span1_batch.
    apply rel_step_shape; [|intros; apply (rel_span1_finish k Hk); assumption|exact Hb|exact Hts].
    intros s s' g g' Hs Hg. apply rel_m_span1_item; assumption.
  Qed.

  (* ---- the batch loop *)
  Lemma rel_map_view ax (l l' : list (@GItem XQ)) : Forall2 (gitem_rel k) l l' -> map (view ax) l' = map (view ax) l.
  Proof. induction 1 as [|x x' r r' Hx Hr IH]; cbn [map]; [reflexivity|]. rewrite (view_rel k ax _ _ Hx), IH. reflexivity. Qed.

  Lemma rel_m_process_batch ax inner inner' avail avail' fp ot ot' oadj oadj' ffs ffs' b b' flex ts ts' :
    sz_rel O inner inner' -> gavail_rel k avail avail' -> tracks_rel k ot ot' -> L oadj oadj' -> dl ffs ffs' ->
    Forall2 (gitem_rel k) b b' -> tracks_rel k ts ts' ->
    ProgRel k VB (m_process_batch ax inner avail fp ot oadj ffs b flex ts) (m_process_batch ax inner' avail' fp ot' oadj' ffs' b' flex ts').
  Proof.
    intros Hin Hav Hot Hadj Hffs Hb Hts. unfold m_process_batch. cbv zeta.
    assert (Esp : match b' with g :: _ => it_span (view ax g) | [] => 1%nat end = match b with g :: _ => it_span (view ax g) | [] => 1%nat end).
    { destruct Hb as [|x x' r r' Hx Hr]; [reflexivity|]. rewrite (view_rel k ax _ _ Hx). reflexivity. }
    rewrite Esp. unfold neb. rewrite (dl_eqb _ _ _ _ Hffs dl_zero).
    destruct (negb flex && Nat.eqb match b with g :: _ => it_span (view ax g) | [] => 1%nat end 1).
    - apply rel_m_span1_batch; assumption.
    - apply rel_m_general_batch; assumption.
  Qed.

  Lemma rel_m_batch_loop ax inner inner' avail avail' fp ot ot' oadj oadj' ffs ffs' :
    sz_rel O inner inner' -> gavail_rel k avail avail' -> tracks_rel k ot ot' -> L oadj oadj' -> dl ffs ffs' ->
    forall fuel off items items' ts ts', Forall2 (gitem_rel k) items items' -> tracks_rel k ts ts' ->
    ProgRel k VB (m_batch_loop ax inner avail fp ot oadj fuel ffs off items ts) (m_batch_loop ax inner' avail' fp ot' oadj' fuel ffs' off items' ts').
  Proof.
    intros Hin Hav Hot Hadj Hffs. induction fuel as [|f IH]; intros off items items' ts ts' Hit Hts; cbn [m_batch_loop].
    - constructor. split; assumption.
    - rewrite (rel_map_view ax _ _ Hit).
      destruct (next_batch off (map (view ax) items)) as [[next flex]|]; [|constructor; split; assumption].
      cbv zeta. eapply pbind_rel.
      + apply rel_m_process_batch; try assumption. apply rel_firstn. apply rel_skipn. exact Hit.
      + intros [t1 b1] [t1' b1'] [Ht1 Hb1]. cbn [fst snd] in Ht1, Hb1.
        assert (Hit' : Forall2 (gitem_rel k) (firstn off items ++ b1 ++ skipn next items) (firstn off items' ++ b1' ++ skipn next items')).
        { apply rel_app; [apply rel_firstn; exact Hit|]. apply rel_app; [exact Hb1|apply rel_skipn; exact Hit]. }
        destruct flex; [constructor; split; assumption|]. apply IH; assumption.
  Qed.

  (* ---- resolve_intrinsic_track_sizes *)
  Theorem rel_m_resolve_intrinsic ax inner inner' avail avail' fp ot ot' oadj oadj' items items' ts ts' :
    sz_rel O inner inner' -> gavail_rel k avail avail' -> tracks_rel k ot ot' -> L oadj oadj' ->
    Forall2 (gitem_rel k) items items' -> tracks_rel k ts ts' ->
    ProgRel k VB (m_resolve_intrinsic ax inner avail fp ot oadj items ts) (m_resolve_intrinsic ax inner' avail' fp ot' oadj' items' ts').
  Proof.
    intros Hin Hav Hot Hadj Hit Hts. unfold m_resolve_intrinsic. cbv zeta. rewrite (rel_length _ _ _ Hit).
    eapply pbind_rel.
    - apply rel_m_batch_loop; try assumption.
      + apply rel_fsum_dl. apply (rel_map (track_rel k) dl); [apply rel_flex_factor|exact Hts].
      + apply (rel_sort_by_items (gitem_rel k)); [|exact Hit].
        intros a a' c c' Ha Hc. rewrite (view_rel k ax _ _ Ha), (view_rel k ax _ _ Hc). reflexivity.
    - intros [t1 b1] [t1' b1'] [Ht1 Hb1]. cbn [fst snd] in Ht1, Hb1. constructor. split; cbn [fst snd]; [|exact Hb1].
      apply (rel_finish_infinite_limits k Hk). exact Ht1.
  Qed.
End Batch.

(* at k = 1 the two threshold hypotheses hold: the sizing phase maps equal-as-numbers inputs to equal-as-numbers outputs *)
Definition rel_m_resolve_intrinsic_one := rel_m_resolve_intrinsic 1 eq_refl thr_one base_thr_one.
