"""Stages shared by all properties: translate + prove (+ hygiene gate), correspondence bookkeeping."""
import re
from .common import *

TRUSTED_COMMON = [
    'Coq 8.16.1 kernel + vm_compute (no native_compute)',
    'translator /verif/translator (refuses unrecognised source forms: the check then fails closed, or -- for executable models covered by a correspondence -- falls back to the committed snapshot tied by that correspondence)',
    'harness /verif/harness + printing of Eval vm_compute results + integer diff',
]


def proof_stage(rep, pid, extra_trusted=()):
    with Lock('coq'):
        ok, problems, fps = translate()
        changed = fingerprint_changes(fps)
        if problems:
            # only the generated files this property's theorems and correspondence runners depend on matter to it
            try:
                relevant = set(gen_dependencies(model_roots(pid)))
            except Exception:
                relevant = None
            for p in problems:
                if relevant is not None and p['target'] not in relevant:
                    rep.cov.setdefault('translator_unrelated', []).append({'target': p['target'], 'error': p['error']})
                elif p.get('fallback'):
                    # unrecognised source form in a K-tied executable model: the pinned tree's translation stands in as a
                    # hand-written model, tied to the current source by the correspondence (run with the escalated budget)
                    rep.cov.setdefault('translator_fallback', []).append({'target': p['target'], 'error': p['error']})
                    extra_trusted = list(extra_trusted) + [
                        'translator refused the current source form of Gen/%s (%s): the snapshot of the pinned tree\'s translation '
                        '(translator/snapshots) is used as a hand-written model, tied to the current source by the correspondence only'
                        % (p['target'], p['error'][:120])]
                    if not any(c.startswith(p['generator'] + ':') for c in changed):
                        changed.append(p['generator'] + ':<refused>')
                else:
                    rep.add_broken('translator', p['target'], p['error'])
        bad = hygiene()
        for b in bad:
            rep.add_broken('hygiene', b, 'forbidden construct in the Coq development')
        res = check_props(pid)
        pin_problems = check_pins(pid)
    thms = res['theorems']
    rep.cov['obligations'] = len(thms)
    rep.cov['checker_cmd'] = 'cd /verif/coq && make -j16 Props/%s.vo && coqc -Q . TV Props/%s.v  (Print Assumptions vs allow-list; grep hygiene gate)' % (pid, pid)
    rep.cov['fingerprints_changed'] = changed
    rep.cov['theorems'] = thms
    rep.cov['make_s'] = round(res.get('make_s', 0), 1)
    if not res['compiled']:
        out = res['output']
        m = re.findall(r'File "\./([^"]+)", line (\d+)', out)
        where = '%s:%s' % m[-1] if m else 'Props/%s.v' % pid
        err = out.strip().split('\n')[-12:]
        rep.add_broken('proof', where, '\n'.join(err))
        rep.cov['discharged'] = 0
    else:
        okn = 0
        for t in thms:
            if t in res['assumptions'] and t not in res['bad_axioms']:
                okn += 1
        for name, axs in res['bad_axioms'].items():
            rep.add_broken('axioms', name, 'not in allow-list: %s' % axs)
        rep.cov['discharged'] = okn if not bad else 0
        rep.cov['axioms_reported'] = {k: v for k, v in res['assumptions'].items() if v}
    # every statement is pinned (name, statement hash, hash of the definitions it is written with): a theorem that silently
    # disappeared or was weakened -- directly or through a predicate it uses -- is a broken obligation
    for name, why in pin_problems:
        rep.add_broken('pin', name, why + ' (coq/Props/EXPECTED.json; after a deliberate change re-pin with ./check --write-pins)')
    rep.cov['pinned_statements_ok'] = not pin_problems
    if pin_problems:
        gone = len([n for n, w in pin_problems if 'pinned theorem is no longer' in w])
        moved = len(set(n for n, _ in pin_problems if n in thms))
        rep.cov['obligations'] = len(thms) + gone          # a pinned theorem that disappeared is still an obligation
        rep.cov['discharged'] = max(0, rep.cov['discharged'] - moved)
    rep.cov['trusted_base'] = TRUSTED_COMMON + list(extra_trusted)
    if rep.tier == 'thorough' and res['compiled']:
        # independent re-check of the compiled proofs and everything they depend on (coqchk), axioms it reports vs the allow-list
        with Lock('coq'):
            rc, out, dt = sh('coqchk -o -silent -Q . TV TV.Props.%s' % pid, cwd=COQ, timeout=3000)
        m = re.search(r'\* Axioms:(.*?)\n\s*\n\* Constants', out, re.S)
        axs = [a.strip() for a in (m.group(1).split('\n') if m else []) if a.strip() and a.strip() != '<none>']
        bad_ax = [a for a in axs if a.split('.')[-1] not in ALLOWED_AXIOMS and a not in ALLOWED_AXIOMS]
        rep.cov['coqchk'] = {'rc': rc, 'seconds': round(dt, 1), 'axioms': axs}
        unsafe = [l for l in out.split('\n') if ('type-in-type' in l or 'unsafe' in l or 'positivity is assumed' in l) and '<none>' not in l]
        if rc != 0 or bad_ax or unsafe or not m:
            rep.add_broken('coqchk', 'Props/%s' % pid, (out[-800:] if rc != 0 or not m else 'axioms %s %s' % (bad_ax, unsafe)))
    return res, changed


def diff_results(rep, name, cases, impl, model, describe=None, max_report=5):
    """Compare implementation and model results case by case; record disagreements as broken correspondence."""
    bad = []
    for c, a, b in zip(cases, impl, model):
        if a != b:
            bad.append((c, a, b))
    rep.cov['evaluations'] = rep.cov.get('evaluations', 0) + len(cases)
    if bad:
        for c, a, b in bad[:max_report]:
            rep.add_broken('correspondence', name, {'case': c, 'impl': a, 'model': b})
        rep.cov.setdefault('disagreements', 0)
        rep.cov['disagreements'] += len(bad)
    return bad
