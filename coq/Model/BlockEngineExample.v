(* A concrete small tree of block containers and leaves for the non-vacuity examples of the whole-tree theorems of C04 and
   C12 (Props/C04.v, Props/C12.v), and boolean comparisons of stored layouts "as numbers".  Definitions only.

     root      block container, content-box, width 200, padding 5, border 1
       A       leaf, content-box, height 20, padding 2, margin-top 4, measure Fixed 30 x 10
       B       block container, content-box, padding 3, border 1, margin-top 6
         C     leaf, content-box, width 50, padding 1, measure Echo 40 (height = width / 2)
         D     leaf, display none
         G     leaf, content-box, min-width 20, max-height 8, padding 2, border 1, measure Fixed 10 x 30
       E       leaf, position absolute, 10 x 10, border-box
       F       leaf, border-box, width 50 %, height 12 (a percentage: not eligible for the C12 rewrite)          *)
From Coq Require Import QArith ZArith Bool List.
From TV Require Import Num.Num Num.QNum.
From TV Require Model.Types Model.Common Model.Leaf Model.Scale.
From TV Require Import Gen.BlockGen Model.Block Model.Engine Model.EngineRel Model.BlockAlg Model.ScaleBlock Model.BlockEngine Model.BlockEngineRel.
Import ListNotations.

Inductive ExMeasure := EFixed (w h : XQ) | EEcho (base : XQ).
Definition ex_measure (m : ExMeasure) : Leaf.MeasureFn XQ :=
  match m with EFixed w h => Scale.measure_fixed w h | EEcho b => Scale.measure_echo b end.
Definition ex_measure_scale (k : Q) (m : ExMeasure) : ExMeasure :=
  match m with EFixed w h => EFixed (x_scale k w) (x_scale k h) | EEcho b => EEcho (x_scale k b) end.
Definition ExSpec : Type := (BStyle XQ * ExMeasure)%type.
Definition ex_node (p : ExSpec) : BNode XQ := mkBNode (fst p) (ex_measure (snd p)).
Definition ex_spec_scale (k : Q) (p : ExSpec) : ExSpec := (bstyle_scale k (fst p), ex_measure_scale k (snd p)).

Definition qz (z : Z) : XQ := Fin (inject_Z z).
Definition len (z : Z) : LPA XQ := Len (qz z).
Definition rect4 (z : Z) : BRect (LPA XQ) := mkRect (len z) (len z) (len z) (len z).
Definition auto4 : BRect (LPA XQ) := mkRect Auto Auto Auto Auto.
Definition auto2 : BSize (LPA XQ) := mkSize Auto Auto.
Definition ex_style (disp : BDisplay) (content_box : bool) (pos : BPosition) (sz mn mx : BSize (LPA XQ)) (pad bor mtop : Z)
  : BStyle XQ :=
  mkStyle disp false content_box OVisible OVisible (qz 0) pos auto4 sz mn mx None
          (mkRect (len 0) (len 0) (len mtop) (len 0)) (rect4 pad) (rect4 bor) TAAuto.

Definition ex_A : sk ExSpec :=
  SNode _ (ex_style DBlock true PRelative (mkSize Auto (len 20)) auto2 auto2 2 0 4, EFixed (qz 30) (qz 10)) [].
Definition ex_C : sk ExSpec :=
  SNode _ (ex_style DBlock true PRelative (mkSize (len 50) Auto) auto2 auto2 1 0 0, EEcho (qz 40)) [].
Definition ex_D : sk ExSpec :=
  SNode _ (ex_style DNone true PRelative (mkSize (len 70) (len 70)) auto2 auto2 1 0 0, EFixed (qz 5) (qz 5)) [].
Definition ex_G : sk ExSpec :=
  SNode _ (ex_style DBlock true PRelative auto2 (mkSize (len 20) Auto) (mkSize Auto (len 8)) 2 1 0, EFixed (qz 10) (qz 30)) [].
Definition ex_B : sk ExSpec :=
  SNode _ (ex_style DBlock true PRelative auto2 auto2 auto2 3 1 6, EFixed (qz 0) (qz 0)) [ex_C; ex_D; ex_G].
Definition ex_E : sk ExSpec :=
  SNode _ (ex_style DBlock false PAbsolute (mkSize (len 10) (len 10)) auto2 auto2 0 0 0, EFixed (qz 0) (qz 0)) [].
Definition ex_F : sk ExSpec :=
  SNode _ (ex_style DBlock false PRelative (mkSize (Pct (Fin (1 # 2))) (len 12)) auto2 auto2 1 1 0, EFixed (qz 0) (qz 0)) [].
Definition ex_spec : sk ExSpec :=
  SNode _ (ex_style DBlock true PRelative (mkSize (len 200) Auto) auto2 auto2 5 1 0, EFixed (qz 0) (qz 0)) [ex_A; ex_B; ex_E; ex_F].

Definition ex_tree : sk (BNode XQ) := sk_map ex_node ex_spec.
Definition ex_tree_scaled (k : Q) : sk (BNode XQ) := sk_map ex_node (sk_map (ex_spec_scale k) ex_spec).
(* the root input: PerformLayout, InherentSize, available space 300 x 400 *)
Definition ex_input : BIn XQ := root_bin sz_none (mkSize (Definite (qz 300)) (Definite (qz 400))).
Definition ex_fuel : nat := 6.
Definition ex_run (t : sk (BNode XQ)) (i : BIn XQ) :=
  bl_memo block_pre abs_child_simple ex_fuel (bl_fresh t) i.

(* ---- equal as numbers, decided *)
Definition bsz_eqb (a b : BSize XQ) : bool := eqb (s_w a) (s_w b) && eqb (s_h a) (s_h b).
Definition brc_eqb (a b : BRect XQ) : bool :=
  eqb (r_left a) (r_left b) && eqb (r_right a) (r_right b) && eqb (r_top a) (r_top b) && eqb (r_bottom a) (r_bottom b).
Definition blay_eqb (a b : BLayout XQ) : bool :=
  Z.eqb (bl_order a) (bl_order b) && eqb (bl_x a) (bl_x b) && eqb (bl_y a) (bl_y b) && bsz_eqb (bl_size a) (bl_size b)
  && bsz_eqb (bl_content_size a) (bl_content_size b) && bsz_eqb (bl_scrollbar a) (bl_scrollbar b)
  && brc_eqb (bl_padding a) (bl_padding b) && brc_eqb (bl_border a) (bl_border b) && brc_eqb (bl_margin a) (bl_margin b).
Fixpoint list_eqb {A} (e : A -> A -> bool) (l l' : list A) : bool :=
  match l, l' with [] , [] => true | x :: r, y :: r' => e x y && list_eqb e r r' | _, _ => false end.
Definition bms_eqb (a b : MarginSet XQ) : bool := eqb (ms_positive a) (ms_positive b) && eqb (ms_negative a) (ms_negative b).
Definition bout_eqb (a b : ChildOut XQ) : bool :=
  bsz_eqb (co_size a) (co_size b) && bsz_eqb (co_content_size a) (co_content_size b) && bms_eqb (co_top a) (co_top b)
  && bms_eqb (co_bottom a) (co_bottom b) && Bool.eqb (co_ct a) (co_ct b).

(* (x, y, width, height) of every node, preorder *)
Definition boxes (t : Engine.tree (BNode XQ) (BIn XQ) (ChildOut XQ) (BLayout XQ)) : list (XQ * XQ * XQ * XQ) :=
  map (fun l => (bl_x l, bl_y l, s_w (bl_size l), s_h (bl_size l))) (lays (BNode XQ) (BIn XQ) (ChildOut XQ) (BLayout XQ) t).
Definition box_eqb (a b : XQ * XQ * XQ * XQ) : bool :=
  eqb (fst (fst (fst a))) (fst (fst (fst b))) && eqb (snd (fst (fst a))) (snd (fst (fst b))) && eqb (snd (fst a)) (snd (fst b))
  && eqb (snd a) (snd b).
Definition box (x y w h : Z) : XQ * XQ * XQ * XQ := (qz x, qz y, qz w, qz h).

(* a second run that exercises determine_content_based_container_width: the container B as a root under max-content
   available space (no known width: one measuring query per in-flow child without a definite width) *)
Definition ex_subtree : sk (BNode XQ) := sk_map ex_node ex_B.
Definition ex_subtree_scaled (k : Q) : sk (BNode XQ) := sk_map ex_node (sk_map (ex_spec_scale k) ex_B).
Definition ex_input_max : BIn XQ := root_bin sz_none (mkSize MaxContent MaxContent).

Notation ex_lays := (lays (BNode XQ) (BIn XQ) (ChildOut XQ) (BLayout XQ)).
(* both runs succeed; every stored layout and the root output of the second are those of the first multiplied by k *)
Definition ex_scaled_ok (k : Q) (t t' : sk (BNode XQ)) (i : BIn XQ) : bool :=
  match ex_run t i, ex_run t' (bin_scale k i) with
  | Some (o, t1), Some (o', t1') =>
      list_eqb blay_eqb (map (blay_scale k) (ex_lays t1)) (ex_lays t1') && bout_eqb (bout_scale k o) o'
  | _, _ => false
  end.
(* both runs succeed with the same stored layouts and root output (as numbers) *)
Definition ex_same_ok (t t' : sk (BNode XQ)) (i : BIn XQ) : bool :=
  match ex_run t i, ex_run t' i with
  | Some (o, t1), Some (o', t1') => list_eqb blay_eqb (ex_lays t1) (ex_lays t1') && bout_eqb o o'
  | _, _ => false
  end.
Definition ex_root_size (t : sk (BNode XQ)) (i : BIn XQ) (w h : Z) : bool :=
  match ex_run t i with Some (o, _) => bsz_eqb (co_size o) (mkSize (qz w) (qz h)) | None => false end.
Definition ex_boxes (t : sk (BNode XQ)) (i : BIn XQ) (bs : list (XQ * XQ * XQ * XQ)) : bool :=
  match ex_run t i with Some (_, t1) => list_eqb box_eqb (boxes t1) bs | None => false end.
