(* C14 -- the target language of translator/gen_tree.py (Gen/TreeBodiesGen.v): one Gallina function per Rust
   statement form that occurs in the structural methods of TaffyTree (src/tree/taffy_tree.rs).  The generated bodies
   thread the whole `tree` state through these statements in source order (`t0`, `t1`, ...); Proofs/TreeBodiesProofs.v
   shows that each generated method equals the hand-written one of Model/Tree.v on every state and every argument.
   Definitions only.

   Reading of the Rust forms (slotmap `Index`/`IndexMut` panic on a dead key; `Vec` methods panic as documented):
     self.parents[k] = v                         st_set_parent
     self.children[k].push(c)                    st_push_child
     self.children[k].insert(i, c)               st_insert_child      (Vec::insert panics if i > len)
     self.children[k].remove(i)                  st_vec_remove        (Vec::remove panics if i >= len)
     core::mem::replace(&mut self.children[k][i], c)   st_vec_replace (slice index panics if i >= len)
     self.children[k].drain(a..b)                st_vec_drain         (panics unless a <= b <= len); yields the drained items
     let v = &mut self.children[k]; v.clear()    st_vec_clear
     if let Some(v) = self.children.get_mut(k) { v.retain(|f| *f != n) }     st_get_mut_retain_ne
     self.mark_dirty(n)?                         st_mark_dirty        (Model.Tree.mark_dirty: `nodes[n]`, never Err)
     for x in l { body }                         st_for l (fun t x => body) t
     let _ = self.<map>.remove(k)                st_remove_children / st_remove_parents / st_remove_nodes
     self.<map>.insert(v)                        st_insert_nodes / st_insert_children / st_insert_parents
     r.unwrap()  (r : TaffyResult<_> of a translated method)     unwrap_ret *)
From Coq Require Import NArith List Bool Arith.
From TV Require Import Model.Tree.
Import ListNotations.

Definition st_set_parent (t : tree) (k : key) (v : option key) : res tree :=
  p <- sm_set (t_parents t) k v ;; Ok (set_parents_map t p).

(* write the Vec behind `self.children[k]` (IndexMut) *)
Definition st_vec_write (t : tree) (k : key) (l : list key) : res tree :=
  c <- sm_set (t_children t) k l ;; Ok (set_children_map t c).

Definition st_push_child (t : tree) (k : key) (c : key) : res tree :=
  l <- sm_index (t_children t) k ;; st_vec_write t k (l ++ [c]).

Definition st_insert_child (t : tree) (k : key) (i : N) (c : key) : res tree :=
  l <- sm_index (t_children t) k ;;
  if N.ltb (N.of_nat (length l)) i then Panic else st_vec_write t k (vec_insert l (N.to_nat i) c).

Definition st_vec_remove (t : tree) (k : key) (i : N) : res (tree * key) :=
  l <- sm_index (t_children t) k ;;
  if N.leb (N.of_nat (length l)) i then Panic
  else x <- of_opt (nth_error l (N.to_nat i)) ;;
       t' <- st_vec_write t k (vec_remove l (N.to_nat i)) ;;
       Ok (t', x).

Definition st_vec_replace (t : tree) (k : key) (i : N) (c : key) : res (tree * key) :=
  l <- sm_index (t_children t) k ;;
  if N.leb (N.of_nat (length l)) i then Panic
  else x <- of_opt (nth_error l (N.to_nat i)) ;;
       t' <- st_vec_write t k (upd l (N.to_nat i) c) ;;
       Ok (t', x).

Definition st_vec_drain (t : tree) (k : key) (a b : N) : res (tree * list key) :=
  l <- sm_index (t_children t) k ;;
  if N.ltb b a || N.ltb (N.of_nat (length l)) b then Panic
  else t' <- st_vec_write t k (vec_drain_rest l (N.to_nat a) (N.to_nat b)) ;;
       Ok (t', vec_drained l (N.to_nat a) (N.to_nat b)).

Definition st_vec_clear (t : tree) (k : key) : res tree :=
  _ <- sm_index (t_children t) k ;; st_vec_write t k [].

Definition st_get_mut_retain_ne (t : tree) (k : key) (n : key) : res tree :=
  match sm_get (t_children t) k with
  | Some l => st_vec_write t k (retain_ne n l)
  | None => Ok t
  end.

Definition st_mark_dirty (t : tree) (n : key) : res tree := _ <- mark_dirty t n ;; Ok t.

Fixpoint st_for {A : Type} (l : list A) (body : tree -> A -> res tree) (t : tree) : res tree :=
  match l with
  | [] => Ok t
  | x :: r => t' <- body t x ;; st_for r body t'
  end.

Definition st_remove_children (t : tree) (k : key) : tree := set_children_map t (fst (sm_remove (t_children t) k)).
Definition st_remove_parents (t : tree) (k : key) : tree := set_parents_map t (fst (sm_remove (t_parents t) k)).
Definition st_remove_nodes (t : tree) (k : key) : tree := set_nodes t (fst (sm_remove (t_nodes t) k)).

(* self.nodes.insert(NodeData::new(style)) : NodeData ~ has_context = false *)
Definition st_insert_nodes (t : tree) (v : bool) : tree * key :=
  let r := sm_insert (t_nodes t) v in (set_nodes t (fst r), snd r).
Definition st_insert_children (t : tree) (l : list key) : tree := set_children_map t (fst (sm_insert (t_children t) l)).
Definition st_insert_parents (t : tree) (v : option key) : tree := set_parents_map t (fst (sm_insert (t_parents t) v)).

(* TaffyResult::unwrap of the result of a translated method *)
Definition unwrap_ret (x : tree * ret) : res tree :=
  match snd x with RErr _ _ _ => Panic | _ => Ok (fst x) end.

(* usize view of `iter().position(..)` *)
Definition position_N (k : key) (l : list key) : option N := option_map N.of_nat (position k l).
