(* GENERATED on every run by translator/gen_rounding.py from src/tree/layout.rs, src/compute/mod.rs, src/util/sys.rs, src/tree/taffy_tree.rs -- do not edit. *)
From Coq Require Import ZArith QArith Bool List.
From TV Require Import Num.Num.

(* struct Layout, nested Point/Size/Rect flattened; `order : u32` as Z *)
Record layout (T : Type) : Type := mk_layout {
  order : Z;
  location_x : T;
  location_y : T;
  size_width : T;
  size_height : T;
  content_size_width : T;
  content_size_height : T;
  scrollbar_size_width : T;
  scrollbar_size_height : T;
  border_left : T;
  border_right : T;
  border_top : T;
  border_bottom : T;
  padding_left : T;
  padding_right : T;
  padding_top : T;
  padding_bottom : T;
  margin_left : T;
  margin_right : T;
  margin_top : T;
  margin_bottom : T
}.
Arguments mk_layout {T}.
Arguments order {T}.
Arguments location_x {T}.
Arguments location_y {T}.
Arguments size_width {T}.
Arguments size_height {T}.
Arguments content_size_width {T}.
Arguments content_size_height {T}.
Arguments scrollbar_size_width {T}.
Arguments scrollbar_size_height {T}.
Arguments border_left {T}.
Arguments border_right {T}.
Arguments border_top {T}.
Arguments border_bottom {T}.
Arguments padding_left {T}.
Arguments padding_right {T}.
Arguments padding_top {T}.
Arguments padding_bottom {T}.
Arguments margin_left {T}.
Arguments margin_right {T}.
Arguments margin_top {T}.
Arguments margin_bottom {T}.
(* every f32 field, in declaration order *)
Definition layout_floats {T : Type} (l : layout T) : list T :=
  (location_x l :: location_y l :: size_width l :: size_height l :: content_size_width l :: content_size_height l :: scrollbar_size_width l :: scrollbar_size_height l :: border_left l :: border_right l :: border_top l :: border_bottom l :: padding_left l :: padding_right l :: padding_top l :: padding_bottom l :: margin_left l :: margin_right l :: margin_top l :: margin_bottom l :: nil)%list.

Section RoundingGen.
  Context {T : Type} `{Num T}.

  (* body of round_layout_inner for one node: (layout passed to set_final_layout, (cumulative_x, cumulative_y) passed
     to the recursive call on every child) *)
  Definition round_layout_inner_node (cumulative_x cumulative_y : T) (unrounded_layout : layout T) : layout T * (T * T) :=
    let cumulative_x := (add cumulative_x (location_x unrounded_layout)) in
    let cumulative_y := (add cumulative_y (location_y unrounded_layout)) in
    let layout_location_x := (fround (location_x unrounded_layout)) in
    let layout_location_y := (fround (location_y unrounded_layout)) in
    let layout_size_width := (sub (fround (add cumulative_x (size_width unrounded_layout))) (fround cumulative_x)) in
    let layout_size_height := (sub (fround (add cumulative_y (size_height unrounded_layout))) (fround cumulative_y)) in
    let layout_scrollbar_size_width := (fround (scrollbar_size_width unrounded_layout)) in
    let layout_scrollbar_size_height := (fround (scrollbar_size_height unrounded_layout)) in
    let layout_border_left := (sub (fround (add cumulative_x (border_left unrounded_layout))) (fround cumulative_x)) in
    let layout_border_right := (sub (fround (add cumulative_x (size_width unrounded_layout))) (fround (sub (add cumulative_x (size_width unrounded_layout)) (border_right unrounded_layout)))) in
    let layout_border_top := (sub (fround (add cumulative_y (border_top unrounded_layout))) (fround cumulative_y)) in
    let layout_border_bottom := (sub (fround (add cumulative_y (size_height unrounded_layout))) (fround (sub (add cumulative_y (size_height unrounded_layout)) (border_bottom unrounded_layout)))) in
    let layout_padding_left := (sub (fround (add cumulative_x (padding_left unrounded_layout))) (fround cumulative_x)) in
    let layout_padding_right := (sub (fround (add cumulative_x (size_width unrounded_layout))) (fround (sub (add cumulative_x (size_width unrounded_layout)) (padding_right unrounded_layout)))) in
    let layout_padding_top := (sub (fround (add cumulative_y (padding_top unrounded_layout))) (fround cumulative_y)) in
    let layout_padding_bottom := (sub (fround (add cumulative_y (size_height unrounded_layout))) (fround (sub (add cumulative_y (size_height unrounded_layout)) (padding_bottom unrounded_layout)))) in
    let layout_content_size_width := (sub (fround (add cumulative_x (content_size_width unrounded_layout))) (fround cumulative_x)) in
    let layout_content_size_height := (sub (fround (add cumulative_y (content_size_height unrounded_layout))) (fround cumulative_y)) in
    ({| order := order unrounded_layout; location_x := layout_location_x; location_y := layout_location_y; size_width := layout_size_width; size_height := layout_size_height; content_size_width := layout_content_size_width; content_size_height := layout_content_size_height; scrollbar_size_width := layout_scrollbar_size_width; scrollbar_size_height := layout_scrollbar_size_height; border_left := layout_border_left; border_right := layout_border_right; border_top := layout_border_top; border_bottom := layout_border_bottom; padding_left := layout_padding_left; padding_right := layout_padding_right; padding_top := layout_padding_top; padding_bottom := layout_padding_bottom; margin_left := margin_left unrounded_layout; margin_right := margin_right unrounded_layout; margin_top := margin_top unrounded_layout; margin_bottom := margin_bottom unrounded_layout |},
     (cumulative_x, cumulative_y)).

  (* round_layout: the cumulative coordinates the root is entered with *)
  Definition round_layout_root_cum : T * T := (zero, zero).
End RoundingGen.

(* rounding flag *)
Definition default_use_rounding : bool := true.
Definition enable_rounding_sets : bool := true.
Definition disable_rounding_sets : bool := false.
(* TaffyTree::layout returns final_layout (true) or unrounded_layout (false) *)
Definition layout_reads_final (use_rounding : bool) : bool := if use_rounding then true else false.
(* compute_layout_with_measure runs round_layout after compute_root_layout *)
Definition compute_rounds (use_rounding : bool) : bool := if use_rounding then true else false.
