(* Fuel sufficiency of the engine skeleton.  `memo` and `plain` are fuelled (one unit per tree level) and return None when
   the fuel runs out or when an algorithm addresses a child that does not exist.  This file shows that None is never the
   fuel's fault: for every algorithm that only addresses existing children (Bounded), any fuel >= the height of the tree
   makes the memoised evaluation succeed -- for every cache content, input and key equality.  So the premises
   `memo f t i = Some (o, t')` of the engine theorems are satisfiable at every tree, and a runner that uses fuel >= height
   and still sees None has found an out-of-range child index, not a shallow fuel budget. *)
From Coq Require Import List Bool Arith Lia.
From TV Require Import Model.Engine Model.EngineToy Proofs.EngineMemo Proofs.EngineToyProofs.
Import ListNotations.

Section Total.
  Variables (S In Out Lay : Type).
  Variable mode : In -> RunMode.
  Variable in_eqb : In -> In -> bool.
  Variable is_none : S -> bool.
  Variable hidden_out : Out.
  Variable zero_lay : Lay.
  Variable algo : S -> list S -> In -> Alg In Out Lay.

  Notation tree := (tree S In Out Lay).
  Notation sk := (sk S).
  Notation Alg := (Alg In Out Lay).
  Notation memo := (memo S In Out Lay mode in_eqb is_none hidden_out zero_lay algo).
  Notation run_memo := (run_memo S In Out Lay).
  Notation skel := (skel S In Out Lay).
  Notation hide := (hide S In Out Lay zero_lay).

  (* the algorithm addresses only children 0 .. n-1 *)
  Inductive Bounded (n : nat) : Alg -> Prop :=
  | BRet o : Bounded n (Ret In Out Lay o)
  | BQuery c i k : c < n -> (forall o, Bounded n (k o)) -> Bounded n (Query In Out Lay c i k)
  | BSet c l k : c < n -> Bounded n k -> Bounded n (SetLayout In Out Lay c l k).

  (* number of levels *)
  Fixpoint sheight (t : sk) : nat := match t with SNode _ _ kids => Datatypes.S (list_max (map sheight kids)) end.
  Definition height (t : tree) : nat := sheight (skel t).

  Lemma height_node s c l kids :
    height (Node S In Out Lay s c l kids) = Datatypes.S (list_max (map height kids)).
  Proof. unfold height. cbn. rewrite map_map. reflexivity. Qed.

  (* ---- the memoised evaluation never changes the skeleton (no hypothesis on caches, key or algorithm) *)
  Definition ev_skel (ev : tree -> In -> option (Out * tree)) : Prop :=
    forall t i o t', ev t i = Some (o, t') -> skel t' = skel t.

  Lemma skel_set_lay (t : tree) l : skel (set_lay S In Out Lay t l) = skel t.
  Proof. destruct t; reflexivity. Qed.

  Lemma map_skel_replace n (x : tree) kids t :
    nth_error kids n = Some t -> skel x = skel t -> map skel (replace_nth n x kids) = map skel kids.
  Proof.
    revert kids. induction n as [|n IH]; intros [|a r] Hn Hx; try discriminate; cbn in *.
    - injection Hn as ->. rewrite Hx. reflexivity.
    - unfold replace_nth in *. cbn. f_equal. apply IH; assumption.
  Qed.

  Lemma run_memo_skel ev : ev_skel ev ->
    forall a kids o kids', run_memo ev kids a = Some (o, kids') -> map skel kids' = map skel kids.
  Proof.
    intros Hev. induction a as [o0|c i k IH|c l k IH]; intros kids o kids' H; cbn in H.
    - injection H as _ <-. reflexivity.
    - destruct (nth_error kids c) as [t|] eqn:En; [|discriminate].
      destruct (ev t i) as [[o1 t1]|] eqn:Ee; [|discriminate].
      apply IH in H. rewrite H. apply (map_skel_replace c t1 kids t En). eapply Hev; eauto.
    - destruct (nth_error kids c) as [t|] eqn:En; [|discriminate].
      apply IH in H. rewrite H. apply (map_skel_replace c _ kids t En). apply skel_set_lay.
  Qed.

  Lemma skel_hide' (t : tree) : skel (hide t) = skel t.
  Proof.
    induction t as [s c l kids IH] using (tree_ind' S In Out Lay). cbn. f_equal.
    rewrite map_map. induction IH as [|x r Hx _ IHr]; cbn; [reflexivity|]. rewrite Hx, IHr. reflexivity.
  Qed.

  Lemma memo_skel : forall f, ev_skel (memo f).
  Proof.
    induction f as [|f IH]; intros t i o t' H; [discriminate|].
    destruct t as [s c l kids]. cbn in H.
    destruct (mode i) eqn:Em.
    - destruct (cget In Out mode in_eqb c i) as [o1|]; [injection H as _ <-; reflexivity|].
      destruct (is_none s).
      + injection H as _ <-. cbn. f_equal. rewrite map_map. apply map_ext. intro. apply skel_hide'.
      + destruct (run_memo (memo f) kids _) as [[o1 kids1]|] eqn:Er; [|discriminate].
        injection H as _ <-. cbn. f_equal. eapply run_memo_skel; eauto.
    - destruct (cget In Out mode in_eqb c i) as [o1|]; [injection H as _ <-; reflexivity|].
      destruct (is_none s).
      + injection H as _ <-. cbn. f_equal. rewrite map_map. apply map_ext. intro. apply skel_hide'.
      + destruct (run_memo (memo f) kids _) as [[o1 kids1]|] eqn:Er; [|discriminate].
        injection H as _ <-. cbn. f_equal. eapply run_memo_skel; eauto.
    - injection H as _ <-. apply (skel_hide' (Node S In Out Lay s c l kids)).
  Qed.

  (* ---- totality *)
  Hypothesis algo_bounded : forall s st i, Bounded (length st) (algo s st i).

  Lemma run_memo_total f :
    (forall t i, height t <= f -> exists o t', memo f t i = Some (o, t')) ->
    forall a kids, Bounded (length kids) a -> Forall (fun k => height k <= f) kids ->
      exists o kids', run_memo (memo f) kids a = Some (o, kids').
  Proof.
    intros Hev. induction a as [o0|c i k IH|c l k IH]; intros kids HB HF; cbn.
    - eauto.
    - inversion HB as [|c' i' k' Hc Hk|]; subst.
      destruct (nth_error kids c) as [t|] eqn:En; [|apply nth_error_None in En; lia].
      assert (Ht : height t <= f) by (rewrite Forall_forall in HF; apply HF; eapply nth_error_In; eauto).
      destruct (Hev t i Ht) as [o1 [t1 E1]]. rewrite E1.
      apply IH.
      + rewrite (length_replace_nth _ _ _ _ En). apply Hk.
      + apply Forall_replace_nth; [exact HF|].
        unfold height. rewrite (memo_skel f t i o1 t1 E1). exact Ht.
    - inversion HB as [| |c' l' k' Hc Hk]; subst.
      destruct (nth_error kids c) as [t|] eqn:En; [|apply nth_error_None in En; lia].
      assert (Ht : height t <= f) by (rewrite Forall_forall in HF; apply HF; eapply nth_error_In; eauto).
      apply IH.
      + rewrite (length_replace_nth _ _ _ _ En). exact Hk.
      + apply Forall_replace_nth; [exact HF|]. unfold height. rewrite skel_set_lay. exact Ht.
  Qed.

  Theorem memo_total : forall f t i, height t <= f -> exists o t', memo f t i = Some (o, t').
  Proof.
    induction f as [|f IH]; intros t i Hh.
    - destruct t as [s c l kids]. rewrite height_node in Hh. lia.
    - destruct t as [s c l kids]. rewrite height_node in Hh. cbn.
      destruct (mode i); try (eexists; eexists; reflexivity);
        (destruct (cget In Out mode in_eqb c i); [eexists; eexists; reflexivity|]);
        (destruct (is_none s); [eexists; eexists; reflexivity|]).
      + destruct (run_memo_total f IH (algo s (map (style_of S In Out Lay) kids) i) kids) as [o [kids' E]].
        * rewrite <- (map_length (style_of S In Out Lay) kids). apply algo_bounded.
        * apply Forall_forall. intros x Hx.
          assert (H1 : list_max (map height kids) <= f) by lia.
          apply list_max_le in H1. rewrite Forall_forall in H1. apply H1. apply in_map. exact Hx.
        * rewrite E. eauto.
      + destruct (run_memo_total f IH (algo s (map (style_of S In Out Lay) kids) i) kids) as [o [kids' E]].
        * rewrite <- (map_length (style_of S In Out Lay) kids). apply algo_bounded.
        * apply Forall_forall. intros x Hx.
          assert (H1 : list_max (map height kids) <= f) by lia.
          apply list_max_le in H1. rewrite Forall_forall in H1. apply H1. apply in_map. exact Hx.
        * rewrite E. eauto.
  Qed.
End Total.

(* the toy algorithm of the dirty-flag correspondence (Model/EngineToy.v, run with fuel 64 by Model/EngineRun.v) addresses
   exactly the children it was given: with fuel >= height its passes always succeed *)
Lemma qall_bounded st : forall n k i acc, k + length st <= n -> Bounded TIn TOut TLay n (qall st k i acc).
Proof.
  induction st as [|s st IH]; intros n k i acc H; cbn in *.
  - constructor.
  - constructor; [lia|]. intro o. constructor; [lia|]. apply IH. lia.
Qed.

Lemma t_algo_bounded s st i : Bounded TIn TOut TLay (length st) (t_algo s st i).
Proof. unfold t_algo. destruct (t_mode i); apply qall_bounded; lia. Qed.

Lemma t_algo'_bounded s st i : Bounded TIn TOut TLay (length st) (t_algo' s st i).
Proof. unfold t_algo'. destruct (t_mode i); try apply t_algo_bounded. constructor. Qed.

Lemma t_memo_total f (t : ttree) i : height TS TIn TOut TLay t <= f -> exists o t', t_memo f t i = Some (o, t').
Proof. apply memo_total. exact t_algo_bounded. Qed.
