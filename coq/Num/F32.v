(* Bit-exact binary32 instance of Num (Flocq BinarySingleNaN 24 128, round to nearest even) with the
   Rust semantics of min/max/round/floor/ceil/abs/comparisons/`as f32`.  NaN payloads are collapsed. *)
From Coq Require Import ZArith QArith Bool List.
From Flocq Require Import Core.Core IEEE754.BinarySingleNaN IEEE754.Binary IEEE754.Bits.
From TV Require Import Num.Num.

Open Scope Z_scope.
Definition f32 : Type := BinarySingleNaN.binary_float 24 128.

Lemma prec32 : FLX.Prec_gt_0 24. Proof. reflexivity. Qed.
Lemma emax32 : BinarySingleNaN.Prec_lt_emax 24 128. Proof. reflexivity. Qed.

Definition NE := BinarySingleNaN.mode_NE.

Definition f_of_bits (z : Z) : f32 := Binary.B2BSN 24 128 (b32_of_bits z).
Definition canonical_nan_bits : Z := 0x7fc00000.
Definition f_to_bits (x : f32) : Z :=
  match x with
  | BinarySingleNaN.B754_nan => canonical_nan_bits
  | _ => bits_of_b32 (Binary.BSN2B 24 128 default_nan_pl32 x)
  end.

Definition f_add : f32 -> f32 -> f32 := @BinarySingleNaN.Bplus 24 128 prec32 emax32 NE.
Definition f_sub : f32 -> f32 -> f32 := @BinarySingleNaN.Bminus 24 128 prec32 emax32 NE.
Definition f_mul : f32 -> f32 -> f32 := @BinarySingleNaN.Bmult 24 128 prec32 emax32 NE.
Definition f_div : f32 -> f32 -> f32 := @BinarySingleNaN.Bdiv 24 128 prec32 emax32 NE.
Definition f_neg : f32 -> f32 := @BinarySingleNaN.Bopp 24 128.
Definition f_abs : f32 -> f32 := @BinarySingleNaN.Babs 24 128.
Definition f_eqb : f32 -> f32 -> bool := @BinarySingleNaN.Beqb 24 128.
Definition f_ltb : f32 -> f32 -> bool := @BinarySingleNaN.Bltb 24 128.
Definition f_leb : f32 -> f32 -> bool := @BinarySingleNaN.Bleb 24 128.
Definition f_is_nan : f32 -> bool := @BinarySingleNaN.is_nan 24 128.

(* Rust f32::max / f32::min (LLVM maxnum/minnum as compiled for x86-64 SSE: NaN-ignoring; on equal
   operands, including +0/-0, the FIRST operand is returned by max and by min -- validated by `vh f32`) *)
Definition f_max (a b : f32) : f32 :=
  if f_is_nan a then b else if f_is_nan b then a else if f_ltb a b then b else a.
Definition f_min (a b : f32) : f32 :=
  if f_is_nan a then b else if f_is_nan b then a else if f_ltb b a then b else a.

Definition f_round : f32 -> f32 := @BinarySingleNaN.Bnearbyint 24 128 emax32 BinarySingleNaN.mode_NA.
Definition f_floor : f32 -> f32 := @BinarySingleNaN.Bnearbyint 24 128 emax32 BinarySingleNaN.mode_DN.
Definition f_ceil : f32 -> f32 := @BinarySingleNaN.Bnearbyint 24 128 emax32 BinarySingleNaN.mode_UP.

Definition f_of_Z (z : Z) : f32 := BinarySingleNaN.binary_normalize 24 128 prec32 emax32 NE z 0 false.
Definition f_of_Q (q : Q) : f32 := f_div (f_of_Z (Qnum q)) (f_of_Z (Zpos (Qden q))).
Definition f_infinity : f32 := BinarySingleNaN.B754_infinity false.

Definition f_is_normal (x : f32) : bool :=
  match x with
  | BinarySingleNaN.B754_finite _ m _ _ => Z.eqb (Zpos (SpecFloat.digits2_pos m)) 24
  | _ => false
  end.

#[global] Instance F32Num : Num f32 := {
  zero := BinarySingleNaN.B754_zero false;
  one := f_of_Z 1;
  add := f_add; sub := f_sub; mul := f_mul; div := f_div; neg := f_neg;
  eqb := f_eqb; ltb := f_ltb; leb := f_leb;
  fmax := f_max; fmin := f_min; fabs := f_abs;
  fround := f_round; ffloor := f_floor; fceil := f_ceil;
  infinity := f_infinity; of_Z := f_of_Z; of_Q := f_of_Q;
  is_nan := f_is_nan; is_normal := f_is_normal;
}.

(* ---- runner for the F32-vs-hardware correspondence (`./check F32`): [op; a; b] -> [bits] *)
Import ListNotations.
Definition b2z (b : bool) : Z := if b then 1%Z else 0%Z.
Definition run_f32_op (c : list Z) : list Z :=
  match c with
  | [op; a; b] =>
      let x := f_of_bits a in let y := f_of_bits b in
      let r :=
        match op with
        | 0 => f_to_bits (f_add x y) | 1 => f_to_bits (f_sub x y) | 2 => f_to_bits (f_mul x y)
        | 3 => f_to_bits (f_div x y) | 4 => f_to_bits (f_max x y) | 5 => f_to_bits (f_min x y)
        | 6 => b2z (f_eqb x y) | 7 => b2z (f_ltb x y) | 8 => b2z (f_leb x y)
        | 9 => f_to_bits (f_abs x) | 10 => f_to_bits (f_neg x) | 11 => f_to_bits (f_round x)
        | 12 => f_to_bits (f_floor x) | 13 => f_to_bits (f_ceil x) | 14 => b2z (f_is_normal x)
        | 15 => f_to_bits (f_of_Z a)                      (* a as integer -> f32 *)
        | 16 => f_to_bits (f_of_Q (Qmake a (Z.to_pos b)))       (* literal a/b *)
        | 17 => b2z (f_ltb (f_abs (f_sub x y)) (@epsilon f32 _))   (* is_roughly_equal *)
        | _ => (-1)
        end%Z in [r]
  | _ => []
  end.
