(* The class of Proofs/BlockFlexTaffy.v ("no display:grid node with children") is kept by the two tree operations of the whole-tree theorems of
   C04 / C12: scaling (skrel (bfnode_rel k): `display` is equal on related nodes) and the box-sizing rewrite at any set of paths
   (bfn_to_border_box keeps `display`).  So the restated theorems need the class premise on ONE tree only. *)
From Coq Require Import QArith Bool List.
From TV Require Import Num.Num Num.QNum Model.Common Model.Leaf Model.Scale Model.BoxSizing Model.FlexAlgBase Model.FlexAlgRel Model.FlexBoxSizing.
From TV Require Import Model.Engine Model.EngineRel Model.BlockFlexEngine Model.BlockFlexK Model.BlockFlexTaffy.
From TV Require Import Proofs.EngineRelProofs Proofs.BlockFlexRel Proofs.BlockFlexTaffy.
Import ListNotations.
#[local] Close Scope Q_scope.

Definition dgrid (n : BFNode XQ) : bool := match display (bfn_core n) with DGrid => true | _ => false end.

Lemma okb_dgrid (n : BFNode XQ) kids : bfn_taffy_okb n kids = match kids with [] => true | _ => negb (dgrid n) end.
Proof. unfold bfn_taffy_okb, dgrid. destruct kids; [reflexivity|]. destruct (display (bfn_core n)); reflexivity. Qed.

Lemma goodb_node (s : BFNode XQ) kids :
  sk_goodb (SNode _ s kids) = (match kids with [] => true | _ => negb (dgrid s) end) && forallb sk_goodb kids.
Proof. cbn [sk_goodb]. rewrite okb_dgrid. destruct kids; reflexivity. Qed.

(* ---- scaling *)
Lemma bfnode_rel_dgrid k n n' : bfnode_rel k n n' -> dgrid n' = dgrid n.
Proof. intros [[Hf _] _]. destruct Hf as [Hc _]. destruct Hc as [Hd _]. unfold dgrid, bfn_core, bfn_flex. rewrite Hd. reflexivity. Qed.

Lemma skrel_goodb k : forall t t' : sk (BFNode XQ), skrel (BFNode XQ) (bfnode_rel k) t t' -> sk_goodb t' = sk_goodb t.
Proof.
  induction t as [s kids IH] using (sk_ind3 (BFNode XQ)). intros t' Hr.
  inversion Hr as [s0 s' kids0 kids' Hs Hk]; subst. rewrite !goodb_node, (bfnode_rel_dgrid k s s' Hs).
  assert (E : forallb sk_goodb kids' = forallb sk_goodb kids).
  { clear -IH Hk. induction Hk as [|x y l l' Hxy Hl IHl]; [reflexivity|]. inversion IH as [|? ? Hx Hrest]; subst. cbn.
    rewrite (Hx y Hxy), (IHl Hrest). reflexivity. }
  rewrite E. destruct Hk; reflexivity.
Qed.

(* ---- the rewrite *)
Lemma tb_dgrid (n : BFNode XQ) : dgrid (bfn_to_border_box n) = dgrid n.
Proof. unfold bfn_to_border_box. destruct (bfn_eligibleb n); reflexivity. Qed.

Lemma map_where_goodb : forall (t : sk (BFNode XQ)) w, sk_goodb (sk_map_where (BFNode XQ) bfn_to_border_box w t) = sk_goodb t.
Proof.
  induction t as [s kids IH] using (sk_ind3 (BFNode XQ)). intros w. cbn [sk_map_where]. rewrite !goodb_node.
  assert (Es : dgrid (if w [] then bfn_to_border_box s else s) = dgrid s) by (destruct (w []); [apply tb_dgrid|reflexivity]).
  rewrite Es.
  assert (E : forall n, forallb sk_goodb (map_from (fun n x => sk_map_where (BFNode XQ) bfn_to_border_box (fun p => w (n :: p)) x) n kids)
                        = forallb sk_goodb kids).
  { induction IH as [|x l Hx _ IHl]; intros n; [reflexivity|]. cbn. rewrite Hx, IHl. reflexivity. }
  rewrite E. destruct kids; reflexivity.
Qed.

(* ---- the restated theorems with the class premise on the original tree only *)
Notation xlays := (lays (TaffyEngine.TStyle XQ) (FIn XQ) (LayoutOutput XQ) (FLay XQ)).

Theorem real_engine_scaled_layouts' (k : Q) : (0 < k)%Q ->
  forall f (t t' : Engine.sk (BFNode XQ)) i o T1,
    sk_goodb t = true ->
    skrel (BFNode XQ) (bfnode_rel k) t t' ->
    bf_memo_t (Fin k) f (bfk_fresh t') (fin_scale k i) = bf_memo f (bfk_fresh t') (fin_scale k i) ->
    TaffyRoot.real_memo Num.eqb f (TaffyEngine.taffy_fresh (sk_map bfn_emb t)) i = Some (o, T1) ->
    exists o' T1',
      TaffyRoot.real_memo Num.eqb f (TaffyEngine.taffy_fresh (sk_map bfn_emb t')) (fin_scale k i) = Some (o', T1') /\ output_rel k o o' /\
      Forall2 (flay_rel k) (xlays T1) (xlays T1').
Proof.
  intros Hk f t t' i o T1 Hg Hsk. apply (real_engine_scaled_layouts k Hk f t t' i o T1 Hg); [|exact Hsk].
  rewrite (skrel_goodb k t t' Hsk). exact Hg.
Qed.

Theorem real_engine_rewritten_layouts' :
  forall f (t : Engine.sk (BFNode XQ)) (w : list nat -> bool) i o T1,
    sk_goodb t = true -> sk_all (BFNode XQ) bfn_ok t ->
    TaffyRoot.real_memo Num.eqb f (TaffyEngine.taffy_fresh (sk_map bfn_emb t)) i = Some (o, T1) ->
    exists o' T1',
      TaffyRoot.real_memo Num.eqb f (TaffyEngine.taffy_fresh (sk_map bfn_emb (sk_map_where (BFNode XQ) bfn_to_border_box w t))) i = Some (o', T1') /\
      output_rel 1 o o' /\ Forall2 (flay_rel 1) (xlays T1) (xlays T1').
Proof.
  intros f t w i o T1 Hg. apply (real_engine_rewritten_layouts f t w i o T1 Hg). rewrite map_where_goodb. exact Hg.
Qed.
