(* The first half of compute_preliminary is relational (Model/FlexAlgRel.v): generate_anonymous_flex_items, determine_flex_base_size (with
   its measuring queries), collect_flex_lines, determine_container_main_size -- all three branches; the intrinsic one with the floor of
   the scaled shrink factor as a LENGTH (Model/FlexAlgT.v).  Styles are related by any SR that implies `fstyle_wrel k`. *)
From Coq Require Import QArith Qabs Lqa Bool List ZArith Lia.
From TV Require Import Num.Num Num.QNum Model.Common Model.Leaf Gen.FlexGen Model.Flex Model.FlexLines Model.FlexBase Model.FlexContainer Model.FlexFraction.
From TV Require Import Model.FiltersBase Gen.FiltersGen Model.ItemFilters Model.FlexAlgBase Model.FlexAlgAbs Model.FlexAlg Model.FlexAlgT.
From TV Require Import Model.Scale Model.ScaleFlex Model.Engine Model.EngineRel Model.FlexAlgRel.
From TV Require Import Proofs.ScaleProofs Proofs.ScaleKit Proofs.ScaleFlex Proofs.FlexAlgStruct Proofs.FlexStyleRel Proofs.FlexRelKit.
Import ListNotations.
Close Scope Z_scope.

Ltac kconst_open H :=
  let H' := fresh in pose proof H as H';
  destruct H' as (?Ekr & ?Ekrev & ?Ekw & ?Ekwr & ?Hkmin & ?Hkmax & ?Hkmar & ?Hkbor & ?Hkgap & ?Hkin & ?Ekai & ?Ekac & ?Ekj & ?Hko & ?Hki).
Ltac ci_open H :=
  let H' := fresh in pose proof H as H';
  destruct H' as (?Hcsz & ?Hcmin & ?Hcmax & ?Hcmar & ?Ecma & ?Hcpad & ?Hcbor & ?Ecal).
Ltac w_open H :=
  let H' := fresh in pose proof H as H';
  destruct H' as (?Ewn & ?Hwst & ?Hwci & ?Ewba & ?Hwin & ?Hwfi & ?Hwcff & ?Hwx & ?Hwbl & ?Ewask).
Ltac wstyle_open H :=
  let H' := fresh in pose proof H as H';
  destruct H' as (?Wdisp & ?Wpos & ?Wov & ?Wsw & ?Winset & ?Wrow & ?Wrev & ?Wwrap & ?Wwr & ?Wai & ?Was & ?Wac & ?Wjc & ?Wgap & ?Wgrow & ?Wshrink &
                  ?Wkd & ?Wconst & ?Wci & ?Wenv & ?Wucs & ?Wabs).
Ltac cross_open H :=
  let H' := fresh in pose proof H as H';
  destruct H' as (?Hxhi & ?Hxho & ?Hxt & ?Hxot & ?Hxms & ?Hxme & ?Hxo).
Ltac w_fields :=
  cbn [w_node w_style w_ci w_baseline_align w_inset w_fi w_cff w_x w_baseline w_ask_baseline] in *.

(* sign facts about quotients over XQ (for the kind of a content flex fraction) *)
Lemma qpos_of_bool b : negb (Qle_bool b 0) = true -> 0 < b.
Proof.
  intros Hb. apply negb_true_iff in Hb. apply Qnot_le_lt. intro C. apply Qle_bool_iff in C. congruence.
Qed.
Lemma qneg_of_bool a : negb (Qle_bool 0 a) = true -> a < 0.
Proof.
  intros Hb. apply negb_true_iff in Hb. apply Qnot_le_lt. intro C. apply Qle_bool_iff in C. congruence.
Qed.
Lemma q_sign_pos b : 0 < b -> q_sign b = Gt.
Proof. intros B0. unfold q_sign. unfold Qlt in B0. cbn in B0. apply Z.compare_gt_iff. lia. Qed.

Lemma div_pos_pos_not_neg a b : gtb a zero = true -> gtb b zero = true -> ltb (div a b) zero = false.
Proof.
  destruct a as [a| | |], b as [b| | |]; cbn; try discriminate; try reflexivity; intros Ha Hb.
  - pose proof (qpos_of_bool _ Ha) as A0. pose proof (qpos_of_bool _ Hb) as B0. rewrite (q_sign_pos _ B0). cbn.
    apply negb_false_iff. apply Qle_bool_iff. apply Qlt_le_weak. apply Qlt_shift_div_l; [exact B0|]. lra.
  - pose proof (qpos_of_bool _ Hb) as B0. rewrite (q_sign_pos _ B0). reflexivity.
Qed.
Lemma div_neg_pos_not_pos a b : ltb a zero = true -> gtb b zero = true -> gtb (div a b) zero = false.
Proof.
  destruct a as [a| | |], b as [b| | |]; cbn; try discriminate; try reflexivity; intros Ha Hb.
  - pose proof (qneg_of_bool _ Ha) as A0. pose proof (qpos_of_bool _ Hb) as B0. rewrite (q_sign_pos _ B0). cbn.
    apply negb_false_iff. apply Qle_bool_iff. apply Qlt_le_weak. apply Qlt_shift_div_r; [exact B0|]. lra.
  - pose proof (qpos_of_bool _ Hb) as B0. rewrite (q_sign_pos _ B0). reflexivity.
Qed.
Lemma fmax_pos_l a b : gtb a zero = true -> gtb (fmax a b) zero = true.
Proof.
  destruct a as [a| | |], b as [b| | |]; cbn; try discriminate; try reflexivity; intros Ha; try exact Ha.
  unfold x_max. cbn. destruct (negb (Qle_bool b a)) eqn:E; cbn; [|exact Ha].
  pose proof (qpos_of_bool _ Ha) as A0. apply negb_true_iff in E. apply negb_true_iff.
  destruct (Qle_bool b 0) eqn:Eb; [|reflexivity]. exfalso. apply Qle_bool_iff in Eb.
  assert (B0 : ~ b <= a) by (intro C; apply Qle_bool_iff in C; congruence). lra.
Qed.
Lemma one_pos : gtb (one : XQ) zero = true. Proof. reflexivity. Qed.

Section Items.
  Variable k : Q.
  Hypothesis Hk : 0 < k.
  Variable SR : FStyle XQ -> FStyle XQ -> Prop.
  Variable crow : bool.        (* the direction of the container *)
  Hypothesis SR_weak : forall s s', SR s s' -> fstyle_wrel k crow s s'.
  Notation L := (sc k).
  Notation O := (op_rel (sc k)).
  Notation A := (av_rel (sc k)).
  Notation WR := (witem_rel k SR).
  Notation W := (@WItem XQ).

  (* ---- projections on an axis *)
  Lemma rel_s_main {X} (R : X -> X -> Prop) row s s' : sz_rel R s s' -> R (s_main row s) (s_main row s').
  Proof. intros [H1 H2]. destruct row; assumption. Qed.
  Lemma rel_s_cross {X} (R : X -> X -> Prop) row s s' : sz_rel R s s' -> R (s_cross row s) (s_cross row s').
  Proof. intros [H1 H2]. destruct row; assumption. Qed.
  Lemma rel_s_with_main {X} (R : X -> X -> Prop) row s s' v v' : sz_rel R s s' -> R v v' -> sz_rel R (s_with_main row s v) (s_with_main row s' v').
  Proof. intros [H1 H2] Hv. destruct row; split; assumption. Qed.
  Lemma rel_s_with_cross {X} (R : X -> X -> Prop) row s s' v v' : sz_rel R s s' -> R v v' -> sz_rel R (s_with_cross row s v) (s_with_cross row s' v').
  Proof. intros [H1 H2] Hv. destruct row; split; assumption. Qed.
  Lemma rel_s_of_mc {X} (R : X -> X -> Prop) row m m' c c' : R m m' -> R c c' -> sz_rel R (s_of_mc row m c) (s_of_mc row m' c').
  Proof. intros Hm Hc. destruct row; split; assumption. Qed.
  Lemma rel_r_main_start {X} (R : X -> X -> Prop) row r r' : rc_rel R r r' -> R (r_main_start row r) (r_main_start row r').
  Proof. intros (H1 & H2 & H3 & H4). destruct row; assumption. Qed.
  Lemma rel_r_main_end {X} (R : X -> X -> Prop) row r r' : rc_rel R r r' -> R (r_main_end row r) (r_main_end row r').
  Proof. intros (H1 & H2 & H3 & H4). destruct row; assumption. Qed.
  Lemma rel_r_cross_start {X} (R : X -> X -> Prop) row r r' : rc_rel R r r' -> R (r_cross_start row r) (r_cross_start row r').
  Proof. intros (H1 & H2 & H3 & H4). destruct row; assumption. Qed.
  Lemma rel_r_cross_end {X} (R : X -> X -> Prop) row r r' : rc_rel R r r' -> R (r_cross_end row r) (r_cross_end row r').
  Proof. intros (H1 & H2 & H3 & H4). destruct row; assumption. Qed.
  Lemma rel_main_axis_sum row r r' : rc_rel L r r' -> L (main_axis_sum row r) (main_axis_sum row r').
  Proof. intros (H1 & H2 & H3 & H4). destruct row; unfold main_axis_sum, horizontal_axis_sum, vertical_axis_sum; apply sc_add; assumption. Qed.
  Lemma rel_cross_axis_sum row r r' : rc_rel L r r' -> L (cross_axis_sum row r) (cross_axis_sum row r').
  Proof. intros (H1 & H2 & H3 & H4). destruct row; unfold cross_axis_sum, horizontal_axis_sum, vertical_axis_sum; apply sc_add; assumption. Qed.
  Lemma eq_s_main_bool row (s s' : Size bool) : s' = s -> s_main row s' = s_main row s. Proof. intros ->. reflexivity. Qed.

  (* ---- record updates of a work item *)
  Lemma rel_set_fi w w' fi fi' : WR w w' -> item_rel k fi fi' -> WR (set_fi w fi) (set_fi w' fi').
  Proof. intros Hw Hf. w_open Hw. unfold witem_rel, set_fi. w_fields. repeat match goal with |- _ /\ _ => split end; assumption. Qed.
  Lemma rel_set_cff w w' v v' : WR w w' -> cff_rel k v v' -> WR (set_cff w v) (set_cff w' v').
  Proof. intros Hw Hf. w_open Hw. unfold witem_rel, set_cff. w_fields. repeat match goal with |- _ /\ _ => split end; assumption. Qed.
  Lemma rel_set_x w w' x x' : WR w w' -> cross_rel k x x' -> WR (set_x w x) (set_x w' x').
  Proof. intros Hw Hf. w_open Hw. unfold witem_rel, set_x. w_fields. repeat match goal with |- _ /\ _ => split end; assumption. Qed.
  Lemma rel_set_baseline w w' v v' : WR w w' -> L v v' -> WR (set_baseline w v) (set_baseline w' v').
  Proof. intros Hw Hf. w_open Hw. unfold witem_rel, set_baseline. w_fields. repeat match goal with |- _ /\ _ => split end; assumption. Qed.
  Lemma rel_set_ask_baseline w w' b : WR w w' -> WR (set_ask_baseline w b) (set_ask_baseline w' b).
  Proof. intros Hw. w_open Hw. unfold witem_rel, set_ask_baseline. w_fields. repeat match goal with |- _ /\ _ => split end; first [assumption|reflexivity]. Qed.
  Lemma wr_node w w' : WR w w' -> w_node w' = w_node w.
  Proof. intros Hw. w_open Hw. assumption. Qed.
  Lemma wr_fi ws ws' : Forall2 WR ws ws' -> items_rel k (map w_fi ws) (map w_fi ws').
  Proof. apply (rel_map WR (item_rel k)). intros w w' Hw. w_open Hw. assumption. Qed.

  Lemma cff_rel_zero : cff_rel k zero zero.
  Proof. left. split; [apply sc_zero|reflexivity]. Qed.
  Lemma item_rel_zero : item_rel k zero_item zero_item.
  Proof. unfold item_rel, zero_item. item_fields. repeat split; try apply sc_zero; try apply dl_zero. Qed.

  (* ---- generate_anonymous_flex_items *)
  Lemma rel_mk_witem kc kc' ai idx st st' : kconst_rel k kc kc' -> SR st st' -> WR (mk_witem kc ai idx st) (mk_witem kc' ai idx st').
  Proof.
    intros Hc Hs. pose proof (SR_weak _ _ Hs) as Wst. wstyle_open Wst. kconst_open Hc.
    pose proof (Wci _ _ Hc) as Hci. ci_open Hci.
    unfold mk_witem, witem_rel. w_fields. rewrite Was, Ekr.
    destruct Winset as (I1 & I2 & I3 & I4). destruct Hki as [Hkiw Hkih].
    repeat match goal with |- _ /\ _ => split end; try reflexivity; try assumption.
    - unfold rc_rel. cbn [r_left r_right r_top r_bottom]. hm k Hk.
    - apply item_rel_zero.
    - apply cff_rel_zero.
    - unfold cross_rel. cbn [x_hyp_inner x_hyp_outer x_target x_outer_target x_margin_start x_margin_end x_offset].
      repeat split; try apply sc_zero; [apply rel_r_cross_start|apply rel_r_cross_end]; assumption.
    - apply sc_zero.
  Qed.

  Lemma w_in_flow s s' : fstyle_wrel k crow s s' -> s_in_flow f_position f_bgm s' = s_in_flow f_position f_bgm s.
  Proof.
    intros Ws. wstyle_open Ws. unfold s_in_flow, s_hidden, s_absolute, f_position, f_bgm, f_gdisplay. rewrite Wdisp, Wpos. reflexivity.
  Qed.
  Lemma w_hidden s s' : fstyle_wrel k crow s s' -> s_hidden f_bgm s' = s_hidden f_bgm s.
  Proof. intros Ws. wstyle_open Ws. unfold s_hidden, f_bgm, f_gdisplay. rewrite Wdisp. reflexivity. Qed.
  Lemma w_absolute s s' : fstyle_wrel k crow s s' -> s_absolute f_position s' = s_absolute f_position s.
  Proof. intros Ws. wstyle_open Ws. unfold s_absolute, f_position. rewrite Wpos. reflexivity. Qed.

  Lemma rel_flex_items kc kc' ai st st' : kconst_rel k kc kc' -> Forall2 SR st st' -> Forall2 WR (flex_items kc ai st) (flex_items kc' ai st').
  Proof.
    intros Hc Hst. unfold flex_items. rewrite !flex_generate_items_nf. unfold in_flow_enum. generalize 0%nat.
    induction Hst as [|s s' l l' Hs Hl IH]; intros n; cbn [g_enumerate_from filter map snd]; [constructor|].
    rewrite (w_in_flow _ _ (SR_weak _ _ Hs)). destruct (s_in_flow f_position f_bgm s); [|apply IH].
    cbn [map fst snd]. constructor; [apply rel_mk_witem; assumption|apply IH].
  Qed.

  Definition absc_rel (x x' : nat * FStyle XQ) : Prop := fst x' = fst x /\ SR (snd x) (snd x').
  Lemma rel_abs_children st st' : Forall2 SR st st' -> Forall2 absc_rel (abs_children st) (abs_children st').
  Proof.
    intros Hst. unfold abs_children, g_enumerate. generalize 0%nat.
    induction Hst as [|s s' l l' Hs Hl IH]; intros n; cbn [g_enumerate_from filter snd]; [constructor|].
    rewrite (w_hidden _ _ (SR_weak _ _ Hs)), (w_absolute _ _ (SR_weak _ _ Hs)).
    destruct (negb (s_hidden f_bgm s || negb (s_absolute f_position s))); [|apply IH].
    constructor; [split; [reflexivity|exact Hs]|apply IH].
  Qed.
  Lemma rel_hidden_flags st st' : Forall2 SR st st' -> hidden_flags st' = hidden_flags st.
  Proof.
    unfold hidden_flags. induction 1 as [|s s' l l' Hs Hl IH]; cbn [map]; [reflexivity|].
    rewrite IH, (w_hidden _ _ (SR_weak _ _ Hs)). reflexivity.
  Qed.

  (* ---- determine_flex_base_size *)
  Lemma fin_rel_mk m sz ax kd kd' ps ps' av av' col :
    sz_rel O kd kd' -> sz_rel O ps ps' -> sz_rel A av av' -> fin_rel k (mkFIn m sz ax kd ps av col) (mkFIn m sz ax kd' ps' av' col).
  Proof. intros. unfold fin_rel. cbn [qi_mode qi_sizing qi_axis qi_known qi_parent qi_avail qi_collapsible]. repeat match goal with |- _ /\ _ => split end; first [assumption|reflexivity]. Qed.

  Lemma w_base_env kc kc' av av' w w' : k_row kc = crow -> kconst_rel k kc kc' -> sz_rel A av av' -> WR w w' ->
    benv_rel k (base_env kc av (to_child (w_style w)) (w_ci w)) (base_env kc' av' (to_child (w_style w')) (w_ci w')).
  Proof.
    intros Er Hc Hav Hw. w_open Hw. pose proof (SR_weak _ _ Hwst) as Wst. wstyle_open Wst. apply Wenv; assumption.
  Qed.

  Lemma rel_need_basis_query kc kc' w w' e e' : kconst_rel k kc kc' -> WR w w' -> benv_rel k e e' ->
    need_basis_query kc' w' e' = need_basis_query kc w e.
  Proof.
    intros Hc Hw He. w_open Hw. kconst_open Hc. ci_open Hwci. destruct He as (_ & _ & _ & Hb). unfold need_basis_query. rewrite Ekr.
    assert (Hx : O (opt_or (be_style_basis e) (s_main (k_row kc) (ci_size (w_ci w)))) (opt_or (be_style_basis e') (s_main (k_row kc) (ci_size (w_ci w')))))
      by (apply rel_opt_or; [exact Hb|apply rel_s_main; exact Hcsz]).
    destruct (opt_or (be_style_basis e) _), (opt_or (be_style_basis e') _); cbn [op_rel] in Hx; try contradiction; reflexivity.
  Qed.

  Lemma rel_base_asks kc kc' av av' w w' : k_row kc = crow -> kconst_rel k kc kc' -> sz_rel A av av' -> WR w w' ->
    Forall2 (fin_rel k) (base_asks kc av w) (base_asks kc' av' w').
  Proof.
    intros Er Hc Hav Hw. pose proof (w_base_env _ _ _ _ _ _ Er Hc Hav Hw) as He. unfold base_asks.
    rewrite (rel_need_basis_query _ _ _ _ _ _ Hc Hw He). kconst_open Hc. rewrite Ekr.
    destruct He as (Hca & Hkn & Hpa & _).
    assert (Emc : avail_is_min_content (s_main (k_row kc) av') = avail_is_min_content (s_main (k_row kc) av)).
    { pose proof (rel_s_main A (k_row kc) _ _ Hav) as Hm.
      destruct (s_main (k_row kc) av), (s_main (k_row kc) av'); cbn [av_rel] in Hm; try contradiction; reflexivity. }
    rewrite Emc. apply rel_app.
    - destruct (need_basis_query kc w _); [|constructor]. constructor; [|constructor].
      apply fin_rel_mk; try assumption. apply rel_s_of_mc; [|exact Hca]. match goal with |- context [if ?b then _ else _] => destruct b end; exact I.
    - constructor; [|constructor]. apply fin_rel_mk; try assumption. apply rel_s_with_cross; [split; exact I|exact Hca].
  Qed.

  Lemma rel_base_finish kc kc' w w' e e' mb mb' mc mc' : kconst_rel k kc kc' -> WR w w' -> benv_rel k e e' -> L mb mb' -> L mc mc' ->
    item_rel k (base_finish kc w e mb mc) (base_finish kc' w' e' mb' mc').
  Proof.
    intros Hc Hw He Hmb Hmc. w_open Hw. pose proof (SR_weak _ _ Hwst) as Wst. wstyle_open Wst. kconst_open Hc. ci_open Hwci.
    destruct He as (_ & _ & _ & Hb). unfold base_finish. rewrite Ekr, Wov, Ecma.
    set (row := k_row kc).
    pose proof (rel_s_main O row _ _ Hcsz) as Hsm. pose proof (rel_s_main O row _ _ Hcmax) as Hmxm. pose proof (rel_s_main O row _ _ Hcmin) as Hmnm.
    pose proof (rel_main_axis_sum row _ _ Hcpad) as Hpm. pose proof (rel_main_axis_sum row _ _ Hcbor) as Hbm.
    pose proof (rel_main_axis_sum row _ _ Hcmar) as Hmm.
    pose proof (rel_s_main L row _ _ (rel_sum_axes k _ _ (rel_rect_add k _ _ _ _ Hcpad Hcbor))) as Hpbs.
    pose proof (rel_r_main_start L row _ _ Hcmar) as Hms. pose proof (rel_r_main_end L row _ _ Hcmar) as Hme.
    pose proof (rel_r_main_start O row _ _ Hwin) as His. pose proof (rel_r_main_end O row _ _ Hwin) as Hie.
    assert (Hfb : L (match opt_or (be_style_basis e) (s_main row (ci_size (w_ci w))) with Some fb => fb | None => mb end)
                    (match opt_or (be_style_basis e') (s_main row (ci_size (w_ci w'))) with Some fb => fb | None => mb' end)).
    { assert (Hx : O (opt_or (be_style_basis e) (s_main row (ci_size (w_ci w)))) (opt_or (be_style_basis e') (s_main row (ci_size (w_ci w')))))
        by (apply rel_opt_or; assumption).
      destruct (opt_or (be_style_basis e) _), (opt_or (be_style_basis e') _); cbn [op_rel] in Hx; try contradiction; assumption. }
    set (fb0 := match opt_or (be_style_basis e) _ with Some fb => fb | None => mb end) in *.
    set (fb0' := match opt_or (be_style_basis e') _ with Some fb => fb | None => mb' end) in *.
    assert (Hsmin : O (s_main row (size_or (ci_min (w_ci w)) (mkSize (automatic_min_of_overflow (px (overflow (fs_core (w_style w)))))
                                                                     (automatic_min_of_overflow (py (overflow (fs_core (w_style w))))))))
                      (s_main row (size_or (ci_min (w_ci w')) (mkSize (automatic_min_of_overflow (px (overflow (fs_core (w_style w)))))
                                                                      (automatic_min_of_overflow (py (overflow (fs_core (w_style w))))))))).
    { apply rel_s_main. destruct Hcmin as [M1 M2]. unfold size_or, size_zip_map. split; cbn [width height]; apply rel_opt_or; try assumption;
        unfold automatic_min_of_overflow; match goal with |- context [if ?b then _ else _] => destruct b end; cbn [op_rel]; auto using sc_zero. }
    set (smin := s_main row (size_or (ci_min (w_ci w)) _)) in *. set (smin' := s_main row (size_or (ci_min (w_ci w')) _)) in *.
    clearbody fb0 fb0' smin smin'.
    unfold item_rel. item_fields.
    repeat match goal with |- _ /\ _ => split end; try reflexivity; try assumption; try apply sc_zero; try (apply eq_s_main_bool; reflexivity); hm k Hk.
  Qed.

  Lemma rel_ans_main row a a' : ans_rel k a a' -> L (ans_main row a) (ans_main row a').
  Proof. intros [H _]. unfold ans_main. apply rel_s_main. exact H. Qed.
  Lemma rel_ans_cross row a a' : ans_rel k a a' -> L (ans_cross row a) (ans_cross row a').
  Proof. intros [H _]. unfold ans_cross. apply rel_s_cross. exact H. Qed.

  Lemma rel_base_upd kc kc' av av' w w' a a' : k_row kc = crow -> kconst_rel k kc kc' -> sz_rel A av av' -> WR w w' -> Forall2 (ans_rel k) a a' ->
    WR (base_upd kc av w a) (base_upd kc' av' w' a').
  Proof.
    intros Er Hc Hav Hw Ha. pose proof (w_base_env _ _ _ _ _ _ Er Hc Hav Hw) as He. unfold base_upd. kconst_open Hc. rewrite Ekr.
    destruct Ha as [|x x' l l' Hx Hl]; [exact Hw|]. destruct Hl as [|y y' m m' Hy Hm].
    - apply rel_set_fi; [exact Hw|]. apply rel_base_finish; try assumption; [apply sc_zero|apply rel_ans_main; exact Hx].
    - apply rel_set_fi; [exact Hw|]. apply rel_base_finish; try assumption; apply rel_ans_main; assumption.
  Qed.
End Items.

(* ------------------------------------------------------------------------------------------------ collect_flex_lines *)
Section Lines.
  Variable k : Q.
  Hypothesis Hk : 0 < k.
  Context {X : Type}.
  Variable R : X -> X -> Prop.
  Variables hyp hyp' : X -> XQ.
  Hypothesis hyp_rel : forall w w', R w w' -> sc k (hyp w) (hyp' w').
  Notation L := (sc k).
  Notation O := (op_rel (sc k)).
  Notation A := (av_rel (sc k)).

  Lemma rel_lines_available mx mx' mn mn' a a' : O mx mx' -> O mn mn' -> A a a' -> A (lines_available mx mn a) (lines_available mx' mn' a').
  Proof.
    intros Hmx Hmn Ha. unfold lines_available. destruct mx, mx'; cbn [op_rel] in Hmx; try contradiction; [|exact Ha].
    cbn [av_rel]. hm k Hk.
  Qed.

  Lemma rel_find_break av av' gap gap' l l' : L av av' -> L gap gap' -> Forall2 R l l' ->
    forall ll ll' idx, L ll ll' -> find_break hyp' av' gap' ll' idx l' = find_break hyp av gap ll idx l.
  Proof.
    intros Hav Hg. induction 1 as [|c c' r r' Hc Hr IH]; intros ll ll' idx Hll; cbn [find_break]; [reflexivity|].
    unfold break_test.
    assert (Hnl : L (ll + (hyp c + match idx with 0%nat => zero | S _ => gap end))%num (ll' + (hyp' c' + match idx with 0%nat => zero | S _ => gap' end))%num).
    { apply sc_add; [exact Hll|]. apply sc_add; [apply hyp_rel; exact Hc|]. destruct idx; [apply sc_zero|exact Hg]. }
    rewrite (sc_gtb k _ _ _ _ Hk Hnl Hav).
    match goal with |- (if ?b then _ else _) = _ => destruct b end; [reflexivity|]. apply IH. exact Hnl.
  Qed.

  Lemma rel_collect_definite fuel av av' gap gap' : L av av' -> L gap gap' -> forall l l', Forall2 R l l' ->
    Forall2 (Forall2 R) (collect_definite hyp fuel av gap l) (collect_definite hyp' fuel av' gap' l').
  Proof.
    intros Hav Hg. induction fuel as [|f IH]; intros l l' Hl; cbn [collect_definite]; [constructor|].
    destruct Hl as [|c c' r r' Hc Hr]; [constructor|].
    assert (Hl : Forall2 R (c :: r) (c' :: r')) by (constructor; assumption).
    rewrite (rel_find_break _ _ _ _ _ _ Hav Hg Hl zero zero 0 (sc_zero k)).
    constructor; [apply rel_firstn; exact Hl|]. apply IH. apply rel_skipn. exact Hl.
  Qed.

  Lemma rel_collect_flex_lines wrap mx mx' mn mn' a a' gap gap' l l' : O mx mx' -> O mn mn' -> A a a' -> L gap gap' -> Forall2 R l l' ->
    Forall2 (Forall2 R) (collect_flex_lines hyp wrap mx mn a gap l) (collect_flex_lines hyp' wrap mx' mn' a' gap' l').
  Proof.
    intros Hmx Hmn Ha Hg Hl. unfold collect_flex_lines. destruct (negb wrap); [constructor; [exact Hl|constructor]|].
    pose proof (rel_lines_available _ _ _ _ _ _ Hmx Hmn Ha) as Hla.
    destruct (lines_available mx mn a), (lines_available mx' mn' a'); cbn [av_rel] in Hla; try contradiction.
    - rewrite (rel_length R _ _ Hl). apply rel_collect_definite; assumption.
    - apply (rel_map R (Forall2 R)); [|exact Hl]. intros c c' Hc. constructor; [exact Hc|constructor].
    - constructor; [exact Hl|constructor].
  Qed.
End Lines.

(* ------------------------------------------------------------------------------------------------ determine_container_main_size *)
Section MainSize.
  Variable k : Q.
  Hypothesis Hk : 0 < k.
  Variable SR : FStyle XQ -> FStyle XQ -> Prop.
  Variable crow : bool.        (* the direction of the container *)
  Hypothesis SR_weak : forall s s', SR s s' -> fstyle_wrel k crow s s'.
  (* the floor of the scaled shrink factor, a length *)
  Variables tau tau' : XQ.
  Hypothesis Htau : sc k tau tau'.
  Hypothesis Htau_pos : gtb tau zero = true.
  Notation L := (sc k).
  Notation O := (op_rel (sc k)).
  Notation A := (av_rel (sc k)).
  Notation WR := (witem_rel k SR).

  Lemma tau'_pos : gtb tau' zero = true.
  Proof. rewrite (sc_gtb k _ _ zero zero Hk Htau (sc_zero k)). exact Htau_pos. Qed.

  Lemma rel_max_by_gt l l' : Forall2 L l l' -> L (max_by_gt l) (max_by_gt l').
  Proof.
    intros Hl. unfold max_by_gt. destruct Hl as [|x x' r r' Hx Hr]; [apply sc_zero|].
    apply (rel_fold_left L L); [|exact Hr|exact Hx]. intros b b' y y' Hb Hy.
    rewrite (sc_gtb k _ _ _ _ Hk Hb Hy). destruct (gtb b y); assumption.
  Qed.

  Lemma rel_longest_line_length kc kc' lines lines' : kconst_rel k kc kc' -> Forall2 (Forall2 WR) lines lines' ->
    L (longest_line_length kc lines) (longest_line_length kc' lines').
  Proof.
    intros Hc Hl. kconst_open Hc. unfold longest_line_length. rewrite Ekr. apply rel_max_by_gt.
    apply (rel_map (Forall2 WR) L); [|exact Hl]. intros ln ln' Hln. rewrite (rel_zlen WR _ _ Hln).
    apply sc_add; [|apply (rel_sum_axis_gaps k Hk); apply rel_s_main; exact Hkgap].
    apply rel_fsum. apply (rel_map WR L); [|exact Hln]. intros w w' Hw. w_open Hw. ci_open Hwci. item_open Hwfi.
    pose proof (rel_main_axis_sum k (k_row kc) _ _ (rel_rect_add k _ _ _ _ Hcpad Hcbor)) as Hpb.
    pose proof (rel_main_axis_sum k (k_row kc) _ _ Hcmar) as Hm. pose proof (rel_s_main O (k_row kc) _ _ Hcmin) as Hsmn.
    hm k Hk.
  Qed.

  Lemma rel_opt_filter o o' b : O o o' -> O (opt_filter o b) (opt_filter o' b).
  Proof. intros H. destruct b; [exact H|exact I]. Qed.

  Definition intr_rel (b b' : @Intrinsic XQ) : Prop := L (in_min b) (in_min b') /\ L (in_max b) (in_max b') /\ O (in_pref b) (in_pref b').
  Lemma rel_intrinsic_bounds kc kc' w w' : kconst_rel k kc kc' -> WR w w' -> intr_rel (intrinsic_bounds kc w) (intrinsic_bounds kc' w').
  Proof.
    intros Hc Hw. kconst_open Hc. w_open Hw. ci_open Hwci. item_open Hwfi. unfold intrinsic_bounds, intr_rel. cbn [in_min in_max in_pref]. rewrite Ekr.
    set (row := k_row kc).
    pose proof (rel_s_main O row _ _ Hcsz) as Hsm. pose proof (rel_s_main O row _ _ Hcmax) as Hmxm. pose proof (rel_s_main O row _ _ Hcmin) as Hmnm.
    rewrite (dl_eqb _ _ zero zero Hs dl_zero), (dl_eqb _ _ zero zero Hg dl_zero).
    assert (Hcb : O (maybe_max_oo (Some (fi_basis (w_fi w))) (s_main row (ci_size (w_ci w)))) (maybe_max_oo (Some (fi_basis (w_fi w'))) (s_main row (ci_size (w_ci w')))))
      by hm k Hk.
    pose proof (rel_opt_filter _ _ (fi_shrink (w_fi w) =? zero)%num Hcb) as Hfmin. pose proof (rel_opt_filter _ _ (fi_grow (w_fi w) =? zero)%num Hcb) as Hfmax.
    set (fmn := opt_filter _ (fi_shrink (w_fi w) =? zero)%num) in *. set (fmn' := opt_filter (maybe_max_oo (Some (fi_basis (w_fi w'))) _) (fi_shrink (w_fi w) =? zero)%num) in *.
    set (fmx := opt_filter _ (fi_grow (w_fi w) =? zero)%num) in *. set (fmx' := opt_filter (maybe_max_oo (Some (fi_basis (w_fi w'))) _) (fi_grow (w_fi w) =? zero)%num) in *.
    clearbody fmn fmn' fmx fmx'.
    repeat match goal with |- _ /\ _ => split end; [| |exact Hsm]; hm k Hk; apply sc_infinity.
  Qed.

  Lemma rel_item_is_scroll_container w w' : WR w w' -> item_is_scroll_container w' = item_is_scroll_container w.
  Proof. intros Hw. w_open Hw. pose proof (SR_weak _ _ Hwst) as Wst. wstyle_open Wst. unfold item_is_scroll_container. rewrite Wov. reflexivity. Qed.

  Lemma rel_intrinsic_shortcut kc kc' w w' : kconst_rel k kc kc' -> WR w w' -> O (intrinsic_shortcut kc w) (intrinsic_shortcut kc' w').
  Proof.
    intros Hc Hw. destruct (rel_intrinsic_bounds _ _ _ _ Hc Hw) as (Hmn & Hmx & Hpr). unfold intrinsic_shortcut.
    rewrite (rel_item_is_scroll_container _ _ Hw). kconst_open Hc. w_open Hw. ci_open Hwci. item_open Hwfi. rewrite Ekr.
    pose proof (rel_main_axis_sum k (k_row kc) _ _ Hcmar) as Hm.
    set (b := intrinsic_bounds kc w) in *. set (b' := intrinsic_bounds kc' w') in *. clearbody b b'.
    rewrite (sc_leb k _ _ _ _ Hk Hmx Hmn).
    destruct (in_pref b) as [p|], (in_pref b') as [p'|]; cbn [op_rel] in Hpr; try contradiction.
    - rewrite (sc_leb k _ _ _ _ Hk Hmx Hpr). destruct ((in_max b <=? in_min b)%num || (in_max b <=? p)%num)%bool; [cbn [op_rel]; hm k Hk|].
      destruct (item_is_scroll_container w); cbn [op_rel]; [hm k Hk|exact I].
    - destruct (in_max b <=? in_min b)%num; [cbn [op_rel]; hm k Hk|]. destruct (item_is_scroll_container w); cbn [op_rel]; [hm k Hk|exact I].
  Qed.

  Lemma rel_intrinsic_asks kc kc' av av' w w' : kconst_rel k kc kc' -> sz_rel A av av' -> WR w w' ->
    Forall2 (fin_rel k) (intrinsic_asks kc av w) (intrinsic_asks kc' av' w').
  Proof.
    intros Hc Hav Hw. pose proof (rel_intrinsic_shortcut _ _ _ _ Hc Hw) as Hsc. unfold intrinsic_asks.
    destruct (intrinsic_shortcut kc w), (intrinsic_shortcut kc' w'); cbn [op_rel] in Hsc; try contradiction; [constructor|].
    kconst_open Hc. w_open Hw. ci_open Hwci. rewrite Ekr, Ecal. set (row := k_row kc).
    pose proof (rel_s_cross O row _ _ Hki) as Hcp. pose proof (rel_cross_axis_sum k row _ _ Hkmar) as Hcm.
    pose proof (rel_s_cross O row _ _ Hcmin) as Hmn. pose proof (rel_s_cross O row _ _ Hcmax) as Hmx.
    pose proof (rel_s_cross A row _ _ Hav) as Hca. pose proof (rel_cross_axis_sum k row _ _ Hcmar) as Hcim.
    assert (Hcas : A (maybe_clamp_ao (avail_map_definite_value (s_cross row av) (fun val => opt_unwrap_or (s_cross row (k_inner kc)) val))
                                     (maybe_add_of (s_cross row (ci_min (w_ci w))) (cross_axis_sum row (k_margin kc)))
                                     (maybe_add_of (s_cross row (ci_max (w_ci w))) (cross_axis_sum row (k_margin kc))))
                     (maybe_clamp_ao (avail_map_definite_value (s_cross row av') (fun val => opt_unwrap_or (s_cross row (k_inner kc')) val))
                                     (maybe_add_of (s_cross row (ci_min (w_ci w'))) (cross_axis_sum row (k_margin kc')))
                                     (maybe_add_of (s_cross row (ci_max (w_ci w'))) (cross_axis_sum row (k_margin kc'))))).
    { first [apply (rel_maybe_clamp_ao k Hk)|apply (rel_maybe_clamp_ao k)]; hm k Hk. }
    set (cas := maybe_clamp_ao _ _ _) in *. set (cas' := maybe_clamp_ao (avail_map_definite_value (s_cross row av') _) _ _) in *. clearbody cas cas'.
    constructor; [|constructor]. apply fin_rel_mk; [| exact Hki | apply rel_s_with_cross; assumption].
    assert (Hkd0 : sz_rel O (s_with_main row (ci_size (w_ci w)) None) (s_with_main row (ci_size (w_ci w')) None))
      by (apply rel_s_with_main; [exact Hcsz|exact I]).
    set (kd0 := s_with_main row (ci_size (w_ci w)) None) in *. set (kd0' := s_with_main row (ci_size (w_ci w')) None) in *.
    assert (Ecr : match s_cross row kd0' with None => true | Some _ => false end = match s_cross row kd0 with None => true | Some _ => false end).
    { pose proof (rel_s_cross O row _ _ Hkd0) as Hx.
      destruct (s_cross row kd0), (s_cross row kd0'); cbn [op_rel] in Hx; try contradiction; reflexivity. }
    rewrite Ecr. destruct (align_self_eqb (ci_align (w_ci w)) AS_Stretch && _)%bool; [|exact Hkd0].
    apply rel_s_with_cross; [exact Hkd0|]. hm k Hk.
  Qed.

  (* the kind of the fraction: a length that is not negative (grow side), a pure number that is not positive (shrink side) *)
  Lemma rel_content_flex_fraction cc cc' fb fb' ifb ifb' g g' s s' : L cc cc' -> L fb fb' -> L ifb ifb' -> dl g g' -> dl s s' ->
    cff_rel k (content_flex_fraction_t tau cc fb ifb g s) (content_flex_fraction_t tau' cc' fb' ifb' g' s').
  Proof.
    intros Hcc Hfb Hifb Hg Hs. unfold content_flex_fraction_t, fraction_of_diff_t.
    assert (Hd : L (cc - fb)%num (cc' - fb')%num) by (apply sc_sub; assumption).
    set (d := (cc - fb)%num) in *. set (d' := (cc' - fb')%num) in *. clearbody d d'.
    rewrite (sc_gtb k _ _ zero zero Hk Hd (sc_zero k)), (sc_ltb k _ _ zero zero Hk Hd (sc_zero k)).
    destruct (gtb d zero) eqn:Egt.
    - left. split; [apply (sc_div_dl k); [exact Hk|exact Hd|apply dl_max; [apply dl_one|exact Hg]]|].
      apply div_pos_pos_not_neg; [exact Egt|apply fmax_pos_l; apply one_pos].
    - destruct (d <? zero)%num eqn:Elt.
      + right. split.
        * apply (dl_div_sc k); [exact Hk|exact Hd|]. apply (sc_max k); [exact Hk|exact Htau|]. apply (sc_dl_mul k); assumption.
        * apply div_neg_pos_not_pos; [exact Elt|apply fmax_pos_l; exact Htau_pos].
      + left. split; [apply sc_zero|reflexivity].
  Qed.

  Lemma rel_flex_contribution ifb ifb' g g' s s' c c' : L ifb ifb' -> dl g g' -> dl s s' -> cff_rel k c c' ->
    L (flex_contribution ifb g s c) (flex_contribution ifb' g' s' c').
  Proof.
    intros Hifb Hg Hs [[Hc Hn]|[Hc Hn]]; unfold flex_contribution.
    - rewrite (sc_gtb k _ _ zero zero Hk Hc (sc_zero k)), (sc_ltb k _ _ zero zero Hk Hc (sc_zero k)), Hn.
      destruct (gtb c zero); [|apply sc_zero]. apply (sc_dl_mul k); [exact Hk| |exact Hc]. apply dl_max; [apply dl_one|exact Hg].
    - rewrite (dl_gtb _ _ zero zero Hc dl_zero), (dl_ltb _ _ zero zero Hc dl_zero), Hn.
      destruct (c <? zero)%num; [|apply sc_zero]. apply (sc_mul_dl k); [exact Hk| |exact Hc].
      apply (sc_dl_mul k); [exact Hk| |exact Hifb]. apply dl_max; [apply dl_one|exact Hs].
  Qed.

  Lemma rel_intrinsic_upd kc kc' w w' a a' : kconst_rel k kc kc' -> WR w w' -> Forall2 (ans_rel k) a a' ->
    WR (intrinsic_upd_t tau kc w a) (intrinsic_upd_t tau' kc' w' a').
  Proof.
    intros Hc Hw Ha. pose proof (rel_intrinsic_shortcut _ _ _ _ Hc Hw) as Hsc. unfold intrinsic_upd_t.
    apply rel_set_cff; [exact Hw|]. kconst_open Hc. w_open Hw. ci_open Hwci. item_open Hwfi. rewrite Ekr. set (row := k_row kc).
    apply rel_content_flex_fraction; try assumption.
    pose proof (rel_main_axis_sum k row _ _ Hkin) as Hkinm. pose proof (rel_main_axis_sum k row _ _ Hcmar) as Hm.
    pose proof (rel_s_main O row _ _ Hcmin) as Hsmn. pose proof (rel_s_main O row _ _ Hcmax) as Hsmx.
    destruct (intrinsic_shortcut kc w), (intrinsic_shortcut kc' w'); cbn [op_rel] in Hsc; try contradiction; [exact Hsc|].
    destruct Ha as [|x x' l l' Hx Hl]; [apply sc_zero|]. pose proof (rel_ans_main k row _ _ Hx) as Hax.
    destruct row; hm k Hk.
  Qed.

  Lemma rel_intrinsic_main_size kc kc' lines lines' : kconst_rel k kc kc' -> Forall2 (Forall2 WR) lines lines' ->
    L (intrinsic_main_size kc lines) (intrinsic_main_size kc' lines').
  Proof.
    intros Hc Hl. kconst_open Hc. unfold intrinsic_main_size. rewrite Ekr.
    apply (rel_fold_left (Forall2 WR) L); [|exact Hl|apply sc_zero]. intros b b' ln ln' Hb Hln.
    rewrite (rel_zlen WR _ _ Hln). apply (sc_max k); [exact Hk|exact Hb|].
    apply sc_add; [|apply (rel_sum_axis_gaps k Hk); apply rel_s_main; exact Hkgap].
    apply rel_fsum. apply (rel_map WR L); [|exact Hln]. intros w w' Hw. w_open Hw. item_open Hwfi.
    apply sc_add; [assumption|]. apply rel_flex_contribution; assumption.
  Qed.

  Definition mb_rel (b b' : @MainBranch XQ) : Prop :=
    match b, b' with
    | MB_Definite a, MB_Definite a' => L a a'
    | MB_WrapMinContent, MB_WrapMinContent | MB_Intrinsic, MB_Intrinsic => True
    | _, _ => False
    end.
  Lemma rel_main_branch kc kc' av av' : kconst_rel k kc kc' -> sz_rel A av av' -> mb_rel (main_branch kc av) (main_branch kc' av').
  Proof.
    intros Hc Hav. kconst_open Hc. unfold main_branch. rewrite Ekr, Ekw. pose proof (rel_s_main A (k_row kc) _ _ Hav) as Hm.
    destruct (s_main (k_row kc) av), (s_main (k_row kc) av'); cbn [av_rel] in Hm; try contradiction; cbn [mb_rel]; auto.
    destruct (k_wrap kc); exact I.
  Qed.

  Lemma rel_p_main row p p' : pt_rel L p p' -> L (p_main row p) (p_main row p').
  Proof. intros [H1 H2]. destruct row; assumption. Qed.
  Lemma rel_p_cross row p p' : pt_rel L p p' -> L (p_cross row p) (p_cross row p').
  Proof. intros [H1 H2]. destruct row; assumption. Qed.

  Lemma rel_finish_main_size kc kc' g g' o o' : kconst_rel k kc kc' -> pt_rel L g g' -> L o o' ->
    L (fst (finish_main_size kc g o)) (fst (finish_main_size kc' g' o')) /\ L (snd (finish_main_size kc g o)) (snd (finish_main_size kc' g' o')).
  Proof.
    intros Hc Hg Ho. kconst_open Hc. unfold finish_main_size. cbn [fst snd]. rewrite Ekr. set (row := k_row kc).
    pose proof (rel_main_axis_sum k row _ _ Hkin) as Hin. pose proof (rel_p_main row _ _ Hg) as Hgm.
    pose proof (rel_s_main O row _ _ Hkmin) as Hmn. pose proof (rel_s_main O row _ _ Hkmax) as Hmx.
    split; hm k Hk.
  Qed.

  Lemma rel_with_main_size s s' kc kc' om om' im im' : fstyle_wrel k crow s s' -> kconst_rel k kc kc' -> L om om' -> L im im' ->
    kconst_rel k (with_main_size s kc om im) (with_main_size s' kc' om' im').
  Proof.
    intros Ws Hc Hom Him. wstyle_open Ws. kconst_open Hc. unfold with_main_size, kconst_rel.
    cbn [k_row k_reverse k_wrap k_wrap_reverse k_min k_max k_margin k_border k_gap k_inset k_align_items k_align_content k_justify k_outer k_inner].
    rewrite Ekr. repeat match goal with |- _ /\ _ => split end; try assumption; try reflexivity.
    - apply rel_s_with_main; [exact Hkgap|]. pose proof (rel_s_main (lp_rel k) (k_row kc) _ _ Wgap) as Hg. hm k Hk.
    - apply rel_s_with_main; [exact Hko|exact Hom].
    - apply rel_s_with_main; [exact Hki|exact Him].
  Qed.
End MainSize.
