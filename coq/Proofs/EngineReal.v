(* Proofs about the generic engine of Model/EngineReal.v (cache as an abstract data type, per-node counters):

     gmemo_exact_is_memo         the Exact instance IS Model/Engine.v's `memo` (up to the embedding of trees; counters forgotten)
     gmemo_acct                  accounting, any algorithm, any cache: queries = hits + evaluations, lossy hits <= hits and
                                 measure calls <= evaluations (when one evaluation measures at most once) at every node
     gmemo_lossy_mono            the lossy-hit counters only grow
     gmemo_sound_when_faithful   any cache whose FAITHFUL hits return an entry stored for exactly that input: an evaluation in which
                                 no lossy hit occurs returns what the cache-free evaluation returns, keeps all ghost entries valid
     real_*_erase                the Real instance without its ghost state is Model/Cache.v's get / store / clear / is_empty
     (the Real instance's get / store / clear satisfy the premises of gmemo_sound_when_faithful: discharged inside memo_real_sound) *)
From Coq Require Import List Bool Arith NArith Lia.
From TV Require Import Num.Num Gen.CacheGen Model.Cache Model.Engine Model.EngineReal Proofs.EngineMemo.
Import ListNotations.

(* ---------------------------------------------------------------------------------------------------------------- *)
Section Generic.
  Variables (S In Out Lay : Type).
  Variable mode : In -> RunMode.
  Variable is_none : S -> bool.
  Variable hidden_out : Out.
  Variable zero_lay : Lay.
  Variable algo : S -> list S -> In -> Alg In Out Lay.
  Variable mcalls : S -> list S -> In -> N.
  Variable C : Type.
  Variable cget : C -> In -> option Out.
  Variable clossy : C -> In -> bool.
  Variable cstore : C -> In -> Out -> C.
  Variable cclear : C -> C.

  Notation gtree := (gtree S Lay C).
  Notation GNode := (GNode S Lay C).
  Notation gmemo := (gmemo S In Out Lay mode is_none hidden_out zero_lay algo mcalls C cget clossy cstore cclear).
  Notation grun_memo := (grun_memo S In Out Lay C).
  Notation ghide := (ghide S Lay zero_lay C cclear).
  Notation gskel := (gskel S Lay C).
  Notation gstyle := (gstyle S Lay C).
  Notation gset_lay := (gset_lay S Lay C).
  Notation gcounts := (gcounts S Lay C).
  Notation plain := (plain S In Out Lay mode is_none hidden_out algo).
  Notation run_plain := (run_plain S In Out Lay).

  Lemma gtree_ind' (P : gtree -> Prop) :
    (forall s c l n kids, Forall P kids -> P (GNode s c l n kids)) -> forall t, P t.
  Proof.
    intros H. fix IH 1. intros [s c l n kids]. apply H.
    induction kids as [|k kids IHk]; constructor; [apply IH | exact IHk].
  Qed.

  (* one unfolding of gmemo outside hidden mode *)
  Definition gbody (f : nat) (s : S) (c : C) (l : Lay) (n : stats) (kids : list gtree) (i : In) : option (Out * gtree) :=
    match cget c i with
    | Some o => Some (o, GNode s c l (st_hit (clossy c i) n) kids)
    | None =>
        if is_none s then Some (hidden_out, GNode s (cstore (cclear c) i hidden_out) zero_lay (st_eval 0 n) (map ghide kids))
        else match grun_memo (gmemo f) kids (algo s (map gstyle kids) i) with
             | Some (o, kids') => Some (o, GNode s (cstore c i o) l (st_eval (mcalls s (map gstyle kids) i) n) kids')
             | None => None
             end
    end.

  Lemma gmemo_unfold f s c l n kids i :
    gmemo (Datatypes.S f) (GNode s c l n kids) i =
    match mode i with
    | PerformHiddenLayout => Some (hidden_out, ghide (GNode s c l n kids))
    | _ => gbody f s c l n kids i
    end.
  Proof. cbn [EngineReal.gmemo]. unfold gbody. destruct (mode i); reflexivity. Qed.

  (* ---------------- predicates over all nodes ---------------- *)
  Inductive GAll (P : stats -> Prop) : gtree -> Prop :=
  | GA_node s c l n kids : P n -> Forall (GAll P) kids -> GAll P (GNode s c l n kids).

  Lemma GAll_counts P t : GAll P t <-> Forall P (gcounts t).
  Proof.
    induction t as [s c l n kids IH] using gtree_ind'. cbn. split.
    - intros HA. inversion HA as [? ? ? ? ? Hn Hk]; subst. constructor; [exact Hn|].
      clear HA Hn. induction kids as [|k kids IHk]; cbn; [constructor|].
      inversion IH; subst. inversion Hk; subst. apply Forall_app. split; [apply H1; assumption|apply IHk; assumption].
    - intros HF. inversion HF as [|? ? Hn Hr]; subst. constructor; [exact Hn|].
      clear HF Hn. induction kids as [|k kids IHk]; cbn in *; [constructor|].
      inversion IH; subst. apply Forall_app in Hr. destruct Hr as [Ha Hb].
      constructor; [apply H1; exact Ha|apply IHk; assumption].
  Qed.

  Lemma GAll_hide P t : GAll P t -> GAll P (ghide t).
  Proof.
    induction t as [s c l n kids IH] using gtree_ind'. intros HA. inversion HA; subst. cbn. constructor; [assumption|].
    apply Forall_map. rewrite Forall_forall in *. intros x Hx. apply IH; [exact Hx|]. auto.
  Qed.

  Lemma GAll_set_lay P t l : GAll P t -> GAll P (gset_lay t l).
  Proof. intros HA. destruct t. inversion HA; subst. cbn. constructor; assumption. Qed.

  (* ---------------- accounting ---------------- *)
  Definition acct (n : stats) : Prop :=
    (n_query n = n_hit n + n_eval n /\ n_lossy n <= n_hit n /\ n_meas n <= n_eval n)%N.

  Hypothesis mcalls_le_1 : forall s kids i, (mcalls s kids i <= 1)%N.

  Lemma acct_hit b n : acct n -> acct (st_hit b n).
  Proof. unfold acct, st_hit. cbn. destruct b; lia. Qed.
  Lemma acct_eval m n : (m <= 1)%N -> acct n -> acct (st_eval m n).
  Proof. unfold acct, st_eval. cbn. lia. Qed.

  Lemma grun_memo_all (P : stats -> Prop) ev :
    (forall t i o t', GAll P t -> ev t i = Some (o, t') -> GAll P t') ->
    forall a kids o kids', Forall (GAll P) kids -> grun_memo ev kids a = Some (o, kids') -> Forall (GAll P) kids'.
  Proof.
    intros Hev a. induction a as [o0|c i k IH|c l k IH]; intros kids o kids' HA H; cbn in H.
    - injection H as <- <-. exact HA.
    - destruct (nth_error kids c) as [t|] eqn:En; [|discriminate].
      destruct (ev t i) as [[o1 t1]|] eqn:Ee; [|discriminate].
      eapply IH; [|exact H]. apply Forall_replace_nth; [exact HA|].
      eapply Hev; [|exact Ee]. rewrite Forall_forall in HA. apply HA. eapply nth_error_In; eauto.
    - destruct (nth_error kids c) as [t|] eqn:En; [|discriminate].
      eapply IH; [|exact H]. apply Forall_replace_nth; [exact HA|].
      apply GAll_set_lay. rewrite Forall_forall in HA. apply HA. eapply nth_error_In; eauto.
  Qed.

  Theorem gmemo_acct : forall f t i o t', GAll acct t -> gmemo f t i = Some (o, t') -> GAll acct t'.
  Proof.
    induction f as [|f IH]; intros t i o t' HA H; [discriminate|].
    destruct t as [s c l n kids]. rewrite gmemo_unfold in H. inversion HA as [? ? ? ? ? Hn Hk]; subst.
    assert (Hb : gbody f s c l n kids i = Some (o, t') -> GAll acct t').
    { unfold gbody. destruct (cget c i) as [o1|].
      - intros E. injection E as <- <-. constructor; [apply acct_hit; exact Hn|exact Hk].
      - destruct (is_none s).
        + intros E. injection E as <- <-. constructor; [apply acct_eval; [lia|exact Hn]|].
          apply Forall_map. rewrite Forall_forall in *. intros x Hx. apply GAll_hide. auto.
        + destruct (grun_memo _ _ _) as [[o1 kids1]|] eqn:Er; [|discriminate].
          intros E. injection E as <- <-. constructor; [apply acct_eval; [apply mcalls_le_1|exact Hn]|].
          eapply grun_memo_all; [|exact Hk|exact Er]. intros. eapply IH; eauto. }
    destruct (mode i); try (apply Hb; exact H).
    injection H as <- <-. exact (GAll_hide _ _ HA).
  Qed.

  Lemma GAll_reset t : GAll acct (greset S Lay C t).
  Proof.
    induction t as [s c l n kids IH] using gtree_ind'. cbn. constructor; [unfold acct, stats0; cbn; lia|].
    apply Forall_map. exact IH.
  Qed.

  (* ---------------- the lossy-hit counters only grow ---------------- *)
  Fixpoint tl (t : gtree) : N :=
    match t with EngineReal.GNode _ _ _ _ _ _ n kids => (n_lossy n + fold_right (fun k a => tl k + a) 0 kids)%N end.
  Definition tls (kids : list gtree) : N := fold_right (fun k a => (tl k + a)%N) 0%N kids.

  Lemma tl_node s c l n kids : tl (GNode s c l n kids) = (n_lossy n + tls kids)%N.
  Proof. reflexivity. Qed.

  Lemma sumN_app xs ys : (fold_right N.add 0 (xs ++ ys) = fold_right N.add 0 xs + fold_right N.add 0 ys)%N.
  Proof. induction xs as [|x xs IHx]; cbn; [reflexivity|]. rewrite IHx. lia. Qed.

  Lemma tl_sum t : tl t = sum_stats S Lay C n_lossy t.
  Proof.
    unfold sum_stats. induction t as [s c l n kids IH] using gtree_ind'. rewrite tl_node. cbn. f_equal.
    induction kids as [|k kids IHk]; [reflexivity|]. inversion IH; subst. cbn [flat_map].
    rewrite map_app, sumN_app. rewrite <- IHk by assumption. rewrite <- H1. reflexivity.
  Qed.

  Lemma tl_hide t : tl (ghide t) = tl t.
  Proof.
    induction t as [s c l n kids IH] using gtree_ind'. cbn [EngineReal.ghide]. rewrite !tl_node. f_equal.
    induction kids as [|k kids IHk]; [reflexivity|]. inversion IH; subst. cbn. unfold tls in IHk. rewrite IHk by assumption. rewrite H1. reflexivity.
  Qed.

  Lemma tls_map_hide kids : tls (map ghide kids) = tls kids.
  Proof. induction kids as [|k kids IHk]; [reflexivity|]. cbn. unfold tls in IHk. rewrite IHk, tl_hide. reflexivity. Qed.

  Lemma tl_set_lay t l : tl (gset_lay t l) = tl t.
  Proof. destruct t. reflexivity. Qed.

  Lemma tls_replace c t t' kids : nth_error kids c = Some t -> (tls (replace_nth c t' kids) + tl t = tls kids + tl t')%N.
  Proof.
    revert kids. induction c as [|c IH]; intros [|a kids] H; try discriminate; cbn in H.
    - injection H as ->. unfold replace_nth. cbn. lia.
    - specialize (IH _ H).
      change (replace_nth (Datatypes.S c) t' (a :: kids)) with (a :: replace_nth c t' kids).
      change (tls (a :: replace_nth c t' kids)) with (tl a + tls (replace_nth c t' kids))%N.
      change (tls (a :: kids)) with (tl a + tls kids)%N. lia.
  Qed.

  Lemma grun_memo_lossy_mono ev :
    (forall t i o t', ev t i = Some (o, t') -> (tl t <= tl t')%N) ->
    forall a kids o kids', grun_memo ev kids a = Some (o, kids') -> (tls kids <= tls kids')%N.
  Proof.
    intros Hev a. induction a as [o0|c i k IH|c l k IH]; intros kids o kids' H; cbn in H.
    - injection H as <- <-. lia.
    - destruct (nth_error kids c) as [t|] eqn:En; [|discriminate].
      destruct (ev t i) as [[o1 t1]|] eqn:Ee; [|discriminate].
      specialize (IH _ _ _ _ H). pose proof (Hev _ _ _ _ Ee). pose proof (tls_replace c t t1 kids En). lia.
    - destruct (nth_error kids c) as [t|] eqn:En; [|discriminate].
      specialize (IH _ _ _ H). pose proof (tls_replace c t (gset_lay t l) kids En). rewrite tl_set_lay in *. lia.
  Qed.

  Theorem gmemo_lossy_mono : forall f t i o t', gmemo f t i = Some (o, t') -> (tl t <= tl t')%N.
  Proof.
    induction f as [|f IH]; intros t i o t' H; [discriminate|].
    destruct t as [s c l n kids]. rewrite gmemo_unfold in H.
    assert (Hb : gbody f s c l n kids i = Some (o, t') -> (tl (GNode s c l n kids) <= tl t')%N).
    { unfold gbody. destruct (cget c i) as [o1|].
      - intros E. injection E as <- <-. rewrite !tl_node. cbn. lia.
      - destruct (is_none s).
        + intros E. injection E as <- <-. rewrite !tl_node, tls_map_hide. cbn. lia.
        + destruct (grun_memo _ _ _) as [[o1 kids1]|] eqn:Er; [|discriminate].
          intros E. injection E as <- <-. rewrite !tl_node. cbn.
          pose proof (grun_memo_lossy_mono _ IH _ _ _ _ Er). lia. }
    destruct (mode i); try (apply Hb; exact H).
    injection H as <- <-. pose proof (tl_hide (GNode s c l n kids)) as Hh. cbn [EngineReal.ghide] in Hh. rewrite Hh. lia.
  Qed.

  (* ---------------- soundness of the evaluations without a lossy hit ---------------- *)
  (* GHOST view of a cache: the (complete input, complete output) pairs its entries were stored with *)
  Variable centries : C -> list (In * Out).
  (* a hit that is not lossy returns the output of an entry stored for exactly this input *)
  Hypothesis cget_faithful : forall c i o, cget c i = Some o -> clossy c i = false -> List.In (i, o) (centries c).
  Hypothesis cstore_entries : forall c i o e, List.In e (centries (cstore c i o)) -> e = (i, o) \/ List.In e (centries c).
  Hypothesis cclear_entries : forall c e, List.In e (centries (cclear c)) -> List.In e (centries c).

  Definition gcache_ok (k : sk S) (c : C) : Prop := forall i o, List.In (i, o) (centries c) -> exists f, plain f k i = Some o.

  Inductive GValid : gtree -> Prop :=
  | GV_node s c l n kids : gcache_ok (SNode S s (map gskel kids)) c -> Forall GValid kids -> GValid (GNode s c l n kids).

  Lemma gskel_hide t : gskel (ghide t) = gskel t.
  Proof.
    induction t as [s c l n kids IH] using gtree_ind'. cbn. f_equal. rewrite map_map. apply map_ext_Forall. exact IH.
  Qed.
  Lemma map_gskel_hide kids : map gskel (map ghide kids) = map gskel kids.
  Proof. rewrite map_map. apply map_ext. intros. apply gskel_hide. Qed.

  Lemma GValid_hide t : GValid t -> GValid (ghide t).
  Proof.
    induction t as [s c l n kids IH] using gtree_ind'. intros HV. inversion HV as [? ? ? ? ? Hc Hk]; subst. cbn. constructor.
    - rewrite map_gskel_hide. intros i o Hin. apply Hc. apply cclear_entries. exact Hin.
    - apply Forall_map. rewrite Forall_forall in *. intros x Hx. apply IH; auto.
  Qed.

  Lemma map_gstyle_skel (kids : list gtree) : map (sstyle S) (map gskel kids) = map gstyle kids.
  Proof. rewrite map_map. apply map_ext. intros [s c l n k]. reflexivity. Qed.

  Definition gev_sound (ev : gtree -> In -> option (Out * gtree)) : Prop :=
    forall t i o t', GValid t -> ev t i = Some (o, t') -> (tl t' <= tl t)%N ->
      (exists f, plain f (gskel t) i = Some o) /\ GValid t' /\ gskel t' = gskel t.

  Lemma grun_memo_sound ev : gev_sound ev -> (forall t i o t', ev t i = Some (o, t') -> (tl t <= tl t')%N) ->
    forall a kids o kids', Forall GValid kids -> grun_memo ev kids a = Some (o, kids') -> (tls kids' <= tls kids)%N ->
      (exists f, run_plain (plain f) (map gskel kids) a = Some o) /\ Forall GValid kids' /\ map gskel kids' = map gskel kids.
  Proof.
    intros Hev Hmono a. induction a as [o0|c i k IH|c l k IH]; intros kids o kids' HV H HL; cbn in H.
    - injection H as <- <-. split; [exists O; reflexivity|]. split; [exact HV|reflexivity].
    - destruct (nth_error kids c) as [t|] eqn:En; [|discriminate].
      destruct (ev t i) as [[o1 t1]|] eqn:Ee; [|discriminate].
      assert (HVt : GValid t) by (rewrite Forall_forall in HV; apply HV; eapply nth_error_In; eauto).
      pose proof (grun_memo_lossy_mono _ Hmono _ _ _ _ H) as Hm2. pose proof (Hmono _ _ _ _ Ee) as Hm1.
      pose proof (tls_replace c t t1 kids En) as Hr.
      assert (Hl1 : (tl t1 <= tl t)%N) by lia.
      destruct (Hev _ _ _ _ HVt Ee Hl1) as [[f1 Hp1] [HV1 Hs1]].
      assert (HV' : Forall GValid (replace_nth c t1 kids)) by (apply Forall_replace_nth; assumption).
      assert (Hl2 : (tls kids' <= tls (replace_nth c t1 kids))%N) by lia.
      destruct (IH o1 _ _ _ HV' H Hl2) as [[f2 Hp2] [HV2 Hs2]].
      assert (Hsk : map gskel (replace_nth c t1 kids) = map gskel kids).
      { rewrite map_replace_nth, Hs1. apply replace_nth_same. rewrite nth_error_map, En. reflexivity. }
      rewrite Hsk in Hp2, Hs2.
      split; [|split; assumption].
      exists (Nat.max f1 f2). cbn. rewrite nth_error_map, En. cbn.
      rewrite (plain_mono S In Out Lay mode is_none hidden_out algo f1 (Nat.max f1 f2) _ _ _ (Nat.le_max_l _ _) Hp1).
      eapply run_plain_mono; [|exact Hp2]. intros t0 i0 o0. apply plain_mono. lia.
    - destruct (nth_error kids c) as [t|] eqn:En; [|discriminate].
      assert (HVt : GValid t) by (rewrite Forall_forall in HV; apply HV; eapply nth_error_In; eauto).
      assert (HVs : GValid (gset_lay t l)) by (destruct t; inversion HVt; subst; constructor; assumption).
      assert (HV' : Forall GValid (replace_nth c (gset_lay t l) kids)) by (apply Forall_replace_nth; assumption).
      pose proof (tls_replace c t (gset_lay t l) kids En) as Hr. rewrite tl_set_lay in Hr.
      assert (Hl2 : (tls kids' <= tls (replace_nth c (gset_lay t l) kids))%N) by lia.
      destruct (IH _ _ _ HV' H Hl2) as [[f2 Hp2] [HV2 Hs2]].
      assert (Hsk : map gskel (replace_nth c (gset_lay t l) kids) = map gskel kids).
      { rewrite map_replace_nth. apply replace_nth_same. rewrite nth_error_map, En. destruct t; reflexivity. }
      rewrite Hsk in Hp2, Hs2.
      split; [|split; assumption].
      exists f2. cbn. rewrite nth_error_map, En. cbn. exact Hp2.
  Qed.

  Theorem gmemo_sound_when_faithful : forall f, gev_sound (gmemo f).
  Proof.
    induction f as [|f IH]; intros t i o t' HV H HL; [discriminate|].
    destruct t as [s c l n kids]. rewrite gmemo_unfold in H.
    inversion HV as [? ? ? ? ? Hc Hk]; subst.
    destruct (mode i) eqn:Em.
    3: { injection H as <- <-. split; [exists (Datatypes.S O); cbn; rewrite Em; reflexivity|]. split.
         - exact (GValid_hide _ HV).
         - exact (gskel_hide (GNode s c l n kids)). }
    all: unfold gbody in H; destruct (cget c i) as [o1|] eqn:Eg.
    all: try (injection H as <- <-; rewrite !tl_node in HL; cbn in HL;
              assert (El : clossy c i = false) by (destruct (clossy c i); [lia|reflexivity]);
              split; [apply Hc; apply cget_faithful; assumption|]; split; [constructor; assumption|reflexivity]).
    all: destruct (is_none s) eqn:En.
    all: try (injection H as <- <-; split; [exists (Datatypes.S O); cbn; rewrite Em, En; reflexivity|]; split;
              [constructor; [rewrite map_gskel_hide; intros i' o' Hin; apply cstore_entries in Hin; destruct Hin as [Hin|Hin];
                               [injection Hin as -> ->; exists (Datatypes.S O); cbn; rewrite Em, En; reflexivity | apply Hc; apply cclear_entries; exact Hin]
                            | apply Forall_map; rewrite Forall_forall in *; intros x Hx; apply GValid_hide; auto]
              | cbn; f_equal; apply map_gskel_hide]).
    all: destruct (grun_memo (gmemo f) kids (algo s (map gstyle kids) i)) as [[o1 kids1]|] eqn:Er; [|discriminate].
    all: injection H as <- <-; rewrite !tl_node in HL; cbn in HL.
    all: assert (HL' : (tls kids1 <= tls kids)%N) by lia.
    all: destruct (grun_memo_sound _ IH (gmemo_lossy_mono f) _ _ _ _ Hk Er HL') as [[f1 Hp] [HV1 Hs1]].
    all: assert (Hpl : exists f0, plain f0 (SNode S s (map gskel kids)) i = Some o1)
           by (exists (Datatypes.S f1); cbn; rewrite Em, En, map_gstyle_skel; exact Hp).
    all: split; [exact Hpl|]; split; [|cbn; f_equal; exact Hs1].
    all: constructor; [|exact HV1]; rewrite Hs1; intros i' o' Hin; apply cstore_entries in Hin; destruct Hin as [Hin|Hin];
           [injection Hin as -> ->; exact Hpl | apply Hc; exact Hin].
  Qed.

  Lemma GValid_greset t : GValid t -> GValid (greset S Lay C t).
  Proof.
    induction t as [s c l n kids IH] using gtree_ind'. intros HV. inversion HV as [? ? ? ? ? Hc Hk]; subst. cbn. constructor.
    - replace (map gskel (map (greset S Lay C) kids)) with (map gskel kids); [exact Hc|].
      rewrite map_map. apply map_ext_Forall. rewrite Forall_forall in *. intros x Hx.
      clear - x. induction x as [s c l n kids IH] using gtree_ind'. cbn. f_equal. rewrite map_map. apply map_ext_Forall. exact IH.
    - apply Forall_map. rewrite Forall_forall in *. intros x Hx. apply IH; auto.
  Qed.
End Generic.

(* ---------------------------------------------------------------------------------------------------------------- *)
(* the counters are ghost: what an evaluation returns and the tree it leaves (counters erased) depend neither on the counters in the
   tree nor on the instrumentation parameters `mcalls`, `clossy` *)
Section CountersIrrelevant.
  Variables (S In Out Lay : Type).
  Variable mode : In -> RunMode.
  Variable is_none : S -> bool.
  Variable hidden_out : Out.
  Variable zero_lay : Lay.
  Variable algo : S -> list S -> In -> Alg In Out Lay.
  Variable C : Type.
  Variable cget : C -> In -> option Out.
  Variable cstore : C -> In -> Out -> C.
  Variable cclear : C -> C.
  Variables (mcalls1 mcalls2 : S -> list S -> In -> N) (clossy1 clossy2 : C -> In -> bool).

  Notation gtree := (gtree S Lay C).
  Notation GNode := (GNode S Lay C).
  Notation greset := (greset S Lay C).
  Notation ghide := (ghide S Lay zero_lay C cclear).
  Notation gm1 := (gmemo S In Out Lay mode is_none hidden_out zero_lay algo mcalls1 C cget clossy1 cstore cclear).
  Notation gm2 := (gmemo S In Out Lay mode is_none hidden_out zero_lay algo mcalls2 C cget clossy2 cstore cclear).

  Definition rp (p : Out * gtree) : Out * gtree := (fst p, greset (snd p)).
  Definition rps (p : Out * list gtree) : Out * list gtree := (fst p, map greset (snd p)).

  Lemma greset_hide t : greset (ghide t) = ghide (greset t).
  Proof.
    induction t as [s c l n kids IH] using (gtree_ind' S Lay C). cbn. f_equal. rewrite !map_map. apply map_ext_Forall. exact IH.
  Qed.

  Lemma greset_set_lay t l : greset (gset_lay S Lay C t l) = gset_lay S Lay C (greset t) l.
  Proof. destruct t. reflexivity. Qed.

  Lemma gstyle_reset t : gstyle S Lay C (greset t) = gstyle S Lay C t.
  Proof. destruct t. reflexivity. Qed.

  Lemma map_gstyle_reset kids1 kids2 : map greset kids1 = map greset kids2 -> map (gstyle S Lay C) kids1 = map (gstyle S Lay C) kids2.
  Proof.
    intros E. assert (E' : map (gstyle S Lay C) (map greset kids1) = map (gstyle S Lay C) (map greset kids2)) by (rewrite E; reflexivity).
    rewrite !map_map in E'.
    transitivity (map (fun x => gstyle S Lay C (greset x)) kids1); [apply map_ext; intros; symmetry; apply gstyle_reset|].
    rewrite E'. apply map_ext. intros. apply gstyle_reset.
  Qed.

  Lemma nth_reset kids1 kids2 c : map greset kids1 = map greset kids2 ->
    option_map greset (nth_error kids1 c) = option_map greset (nth_error kids2 c).
  Proof. intros E. rewrite <- !nth_error_map. rewrite E. reflexivity. Qed.

  Lemma grun_memo_reset (ev1 ev2 : gtree -> In -> option (Out * gtree)) :
    (forall t1 t2 i, greset t1 = greset t2 -> option_map rp (ev1 t1 i) = option_map rp (ev2 t2 i)) ->
    forall a kids1 kids2, map greset kids1 = map greset kids2 ->
      option_map rps (grun_memo S In Out Lay C ev1 kids1 a) = option_map rps (grun_memo S In Out Lay C ev2 kids2 a).
  Proof.
    intros Hev a. induction a as [o0|c i k IH|c l k IH]; intros kids1 kids2 E; cbn.
    - unfold rps. cbn. rewrite E. reflexivity.
    - pose proof (nth_reset _ _ c E) as En.
      destruct (nth_error kids1 c) as [t1|], (nth_error kids2 c) as [t2|]; cbn in En; try discriminate; [|reflexivity].
      injection En as En. specialize (Hev _ _ i En).
      destruct (ev1 t1 i) as [[o1 t1']|], (ev2 t2 i) as [[o2 t2']|]; cbn in Hev; try discriminate; [|reflexivity].
      unfold rp in Hev. cbn in Hev. injection Hev as -> Et. apply IH.
      rewrite !map_replace_nth. rewrite E, Et. reflexivity.
    - pose proof (nth_reset _ _ c E) as En.
      destruct (nth_error kids1 c) as [t1|], (nth_error kids2 c) as [t2|]; cbn in En; try discriminate; [|reflexivity].
      injection En as En. apply IH. rewrite !map_replace_nth, !greset_set_lay. rewrite E, En. reflexivity.
  Qed.

  Theorem gmemo_counters_irrelevant : forall f t1 t2 i, greset t1 = greset t2 -> option_map rp (gm1 f t1 i) = option_map rp (gm2 f t2 i).
  Proof.
    induction f as [|f IH]; intros t1 t2 i E; [reflexivity|].
    destruct t1 as [s c l n1 kids1], t2 as [s2 c2 l2 n2 kids2]. cbn in E. injection E as <- <- <- Ek.
    rewrite !gmemo_unfold.
    assert (Hh : rp (hidden_out, ghide (GNode s c l n1 kids1)) = rp (hidden_out, ghide (GNode s c l n2 kids2))).
    { unfold rp. cbn [fst snd]. f_equal. rewrite !greset_hide. cbn [EngineReal.greset]. rewrite Ek. reflexivity. }
    assert (Hb : option_map rp (gbody S In Out Lay mode is_none hidden_out zero_lay algo mcalls1 C cget clossy1 cstore cclear f s c l n1 kids1 i)
                 = option_map rp (gbody S In Out Lay mode is_none hidden_out zero_lay algo mcalls2 C cget clossy2 cstore cclear f s c l n2 kids2 i)).
    { unfold gbody. destruct (cget c i) as [o1|].
      - cbn. unfold rp. cbn. rewrite Ek. reflexivity.
      - destruct (is_none s).
        + cbn. unfold rp. cbn. do 3 f_equal. rewrite !map_map.
          erewrite map_ext; [|intros; apply greset_hide]. symmetry. erewrite map_ext; [|intros; apply greset_hide].
          rewrite <- (map_map greset ghide kids1), <- (map_map greset ghide kids2), Ek. reflexivity.
        + rewrite (map_gstyle_reset _ _ Ek).
          pose proof (grun_memo_reset _ _ IH (algo s (map (gstyle S Lay C) kids2) i) _ _ Ek) as Hr.
          destruct (grun_memo _ _ _ _ _ _ kids1 _) as [[o1 k1]|], (grun_memo _ _ _ _ _ _ kids2 _) as [[o2 k2]|]; cbn in Hr; try discriminate; [|reflexivity].
          unfold rps in Hr. cbn in Hr. injection Hr as -> Ek'. cbn. unfold rp. cbn. rewrite Ek'. reflexivity. }
    destruct (mode i); try exact Hb. cbn [option_map]. rewrite Hh. reflexivity.
  Qed.
End CountersIrrelevant.

(* ---------------------------------------------------------------------------------------------------------------- *)
(* the Exact instance is Model/Engine.v's memo *)
Section ExactIsMemo.
  Variables (S In Out Lay : Type).
  Variable mode : In -> RunMode.
  Variable in_eqb : In -> In -> bool.
  Variable is_none : S -> bool.
  Variable hidden_out : Out.
  Variable zero_lay : Lay.
  Variable algo : S -> list S -> In -> Alg In Out Lay.
  Variable mcalls : S -> list S -> In -> N.

  Notation memo := (memo S In Out Lay mode in_eqb is_none hidden_out zero_lay algo).
  Notation memo_exact := (memo_exact S In Out Lay mode in_eqb is_none hidden_out zero_lay algo mcalls).
  Notation forget := (forget S In Out Lay).
  Notation embed := (embed S In Out Lay).
  Notation xtree := (xtree S In Out Lay).
  Notation xhide := (ghide S Lay zero_lay (cache In Out) (fun _ => cempty In Out)).

  Definition fpair (p : Out * xtree) : Out * tree S In Out Lay := (fst p, forget (snd p)).
  Definition fpairs (p : Out * list xtree) : Out * list (tree S In Out Lay) := (fst p, map forget (snd p)).

  Lemma forget_embed t : forget (embed t) = t.
  Proof.
    induction t as [s c l kids IH] using (tree_ind' S In Out Lay). cbn. f_equal. rewrite map_map.
    rewrite <- (map_id kids) at 2. apply map_ext_Forall. exact IH.
  Qed.

  Lemma forget_hide t : forget (xhide t) = hide S In Out Lay zero_lay (forget t).
  Proof.
    induction t as [s c l n kids IH] using (gtree_ind' S Lay (cache In Out)). cbn. f_equal. rewrite !map_map.
    apply map_ext_Forall. exact IH.
  Qed.

  Lemma forget_set_lay t l : forget (gset_lay S Lay (cache In Out) t l) = set_lay S In Out Lay (forget t) l.
  Proof. destruct t. reflexivity. Qed.

  Lemma map_style_forget (kids : list xtree) : map (style_of S In Out Lay) (map forget kids) = map (gstyle S Lay (cache In Out)) kids.
  Proof. rewrite map_map. apply map_ext. intros [s c l n k]. reflexivity. Qed.

  Lemma grun_memo_forget (ev : xtree -> In -> option (Out * xtree)) (ev' : tree S In Out Lay -> In -> option (Out * tree S In Out Lay)) :
    (forall t i, option_map fpair (ev t i) = ev' (forget t) i) ->
    forall a kids, option_map fpairs (grun_memo S In Out Lay (cache In Out) ev kids a) = run_memo S In Out Lay ev' (map forget kids) a.
  Proof.
    intros Hev a. induction a as [o0|c i k IH|c l k IH]; intros kids; cbn.
    - reflexivity.
    - rewrite nth_error_map. unfold EngineReal.xtree in *. destruct (nth_error kids c) as [t|] eqn:En; cbn; [|reflexivity].
      rewrite <- Hev. destruct (ev t i) as [[o1 t1]|]; cbn; [|reflexivity].
      rewrite IH. rewrite map_replace_nth. reflexivity.
    - rewrite nth_error_map. unfold EngineReal.xtree in *. destruct (nth_error kids c) as [t|] eqn:En; cbn; [|reflexivity].
      rewrite IH. rewrite map_replace_nth, forget_set_lay. reflexivity.
  Qed.

  Theorem gmemo_exact_is_memo : forall f t i, option_map fpair (memo_exact f t i) = memo f (forget t) i.
  Proof.
    induction f as [|f IH]; intros t i; [reflexivity|].
    destruct t as [s c l n kids]. unfold EngineReal.memo_exact. rewrite gmemo_unfold. cbn [EngineReal.forget Engine.memo].
    assert (Hb : option_map fpair (gbody S In Out Lay mode is_none hidden_out zero_lay algo mcalls (cache In Out) (cget In Out mode in_eqb)
                                         (fun _ _ => false) (cstore In Out mode) (fun _ => cempty In Out) f s c l n kids i)
                 = match cget In Out mode in_eqb c i with
                   | Some o => Some (o, Node S In Out Lay s c l (map forget kids))
                   | None => if is_none s then Some (hidden_out, Node S In Out Lay s (cstore In Out mode (cempty In Out) i hidden_out) zero_lay
                                                                       (map (hide S In Out Lay zero_lay) (map forget kids)))
                             else match run_memo S In Out Lay (memo f) (map forget kids) (algo s (map (style_of S In Out Lay) (map forget kids)) i) with
                                  | Some (o, kids') => Some (o, Node S In Out Lay s (cstore In Out mode c i o) l kids')
                                  | None => None
                                  end
                   end).
    { unfold gbody. destruct (cget In Out mode in_eqb c i) as [o1|]; [reflexivity|].
      destruct (is_none s).
      - cbn. unfold fpair. cbn. do 3 f_equal. rewrite !map_map. apply map_ext. intros x. apply forget_hide.
      - rewrite map_style_forget.
        rewrite <- (grun_memo_forget _ (memo f) IH).
        destruct (grun_memo _ _ _ _ _ _ _) as [[o1 kids1]|]; reflexivity. }
    destruct (mode i); try exact Hb.
    cbn. unfold fpair. cbn. do 3 f_equal. rewrite !map_map. apply map_ext. intros x. apply forget_hide.
  Qed.
End ExactIsMemo.

(* ---------------------------------------------------------------------------------------------------------------- *)
(* the Real instance: erasure to Model/Cache.v, and the premises of gmemo_sound_when_faithful *)
Section RealCache.
  Context {T : Type} `{Num T}.
  Variables (In Out : Type).
  Variable mode : In -> RunMode.
  Variable key_of : In -> Cache.key T.
  Variable osize : Out -> Cache.size T.
  Variable from_outer : Cache.size T -> Out.
  Variable in_eqb : In -> In -> bool.
  Variable is_outer : Out -> bool.
  Variable pl : Out -> N.

  Notation rcache := (rcache In Out).
  Notation rget := (rget In Out mode key_of osize from_outer).
  Notation rhit := (rhit In Out mode key_of osize).
  Notation rlossy := (rlossy In Out mode key_of osize in_eqb is_outer).
  Notation rstore := (rstore In Out mode key_of).
  Notation rclear := (rclear In Out).
  Notation rdirty := (rdirty In Out).
  Notation rnew := (rnew In Out).
  Notation erase := (erase In Out key_of osize pl).
  Notation eout := (eout Out osize pl).
  Notation rentries := (rentries In Out).

  (* LayoutOutput::from_outer_size keeps the size and has the default payload *)
  Hypothesis osize_from_outer : forall s, osize (from_outer s) = s.
  Hypothesis pl_from_outer : forall s, pl (from_outer s) = 0%N.

  Lemma erase_new : erase rnew = Cache.new.
  Proof. reflexivity. Qed.

  Lemma find_erase i es :
    option_map (fun e => osize (re_out In Out e)) (rfind In Out key_of osize i es)
    = Cache.find_compat (key_of i) (map (option_map (fun e => {| e_key := key_of (re_in In Out e); e_content := osize (re_out In Out e) |})) es).
  Proof.
    induction es as [|[e|] es IH]; cbn; [reflexivity| |exact IH].
    unfold rcompat. cbn. destruct (Cache.compat _ _ _); [reflexivity|exact IH].
  Qed.

  Theorem real_get_erase c i : option_map eout (rget c i) = Cache.get (erase c) (key_of i) (cmode (mode i)).
  Proof.
    unfold EngineReal.rget, EngineReal.rhit, EngineReal.ranswer, Cache.get. destruct (mode i); cbn.
    - destruct (r_final In Out c) as [e|]; cbn; [|reflexivity]. unfold rcompat. cbn.
      destruct (Cache.compat _ _ _); reflexivity.
    - rewrite <- find_erase. destruct (rfind _ _ _ _ _ _) as [e|]; cbn; [|reflexivity].
      unfold EngineReal.eout, Cache.from_outer_size. rewrite osize_from_outer, pl_from_outer. reflexivity.
    - reflexivity.
  Qed.

  Lemma map_set_nth {A B} (f : A -> B) n x l : map f (set_nth n x l) = set_nth n (f x) (map f l).
  Proof. revert n; induction l as [|a l IH]; intros [|n]; cbn; try reflexivity. f_equal. apply IH. Qed.

  Theorem real_store_erase c i o : erase (rstore c i o) = Cache.store (erase c) (key_of i) (cmode (mode i)) (eout o).
  Proof.
    unfold EngineReal.rstore, Cache.store. destruct (mode i); cbn; try reflexivity.
    unfold EngineReal.erase. cbn. f_equal. rewrite map_set_nth. reflexivity.
  Qed.

  Theorem real_clear_erase c : erase (rclear c) = fst (Cache.clear (erase c)).
  Proof.
    unfold EngineReal.rclear, Cache.clear. cbn. destruct (r_flag In Out c); [reflexivity|].
    cbn. rewrite erase_new. reflexivity.
  Qed.

  Theorem real_dirty_erase c : rdirty c = Cache.is_empty (erase c).
  Proof.
    unfold EngineReal.rdirty, Cache.is_empty. cbn. f_equal.
    - destruct (r_final In Out c); reflexivity.
    - f_equal. induction (r_meas In Out c) as [|[e|] es IH]; cbn; [reflexivity|reflexivity|exact IH].
  Qed.

  (* ---- ghost entries ---- *)
  Definition rpairs (c : rcache) : list (In * Out) := map (fun e => (re_in In Out e, re_out In Out e)) (rentries c).

  Hypothesis in_eqb_eq : forall a b, in_eqb a b = true -> a = b.
  Hypothesis is_outer_spec : forall o, is_outer o = true -> from_outer (osize o) = o.

  Lemma rfind_in i es e : rfind In Out key_of osize i es = Some e -> List.In (Some e) es.
  Proof.
    induction es as [|[e'|] es IH]; cbn; [discriminate| |intros; right; auto].
    destruct (rcompat _ _ _ _ _ _); [intros E; injection E as ->; left; reflexivity|intros; right; auto].
  Qed.

  Lemma rhit_in c i e : rhit c i = Some e -> List.In e (rentries c).
  Proof.
    unfold EngineReal.rhit, EngineReal.rentries. destruct (mode i).
    - destruct (r_final In Out c) as [e'|]; [|discriminate]. destruct (rcompat _ _ _ _ _ _); [|discriminate].
      intros E. injection E as ->. apply in_or_app. left. left. reflexivity.
    - intros E. apply rfind_in in E. apply in_or_app. right. apply in_flat_map. exists (Some e). split; [exact E|left; reflexivity].
    - discriminate.
  Qed.

  Lemma real_get_faithful c i o : rget c i = Some o -> rlossy c i = false -> List.In (i, o) (rpairs c).
  Proof.
    unfold EngineReal.rget, EngineReal.rlossy. destruct (rhit c i) as [e|] eqn:Eh; [|discriminate]. cbn.
    intros E. injection E as <-. intros Hf. apply negb_false_iff in Hf. unfold faithful in Hf. apply andb_true_iff in Hf.
    destruct Hf as [Hi Ho]. apply in_eqb_eq in Hi. apply rhit_in in Eh.
    unfold rpairs. apply in_map_iff. exists e. split; [|exact Eh]. rewrite Hi. f_equal.
    unfold EngineReal.ranswer. destruct (mode i); try reflexivity. symmetry. apply is_outer_spec. exact Ho.
  Qed.

  Lemma in_set_nth {A} n (x : A) l y : List.In y (set_nth n x l) -> y = x \/ List.In y l.
  Proof.
    revert n; induction l as [|a l IH]; intros [|n]; cbn; auto.
    - intros [E|E]; auto.
    - intros [E|E]; auto. destruct (IH _ E); auto.
  Qed.

  Lemma real_store_entries c i o e : List.In e (rpairs (rstore c i o)) -> e = (i, o) \/ List.In e (rpairs c).
  Proof.
    unfold rpairs, EngineReal.rstore, EngineReal.rentries. destruct (mode i); cbn [r_final r_meas]; auto.
    - rewrite !map_app. intros Hin. apply in_app_or in Hin. destruct Hin as [Hin|Hin].
      + cbn in Hin. destruct Hin as [<-|[]]. left. reflexivity.
      + right. apply in_or_app. right. exact Hin.
    - rewrite !map_app. intros Hin. apply in_app_or in Hin. destruct Hin as [Hin|Hin].
      + right. apply in_or_app. left. exact Hin.
      + apply in_map_iff in Hin. destruct Hin as [e' [<- Hin]]. apply in_flat_map in Hin. destruct Hin as [[x|] [Hx Hy]]; [|destruct Hy].
        destruct Hy as [<-|[]]. apply in_set_nth in Hx. destruct Hx as [Hx|Hx].
        * injection Hx as ->. left. reflexivity.
        * right. apply in_or_app. right. apply in_map_iff. exists x. split; [reflexivity|].
          apply in_flat_map. exists (Some x). split; [exact Hx|left; reflexivity].
  Qed.

  Lemma real_clear_entries c e : List.In e (rpairs (rclear c)) -> List.In e (rpairs c).
  Proof.
    unfold EngineReal.rclear. destruct (r_flag In Out c); [auto|].
    unfold rpairs, EngineReal.rentries, EngineReal.rnew. cbn. intros Hin. exfalso.
    apply in_map_iff in Hin. destruct Hin as [x [_ Hin]]. apply in_flat_map in Hin. destruct Hin as [[y|] [Hy Hz]]; [|destruct Hz].
    apply repeat_spec in Hy. discriminate.
  Qed.

  Lemma rpairs_new : rpairs rnew = [].
  Proof.
    unfold rpairs, EngineReal.rentries, EngineReal.rnew. cbn.
    replace (flat_map _ _) with (@nil (rentry In Out)); [reflexivity|].
    symmetry. induction (N.to_nat CACHE_SIZE); cbn; auto.
  Qed.
End RealCache.

(* ---------------------------------------------------------------------------------------------------------------- *)
(* transfer: a real-cache evaluation without lossy hit returns what the exact-key memo returns *)
Section RealTransfer.
  Context {T : Type} `{Num T}.
  Variables (S In Out Lay : Type).
  Variable mode : In -> RunMode.
  Variable is_none : S -> bool.
  Variable hidden_out : Out.
  Variable zero_lay : Lay.
  Variable algo : S -> list S -> In -> Alg In Out Lay.
  Variable mcalls : S -> list S -> In -> N.
  Variable key_of : In -> Cache.key T.
  Variable osize : Out -> Cache.size T.
  Variable from_outer : Cache.size T -> Out.
  Variable in_eqb : In -> In -> bool.
  Variable is_outer : Out -> bool.

  Hypothesis in_eqb_eq : forall a b, in_eqb a b = true -> a = b.
  Hypothesis is_outer_spec : forall o, is_outer o = true -> from_outer (osize o) = o.

  Notation memo_real := (memo_real S In Out Lay mode is_none hidden_out zero_lay algo mcalls key_of osize from_outer in_eqb is_outer).
  Notation rtree := (rtree S In Out Lay).
  Notation rskel := (gskel S Lay (rcache In Out)).
  Notation lossy_hits := (sum_stats S Lay (rcache In Out) n_lossy).

  (* every ghost entry of every cache of the tree is a correct memo entry *)
  Definition RValid : rtree -> Prop :=
    GValid S In Out Lay mode is_none hidden_out algo (rcache In Out) (rpairs In Out).

  Theorem memo_real_sound f (t : rtree) i o t' :
    RValid t -> memo_real f t i = Some (o, t') -> lossy_hits t' = lossy_hits t ->
    (exists f', plain S In Out Lay mode is_none hidden_out algo f' (rskel t) i = Some o) /\ RValid t' /\ rskel t' = rskel t.
  Proof.
    intros HV Hm HL. unfold EngineReal.memo_real in Hm.
    eapply (gmemo_sound_when_faithful S In Out Lay mode is_none hidden_out zero_lay algo mcalls (rcache In Out)
              (rget In Out mode key_of osize from_outer) (rlossy In Out mode key_of osize in_eqb is_outer) (rstore In Out mode key_of)
              (rclear In Out) (rpairs In Out)); [| | |exact HV|exact Hm|].
    - intros c i0 o0. apply real_get_faithful; assumption.
    - intros c i0 o0 e. apply real_store_entries.
    - intros c e. apply real_clear_entries.
    - rewrite !tl_sum. rewrite HL. apply N.le_refl.
  Qed.

  Lemma sk_ind_r (P : sk S -> Prop) : (forall s kids, Forall P kids -> P (SNode S s kids)) -> forall k, P k.
  Proof.
    intros HP. fix IH 1. intros [s kids]. apply HP.
    induction kids as [|x r IHr]; constructor; [apply IH|exact IHr].
  Qed.

  Lemma RValid_fresh k : RValid (fresh_real S In Out Lay zero_lay k) /\ rskel (fresh_real S In Out Lay zero_lay k) = k.
  Proof.
    induction k as [s kids IH] using sk_ind_r.
    unfold fresh_real. cbn. split.
    - constructor.
      + intros i o Hin. rewrite rpairs_new in Hin. destruct Hin.
      + apply Forall_map. rewrite Forall_forall in *. intros x Hx. apply IH. exact Hx.
    - f_equal. rewrite map_map. rewrite <- (map_id kids) at 2. apply map_ext_Forall.
      rewrite Forall_forall in *. intros x Hx. apply IH. exact Hx.
  Qed.

  (* against the exact-key memo of Model/Engine.v on any valid tree with the same skeleton (e.g. the fresh one) *)
  Theorem memo_real_equals_exact f (t : rtree) i o t' fe te oe te' :
    RValid t -> memo_real f t i = Some (o, t') -> lossy_hits t' = lossy_hits t ->
    Valid S In Out Lay mode is_none hidden_out algo te -> skel S In Out Lay te = rskel t ->
    memo S In Out Lay mode in_eqb is_none hidden_out zero_lay algo fe te i = Some (oe, te') ->
    o = oe /\ RValid t' /\ rskel t' = rskel t.
  Proof.
    intros HV Hm HL HVe Hsk Hme.
    destruct (memo_real_sound _ _ _ _ _ HV Hm HL) as [[f1 Hp1] [HV' Hs']].
    destruct (memo_sound S In Out Lay mode in_eqb is_none hidden_out zero_lay algo in_eqb_eq fe _ _ _ _ HVe Hme) as [[f2 Hp2] _].
    rewrite Hsk in Hp2. split; [|split; assumption].
    eapply plain_det; eauto.
  Qed.
End RealTransfer.
