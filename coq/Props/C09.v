(* C09 -- grid tracks: fixed sizes exact, gutters equal gaps, explicit count, fr tracks fill the content box.
   Statements only; proofs are in Proofs/GridTracksProofs.v.  The definitions are those of Model/GridTracks.v (hand
   transcription of explicit_grid.rs / track_sizing.rs / alignment.rs, tied to the source by the bit-exact
   correspondence run over F32) with the THRESHOLD constants and the track-counting tables regenerated from the source
   (Gen/GridTracksGen.v).  Structure and counting theorems hold for every number structure; the numeric laws are
   proved over the exact instance XQ with explicit finiteness premises.
   Stage 2: step 11.5 (resolve_intrinsic_track_sizes) is modelled in full in Model/GridIntrinsic.v (item batching, the
   span-1 fast path, the six distribution steps, growth-limit variants, flex-crossing items) with the items' content
   sizes as an oracle; theorems C09_intrinsic_* / C09_fixed_* / C09_gutters_*, proofs in Proofs/GridIntrinsicProofs.v. *)
From Coq Require Import ZArith NArith QArith Bool List Lia.
From TV Require Import Num.Num Num.QNum Gen.GridTracksGen Model.GridTracks Model.GridIntrinsic Proofs.GridTracksProofs
  Proofs.GridIntrinsicProofs Proofs.GridTracksAudit.
Import ListNotations.

(* ---- structure: gutter, (track, gutter)*; both outer gutters collapsed with zero sizing functions; every inner gutter
   has min = max = gap unless it was created with a collapsed (empty auto-fit) track, in which case it is collapsed too *)
Theorem C09_structure : forall (T : Type) `{Num T} counts (template : list (tsf T)) autos gap has_items,
  wf_tracks gap (initialize_grid_tracks counts template autos gap has_items).
Proof. intros. apply init_wf. Qed.

Theorem C09_structure_index : forall (T : Type) `{Num T} counts (template : list (tsf T)) autos gap has_items,
  let ts := initialize_grid_tracks counts template autos gap has_items in
  let n := count_tracks ts in
  length ts = (2 * n + 1)%nat /\
  (exists g0, nth_error ts 0 = Some g0 /\ outer_gutter g0) /\
  (forall i, (i < n)%nat -> exists t g,
      nth_error ts (2 * i + 1) = Some t /\ nth_error ts (2 * i + 2) = Some g /\ kind t = KTrack /\
      ((S i = n /\ outer_gutter g) \/ ((S i < n)%nat /\ inner_gutter gap t g))).
Proof. intros. apply wf_tracks_index. apply init_wf. Qed.

(* 11.4 gives a track whose min and max are the same definite value (every gutter, every fixed track) that value as
   base size and growth limit: an outer or collapsed gutter starts at 0, an inner gutter at the resolved gap *)
Theorem C09_initial_sizes : forall (T : Type) `{Num T} inner (tracks : list (track T)) i t v,
  nth_error tracks i = Some t -> minf t = maxf t -> definite_value inner (minf t) = Some v ->
  exists t', nth_error (initialize_track_sizes inner tracks) i = Some t' /\ base_size t' = v /\ growth_limit t' = v /\
             kind t' = kind t /\ minf t' = minf t /\ maxf t' = maxf t.
Proof. intros. eapply initialize_sizes_nth; eauto. Qed.

(* ---- explicit count = length of the expanded template; as many explicit tracks are created as are counted.
   (audit, wave 5c: the earlier form `e = 0 \/ ...` was satisfied by a function that always returns 0.)  The count is 0 EXACTLY
   for an empty template, a repetition of an empty track list, or an invalid template (more than one auto-repetition); in every
   other case it is the number of tracks of the template expanded with the computed number of auto-repetitions *)
Theorem C09_explicit_count : forall (T : Type) `{Num T} (template : list (tsf T)) inner gap size_is_maximum,
  let e := explicit_grid_size template inner gap size_is_maximum in
  (template = [] \/ existsb has_empty_repetition template = true \/ template_is_valid template = false -> e = 0%N) /\
  (template <> [] -> existsb has_empty_repetition template = false -> template_is_valid template = true ->
   (n_auto template = 0%nat /\ e = spec_count 0 template) \/
   (n_auto template = 1%nat /\ e = spec_count (num_repetitions template inner gap size_is_maximum) template)).
Proof. intros. apply explicit_count_exact. Qed.

Theorem C09_tracks_match_counts : forall (T : Type) `{Num T} counts (template : list (tsf T)) autos gap has_items inner gapf mx,
  explicit counts = explicit_grid_size template inner gapf mx ->
  count_tracks (initialize_grid_tracks counts template autos gap has_items) = N.to_nat (counts_len counts) /\
  length (initialize_grid_tracks counts template autos gap has_items) = (2 * N.to_nat (counts_len counts) + 1)%nat.
Proof.
  intros T H counts template autos gap hi inner gapf mx He.
  pose proof (init_count counts template autos gap hi inner gapf mx He) as Hc.
  split; [exact Hc|]. rewrite <- Hc. apply (wf_tracks_index gap). apply init_wf.
Qed.

(* ---- fr fill.  With a definite content-box size S, after expand_flexible_tracks the base sizes sum to at least S
   provided the flex factors of the tracks still treated as flexible in the final iteration of find_size_of_fr sum
   to at least 1.  (track_ok2: base sizes and flex factors finite and >= 0.)
   PARTIAL (audit, wave 5c).  Missing with respect to the property text: (1) the property's premise is "the fr factors on the
   axis sum to at least 1", this theorem needs the sum over the tracks STILL FLEXIBLE AT EXIT -- with the property's premise the
   statement is false (C09_fr_fill_refuted, known finding fr-fill-floored-track); (2) it is about step 11.7 alone: `tracks` is the
   state after 11.4-11.6 and its `track_ok2` is assumed, not derived from the styles; (3) it is not composed with
   track_sizing_algorithm_full (11.8 stretch only adds, alignment does not change sizes, but that is not a theorem). *)
Theorem C09_fr_fill_partial : forall (tracks : list (track XQ)) (S : XQ) amin amax items,
  Forall track_ok2 tracks -> finite S ->
  x_leb (Fin 1) (final_flex_factor_sum tracks S) = true ->
  x_leb S (@fsum XQ _ (map base_size (expand_flexible_tracks amin amax (Definite S) items tracks))) = true.
Proof.
  intros tracks S amin amax items Hok HS Hsum. destruct (fin_inv S HS) as [sp E]. subst S.
  apply fr_fill; auto.
  - eapply Forall_impl; [|exact Hok]. intros t [Hf [Hb _]]. split; assumption.
  - apply fr_terminates. exact Hok.
Qed.

(* the restart loop of find_size_of_fr leaves through its exit condition within length + 2 iterations *)
Theorem C09_fr_terminates : forall (tracks : list (track XQ)) (sp : Q),
  Forall track_ok2 tracks -> snd (fr_exit tracks (Fin sp)) = true.
Proof. intros. apply fr_terminates. assumption. Qed.

(* the property's premise (ALL fr factors of the axis sum to >= 1) is not enough: `0.5fr 0.6fr` in 200px with an
   item of width 100 in the first track gives 100 + 60 = 160 < 200 *)
Theorem C09_fr_fill_refuted : exists (template : list (tsf XQ)) (S : Q) (items : list (nat * XQ)),
  x_leb (Fin 1) (template_flex_sum template) = true /\
  x_ltb (q_total (q_axis template (SLength (Fin 0)) S items)) (Fin S) = true.
Proof. exists [fr_track (1 # 2); fr_track (6 # 10)], 200%Q, [(1%nat, Fin 100)]. vm_compute. split; reflexivity. Qed.

(* tracks that are flexible when the loop exits get exactly factor * fr size.  partial: says nothing about the tracks
   frozen at their base size *)
Theorem C09_fr_proportional_partial : forall (tracks : list (track XQ)) (S hp h : XQ) (t : track XQ),
  fr_exit tracks S = (hp, h, true) -> In t tracks -> flexible_at hp t = true ->
  xeq (base_size (expand_one h t)) (x_mul (sfn_value (maxf t)) h).
Proof. exact fr_proportional. Qed.

(* ---- fixed tracks, step 11.6 alone.  In maximise_tracks a track whose limit equals its base size (every fixed track,
   every gutter) ends within (G + 1) * THRESHOLD above it, G = number of tracks that can still grow when the step starts;
   and exactly at it when no track can grow.  partial: the bound is not 0 (C09_fixed_exact_refuted); the statement about
   the whole algorithm is C09_fixed_exact_partial below. *)
Theorem C09_fixed_exact_maximise_partial : forall inner avail (tracks : list (track XQ)) i t,
  Forall (tok inner) tracks -> nth_error tracks i = Some t -> fixed_like t ->
  exists t', nth_error (maximise_tracks inner avail tracks) i = Some t' /\ finite (base_size t') /\
    (val (base_size t) <= val (base_size t') <= val (base_size t) + inject_Z (Z.of_nat (G inner tracks + 1)) * T_q)%Q /\
    (G inner tracks = 0%nat -> compute_free_space avail (@fsum XQ _ (map base_size tracks)) <> PInf ->
     val (base_size t') == val (base_size t))%Q.
Proof.
  intros inner avail tracks i t Hok Hi Hfx.
  destruct (maximise_fixed_bound inner avail tracks i t Hok Hi Hfx) as [t' [E [F B]]].
  exists t'. repeat split; try tauto. intros Hg Hn.
  destruct Hfx as [_ [_ [Hb Hinc]]].
  destruct (maximise_no_growable inner avail tracks i t Hi Hg Hn Hb Hinc) as [t'' [E' X]].
  rewrite E in E'. inversion E'; subst t''.
  destruct (base_size t'), (base_size t); simpl in *; try contradiction; auto; try reflexivity.
Qed.

(* `100px minmax(100px, 100.008px)` in 200.016px: the fixed track becomes 100.008 and all three gutters 0.008 *)
Theorem C09_fixed_exact_refuted : exists (template : list (tsf XQ)) (S : Q),
  nth 0 template (px_track 0) = px_track 100 /\
  xq_eqb_list (q_sizes (q_axis template (SLength (Fin 0)) S [])) [Fin (100008 # 1000); Fin (100008 # 1000)] = true /\
  xq_eqb_list (q_gutters (q_axis template (SLength (Fin 0)) S [])) [Fin (8 # 1000); Fin (8 # 1000); Fin (8 # 1000)] = true.
Proof. exists [px_track 100; minmax_px 100 (100008 # 1000)], (200016 # 1000)%Q. vm_compute. repeat split; reflexivity. Qed.

(* one distribution can raise a fixed track by more than THRESHOLD (two growable tracks with different head-room) *)
Theorem C09_fixed_threshold_per_call_refuted : exists (template : list (tsf XQ)) (S : Q),
  nth 0 template (px_track 0) = px_track 100 /\
  x_ltb (Fin (100 + T_q)) (nth 0 (q_sizes (q_axis template (SLength (Fin 0)) S [])) (Fin 0)) = true.
Proof.
  exists [px_track 100; minmax_px 100 (100008 # 1000); minmax_px 100 (100009 # 1000)], 400%Q. vm_compute. split; reflexivity.
Qed.

(* ---- termination (exact arithmetic): the loop of distribute_space_up_to_limits as maximise_tracks uses it needs at
   most G + 1 iterations: more fuel changes nothing *)
Theorem C09_distribute_terminates : forall inner n sp (tracks : list (track XQ)) fuel,
  Forall (tok inner) tracks -> (G inner tracks <= n)%nat -> (n + 1 <= fuel)%nat ->
  mloop inner fuel (Fin sp) tracks = mloop inner (n + 1) (Fin sp) tracks.
Proof. intros. apply mloop_terminates; auto. Qed.

(* ==================================================================================================================
   Stage 2: step 11.5 in full *)

(* ---- termination.  The batching loop (ItemBatcher) consumes at least one item per iteration: with `length items + 1`
   units of fuel it ends by itself -- more fuel changes nothing.  Any number structure, any oracle.  The inner loops
   are those of distribute_space_up_to_limits: C09_intrinsic_distribute_terminates below. *)
Theorem C09_intrinsic_terminates : forall (T : Type) `{Num T} contrib inner avail (items : list (item T)) tracks k,
  resolve_intrinsic_fuelled contrib inner avail (intrinsic_fuel items + k) items tracks
  = resolve_intrinsic_track_sizes contrib inner avail items tracks.
Proof. intros. apply intrinsic_terminates. Qed.

(* ... and the inner loops: distribute_space_up_to_limits as 11.5 calls it -- any affected-filter, proportion 1 or the
   flex factor, affected property base_size or growth-limit-or-base, limit growth_limit / fit-content-limited growth limit /
   fit-content limit / +infinity (the `frame` premises: none of them reads item_incurred_increase; C09_distribute_frame) --
   ends by itself within the fuel 2*len+8 of the model in exact arithmetic, provided (`wt`) the affected property is
   finite, the incurred increase finite and >= 0, the proportion finite and >= 0, the limit finite or +infinity: every
   iteration either exhausts the space or makes the growable track with the least head-room non-growable. *)
Theorem C09_intrinsic_distribute_terminates : forall aff p prop limit,
  (forall t x, aff (set_incurred t x) = aff t) -> (forall t x, p (set_incurred t x) = p t) ->
  (forall t x, prop (set_incurred t x) = prop t) -> (forall t x, limit (set_incurred t x) = limit t) ->
  forall sp (tracks : list (track XQ)) k, Forall (wt p prop limit) tracks ->
  distribute_loop aff p prop limit (distribute_fuel tracks + k) (Fin sp) tracks
  = distribute_loop aff p prop limit (distribute_fuel tracks) (Fin sp) tracks.
Proof. intros aff p prop limit H1 H2 H3 H4 sp tracks k Hw. apply distribute_fuel_enough; assumption. Qed.

Theorem C09_distribute_frame : forall inner : option XQ,
  (forall (t : track XQ) x, base_size (set_incurred t x) = base_size t) /\
  (forall (t : track XQ) x, limit_or_base (set_incurred t x) = limit_or_base t) /\
  (forall (t : track XQ) x, growth_limit (set_incurred t x) = growth_limit t) /\
  (forall (t : track XQ) x, fit_content_limited_growth_limit inner (set_incurred t x) = fit_content_limited_growth_limit inner t) /\
  (forall (t : track XQ) x, fit_content_limit inner (set_incurred t x) = fit_content_limit inner t) /\
  (forall (t : track XQ) x, flex_factor (set_incurred t x) = flex_factor t) /\
  (forall (t : track XQ) x, is_flexible (set_incurred t x) = is_flexible t) /\
  (forall (t : track XQ) x, minf (set_incurred t x) = minf t /\ maxf (set_incurred t x) = maxf t).
Proof. exact frame_params. Qed.

(* ---- 11.5 changes neither the length of the track vector nor any track's kind / sizing functions *)
Theorem C09_intrinsic_structure : forall (T : Type) `{Num T} contrib inner avail (items : list (item T)) tracks,
  Forall2 static_eq tracks (resolve_intrinsic_track_sizes contrib inner avail items tracks).
Proof. intros. apply intrinsic_static. Qed.

(* ---- monotone.  For EVERY oracle (NaN and infinite contributions included) and every item list: if no base size /
   growth limit is NaN or -infinity and the scratch fields are not negative (`inv`: true of the output of 11.4), then
   11.5 never decreases a base size; and if moreover base <= growth limit held before (true after 11.4), every growth
   limit is >= its base size afterwards. *)
Theorem C09_intrinsic_monotone : forall contrib inner avail (items : list (item XQ)) (tracks : list (track XQ)),
  let res := resolve_intrinsic_track_sizes contrib inner avail items tracks in
  (Forall inv tracks -> Forall inv res /\ Forall2 (fun t t' => x_leb (base_size t) (base_size t') = true) tracks res) /\
  (Forall invJ tracks -> Forall (fun t' => x_leb (base_size t') (growth_limit t') = true) res).
Proof.
  intros contrib inner avail items tracks res. split.
  - intro Hi. apply intrinsic_monotone. exact Hi.
  - intro HJ. pose proof (intrinsic_limits_ge_base contrib inner avail (intrinsic_fuel items) items tracks HJ) as HR.
    revert HR. apply Forall_impl. intros t [_ Hx]. exact Hx.
Qed.

(* the premises hold for what 11.4 produces from fresh tracks *)
Example C09_intrinsic_monotone_premises : Forall invJ witness_c_before.
Proof.
  unfold witness_c_before. repeat constructor; vm_compute; intuition discriminate.
Qed.

(* ---- fixed tracks through 11.5.  `rigid`: both sizing functions are definite lengths (every gutter, every fixed track;
   percentages when the container size is definite).  Such a track is never an affected track.  If every item whose track
   range contains index i contains ONLY i (no item spanning several tracks covers it) then base size and growth limit of
   track i stay exactly v: `calm v` = base size == v, growth limit == v, nothing incurred or planned. *)
Theorem C09_intrinsic_preserves_fixed_partial :
  forall contrib inner avail (items : list (item XQ)) (tracks : list (track XQ)) i v t,
  (forall it, In it items -> alone it i) ->
  nth_error tracks i = Some t -> rigid inner t -> calm v t ->
  exists t', nth_error (resolve_intrinsic_track_sizes contrib inner avail items tracks) i = Some t' /\ rigid inner t' /\ calm v t'.
Proof. intros contrib inner avail items tracks i v t Hal. apply (intrinsic_keeps_rigid contrib inner avail i v items Hal). Qed.

(* ... and the proviso cannot be dropped: witness (c).  `minmax(min-content,50px) minmax(10px,10.008px) 100px`, gap 5, an
   item of width 200 spanning the three columns, available space 100: 11.5 alone raises the fixed 100px track to 100.008
   and both gutters to 5.008 ("distribute beyond limits" with `filter = |_| true` selects every spanned track; each
   accepts an increase <= THRESHOLD) *)
Theorem C09_intrinsic_preserves_fixed_refuted :
  exists contrib inner avail (items : list (item XQ)) (tracks : list (track XQ)) i t,
    Forall invJ tracks /\ nth_error tracks i = Some t /\
    minf t = SLength (Fin 100) /\ maxf t = SLength (Fin 100) /\ calm 100 t /\
    x_eqb (base_at (resolve_intrinsic_track_sizes contrib inner avail items tracks) i) (Fin (100008 # 1000)) = true.
Proof.
  exists witness_c_contrib, witness_c_inner, (Definite (Fin 100)), witness_c_items, witness_c_before, 5%nat.
  eexists. split; [exact C09_intrinsic_monotone_premises|]. split; [vm_compute; reflexivity|].
  split; [reflexivity|]. split; [reflexivity|]. split.
  - unfold calm. cbn. repeat split; eexists; split; reflexivity.
  - vm_compute. reflexivity.
Qed.

(* ---- precisely how a track at its limit (every fixed track, every gutter: limit = base size) moves: one iteration of
   distribute_space_up_to_limits is a map of `bump` over the tracks, and a track whose affected property equals its limit
   takes the iteration's increase iff it is selected by the affected-filter and 0 < increase <= THRESHOLD. *)
Theorem C09_fixed_moves_only_through_threshold :
  (forall aff p prop limit inc space (tracks : list (track XQ)),
     snd (apply_increase aff p prop limit inc space tracks) = map (bump aff p prop limit inc) tracks) /\
  (forall aff p prop limit inc (t : track XQ) b, prop t = Fin b -> limit t = Fin b ->
     bump aff p prop limit inc t =
     if aff t && x_ltb (Fin 0) (x_mul inc (p t)) && x_leb (x_mul inc (p t)) (Fin T_q)
     then set_incurred t (x_add (incurred t) (x_mul inc (p t))) else t).
Proof.
  split; [intros; apply apply_increase_map|].
  intros aff p prop limit inc t b Hp Hl. apply (bump_at_limit aff p prop limit inc t b Hp Hl).
Qed.

(* ---- the whole track_sizing_algorithm (11.4 - 11.8 with the full 11.5) on a track whose min and max sizing function are
   the same definite length v and that no item spanning several tracks covers: its final size b satisfies
   v <= b <= v + (2 * number of tracks + 8) * THRESHOLD, and b == v when the available space is not definite, or when no
   track can grow when 11.6 starts.  partial: (1) without the covering proviso the size can leave v already in 11.5
   (C09_intrinsic_preserves_fixed_refuted); (2) the bound is not 0 because of 11.6 (C09_fixed_exact_refuted); the sharper
   (G + 1) * THRESHOLD of C09_fixed_exact_maximise_partial needs all sizes after 11.5 to be finite. *)
Theorem C09_fixed_exact_partial :
  forall contrib amin amax stretch avail inner (items : list (item XQ)) (tracks : list (track XQ)) i t v,
  nth_error tracks i = Some t ->
  minf t = maxf t -> definite_value inner (minf t) = Some (Fin v) ->
  incurred t = Fin 0 -> base_planned t = Fin 0 -> limit_planned t = Fin 0 ->
  (forall it, In it items -> alone it i) ->
  exists t' b, nth_error (track_sizing_algorithm_full contrib amin amax stretch avail inner items tracks) i = Some t' /\
    base_size t' = Fin b /\
    (v <= b <= v + inject_Z (Z.of_nat (distribute_fuel tracks)) * T_q)%Q /\
    ((forall s, avail <> Definite s) -> b == v)%Q /\
    (G inner (after_intrinsic contrib avail inner items tracks) = 0%nat -> b == v)%Q.
Proof.
  intros contrib amin amax stretch avail inner items tracks i t v H1 H2 H3 H4 H5 H6 H7.
  apply (fixed_exact_whole contrib amin amax stretch avail inner items tracks i t v H1 H2 H3 H4 H5 H6 H7).
Qed.

(* ---- gutters.  A gutter is a track of the vector whose min and max sizing function are the gap (C09_structure); for the
   whole algorithm it therefore obeys C09_fixed_exact_partial: exact when no item spans across it and 11.6 has nothing to
   grow / the space is indefinite ... *)
Theorem C09_gutters_exact_partial :
  forall contrib amin amax stretch avail inner (items : list (item XQ)) (tracks : list (track XQ)) i g gap v,
  nth_error tracks i = Some g -> kind g = KGutter -> minf g = gap -> maxf g = gap ->
  definite_value inner gap = Some (Fin v) ->
  incurred g = Fin 0 -> base_planned g = Fin 0 -> limit_planned g = Fin 0 ->
  (forall it, In it items -> ~ in_range it i) ->
  exists g' b, nth_error (track_sizing_algorithm_full contrib amin amax stretch avail inner items tracks) i = Some g' /\
    base_size g' = Fin b /\
    (v <= b <= v + inject_Z (Z.of_nat (distribute_fuel tracks)) * T_q)%Q /\
    ((forall s, avail <> Definite s) -> b == v)%Q /\
    (G inner (after_intrinsic contrib avail inner items tracks) = 0%nat -> b == v)%Q.
Proof.
  intros contrib amin amax stretch avail inner items tracks i g gap v Hi _ Hmn Hmx Hv H1 H2 H3 Hal.
  apply (fixed_exact_whole contrib amin amax stretch avail inner items tracks i g v); auto.
  - congruence.
  - rewrite Hmn. exact Hv.
  - intros it Hin Hr. exfalso. apply (Hal it Hin Hr).
Qed.

(* ... and not otherwise: in witness (c) (whole algorithm, no free space in 11.6) both inner gutters crossed by the
   spanning item end at 5.008 instead of the gap 5 *)
Theorem C09_gutters_exact_refuted :
  x_eqb (base_at witness_c 2) (Fin (5008 # 1000)) = true /\ x_eqb (base_at witness_c 4) (Fin (5008 # 1000)) = true /\
  x_eqb (base_at witness_c 5) (Fin (100008 # 1000)) = true /\
  (forall t, nth_error (q_tracks0 witness_c_template (SLength (Fin 5)) witness_c_inner) 2 = Some t ->
             kind t = KGutter /\ minf t = SLength (Fin 5) /\ maxf t = SLength (Fin 5)).
Proof.
  split; [vm_compute; reflexivity|]. split; [vm_compute; reflexivity|]. split; [vm_compute; reflexivity|].
  intros t Ht. vm_compute in Ht. inversion Ht; subst. repeat split.
Qed.

(* non-vacuity: a grid with intrinsic tracks and a spanning item in which everything is exact --
   `100px auto min-content 30px`, gap 10, 400px: sizes 100 185 55 30, gutters 0 10 10 10 0, total 400 *)
Example C09_example_intrinsic :
  xq_eqb_list (q_sizes example_intrinsic) [Fin 100; Fin 185; Fin 55; Fin 30] = true /\
  xq_eqb_list (q_gutters example_intrinsic) [Fin 0; Fin 10; Fin 10; Fin 10; Fin 0] = true /\
  x_eqb (q_total example_intrinsic) (Fin 400) = true.
Proof. vm_compute. repeat split; reflexivity. Qed.

(* ---- non-vacuity *)
Example C09_example_fill :
  xq_eqb_list (q_sizes example_fill) [Fin (230 # 3); Fin (460 # 3); Fin 50] = true /\
  xq_eqb_list (q_gutters example_fill) [Fin 0; Fin 10; Fin 10; Fin 0] = true /\
  x_eqb (q_total example_fill) (Fin 300) = true.
Proof. vm_compute. repeat split; reflexivity. Qed.

Example C09_example_fr_fill_premises :
  let tracks := maximise_tracks (Some (Fin 300)) (Definite (Fin 300))
                  (initialize_track_sizes (Some (Fin 300))
                     (initialize_grid_tracks (mk_counts 0 3 0) [fr_track 1; fr_track 2; px_track 50] [] (SLength (Fin 10)) (fun _ => true))) in
  snd (fr_exit tracks (Fin 300)) = true /\ x_leb (Fin 1) (final_flex_factor_sum tracks (Fin 300)) = true.
Proof. vm_compute. split; reflexivity. Qed.


(* ---------------------------------------------------------------------------------------------------------------------
   Computed instances of the premises (audit, wave 5c) *)

(* C09_explicit_count / C09_tracks_match_counts with e <> 0: `100px repeat(2, 10px 20px)` has 5 explicit tracks;
   `50px repeat(auto-fill, 30px 20px)` in 300px with gap 10 repeats 3 times: 7 explicit tracks, 10 with 1 + 2 implicit ones *)
Definition t_px (v : Q) : nrt XQ := (SLength (Fin v), SLength (Fin v)).
Example C09_example_explicit_count :
  explicit_grid_size [px_track 100; TRepeat (RCount 2) [t_px 10; t_px 20]] (Some (Fin 300)) (SLength (Fin 10)) true = 5%N /\
  n_auto [px_track 100; TRepeat (RCount 2) [t_px 10; t_px 20]] = 0%nat /\
  let tpl := [px_track 50; TRepeat RAutoFill [t_px 30; t_px 20]] in
  n_auto tpl = 1%nat /\ num_repetitions tpl (Some (Fin 300)) (SLength (Fin 10)) true = 3%N /\
  explicit_grid_size tpl (Some (Fin 300)) (SLength (Fin 10)) true = 7%N /\ spec_count 3 tpl = 7%N /\
  count_tracks (initialize_grid_tracks (mk_counts 1 7 2) tpl [] (SLength (Fin 10)) (fun _ => true)) = 10%nat.
Proof. vm_compute. repeat split; reflexivity. Qed.

(* C09_fr_fill_partial / C09_fr_terminates / C09_fr_proportional_partial with a RESTART of find_size_of_fr: `1fr 1fr 1fr`, gap 10,
   300px, an item of 150 in column 0: h1 = 280/3 < 150 -> restart, h2 = (300-20-150)/2 = 65; flexible factor sum 2;
   150 + 65 + 65 + 20 = 300.  One iteration is NOT enough (the exit flag is false with fuel 1). *)
Definition ex_fr_tracks : list (track XQ) :=
  maximise_tracks (Some (Fin 300)) (Definite (Fin 300))
    (resolve_intrinsic_span1 (Some (Fin 300)) [(1%nat, Fin 150)]
       (initialize_track_sizes (Some (Fin 300))
          (initialize_grid_tracks (mk_counts 0 3 0) [fr_track 1; fr_track 1; fr_track 1] [] (SLength (Fin 10)) (fun _ => true)))).
Example C09_example_fr_fill_restart :
  Forall track_ok2 ex_fr_tracks /\
  xq_eqb_list (map base_size ex_fr_tracks) [Fin 0; Fin 150; Fin 10; Fin 0; Fin 10; Fin 0; Fin 0] = true /\
  snd (fr_loop 1 ex_fr_tracks (Fin 300) PInf) = false /\
  (let '(hp, h, ok) := fr_exit ex_fr_tracks (Fin 300) in (x_eqb hp (Fin (280 # 3)), x_eqb h (Fin 65), ok)) = (true, true, true) /\
  x_eqb (final_flex_factor_sum ex_fr_tracks (Fin 300)) (Fin 2) = true /\
  xq_eqb_list (map base_size (expand_flexible_tracks None None (Definite (Fin 300)) [] ex_fr_tracks))
              [Fin 0; Fin 150; Fin 10; Fin 65; Fin 10; Fin 65; Fin 0] = true /\
  map (flexible_at (Fin (280 # 3))) ex_fr_tracks = [false; false; false; true; false; true; false].
Proof.
  split.
  - let l := eval vm_compute in ex_fr_tracks in replace ex_fr_tracks with l by (vm_compute; reflexivity).
    repeat (apply Forall_cons; [unfold track_ok2, track_fin, qb, qf; vm_compute; repeat split; try exact I; intro; discriminate|]). apply Forall_nil.
  - vm_compute. repeat split; reflexivity.
Qed.

(* C09_fixed_exact_maximise_partial / C09_distribute_terminates / C09_intrinsic_distribute_terminates:
   `100px minmax(100px, 100.008px) minmax(100px, 100.009px)` in 400px: G = 2, the distribution loop iterates twice; fuel 3 = G + 1
   and the runner's fuel 22 = distribute_fuel give the same result; the FIXED track ends at 100.017 (the known finding) *)
Definition ex_max_tracks : list (track XQ) :=
  resolve_intrinsic_span1 (Some (Fin 400)) []
    (initialize_track_sizes (Some (Fin 400))
       (initialize_grid_tracks (mk_counts 0 3 0) [px_track 100; minmax_px 100 (100008 # 1000); minmax_px 100 (100009 # 1000)] []
                               (SLength (Fin 0)) (fun _ => true))).
Example C09_example_maximise_premises :
  let inner := Some (Fin 400) in
  Forall (tok inner) ex_max_tracks /\
  Forall (wt (fun _ => one) base_size (fit_content_limited_growth_limit inner)) ex_max_tracks /\
  G inner ex_max_tracks = 2%nat /\ distribute_fuel ex_max_tracks = 22%nat /\
  (exists t, nth_error ex_max_tracks 1 = Some t /\ fixed_like t /\ x_eqb (base_size t) (Fin 100) = true) /\
  xq_eqb_list (map incurred (snd (mloop inner 1 (Fin 100) ex_max_tracks))) (repeat (Fin (8 # 1000)) 7) = true /\
  xq_eqb_list (map incurred (snd (mloop inner 3 (Fin 100) ex_max_tracks))) (repeat (Fin (17 # 1000)) 7) = true /\
  xq_eqb_list (map incurred (snd (mloop inner 22 (Fin 100) ex_max_tracks))) (repeat (Fin (17 # 1000)) 7) = true /\
  x_eqb (base_at (maximise_tracks inner (Definite (Fin 400)) ex_max_tracks) 1) (Fin (100017 # 1000)) = true.
Proof.
  cbv zeta. split; [|split].
  - let l := eval vm_compute in ex_max_tracks in replace ex_max_tracks with l by (vm_compute; reflexivity).
    repeat (apply Forall_cons; [unfold tok, tfin; vm_compute; repeat split; try exact I; intro; discriminate|]). apply Forall_nil.
  - let l := eval vm_compute in ex_max_tracks in replace ex_max_tracks with l by (vm_compute; reflexivity).
    repeat (apply Forall_cons; [unfold wt; cbn; repeat split; try (eexists; split; [reflexivity|vm_compute; intro; discriminate]);
                                try (eexists; reflexivity); right; eexists; reflexivity|]). apply Forall_nil.
  - split; [vm_compute; reflexivity|]. split; [reflexivity|]. split.
    + eexists. split; [vm_compute; reflexivity|]. split; [|vm_compute; reflexivity].
      unfold fixed_like. cbn. repeat split.
    + vm_compute. repeat split; reflexivity.
Qed.

(* the premises of C09_fixed_exact_partial (tracks 1 and 7), C09_gutters_exact_partial (gutter 2) and
   C09_intrinsic_preserves_fixed_partial on the grid of C09_example_intrinsic; gutter 4 is crossed by the spanning item (there the
   premise fails, and so does the conclusion: C09_gutters_exact_refuted) *)
Definition exi_template : list (tsf XQ) := [px_track 100; mm_track SAuto SAuto; mm_track SMinContent SMinContent; px_track 30].
Definition exi_inner : option XQ := Some (Fin 400).
Definition exi_tracks0 : list (track XQ) := q_tracks0 exi_template (SLength (Fin 10)) exi_inner.
Definition exi_leaves : list (nat * nat * XQ) := [(0%nat, 1%nat, Fin 50); (1%nat, 2%nat, Fin 120); (3%nat, 1%nat, Fin 20)].
Definition exi_items : list (item XQ) := q_leaf_items exi_tracks0 exi_leaves.
Example C09_example_fixed_exact_premises :
  (forall i, i = 1%nat \/ i = 7%nat ->
     (forall it, In it exi_items -> alone it i) /\
     exists t v, nth_error exi_tracks0 i = Some t /\ kind t = KTrack /\ minf t = maxf t /\ definite_value exi_inner (minf t) = Some (Fin v) /\
                 incurred t = Fin 0 /\ base_planned t = Fin 0 /\ limit_planned t = Fin 0) /\
  ((forall it, In it exi_items -> ~ in_range it 2) /\
   exists g, nth_error exi_tracks0 2 = Some g /\ kind g = KGutter /\ minf g = SLength (Fin 10) /\ maxf g = SLength (Fin 10) /\
             definite_value exi_inner (SLength (Fin 10)) = Some (Fin 10) /\
             incurred g = Fin 0 /\ base_planned g = Fin 0 /\ limit_planned g = Fin 0) /\
  (exists it, In it exi_items /\ in_range it 4) /\
  track_sizing_algorithm_full (leaf_contrib exi_inner exi_tracks0 (map snd exi_leaves)) None None true (Definite (Fin 400)) exi_inner
    exi_items exi_tracks0 = example_intrinsic.
Proof.
  let l := eval vm_compute in exi_items in assert (EI : exi_items = l) by (vm_compute; reflexivity).
  split; [|split; [|split]].
  - intros i Hi. split.
    + rewrite EI. destruct Hi as [-> | ->]; intros it [<-|[<-|[<-|[]]]]; unfold alone, in_range; vm_compute; lia.
    + destruct Hi as [-> | ->]; do 2 eexists; (split; [vm_compute; reflexivity|]); repeat split; reflexivity.
  - split; [rewrite EI; intros it [<-|[<-|[<-|[]]]]; unfold in_range; vm_compute; lia|].
    eexists. split; [vm_compute; reflexivity|]. repeat split; reflexivity.
  - rewrite EI. eexists. split; [right; left; reflexivity|]. unfold in_range. vm_compute. lia.
  - vm_compute. reflexivity.
Qed.

Print Assumptions C09_structure.
Print Assumptions C09_structure_index.
Print Assumptions C09_initial_sizes.
Print Assumptions C09_explicit_count.
Print Assumptions C09_tracks_match_counts.
Print Assumptions C09_fr_fill_partial.
Print Assumptions C09_fr_terminates.
Print Assumptions C09_fr_fill_refuted.
Print Assumptions C09_fr_proportional_partial.
Print Assumptions C09_fixed_exact_maximise_partial.
Print Assumptions C09_fixed_exact_refuted.
Print Assumptions C09_fixed_threshold_per_call_refuted.
Print Assumptions C09_distribute_terminates.
Print Assumptions C09_intrinsic_terminates.
Print Assumptions C09_intrinsic_distribute_terminates.
Print Assumptions C09_distribute_frame.
Print Assumptions C09_intrinsic_structure.
Print Assumptions C09_intrinsic_monotone.
Print Assumptions C09_intrinsic_preserves_fixed_partial.
Print Assumptions C09_intrinsic_preserves_fixed_refuted.
Print Assumptions C09_fixed_moves_only_through_threshold.
Print Assumptions C09_fixed_exact_partial.
Print Assumptions C09_gutters_exact_partial.
Print Assumptions C09_gutters_exact_refuted.
