import json,glob,os
rows=[]
for d in sorted(glob.glob('/verif/seeded/*')):
    i=os.path.basename(d)
    if not (i.endswith('-w') or i.endswith('-z')): continue
    m=json.load(open(d+'/meta.json')); cr=m['check_result']
    summ=(m['summary'] or '').replace('|','/').replace('\n',' ')[:150]
    if cr['detected']:
        rep='yes'; w='replay' if cr['concrete_replay'] else 'no-failing-input-found'
        if cr.get('after_strengthening'): w+=' (after strengthening)'
    else:
        rep='NO'; w='-'
    rows.append('| %s | %s | %s | %s |'%(i,summ,rep,w))
print('\n'.join(rows))
