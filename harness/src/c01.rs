//! C01 search oracle: after every compute_layout in a random history, rebuild a fresh tree with the same shape, styles and
//! measure data, lay it out, and compare every Layout field (rounded and unrounded) bit-for-bit.
//! `vh c01 oracle <seed> <start> <n> <exact:0|1>`; lines `FAIL <idx> <step> <msg>`; `DONE <histories> <layouts> <ops applied>`.
use crate::hist::*;
use crate::rng::Rng;
use crate::treegen::*;
use taffy::prelude::*;

pub fn cfg() -> GenCfg {
    let mut c = GenCfg::default();
    c.max_nodes = 10;
    c
}

pub struct Outcome {
    pub fails: Vec<(usize, String)>,
    pub layouts: u64,
    pub ops: u64,
    pub fresh_scribbles: u64,
    pub trace: Vec<String>,
}

pub fn run_history(seed: u64, idx: u64, exact: bool, verbose: bool) -> Outcome {
    #[cfg(taffy_verif)]
    taffy::verif_hooks::set_exact_key(exact);
    let _ = exact;
    let mut rng = Rng::new(seed.wrapping_mul(0x9E37_79B9).wrapping_add(idx));
    let mut cfg = cfg();
    cfg.fractional = idx % 2 == 1;
    let spec = tree(&mut rng, &cfg);
    let (mut w, root) = World::new(&spec);
    let a0 = avail(&mut rng, &cfg);
    #[cfg(taffy_verif)]
    let mut scribbled: std::collections::HashMap<taffy::NodeId, bool> = std::collections::HashMap::new();
    #[cfg(taffy_verif)]
    taffy::verif_hooks::start_trace();
    compute(&mut w.t, root, a0);
    #[cfg(taffy_verif)]
    update_scribbled(&taffy::verif_hooks::take_trace(), &mut scribbled);
    let nops = 5 + rng.below(25);
    // `scribbled`: which stored layouts were last written under a ComputeSize evaluation (persists across passes: a later
    // pass that is answered from the cache leaves such a layout in place)
    let mut out = Outcome { fails: vec![], layouts: 0, ops: 0, fresh_scribbles: 0, trace: vec![] };
    if verbose {
        out.trace.push(format!("initial tree: {:#?}\ninitial layout avail={:?}", spec, a0));
    }
    for step in 0..nops as usize {
        let op = gen_op(&mut rng, &cfg, &w);
        #[cfg(taffy_verif)]
        if matches!(op, Op::Layout(..)) {
            taffy::verif_hooks::start_trace();
        }
        let applied = w.apply(&op);
        #[cfg(taffy_verif)]
        let trace = taffy::verif_hooks::take_trace();
        #[cfg(taffy_verif)]
        update_scribbled(&trace, &mut scribbled);
        if verbose {
            out.trace.push(format!("step {step}: applied={applied} {:?}", op));
        }
        if !applied {
            continue;
        }
        out.ops += 1;
        if let Op::Layout(i, a) = &op {
            out.layouts += 1;
            let r = w.pool[*i].unwrap();
            // re-run the same layout call with the event trace on (it is a pure cache hit at the root, or recomputes
            // exactly what the call above computed): we need the trace of the call that produced the layouts, so trace
            // the real call instead -- see below (the op was applied untraced; undo is impossible, hence trace always)
            let mut nodes = vec![];
            w.subtree(r, &mut nodes);
            let (mut ft, fids) = w.fresh_copy(r);
            #[cfg(taffy_verif)]
            taffy::verif_hooks::start_trace();
            compute(&mut ft, fids[0], *a);
            #[cfg(taffy_verif)]
            let ftrace = taffy::verif_hooks::take_trace();
            #[cfg(taffy_verif)]
            if fids.iter().skip(1).any(|f| classify(&ftrace, *f) == "scribble") {
                out.fresh_scribbles += 1;
            }
            let mut worst: Option<(u8, String)> = None;
            for (k, (n, f)) in nodes.iter().zip(fids.iter()).enumerate() {
                let inc = (layout_bits(w.t.layout(*n).unwrap()), layout_bits(w.t.unrounded_layout(*n)));
                let fre = (layout_bits(ft.layout(*f).unwrap()), layout_bits(ft.unrounded_layout(*f)));
                if inc != fre {
                    const NAMES: [&str; 21] = [
                        "order", "x", "y", "w", "h", "cw", "ch", "sbw", "sbh", "bl", "br", "bt", "bb", "pl", "pr", "pt", "pb", "ml", "mr", "mt", "mb",
                    ];
                    let mut fields = vec![];
                    for (which, (a, b)) in [(&inc.0, &fre.0), (&inc.1, &fre.1)].iter().enumerate() {
                        for j in 0..21 {
                            if a[j] != b[j] {
                                fields.push(format!("{}{}", if which == 0 { "r." } else { "u." }, NAMES[j]));
                            }
                        }
                    }
                    #[cfg(taffy_verif)]
                    let class = {
                        let ci = classify(&trace, *n);
                        let cf = classify(&ftrace, *f);
                        if ci == "scribble" || cf == "scribble" || (ci == "untouched" && scribbled.get(n).copied().unwrap_or(false)) {
                            "scribble"
                        } else {
                            ci
                        }
                    };
                    #[cfg(not(taffy_verif))]
                    let class = "untraced";
                    // is the node inside a display:none region (itself or an ancestor display:none)? and was the hidden layout
                    // of one of those display:none nodes executed in this pass (then the whole region must be zero now)?
                    let mut hidden = false;
                    #[allow(unused_mut)]
                    let mut hidden_evaluated = false;
                    let mut cur = Some(*n);
                    while let Some(c) = cur {
                        if w.t.style(c).unwrap().display == taffy::Display::None {
                            hidden = true;
                            #[cfg(taffy_verif)]
                            if trace.iter().any(|e| matches!(e, taffy::verif_hooks::Event::Hidden { node } if *node == c)) {
                                hidden_evaluated = true;
                            }
                        }
                        cur = w.t.parent(c);
                    }
                    // known finding hidden-region-stale: the display:none ancestors were all answered from the cache (clean),
                    // so nothing below them was touched; if a hidden layout DID run above the node, a non-zero layout is new
                    let class = if hidden && hidden_evaluated {
                        "hiddenevaluated"
                    } else if hidden && class != "scribble" {
                        "hiddenstale"
                    } else {
                        class
                    };
                    let rank = if class == "scribble" { 1 } else if class == "hiddenstale" { 2 } else { 3 };
                    let msg = format!(
                        "node#{k}/{} class={} fields={} :: incremental {:?} vs fresh {:?}",
                        nodes.len(),
                        class,
                        fields.join(","),
                        w.t.unrounded_layout(*n),
                        ft.unrounded_layout(*f)
                    );
                    if worst.as_ref().map(|w| w.0 < rank).unwrap_or(true) {
                        worst = Some((rank, msg));
                    }
                }
            }
            if let Some((_, msg)) = worst {
                out.fails.push((step, msg));
                break;
            }
        }
    }
    #[cfg(taffy_verif)]
    taffy::verif_hooks::set_exact_key(false);
    out
}

/// Where did the stored layout of `n` come from in this pass?
///  "scribble": its last SetLayout happened inside a ComputeSize evaluation of some ancestor (a container that lays out
///              its children while only being asked for its size) and no later PerformLayout evaluation rewrote it
///  "perform":  its last SetLayout happened under PerformLayout queries only
///  "untouched": no SetLayout for it in this pass (everything above it was served from the cache)
#[cfg(taffy_verif)]
pub fn classify(trace: &[taffy::verif_hooks::Event], n: taffy::NodeId) -> &'static str {
    use taffy::verif_hooks::Event;
    let mut stack: Vec<taffy::RunMode> = vec![];
    let mut last: Option<bool> = None;
    for ev in trace {
        match ev {
            Event::Query { input, .. } => stack.push(input.run_mode),
            Event::Return { .. } => {
                stack.pop();
            }
            Event::SetLayout { node } if *node == n => {
                last = Some(stack.iter().any(|m| *m == taffy::RunMode::ComputeSize));
            }
            _ => {}
        }
    }
    match last {
        Some(true) => "scribble",
        Some(false) => "perform",
        None => "untouched",
    }
}

#[cfg(taffy_verif)]
pub fn update_scribbled(trace: &[taffy::verif_hooks::Event], map: &mut std::collections::HashMap<taffy::NodeId, bool>) {
    use taffy::verif_hooks::Event;
    let mut stack: Vec<taffy::RunMode> = vec![];
    for ev in trace {
        match ev {
            Event::Query { input, .. } => stack.push(input.run_mode),
            Event::Return { .. } => {
                stack.pop();
            }
            Event::SetLayout { node } => {
                map.insert(*node, stack.iter().any(|m| *m == taffy::RunMode::ComputeSize));
            }
            Event::Hidden { .. } => {}
        }
    }
}

pub fn main(args: &[String]) {
    std::panic::set_hook(Box::new(|_| {}));
    match args[0].as_str() {
        "infcorpus" => {
            // unbounded DEFINITE available space (f32::INFINITY) next to max-content / min-content: the two are different
            // constraints for the algorithms, so a relayout after switching between them must equal a fresh layout
            let text = || NodeSpec { style: Style::default(), ctx: Some(Ctx::Text(17, 8.0)), children: vec![] };
            let fixed = || NodeSpec { style: Style { size: Size { width: length(20.0), height: length(30.0) }, ..Default::default() }, ctx: None, children: vec![] };
            let cont = |st: Style, ch: Vec<NodeSpec>| NodeSpec { style: st, ctx: None, children: ch };
            let column = || Style { display: Display::Flex, flex_direction: FlexDirection::Column, ..Default::default() };
            let row = || Style { display: Display::Flex, ..Default::default() };
            let grid = || Style { display: Display::Grid, grid_template_columns: vec![percent(0.5), percent(0.5)], ..Default::default() };
            let block = || Style { display: Display::Block, ..Default::default() };
            let trees: Vec<NodeSpec> = vec![
                cont(column(), vec![cont(column(), vec![text(), fixed()])]),
                cont(grid(), vec![text(), fixed()]),
                cont(block(), vec![cont(row(), vec![text(), fixed()])]),
                cont(row(), vec![cont(column(), vec![text()]), fixed()]),
                cont(column(), vec![cont(grid(), vec![text(), text()])]),
            ];
            let inf = AvailableSpace::Definite(f32::INFINITY);
            let spaces = [
                Size::MAX_CONTENT,
                Size { width: inf, height: inf },
                Size { width: inf, height: AvailableSpace::MaxContent },
                Size { width: AvailableSpace::MinContent, height: AvailableSpace::MaxContent },
                Size { width: AvailableSpace::MaxContent, height: inf },
            ];
            let lay = |spec: &NodeSpec, hist: &[Size<AvailableSpace>]| -> Option<Vec<Vec<u32>>> {
                let spec = spec.clone();
                let hist = hist.to_vec();
                std::panic::catch_unwind(move || {
                    let mut t: TaffyTree<Ctx> = TaffyTree::new();
                    let mut ids = vec![];
                    let root = build(&mut t, &spec, &mut ids);
                    for a in hist {
                        compute(&mut t, root, a);
                    }
                    ids.iter().map(|n| { let mut v = layout_bits(t.unrounded_layout(*n)); v.extend(layout_bits(t.layout(*n).unwrap())); v }).collect()
                })
                .ok()
            };
            let mut cases = 0;
            for (ti, spec) in trees.iter().enumerate() {
                for (i, a) in spaces.iter().enumerate() {
                    for (j, b) in spaces.iter().enumerate() {
                        if i == j {
                            continue;
                        }
                        cases += 1;
                        match (lay(spec, &[*a, *b]), lay(spec, &[*b])) {
                            (Some(x), Some(y)) => {
                                if x != y {
                                    let k = (0..x.len()).find(|k| x[*k] != y[*k]).unwrap();
                                    println!("FAIL infcorpus tree {ti} spaces {i}->{j} (0 max-content, 1 definite(inf) both, 2 definite(inf) width, 3 min-content width, 4 definite(inf) height): node#{k} after the two passes {:?} but a fresh tree laid out under the second space gives {:?}", x[k].iter().map(|b| f32::from_bits(*b)).collect::<Vec<_>>(), y[k].iter().map(|b| f32::from_bits(*b)).collect::<Vec<_>>());
                                }
                            }
                            _ => {} // a panic under an infinite available space is C03's business
                        }
                    }
                }
            }
            println!("INFCORPUS {cases}");
        }
        "oracle" => {
            let seed: u64 = args[1].parse().unwrap();
            let start: u64 = args[2].parse().unwrap();
            let n: u64 = args[3].parse().unwrap();
            let exact = args.get(4).map(|s| s == "1").unwrap_or(false);
            let (mut layouts, mut ops, mut fsc) = (0, 0, 0);
            for idx in start..start + n {
                match std::panic::catch_unwind(|| run_history(seed, idx, exact, false)) {
                    Ok(o) => {
                        layouts += o.layouts;
                        ops += o.ops;
                        fsc += o.fresh_scribbles;
                        for (step, m) in o.fails {
                            println!("FAIL {idx} {step} {}", m.replace('\n', " "));
                        }
                    }
                    Err(_) => println!("PANIC {idx}"),
                }
            }
            println!("DONE {n} {layouts} {ops} {fsc}");
        }
        "one" => {
            let seed: u64 = args[1].parse().unwrap();
            let idx: u64 = args[2].parse().unwrap();
            let exact = args.get(3).map(|s| s == "1").unwrap_or(false);
            let o = run_history(seed, idx, exact, true);
            for l in o.trace {
                println!("{l}");
            }
            for (step, m) in o.fails {
                println!("FAIL {idx} {step} {m}");
            }
        }
        _ => std::process::exit(2),
    }
}
