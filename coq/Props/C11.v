(* C11 -- absolutely positioned boxes satisfy the inset / margin / size equation.
   Statements only; the proofs are in Proofs/AbsPos{Proofs,BlockProofs,FlexProofs,GridProofs}.v.

   The kernels abs_block / abs_flex / abs_grid (Model/AbsPos.v) are compositions of code that is REGENERATED on every
   run from block.rs / flexbox.rs / grid/alignment.rs / grid/mod.rs (Gen/AbsPosGen.v), so a source edit changes the
   very terms these theorems are about.  Numbers: XQ (exact rationals + infinities + NaN); every input finite.

     ct       container as its Layout reports it: size, border, padding, gutter (= scrollbar_size)
     i        the child's resolved style: insets / margins (None = auto), size / min / max (None = auto), padding+border
     measure  oracle: the size perform_child_layout returns for the known dimensions it is asked with
     padding box, gutter excluded:  [pbox_start, pbox_end] = [border_start, size - border_end - gutter]
     inset_size extent s e ms me min max pb = max (min' (max (extent - s - e - ms - me) 0) max) (max min pb)   (min wins; the
         child's own padding+border pb is a floor -- that floor is NOT in the property text, see notes/C11.md)

   Premises common to all: finite inputs, no aspect ratio, margins of the axis non-auto (except the auto-margin theorem).
   Scope (audit, wave 5c): `i` is the ALREADY RESOLVED style (AbsIn); nothing here is about the resolve stage (block_resolve /
   flex_resolve / grid_resolve of Gen/AbsPosGen.v, where percentages are resolved -- the known finding block-abspos-percent-border
   lives there); `ai_aspect_ratio i = None` is a premise of every theorem and is not granted by the property's quantifier. *)
From Coq Require Import ZArith NArith QArith Bool List.
From TV Require Import Num.Num Num.QNum Gen.AbsPosEnums Model.AbsPosBase Gen.AbsPosGen Model.AbsPos.
From TV Require Import Proofs.AbsPosProofs Proofs.AbsPosBlockProofs Proofs.AbsPosFlexProofs Proofs.AbsPosGridProofs.

Definition fin_measure (measure : Size (option XQ) -> Size XQ) : Prop := forall k, fin_size (measure k).

(* the equations, per axis, on an output `o` *)
Definition start_eq_x ct (i : AbsIn XQ) (o : AbsOut XQ) : Prop := forall s ml mr,
  r_left (ai_inset i) = Some s -> r_left (ai_margin i) = Some ml -> r_right (ai_margin i) = Some mr ->
  xeq (sub (p_x (o_location o)) (r_left (o_margin o))) (add (pbox_start_x ct) s).
Definition start_eq_y ct (i : AbsIn XQ) (o : AbsOut XQ) : Prop := forall s mt mb,
  r_top (ai_inset i) = Some s -> r_top (ai_margin i) = Some mt -> r_bottom (ai_margin i) = Some mb ->
  xeq (sub (p_y (o_location o)) (r_top (o_margin o))) (add (pbox_start_y ct) s).
Definition end_eq_x ct (i : AbsIn XQ) (o : AbsOut XQ) : Prop := forall e ml mr,
  r_left (ai_inset i) = None -> r_right (ai_inset i) = Some e -> r_left (ai_margin i) = Some ml -> r_right (ai_margin i) = Some mr ->
  xeq (sub (pbox_end_x ct) (add (add (p_x (o_location o)) (s_width (o_size o))) (r_right (o_margin o)))) e.
Definition end_eq_y ct (i : AbsIn XQ) (o : AbsOut XQ) : Prop := forall e mt mb,
  r_top (ai_inset i) = None -> r_bottom (ai_inset i) = Some e -> r_top (ai_margin i) = Some mt -> r_bottom (ai_margin i) = Some mb ->
  xeq (sub (pbox_end_y ct) (add (add (p_y (o_location o)) (s_height (o_size o))) (r_bottom (o_margin o)))) e.
Definition size_eq_x ct (i : AbsIn XQ) (o : AbsOut XQ) : Prop := forall s e ml mr,
  r_left (ai_inset i) = Some s -> r_right (ai_inset i) = Some e -> s_width (ai_size i) = None ->
  r_left (ai_margin i) = Some ml -> r_right (ai_margin i) = Some mr ->
  xeq (s_width (o_size o)) (inset_size (pbox_w ct) s e ml mr (s_width (ai_min0 i)) (s_width (ai_max i)) (s_width (ai_pb_sum i))).
Definition size_eq_y ct (i : AbsIn XQ) (o : AbsOut XQ) : Prop := forall s e mt mb,
  r_top (ai_inset i) = Some s -> r_bottom (ai_inset i) = Some e -> s_height (ai_size i) = None ->
  r_top (ai_margin i) = Some mt -> r_bottom (ai_margin i) = Some mb ->
  xeq (s_height (o_size o)) (inset_size (pbox_h ct) s e mt mb (s_height (ai_min0 i)) (s_height (ai_max i)) (s_height (ai_pb_sum i))).

Lemma abs_block_unfold (ct : @Container XQ) sp i measure :
  abs_block ct sp i measure = abs_block_place ct sp i (measure (block_known (fst (block_area ct)) (snd (block_area ct)) sp i)).
Proof. reflexivity. Qed.
Lemma abs_flex_unfold (c : FlexConstants XQ) i measure : abs_flex c i measure = abs_flex_place c i (measure (flex_known c i)).
Proof. reflexivity. Qed.
Lemma abs_grid_unfold (ct : @Container XQ) ji ai i measure :
  abs_grid ct ji ai i measure = abs_grid_place ct ji ai i (measure (grid_known (grid_area_of ct) (mkInBoth ji ai) zero i)).
Proof. reflexivity. Qed.
(* rewrite the kernel into its `place` form and collect the premises of the lemmas *)
Ltac start_prem ct i m :=
  match goal with
  | Hc : fin_container ct, Hi : fin_in i, Hm : fin_measure _, Har : ai_aspect_ratio i = None |- _ =>
      assert (block_premises ct i m) by (split; [assumption | split; [assumption | split; [apply Hm | assumption]]]);
      try match goal with Hpos : ai_position i = Pos_Absolute |- _ => assert (grid_premises ct i m) by (split; auto) end
  end.
Ltac start_k :=
  rewrite ?abs_block_unfold, ?abs_flex_unfold, ?abs_grid_unfold;
  match goal with
  | |- context [abs_block_place ?ct _ ?i ?m] => start_prem ct i m
  | |- context [abs_flex_place (flex_constants ?ct _ _ _ _) ?i ?m] => start_prem ct i m
  | |- context [abs_grid_place ?ct _ _ ?i ?m] => start_prem ct i m
  end.

(* ================================================================================================ block *)
Theorem C11_start_block : forall ct sp i measure,
  fin_container ct -> fin_in i -> fin_measure measure -> ai_aspect_ratio i = None ->
  start_eq_x ct i (abs_block ct sp i measure) /\ start_eq_y ct i (abs_block ct sp i measure).
Proof.
  intros ct sp i measure Hc Hi Hm Har. start_k. split; red; intros; [eapply start_block_x | eapply start_block_y]; eassumption.
Qed.

Theorem C11_end_block : forall ct sp i measure,
  fin_container ct -> fin_in i -> fin_measure measure -> ai_aspect_ratio i = None ->
  end_eq_x ct i (abs_block ct sp i measure) /\ end_eq_y ct i (abs_block ct sp i measure).
Proof.
  intros ct sp i measure Hc Hi Hm Har. start_k. split; red; intros; [eapply end_block_x | eapply end_block_y]; eassumption.
Qed.

Theorem C11_size_block : forall ct sp i measure,
  fin_container ct -> fin_in i -> fin_measure measure -> ai_aspect_ratio i = None ->
  size_eq_x ct i (abs_block ct sp i measure) /\ size_eq_y ct i (abs_block ct sp i measure).
Proof.
  intros ct sp i measure Hc Hi Hm Har. start_k. split; red; intros; [eapply size_block_x | eapply size_block_y]; eassumption.
Qed.

(* block only: insets and size of the axis all set, exactly one margin of the axis auto: it absorbs the remaining space
   (which may be negative), the other margin is kept.  All four sides. *)
Theorem C11_block_auto_margin : forall ct sp i measure,
  fin_container ct -> fin_in i -> fin_measure measure -> ai_aspect_ratio i = None ->
  let o := abs_block ct sp i measure in
  (forall s e w m, r_left (ai_inset i) = Some s -> r_right (ai_inset i) = Some e -> s_width (ai_size i) = Some w ->
     r_left (ai_margin i) = None -> r_right (ai_margin i) = Some m ->
     xeq (r_left (o_margin o)) (sub (sub (sub (sub (pbox_w ct) s) e) (s_width (o_size o))) m) /\ xeq (r_right (o_margin o)) m) /\
  (forall s e w m, r_left (ai_inset i) = Some s -> r_right (ai_inset i) = Some e -> s_width (ai_size i) = Some w ->
     r_left (ai_margin i) = Some m -> r_right (ai_margin i) = None ->
     xeq (r_right (o_margin o)) (sub (sub (sub (sub (pbox_w ct) s) e) (s_width (o_size o))) m) /\ xeq (r_left (o_margin o)) m) /\
  (forall s e h m, r_top (ai_inset i) = Some s -> r_bottom (ai_inset i) = Some e -> s_height (ai_size i) = Some h ->
     r_top (ai_margin i) = None -> r_bottom (ai_margin i) = Some m ->
     xeq (r_top (o_margin o)) (sub (sub (sub (sub (pbox_h ct) s) e) (s_height (o_size o))) m) /\ xeq (r_bottom (o_margin o)) m) /\
  (forall s e h m, r_top (ai_inset i) = Some s -> r_bottom (ai_inset i) = Some e -> s_height (ai_size i) = Some h ->
     r_top (ai_margin i) = Some m -> r_bottom (ai_margin i) = None ->
     xeq (r_bottom (o_margin o)) (sub (sub (sub (sub (pbox_h ct) s) e) (s_height (o_size o))) m) /\ xeq (r_top (o_margin o)) m).
Proof.
  intros ct sp i measure Hc Hi Hm Har o. subst o. start_k. repeat split; intros;
    first [eapply auto_margin_block_left; eassumption | eapply auto_margin_block_right; eassumption
          | eapply auto_margin_block_top; eassumption | eapply auto_margin_block_bottom; eassumption].
Qed.

(* ================================================================================================ flex *)
(* every flex_direction, wrap-reverse or not, any justify_content / align_items *)
Theorem C11_start_flex : forall ct dir wrap_reverse jc ais i measure,
  fin_container ct -> fin_in i -> fin_measure measure -> ai_aspect_ratio i = None ->
  let o := abs_flex (flex_constants ct dir wrap_reverse jc ais) i measure in
  start_eq_x ct i o /\ start_eq_y ct i o.
Proof.
  intros ct dir wr jc ais i measure Hc Hi Hm Har o. subst o. start_k. split; red; intros; [eapply start_flex_x | eapply start_flex_y]; eassumption.
Qed.

Theorem C11_end_flex : forall ct dir wrap_reverse jc ais i measure,
  fin_container ct -> fin_in i -> fin_measure measure -> ai_aspect_ratio i = None ->
  let o := abs_flex (flex_constants ct dir wrap_reverse jc ais) i measure in
  end_eq_x ct i o /\ end_eq_y ct i o.
Proof.
  intros ct dir wr jc ais i measure Hc Hi Hm Har o. subst o. start_k. split; red; intros; [eapply end_flex_x | eapply end_flex_y]; eassumption.
Qed.

Theorem C11_size_flex : forall ct dir wrap_reverse jc ais i measure,
  fin_container ct -> fin_in i -> fin_measure measure -> ai_aspect_ratio i = None ->
  let o := abs_flex (flex_constants ct dir wrap_reverse jc ais) i measure in
  size_eq_x ct i o /\ size_eq_y ct i o.
Proof.
  intros ct dir wr jc ais i measure Hc Hi Hm Har o. subst o. start_k. split; red; intros; [eapply size_flex_x | eapply size_flex_y]; eassumption.
Qed.

(* ================================================================================================ grid *)
(* any justify_items / align_items of the container, any justify_self / align_self of the child *)
Theorem C11_start_grid : forall ct ji ai i measure,
  fin_container ct -> fin_in i -> fin_measure measure -> ai_aspect_ratio i = None -> ai_position i = Pos_Absolute ->
  let o := abs_grid ct ji ai i measure in
  start_eq_x ct i o /\ start_eq_y ct i o.
Proof.
  intros ct ji ai i measure Hc Hi Hm Har Hpos o. subst o. start_k. split; red; intros; [eapply start_grid_x | eapply start_grid_y]; eassumption.
Qed.

(* the end equation holds in grid containers when the padding box (gutter excluded) has non-negative extent ... *)
Theorem C11_end_grid : forall ct ji ai i measure,
  fin_container ct -> fin_in i -> fin_measure measure -> ai_aspect_ratio i = None -> ai_position i = Pos_Absolute ->
  let o := abs_grid ct ji ai i measure in
  (leb zero (pbox_w ct) = true -> end_eq_x ct i o) /\ (leb zero (pbox_h ct) = true -> end_eq_y ct i o).
Proof.
  intros ct ji ai i measure Hc Hi Hm Har Hpos o. subst o. start_k. split; intro Hnn; red; intros; [eapply end_grid_x | eapply end_grid_y]; eassumption.
Qed.

(* ... and not otherwise: container 10 wide, border 4 + 4, scrollbar gutter 15 (padding box [4, -9]); child right: 0,
   width 5, no margins.  align_item_within_area clamps the extent of the area to 0 and puts the child at x = -1, so its
   margin edge ends 13 to the right of the padding box's end edge.  block and flex have no such clamp (C11_end_block /
   C11_end_flex have no sign premise). *)
Definition neg_ct : @Container XQ :=
  mkContainer (mkSize (Fin 10) (Fin 50)) (mkRect (Fin 4) (Fin 4) (Fin 0) (Fin 0)) (mkRect (Fin 0) (Fin 0) (Fin 0) (Fin 0))
              (mkPoint (Fin 15) (Fin 0)).
Definition neg_in : AbsIn XQ :=
  mkAbsIn None (mkRect (Some (Fin 0)) (Some (Fin 0)) (Some (Fin 0)) (Some (Fin 0))) (mkRect None (Some (Fin 0)) (Some (Fin 0)) None)
          (mkRect (Fin 0) (Fin 0) (Fin 0) (Fin 0)) (mkRect (Fin 0) (Fin 0) (Fin 0) (Fin 0)) (mkSize (Fin 0) (Fin 0))
          (mkSize (Some (Fin 5)) (Some (Fin 5))) (mkSize None None) (mkSize None None) None None Pos_Absolute.
Theorem C11_end_grid_negative_area_refuted :
  exists ct ji ai i measure e ml mr,
    fin_container ct /\ fin_in i /\ fin_measure measure /\ ai_aspect_ratio i = None /\ ai_position i = Pos_Absolute /\
    r_left (ai_inset i) = None /\ r_right (ai_inset i) = Some e /\ r_left (ai_margin i) = Some ml /\ r_right (ai_margin i) = Some mr /\
    let o := abs_grid ct ji ai i measure in
    ~ xeq (sub (pbox_end_x ct) (add (add (p_x (o_location o)) (s_width (o_size o))) (r_right (o_margin o)))) e.
Proof.
  exists neg_ct, None, None, neg_in, (fun _ => mkSize (Fin 1) (Fin 1)), (Fin 0), (Fin 0), (Fin 0).
  repeat split; try exact I. intros o H. vm_compute in H. discriminate H.
Qed.

Theorem C11_size_grid : forall ct ji ai i measure,
  fin_container ct -> fin_in i -> fin_measure measure -> ai_aspect_ratio i = None -> ai_position i = Pos_Absolute ->
  let o := abs_grid ct ji ai i measure in
  size_eq_x ct i o /\ size_eq_y ct i o.
Proof.
  intros ct ji ai i measure Hc Hi Hm Har Hpos o. subst o. start_k. split; red; intros; [eapply size_grid_x | eapply size_grid_y]; eassumption.
Qed.

(* ================================================================================================ examples *)
(* a 200 x 120 container with border 2/3/4/5 (l r t b), padding 6/7/8/9 and a 10-wide vertical-scrollbar gutter:
   padding box (gutter excluded) = [2, 187] x [4, 115], 185 x 111 *)
Definition ex_ct : @Container XQ :=
  mkContainer (mkSize (Fin 200) (Fin 120)) (mkRect (Fin 2) (Fin 3) (Fin 4) (Fin 5)) (mkRect (Fin 6) (Fin 7) (Fin 8) (Fin 9))
              (mkPoint (Fin 10) (Fin 0)).
Definition ex_measure : Size (option XQ) -> Size XQ := fun _ => mkSize (Fin 30) (Fin 20).
Definition ex_sp : Point XQ := mkPoint (Fin 8) (Fin 12).
Definition ex_pad0 : Rect XQ := mkRect (Fin 0) (Fin 0) (Fin 0) (Fin 0).
(* left 11, right auto, top auto, bottom 13; margins 1 2 3 4; size auto (measured 30 x 20) *)
Definition ex_in1 : AbsIn XQ :=
  mkAbsIn None (mkRect (Some (Fin 1)) (Some (Fin 2)) (Some (Fin 3)) (Some (Fin 4))) (mkRect (Some (Fin 11)) None None (Some (Fin 13)))
          ex_pad0 ex_pad0 (mkSize (Fin 0) (Fin 0)) (mkSize None None) (mkSize None None) (mkSize None None) None None Pos_Absolute.
(* left 11, right 14, top 12, bottom 13; margins 1 2 3 4; size auto; min width 20, max width 150, max height 50 *)
Definition ex_in2 : AbsIn XQ :=
  mkAbsIn None (mkRect (Some (Fin 1)) (Some (Fin 2)) (Some (Fin 3)) (Some (Fin 4)))
          (mkRect (Some (Fin 11)) (Some (Fin 14)) (Some (Fin 12)) (Some (Fin 13)))
          ex_pad0 ex_pad0 (mkSize (Fin 0) (Fin 0)) (mkSize None None) (mkSize (Some (Fin 20)) None) (mkSize (Some (Fin 150)) (Some (Fin 50)))
          None None Pos_Absolute.
(* all insets and the size set, left and bottom margins auto *)
Definition ex_in3 : AbsIn XQ :=
  mkAbsIn None (mkRect None (Some (Fin 2)) (Some (Fin 3)) None)
          (mkRect (Some (Fin 11)) (Some (Fin 14)) (Some (Fin 12)) (Some (Fin 13)))
          ex_pad0 ex_pad0 (mkSize (Fin 0) (Fin 0)) (mkSize (Some (Fin 40)) (Some (Fin 25))) (mkSize None None) (mkSize None None)
          None None Pos_Absolute.
Lemma ex_fin : fin_container ex_ct /\ fin_in ex_in1 /\ fin_in ex_in2 /\ fin_in ex_in3 /\ fin_measure ex_measure.
Proof. repeat split; exact I. Qed.

Import ListNotations.
Definition summary (o : AbsOut XQ) : list XQ :=
  map x_red [p_x (o_location o); p_y (o_location o); s_width (o_size o); s_height (o_size o);
             r_left (o_margin o); r_right (o_margin o); r_top (o_margin o); r_bottom (o_margin o)].

(* start (x: 2 + 11 + 1 = 14) and end (y: 115 - 13 - 4 - 20 = 78) in the three kernels *)
Example C11_example_start_end :
  summary (abs_block ex_ct ex_sp ex_in1 ex_measure) = [Fin 14; Fin 78; Fin 30; Fin 20; Fin 1; Fin 2; Fin 3; Fin 4] /\
  summary (abs_flex (flex_constants ex_ct FD_Column true (Some AC_Center) AI_End) ex_in1 ex_measure) = [Fin 14; Fin 78; Fin 30; Fin 20; Fin 1; Fin 2; Fin 3; Fin 4] /\
  summary (abs_grid ex_ct (Some AI_Center) None ex_in1 ex_measure) = [Fin 14; Fin 78; Fin 30; Fin 20; Fin 1; Fin 2; Fin 3; Fin 4].
Proof. vm_compute. repeat split. Qed.
Example C11_example_start_end_thm :
  let o := abs_grid ex_ct (Some AI_Center) None ex_in1 ex_measure in
  xeq (sub (p_x (o_location o)) (r_left (o_margin o))) (add (pbox_start_x ex_ct) (Fin 11)) /\
  xeq (sub (pbox_end_y ex_ct) (add (add (p_y (o_location o)) (s_height (o_size o))) (r_bottom (o_margin o)))) (Fin 13).
Proof.
  destruct ex_fin as (Hc & H1 & _ & _ & Hm). split.
  - exact (proj1 (C11_start_grid ex_ct _ _ ex_in1 ex_measure Hc H1 Hm eq_refl eq_refl) _ _ _ eq_refl eq_refl eq_refl).
  - refine (proj2 (C11_end_grid ex_ct _ _ ex_in1 ex_measure Hc H1 Hm eq_refl eq_refl) eq_refl _ _ _ eq_refl eq_refl eq_refl eq_refl).
Qed.
(* size from insets: width = 185 - 11 - 14 - 1 - 2 = 157, capped by max 150; height = 111 - 12 - 13 - 3 - 4 = 79, capped by 50 *)
Example C11_example_size :
  summary (abs_block ex_ct ex_sp ex_in2 ex_measure) = [Fin 14; Fin 19; Fin 150; Fin 50; Fin 1; Fin 2; Fin 3; Fin 4] /\
  summary (abs_flex (flex_constants ex_ct FD_RowReverse false None AI_Stretch) ex_in2 ex_measure) = [Fin 14; Fin 19; Fin 150; Fin 50; Fin 1; Fin 2; Fin 3; Fin 4] /\
  summary (abs_grid ex_ct None None ex_in2 ex_measure) = [Fin 14; Fin 19; Fin 150; Fin 50; Fin 1; Fin 2; Fin 3; Fin 4].
Proof. vm_compute. repeat split. Qed.
Example C11_example_size_thm :
  xeq (s_width (o_size (abs_flex (flex_constants ex_ct FD_RowReverse false None AI_Stretch) ex_in2 ex_measure)))
      (inset_size (pbox_w ex_ct) (Fin 11) (Fin 14) (Fin 1) (Fin 2) (Some (Fin 20)) (Some (Fin 150)) (Fin 0)).
Proof.
  destruct ex_fin as (Hc & _ & H2 & _ & Hm).
  exact (proj1 (C11_size_flex ex_ct _ _ _ _ ex_in2 ex_measure Hc H2 Hm eq_refl) _ _ _ _ eq_refl eq_refl eq_refl eq_refl eq_refl).
Qed.
(* auto margins in a block container: left = 185 - 11 - 14 - 40 - 2 = 118, bottom = 111 - 12 - 13 - 25 - 3 = 58 *)
Example C11_example_auto_margin :
  summary (abs_block ex_ct ex_sp ex_in3 ex_measure) = [Fin 131; Fin 19; Fin 40; Fin 25; Fin 118; Fin 2; Fin 3; Fin 58].
Proof. vm_compute. reflexivity. Qed.
Example C11_example_auto_margin_thm :
  let o := abs_block ex_ct ex_sp ex_in3 ex_measure in
  xeq (r_left (o_margin o)) (sub (sub (sub (sub (pbox_w ex_ct) (Fin 11)) (Fin 14)) (s_width (o_size o))) (Fin 2)) /\
  xeq (r_bottom (o_margin o)) (sub (sub (sub (sub (pbox_h ex_ct) (Fin 12)) (Fin 13)) (s_height (o_size o))) (Fin 3)).
Proof.
  destruct ex_fin as (Hc & _ & _ & H3 & Hm).
  pose proof (C11_block_auto_margin ex_ct ex_sp ex_in3 ex_measure Hc H3 Hm eq_refl) as (A & _ & _ & B).
  split.
  - exact (proj1 (A _ _ _ _ eq_refl eq_refl eq_refl eq_refl eq_refl)).
  - exact (proj1 (B _ _ _ _ eq_refl eq_refl eq_refl eq_refl eq_refl)).
Qed.

(* ================================================================================== the margin in the equations (audit, wave 5c)
   The start / end equations above are written with the margin the kernel REPORTS (o_margin o); the premises bind the style
   margins ml / mr but the conclusions do not mention them.  A kernel that reported margin 0 and placed the box at
   padding-box + inset would satisfy start_eq -- while the property's "margin edge" is the STYLE margin.  For the block and
   flex kernels the reported margin of a non-auto side IS the style margin (Leibniz), so there the equations are the property's.
   For the grid kernel the reported margin is `style margin + baseline shim` with the shim 0 (grid_align_item_within_area):
   equal as a number for finite margins, not proved here -- C11_start_grid / C11_end_grid remain relative to the reported margin;
   the correspondence compares the reported margins with the implementation's bit for bit. *)
Theorem C11_reported_margin_is_style_margin_block : forall (ct : @Container XQ) sp i measure,
  let o := abs_block ct sp i measure in
  (forall m, r_left (ai_margin i) = Some m -> r_left (o_margin o) = m) /\
  (forall m, r_right (ai_margin i) = Some m -> r_right (o_margin o) = m) /\
  (forall m, r_top (ai_margin i) = Some m -> r_top (o_margin o) = m) /\
  (forall m, r_bottom (ai_margin i) = Some m -> r_bottom (o_margin o) = m).
Proof.
  intros ct sp i measure. cbv zeta. rewrite abs_block_unfold. unfold abs_block_place, block_place.
  cbn [o_margin r_left r_right r_top r_bottom]. repeat split; intros m E; rewrite E; reflexivity.
Qed.
Theorem C11_reported_margin_is_style_margin_flex : forall (c : FlexConstants XQ) i measure,
  let o := abs_flex c i measure in
  (forall m, r_left (ai_margin i) = Some m -> r_left (o_margin o) = m) /\
  (forall m, r_right (ai_margin i) = Some m -> r_right (o_margin o) = m) /\
  (forall m, r_top (ai_margin i) = Some m -> r_top (o_margin o) = m) /\
  (forall m, r_bottom (ai_margin i) = Some m -> r_bottom (o_margin o) = m).
Proof.
  intros c i measure. cbv zeta. rewrite abs_flex_unfold. unfold abs_flex_place, flex_place.
  destruct (fc_is_row c); cbn [o_margin r_left r_right r_top r_bottom fst snd]; repeat split; intros m E; rewrite E; reflexivity.
Qed.


Print Assumptions C11_start_block.
Print Assumptions C11_end_block.
Print Assumptions C11_size_block.
Print Assumptions C11_block_auto_margin.
Print Assumptions C11_start_flex.
Print Assumptions C11_end_flex.
Print Assumptions C11_size_flex.
Print Assumptions C11_start_grid.
Print Assumptions C11_end_grid.
Print Assumptions C11_end_grid_negative_area_refuted.
Print Assumptions C11_size_grid.
Print Assumptions C11_reported_margin_is_style_margin_block.
Print Assumptions C11_reported_margin_is_style_margin_flex.
