(* C05 on the toy instance of the engine skeleton:
   - non-vacuity: the toy algorithm is HiddenBlind; a variant of it satisfies SetsZeroOnHidden;
   - the counter-example to "mutators preserve HiddenZero": a laid-out subtree attached two levels below a clean
     display:none node keeps its non-zero stored layout through the next pass, even when the root is dirtied
     (known finding C01/hidden-region-stale), whereas attaching it directly under the display:none node is repaired. *)
From Coq Require Import List Bool Arith NArith Lia.
From TV Require Import Model.Engine Model.EngineToy Proofs.EngineMemo Proofs.EngineDirty Proofs.EngineToyProofs
  Proofs.EngineHidden Proofs.EngineBlind.
Import ListNotations.

(* ---- the toy algorithm reads child styles only through `is display:none` *)
Fixpoint qall_v (st : list bool) (k : nat) (i : TIn) (acc : N) : Alg TIn TOut TLay :=
  match st with
  | [] => Ret _ _ _ acc
  | b :: st' =>
      Query _ _ _ k (if b then hidden_child_key else i)
            (fun o => SetLayout _ _ _ k (o + 1)%N (qall_v st' (S k) i (acc + o)%N))
  end.

(* (EngineToy.qall is this function composed with `map t_is_none`; proving the two resumptions EQUAL would need
   functional extensionality for the continuations, so the blind toy algorithm is defined through the view.) *)
Definition tv_algo (s : TS) (st : list TS) (i : TIn) : Alg TIn TOut TLay :=
  match t_mode i with
  | PerformHiddenLayout => Ret _ _ _ 0%N
  | PerformLayout => qall_v (map t_is_none st) 0 i (fst s)
  | ComputeSize => qall_v (map t_is_none st) 0 i (fst s + 7)%N
  end.

Lemma tv_algo_blind : HiddenBlind TS TIn TOut TLay t_is_none tv_algo.
Proof.
  exists bool, t_is_none, (fun s st i => match t_mode i with
                                       | PerformHiddenLayout => Ret _ _ _ 0%N
                                       | PerformLayout => qall_v st 0 i (fst s)
                                       | ComputeSize => qall_v st 0 i (fst s + 7)%N
                                       end).
  split; [intros a b Ha Hb; congruence|reflexivity].
Qed.

Lemma qall_v_WF st : forall k i acc, t_mode i <> PerformHiddenLayout -> WFAlg TIn TOut TLay t_mode (qall_v st k i acc).
Proof.
  induction st as [|b st IH]; intros k i acc Hm; cbn.
  - constructor.
  - constructor.
    + destruct b; [cbn; discriminate|exact Hm].
    + intros o. constructor. apply IH. exact Hm.
Qed.

Lemma tv_algo_WF s st i : WFAlg TIn TOut TLay t_mode (tv_algo s st i).
Proof.
  unfold tv_algo. destruct (t_mode i) eqn:E.
  - apply qall_v_WF. congruence.
  - apply qall_v_WF. congruence.
  - constructor.
Qed.

Lemma qall_v_visits st : forall k i acc, t_mode i = PerformLayout ->
  Visits TIn TOut TLay t_mode (seq k (length st)) (qall_v st k i acc).
Proof.
  induction st as [|b st IH]; intros k i acc Hm.
  - cbn. constructor.
  - cbn [qall_v length]. constructor. intros o.
    assert (E : t_mode (if b then hidden_child_key else i) = PerformLayout) by (destruct b; [reflexivity|exact Hm]).
    rewrite E. rewrite remove_head_seq. constructor. apply IH. exact Hm.
Qed.

Lemma tv_algo_H1 s st i : t_mode i = PerformLayout -> Visits TIn TOut TLay t_mode (seq 0 (length st)) (tv_algo s st i).
Proof. intros Hm. unfold tv_algo. rewrite Hm. rewrite <- (map_length t_is_none st). apply qall_v_visits. exact Hm. Qed.

(* ---- an algorithm that stores with_order-like layouts on display:none children: layouts >= 100 are "zero except order" *)
Fixpoint qall_z (st : list bool) (k : nat) (i : TIn) (acc : N) : Alg TIn TOut TLay :=
  match st with
  | [] => Ret _ _ _ acc
  | b :: st' =>
      Query _ _ _ k (if b then hidden_child_key else i)
            (fun o => SetLayout _ _ _ k (if b then 100 + N.of_nat k else (o + 1) mod 100)%N (qall_z st' (S k) i (acc + o)%N))
  end.
Definition tz_algo (s : TS) (st : list TS) (i : TIn) : Alg TIn TOut TLay := qall_z (map t_is_none st) 0 i (fst s).
Definition t_zeroish (l : TLay) : Prop := (l = 0 \/ 100 <= l)%N.

Lemma qall_z_SZH (st0 : list TS) : forall st k i acc,
  (forall j b, nth_error st j = Some b -> nth_error (map t_is_none st0) (k + j) = Some b) ->
  SZH TS TIn TOut TLay t_is_none t_zeroish st0 (qall_z st k i acc).
Proof.
  induction st as [|b st IH]; intros k i acc Hst; cbn [qall_z].
  - constructor.
  - constructor. intros o. constructor.
    + intros sc Hsc Hn. specialize (Hst 0 b eq_refl). rewrite Nat.add_0_r, nth_error_map, Hsc in Hst. cbn in Hst.
      injection Hst as <-. rewrite Hn. unfold t_zeroish. right. apply N.le_add_r.
    + apply IH. intros j b' Hj. specialize (Hst (S j) b' Hj). rewrite <- plus_n_Sm in Hst. exact Hst.
Qed.

Lemma tz_algo_sets_zero : SetsZeroOnHidden TS TIn TOut TLay t_is_none tz_algo t_zeroish.
Proof. intros s st i. unfold tz_algo. apply qall_z_SZH. intros j b Hj. exact Hj. Qed.

(* ---- the counter-example.  root(0) > hidden(1) > mid(2); a separately laid-out subtree  sub(3) > leaf(4)  *)
Definition h_memo := memo TS TIn TOut TLay t_mode t_in_eqb t_is_none 0%N 0%N tv_algo.
Definition h_tree0 : ttree :=
  fresh TS TIn TOut TLay 0%N (SNode TS (0%N, false) [SNode TS (1%N, true) [SNode TS (2%N, false) []]]).
Definition h_sub0 : ttree := fresh TS TIn TOut TLay 0%N (SNode TS (3%N, false) [SNode TS (4%N, false) []]).
Definition h_in : TIn := (PerformLayout, 5%N).

Definition h_pass (t : ttree) : ttree := match h_memo 8 t h_in with Some (_, t') => t' | None => t end.
Definition h_tree1 := h_pass h_tree0.                      (* laid out: the hidden node is clean (cached) *)
Definition h_sub1 := h_pass h_sub0.                        (* laid out elsewhere: leaf(4) has a non-zero stored layout *)
(* set_children(mid, [sub]): two levels below the hidden node *)
Definition h_tree2 := mutate TS TIn TOut TLay h_tree1 [0; 0] (ESetKids _ _ _ _ [h_sub1]).
(* ... then even mark_dirty(root), then a pass *)
Definition h_tree3 := h_pass (mutate TS TIn TOut TLay h_tree2 [] (ENone _ _ _ _)).
(* set_children(hidden, [sub]): directly under the hidden node (its cache is cleared by mark_dirty) *)
Definition h_tree2' := mutate TS TIn TOut TLay h_tree1 [0] (ESetKids _ _ _ _ [h_sub1]).
Definition h_tree3' := h_pass h_tree2'.

Definition lay_at' (t : ttree) (p : list nat) : option N := option_map (lay_of TS TIn TOut TLay) (subtree TS TIn TOut TLay t p).
Definition none_at (t : ttree) (p : list nat) : option bool :=
  option_map (fun u => t_is_none (style_of TS TIn TOut TLay u)) (subtree TS TIn TOut TLay t p).

Lemma attach_below_hidden_witness :
  none_at h_tree3 [0] = Some true /\                       (* node [0] is display:none *)
  lay_at' h_tree1 [0; 0] = Some 0%N /\                     (* before: everything below it is zero *)
  lay_at' h_sub1 [0] = Some 5%N /\                         (* the attached subtree was laid out: leaf layout 5 *)
  lay_at' h_tree3 [0; 0; 0; 0] = Some 5%N /\               (* after attach + mark_dirty(root) + pass: still 5, below display:none *)
  lay_at' h_tree3' [0; 0; 0] = Some 0%N.                   (* attached one level higher: zeroed by the pass *)
Proof. vm_compute. repeat split; reflexivity. Qed.

Lemma attach_below_hidden_breaks_invariant :
  HiddenZero TS TIn TOut TLay t_is_none 0%N h_tree1 /\ ~ HiddenZero TS TIn TOut TLay t_is_none 0%N h_tree3.
Proof.
  split.
  - apply (cold_pass_hidden_zero TS TIn TOut TLay t_mode t_in_eqb t_is_none 0%N 0%N tv_algo tv_algo_WF tv_algo_H1
             8 h_tree0 h_in (fst (match h_memo 8 h_tree0 h_in with Some x => x | None => (0%N, h_tree0) end))).
    + reflexivity.
    + apply Cold_fresh.
    + vm_compute. reflexivity.
  - intros H.
    assert (Hs : subtree TS TIn TOut TLay h_tree3 [0] <> None) by (vm_compute; discriminate).
    destruct (subtree TS TIn TOut TLay h_tree3 [0]) as [h|] eqn:Eh; [|congruence].
    destruct (subtree TS TIn TOut TLay h [0; 0; 0]) as [u|] eqn:Eu.
    + assert (Hn : t_is_none (style_of TS TIn TOut TLay h) = true).
      { assert (X : none_at h_tree3 [0] = Some true) by (vm_compute; reflexivity).
        unfold none_at in X. rewrite Eh in X. cbn in X. congruence. }
      destruct (hidden_zero_at TS TIn TOut TLay t_is_none 0%N [0] h_tree3 h 0 [0; 0] u H Eh Hn Eu) as [Hl _].
      assert (X : lay_at' h_tree3 [0; 0; 0; 0] = Some 5%N) by (vm_compute; reflexivity).
      unfold lay_at' in X.
      assert (Y : subtree TS TIn TOut TLay h_tree3 [0; 0; 0; 0] = Some u).
      { change [0; 0; 0; 0] with ([0] ++ [0; 0; 0]).
        cbn [subtree app]. cbn [subtree] in Eh. destruct (nth_error (kids_of TS TIn TOut TLay h_tree3) 0); [|discriminate].
        injection Eh as ->. exact Eu. }
      rewrite Y in X. cbn in X. rewrite Hl in X. discriminate.
    + assert (X : lay_at' h_tree3 [0; 0; 0; 0] = Some 5%N) by (vm_compute; reflexivity).
      unfold lay_at' in X. cbn [subtree] in X, Eh, Eu.
      destruct (nth_error (kids_of TS TIn TOut TLay h_tree3) 0); [|discriminate].
      injection Eh as ->. cbn [subtree] in Eu. rewrite Eu in X. discriminate.
Qed.
