(* The COMPLETE engine (Model/TaffyEngine.v `taffy_algo`: block + flex + grid resumptions + leaves, Model/TaffyRoot.v `real_algo`) run
   with the REAL cache: the instance `memo_real` of the generic engine (Model/EngineReal.v) whose per-node cache is src/tree/cache.rs
   (one final-layout entry, nine measure slots, the lossy compatibility test `Cache.compat`, the slot function `Cache.slot_of_key`) over
   the key projection (known_dimensions, available_space) of the LayoutInput, plus compute_root_layout and sequences of passes with the
   per-node counters (queries, hits, lossy hits, evaluations, measure-function calls) of every pass.
   This is what `TaffyTree::compute_layout_with_measure` does WITHOUT the exact-key hook, for every node kind.
   `Num`-generic, definitions only.  (notes/REALCACHE.md section 6 said how; section 7 reports.)

     tkey_of           LayoutInput -> (known_dimensions, available_space) as Model/Cache.v's `key`
     tosize            LayoutOutput.size                 t_from_outer   LayoutOutput::from_outer_size
     t_is_outer teq    ghost: the output is what from_outer_size makes of its size (numbers compared with `teq`)
     taffy_mcalls      measure-function calls of ONE evaluation of a node: a node with children calls none, a childless node as many
                       as the log of Leaf.compute_leaf_layout says (0 or 1)
     trl_memo teq      memo_real for real_algo;  trl_compute_root: compute_root_layout;  trl_passes: compute_layout several times on the
                       same tree, counters reset per pass *)
From Coq Require Import ZArith NArith Bool List.
From TV Require Import Num.Num.
From TV Require Import Model.Common Model.Leaf Model.FlexAlgBase Model.BlockFlexEngine Model.TaffyEngine Model.TaffyRoot.
From TV Require Model.Cache Model.Engine Model.EngineReal.
Import ListNotations.

Section TaffyEngineReal.
  Context {T : Type} `{Num T}.

  Definition tk_cavail (a : AvailableSpace T) : Cache.avail T :=
    match a with Definite v => Cache.Definite v | MinContent => Cache.MinContent | MaxContent => Cache.MaxContent end.
  Definition tkey_of (i : FIn T) : Cache.key T :=
    {| Cache.kd_w := width (qi_known i); Cache.kd_h := height (qi_known i);
       Cache.av_w := tk_cavail (width (qi_avail i)); Cache.av_h := tk_cavail (height (qi_avail i)) |}.
  Definition tosize (o : LayoutOutput T) : Cache.size T := {| Cache.width := width (out_size o); Cache.height := height (out_size o) |}.
  Definition t_from_outer (s : Cache.size T) : LayoutOutput T :=
    mkOutput (mkSize (Cache.width s) (Cache.height s)) size_ZERO point_NONE margin_set_ZERO margin_set_ZERO false.

  (* ghost: the output carries nothing but its size (so a measure entry, which keeps the size only, reproduces it) *)
  Definition t_is_outer (teq : T -> T -> bool) (o : LayoutOutput T) : bool :=
    teq (width (out_content_size o)) zero && teq (height (out_content_size o)) zero
    && match px (first_baselines o), py (first_baselines o) with None, None => true | _, _ => false end
    && teq (ms_positive (top_margin o)) zero && teq (ms_negative (top_margin o)) zero
    && teq (ms_positive (bottom_margin o)) zero && teq (ms_negative (bottom_margin o)) zero
    && negb (margins_can_collapse_through o).

  Definition taffy_leaf_mcalls (s : TStyle T) (i : FIn T) : N :=
    match compute_leaf_layout (leaf_input i) (t_core s) (ts_measure s) with
    | Some (_, log) => N.of_nat (length log)
    | None => 0%N
    end.
  Definition taffy_mcalls (s : TStyle T) (kids : list (TStyle T)) (i : FIn T) : N :=
    match kids with [] => taffy_leaf_mcalls s i | _ => 0%N end.

  Definition trtree : Type := EngineReal.rtree (TStyle T) (FIn T) (LayoutOutput T) (FLay T).

  Section Key.
    Variable teq : T -> T -> bool.        (* ghost only: equality of numbers inside `in_eqb` / `is_outer` (what counts as a lossy hit) *)

    Definition trl_memo : nat -> trtree -> FIn T -> option (LayoutOutput T * trtree) :=
      EngineReal.memo_real (TStyle T) (FIn T) (LayoutOutput T) (FLay T) qi_mode t_is_none output_HIDDEN (f_with_order 0) real_algo
                           taffy_mcalls tkey_of tosize t_from_outer (fin_eqb_with teq) (t_is_outer teq).
    Definition trl_fresh : Engine.sk (TStyle T) -> trtree :=
      EngineReal.fresh_real (TStyle T) (FIn T) (LayoutOutput T) (FLay T) (f_with_order 0).

    (* compute_root_layout (as Model/TaffyRoot.v `taffy_compute_root`, over the real-cache engine) *)
    Definition trl_compute_root (fuel : nat) (t : trtree) (avail : Size (AvailableSpace T)) : option trtree :=
      let st := EngineReal.gstyle _ _ _ t in
      match trl_memo fuel t (taffy_root_input st avail) with
      | Some (o, t') => Some (EngineReal.gset_lay _ _ _ t' (taffy_root_layout st avail o))
      | None => None
      end.

    (* compute_layout several times on the same tree (no mutation in between): after every pass the stored layouts and the counters of
       that pass, all nodes in pre-order; and the final tree *)
    Fixpoint trl_passes (fuel : nat) (t : trtree) (avails : list (Size (AvailableSpace T)))
      : option (list (list (FLay T) * list EngineReal.stats) * trtree) :=
      match avails with
      | [] => Some ([], t)
      | a :: rest =>
          match trl_compute_root fuel (EngineReal.greset _ _ _ t) a with
          | Some t' =>
              match trl_passes fuel t' rest with
              | Some (ls, t'') => Some ((EngineReal.glays _ _ _ t', EngineReal.gcounts _ _ _ t') :: ls, t'')
              | None => None
              end
          | None => None
          end
      end.

    Definition trl_layout_passes (fuel : nat) (t : Engine.sk (TStyle T)) (avails : list (Size (AvailableSpace T)))
      : option (list (list (FLay T) * list EngineReal.stats) * trtree) :=
      trl_passes fuel (trl_fresh t) avails.
  End Key.
End TaffyEngineReal.
