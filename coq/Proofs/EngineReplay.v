(* The traced memo of Model/EngineReplay.v is Engine.memo plus a log: forgetting the events gives exactly Engine.memo,
   for every instance of the engine (any styles, inputs, outputs, key equality, algorithm). *)
From Coq Require Import List Bool Arith Lia.
From TV Require Import Model.Engine Model.EngineReplay.
Import ListNotations.

Section TracedProofs.
  Variables (S In Out Lay : Type).
  Variable mode : In -> RunMode.
  Variable in_eqb : In -> In -> bool.
  Variable is_none : S -> bool.
  Variable hidden_out : Out.
  Variable zero_lay : Lay.
  Variable algo : S -> list S -> In -> Alg In Out Lay.
  Notation tree := (Engine.tree S In Out Lay).
  Notation ev_t := (event S In).

  Definition forget_events {A B C} (x : option (A * B * C)) : option (A * B) := option_map fst x.

  Lemma run_memo_traced_fst :
    forall (evt : tree -> In -> option (Out * tree * list ev_t)) (ev : tree -> In -> option (Out * tree)),
      (forall t i, forget_events (evt t i) = ev t i) ->
      forall a kids,
        forget_events (run_memo_tr S In Out Lay evt kids a) = run_memo S In Out Lay ev kids a.
  Proof.
    intros evt ev Hev. induction a as [o | c i k IH | c l k IH]; intros kids; simpl.
    - reflexivity.
    - destruct (nth_error kids c) as [t|]; [|reflexivity].
      rewrite <- (Hev t i). destruct (evt t i) as [[[o t'] e1]|]; simpl; [|reflexivity].
      rewrite <- (IH o (replace_nth c t' kids)).
      destruct (run_memo_tr S In Out Lay evt (replace_nth c t' kids) (k o)) as [[[o' ks] e2]|]; reflexivity.
    - destruct (nth_error kids c) as [t|]; [|reflexivity].
      rewrite <- (IH (replace_nth c (set_lay S In Out Lay t l) kids)).
      destruct (run_memo_tr S In Out Lay evt (replace_nth c (set_lay S In Out Lay t l) kids) k) as [[[o' ks] e2]|]; reflexivity.
  Qed.

  Theorem memo_traced_fst :
    forall fuel t i,
      forget_events (memo_tr S In Out Lay mode in_eqb is_none hidden_out zero_lay algo fuel t i)
      = memo S In Out Lay mode in_eqb is_none hidden_out zero_lay algo fuel t i.
  Proof.
    induction fuel as [|f IH]; intros t i; [reflexivity|].
    destruct t as [s c l kids]. simpl.
    destruct (mode i); try reflexivity.
    - destruct (cget In Out mode in_eqb c i); [reflexivity|].
      destruct (is_none s); [reflexivity|].
      rewrite <- (run_memo_traced_fst _ _ IH).
      destruct (run_memo_tr S In Out Lay (memo_tr S In Out Lay mode in_eqb is_none hidden_out zero_lay algo f) kids
                  (algo s (map (style_of S In Out Lay) kids) i)) as [[[o ks] e]|]; reflexivity.
    - destruct (cget In Out mode in_eqb c i); [reflexivity|].
      destruct (is_none s); [reflexivity|].
      rewrite <- (run_memo_traced_fst _ _ IH).
      destruct (run_memo_tr S In Out Lay (memo_tr S In Out Lay mode in_eqb is_none hidden_out zero_lay algo f) kids
                  (algo s (map (style_of S In Out Lay) kids) i)) as [[[o ks] e]|]; reflexivity.
  Qed.

  (* the log is well nested and names the right nodes: a traced evaluation of a node in a non-hidden mode starts with
     the Query event of that node and ends with its Return event *)
  Theorem memo_traced_brackets :
    forall fuel t i o t' evs,
      mode i <> PerformHiddenLayout ->
      memo_tr S In Out Lay mode in_eqb is_none hidden_out zero_lay algo fuel t i = Some (o, t', evs) ->
      exists hit mid, evs = EQuery S In (style_of S In Out Lay t) i hit :: mid ++ [EReturn S In (style_of S In Out Lay t)]
                      /\ (hit = true -> mid = [] /\ t' = t).
  Proof.
    intros fuel t i o t' evs Hm H. destruct fuel as [|f]; [discriminate|].
    destruct t as [s c l kids]. simpl in H.
    destruct (mode i) eqn:E; try congruence.
    - destruct (cget In Out mode in_eqb c i).
      + inversion H; subst. exists true, []. split; [reflexivity|]. intros _. split; reflexivity.
      + destruct (is_none s).
        * inversion H; subst. exists false, (hide_tr S In Out Lay (Node S In Out Lay s c l kids)). split; [reflexivity|]. discriminate.
        * destruct (run_memo_tr _ _ _ _ _ _ _) as [[[o1 ks] e]|]; [|discriminate].
          inversion H; subst. eexists false, _. split; [reflexivity|]. discriminate.
    - destruct (cget In Out mode in_eqb c i).
      + inversion H; subst. exists true, []. split; [reflexivity|]. intros _. split; reflexivity.
      + destruct (is_none s).
        * inversion H; subst. exists false, (hide_tr S In Out Lay (Node S In Out Lay s c l kids)). split; [reflexivity|]. discriminate.
        * destruct (run_memo_tr _ _ _ _ _ _ _) as [[[o1 ks] e]|]; [|discriminate].
          inversion H; subst. eexists false, _. split; [reflexivity|]. discriminate.
  Qed.
End TracedProofs.
