(* The forest layer of Model/EngineForest.v over the cache INTERFACE of Model/EngineReal.v (`gtree`, `cempty`, `cclear`, `cdirty`):
   a history of TaffyTree API calls replayed on a forest of `gtree`s.  Same op encoding, same clauses, same choice of the node every
   mutator edits / marks dirty as Model/EngineForest.v (which stays the layer of the exact-key instances); the differences are exactly
   the places where the code touches the cache:
     mutators       "edit, then mark_dirty" with `gmark_dirty` = TaffyTree::mark_dirty over `cclear` (Cache::clear) and its AlreadyEmpty
                    early exit `cdirty` (src/tree/taffy_tree.rs l.870-893)
     new leaves     `cempty` (Cache::new)
     dirty flags    `cdirty` (TaffyTree::dirty = Cache::is_empty, l.896-899)
   Instance: Model/EngineReplayRealRun.v (the REAL cache of src/tree/cache.rs, event-level correspondence without the exact-key hook).
   Definitions only. *)
From Coq Require Import List Bool Arith NArith ZArith Lia.
From TV Require Import Num.Num Model.Engine Model.EngineReal Model.EngineForest.
Import ListNotations.

Section GForest.
  Variables (S Lay C : Type).
  Variable cempty : C.
  Variable cclear : C -> C.
  Variable cdirty : C -> bool.
  Variable sid : S -> N.                      (* the node id carried by a style *)
  Variable new_style : N -> bool -> S.        (* style of a freshly created leaf: id, display:none *)
  Variable restyle : S -> bool -> S.          (* set_style: old style, display:none of the new one *)
  Variable rectx : S -> S.                    (* set_node_context *)
  Variable zero_lay : Lay.
  Notation tree := (gtree S Lay C).
  Notation GN := (GNode S Lay C).
  (* compute_layout(root) with the root input tag: the new tree and the (encoded) events of the pass *)
  Variable do_layout : tree -> N -> option (tree * list Z).

  (* subtree access / update by path, edits, "edit the node at path p, then mark_dirty it" (Model/Engine.v `mutate`) *)
  Fixpoint gsubtree (t : tree) (p : list nat) : option tree :=
    match p with
    | [] => Some t
    | x :: p' => match nth_error (gkids S Lay C t) x with Some ch => gsubtree ch p' | None => None end
    end.
  Fixpoint gupdate (t : tree) (p : list nat) (f : tree -> tree) : tree :=
    match p with
    | [] => f t
    | x :: p' =>
        match t with
        | GNode _ _ _ s c l n kids =>
            match nth_error kids x with
            | Some ch => GN s c l n (replace_nth x (gupdate ch p' f) kids)
            | None => t
            end
        end
    end.
  Inductive gedit :=
  | GSetStyle (s : S)
  | GSetKids (kids : list tree)
  | GNoEdit.
  Definition gapply_edit (e : gedit) (t : tree) : tree :=
    match t, e with
    | GNode _ _ _ _ c l n kids, GSetStyle s => GN s c l n kids
    | GNode _ _ _ s c l n _, GSetKids kids => GN s c l n kids
    | _, GNoEdit => t
    end.
  Definition gmutate (t : tree) (p : list nat) (e : gedit) : tree :=
    gmark_dirty S Lay C cclear cdirty (gupdate t p (gapply_edit e)) p.

  Definition gforest := list tree.
  Definition gleaf (id : N) (none : bool) : tree := GN (new_style id none) cempty zero_lay stats0 [].

  Fixpoint gfind (t : tree) (id : N) {struct t} : option (list nat) :=
    match t with
    | GNode _ _ _ s _ _ _ kids =>
        if N.eqb (sid s) id then Some []
        else (fix go (ks : list tree) (k : nat) : option (list nat) :=
                match ks with
                | [] => None
                | c :: r => match gfind c id with Some p => Some (k :: p) | None => go r (Datatypes.S k) end
                end) kids 0
    end.

  (* glocate a node: index of its root in the forest and path below it *)
  Fixpoint glocate (f : gforest) (id : N) (k : nat) : option (nat * list nat) :=
    match f with
    | [] => None
    | t :: r => match gfind t id with Some p => Some (k, p) | None => glocate r id (Datatypes.S k) end
    end.

  Definition gset_root (f : gforest) (k : nat) (t : tree) : gforest := replace_nth k t f.

  Definition gsubtree_at (f : gforest) (id : N) : option tree :=
    match glocate f id 0 with
    | Some (k, p) => match nth_error f k with Some t => gsubtree t p | None => None end
    | None => None
    end.

  (* "edit the node, then mark_dirty it" at the node with this id *)
  Definition gmutate_id (f : gforest) (id : N) (e : gedit) : gforest :=
    match glocate f id 0 with
    | Some (k, p) => match nth_error f k with Some t => gset_root f k (gmutate t p e) | None => f end
    | None => f
    end.

  Definition gkids_of_id (f : gforest) (id : N) : list tree :=
    match gsubtree_at f id with Some t => gkids S Lay C t | None => [] end.

  Definition gparent_of (f : gforest) (id : N) : option N :=
    match glocate f id 0 with
    | Some (k, p) =>
        match p with
        | [] => None
        | _ => match nth_error f k with
               | Some t => match gsubtree t (removelast p) with
                           | Some par => Some (sid (gstyle S Lay C par))
                           | None => None end
               | None => None end
        end
    | None => None
    end.

  (* detach the child at index idx of parent (it becomes a root and keeps its caches); parent is marked dirty *)
  Definition gdetach_idx (f : gforest) (par : N) (idx : nat) : gforest :=
    let ks := gkids_of_id f par in
    match nth_error ks idx with
    | Some ch => gmutate_id f par (GSetKids (remove_at ks idx)) ++ [ch]
    | None => f
    end.

  Definition gindex_of (ks : list tree) (id : N) : option nat :=
    (fix go (l : list tree) (k : nat) :=
       match l with [] => None | c :: r => if N.eqb (sid (gstyle S Lay C c)) id then Some k else go r (Datatypes.S k) end) ks 0.

  Definition grestyle_id (f : gforest) (id : N) (g : S -> S) : gforest :=
    match gsubtree_at f id with
    | Some t => gmutate_id f id (GSetStyle (g (gstyle S Lay C t)))
    | None => f
    end.

  (* one API call; the second component is what the layout pass logged (empty for every other call) *)
  Definition gstep_op (f : gforest) (o : list Z) : gforest * list Z :=
    match o with
    | [0; n; none]%Z =>                                     (* set_style *)
        (grestyle_id f (Z.to_N n) (fun s => restyle s (Z.eqb none 1)), [])
    | [1; p; nid; none]%Z =>                                (* add_child(p, new leaf) *)
        (gmutate_id f (Z.to_N p) (GSetKids (gkids_of_id f (Z.to_N p) ++ [gleaf (Z.to_N nid) (Z.eqb none 1)])), [])
    | [2; p; idx; nid; none]%Z =>                           (* insert_child_at_index *)
        (gmutate_id f (Z.to_N p) (GSetKids (insert_at (gkids_of_id f (Z.to_N p)) (Z.to_nat idx) (gleaf (Z.to_N nid) (Z.eqb none 1)))), [])
    | [3; p; idx]%Z => (gdetach_idx f (Z.to_N p) (Z.to_nat idx), [])   (* remove_child_at_index *)
    | [4; p; idx; nid; none]%Z =>                           (* replace_child_at_index: old child becomes a root *)
        let ks := gkids_of_id f (Z.to_N p) in
        match nth_error ks (Z.to_nat idx) with
        | Some old => (gmutate_id f (Z.to_N p) (GSetKids (replace_nth (Z.to_nat idx) (gleaf (Z.to_N nid) (Z.eqb none 1)) ks)) ++ [old], [])
        | None => (f, [])
        end
    | [5; p]%Z => (gmutate_id f (Z.to_N p) (GSetKids (rot (gkids_of_id f (Z.to_N p)))), [])   (* set_children, rotated *)
    | [6; n; p]%Z =>                                        (* remove_child(old parent, n) then add_child(p, n) *)
        let f1 := match gparent_of f (Z.to_N n) with
                  | Some par => match gindex_of (gkids_of_id f par) (Z.to_N n) with Some idx => gdetach_idx f par idx | None => f end
                  | None => f end in
        match glocate f1 (Z.to_N n) 0 with
        | Some (k, []) =>
            match nth_error f1 k with
            | Some sub => let f2 := remove_at f1 k in
                          (gmutate_id f2 (Z.to_N p) (GSetKids (gkids_of_id f2 (Z.to_N p) ++ [sub])), [])
            | None => (f1, []) end
        | _ => (f1, [])
        end
    | [7; n]%Z =>                                           (* remove(n): parent marked dirty, children become roots *)
        let f1 := match gparent_of f (Z.to_N n) with
                  | Some par => match gindex_of (gkids_of_id f par) (Z.to_N n) with Some idx => gdetach_idx f par idx | None => f end
                  | None => f end in
        match glocate f1 (Z.to_N n) 0 with
        | Some (k, []) => match nth_error f1 k with
                          | Some sub => (remove_at f1 k ++ gkids S Lay C sub, [])
                          | None => (f1, []) end
        | _ => (f1, [])
        end
    | [8; n]%Z => (grestyle_id f (Z.to_N n) rectx, [])       (* set_node_context *)
    | [9; n]%Z => (gmutate_id f (Z.to_N n) GNoEdit, [])     (* mark_dirty *)
    | [10; r; tag]%Z =>                                     (* compute_layout(root r) *)
        match glocate f (Z.to_N r) 0 with
        | Some (k, []) => match nth_error f k with
                          | Some t => match do_layout t (Z.to_N tag) with
                                      | Some (t', evs) => (gset_root f k t', evs)
                                      | None => (f, [(-99)%Z]) end
                          | None => (f, []) end
        | _ => (f, [])
        end
    | _ => (f, [])
    end.

  (* dirty gflags of all live nodes, sorted by id *)
  Fixpoint gflags (t : tree) : list (N * bool) :=
    match t with GNode _ _ _ s c _ _ kids => (sid s, cdirty c) :: flat_map gflags kids end.
  Fixpoint ginsert_sorted (x : N * bool) (l : list (N * bool)) : list (N * bool) :=
    match l with [] => [x] | y :: r => if N.leb (fst x) (fst y) then x :: l else y :: ginsert_sorted x r end.
  Definition gall_flags (f : gforest) : list Z :=
    map (fun p : N * bool => if snd p then 1%Z else 0%Z) (fold_right ginsert_sorted [] (flat_map gflags f)).

  (* initial forest from (parent, none) pairs: nodes are numbered in pre-order, so children attach in order *)
  Fixpoint gbuild_nodes (k : nat) (l : list Z) (id : N) (f : gforest) : gforest * list Z :=
    match k with
    | O => (f, l)
    | Datatypes.S k' =>
        match l with
        | par :: none :: r =>
            let nd := gleaf id (Z.eqb none 1) in
            let f' := if (par <? 0)%Z then f ++ [nd]
                      else match glocate f (Z.to_N par) 0 with
                           | Some (j, p) => match nth_error f j with
                                            | Some t => gset_root f j (gupdate t p
                                                          (fun u => match u with GNode _ _ _ s c l0 n0 ks => GN s c l0 n0 (ks ++ [nd]) end))
                                            | None => f end
                           | None => f end in
            gbuild_nodes k' r (id + 1)%N f'
        | _ => (f, l)
        end
    end.

  (* replay the ops (each prefixed by its length): the output is the dirty gflags of the initial forest, then per call
     -1, what the pass logged, the dirty gflags *)
  Definition grun_ops_out (f0 : gforest) (ops : list Z) : list Z :=
    let opl := take_ops (length ops) ops in
    snd (fold_left (fun (st : gforest * list Z) o =>
                      let '(f', evs) := gstep_op (fst st) o in
                      (f', snd st ++ (-1)%Z :: evs ++ gall_flags f')) opl (f0, gall_flags f0)).
End GForest.

(* one tree, one API call at a time (Model/Engine.v `op` / `step` / `run_ops` over the interface): a mutation at a path, or
   compute_layout with a root input *)
Section GHistory.
  Variables (S In Out Lay : Type).
  Variable mode : In -> RunMode.
  Variable is_none : S -> bool.
  Variable hidden_out : Out.
  Variable zero_lay : Lay.
  Variable algo : S -> list S -> In -> Alg In Out Lay.
  Variable mcalls : S -> list S -> In -> N.
  Variable C : Type.
  Variable cget : C -> In -> option Out.
  Variable clossy : C -> In -> bool.
  Variable cstore : C -> In -> Out -> C.
  Variable cclear : C -> C.
  Variable cdirty : C -> bool.
  Notation tree := (gtree S Lay C).

  Inductive gop :=
  | GOMutate (p : list nat) (e : gedit S Lay C)
  | GOLayout (fuel : nat) (i : In).
  Definition gstep (t : tree) (o : gop) : tree :=
    match o with
    | GOMutate p e => gmutate S Lay C cclear cdirty t p e
    | GOLayout f i =>
        match gmemo S In Out Lay mode is_none hidden_out zero_lay algo mcalls C cget clossy cstore cclear f t i with
        | Some (_, t') => t'
        | None => t
        end
    end.
  Definition grun_ops (t : tree) (ops : list gop) : tree := fold_left gstep ops t.
End GHistory.
