#!/bin/bash
# usage: confirm_seed.sh <PID> ; uses /tmp/seed/<PID> worktree and /tmp/seed/<PID>/_out
PID=$1; W=/tmp/seed/$PID; O=$W/_out; L=/root/w/seedlog-$PID; mkdir -p $L
export CARGO_NET_OFFLINE=true
cd $W || exit 2
git checkout -q -- . ; rm -f tests/seed_demo.rs
git apply --check $O/patch.diff || { echo "PATCH DOES NOT APPLY"; exit 2; }
cp $O/demo.rs tests/seed_demo.rs
cargo test --offline --test seed_demo > $L/demo_without.log 2>&1; DW=$?
git apply $O/patch.diff
cargo test --offline --test seed_demo > $L/demo_with.log 2>&1; DP=$?
rm -f tests/seed_demo.rs
cargo test --workspace --no-fail-fast --offline > $L/suite.log 2>&1; SR=$?
PASS=$(grep -E "^test result" $L/suite.log | awk '{p+=$4; f+=$6} END {print p" "f}')
echo "$PID suite=[$PASS] suite_rc=$SR demo_with_rc=$DP demo_without_rc=$DW" | tee $L/result.txt
