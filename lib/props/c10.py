"""C10 -- block flow: stacking order, fill width, sibling margin collapse.
T (Gen/BlockGen.v: CollapsibleMarginSet) + proofs (Props/C10.v over XQ) + K (vh c10 cases: block container of leaves through the
public API vs Model/BlockRun.v over F32, bit for bit) + search (vh c10 oracle: the three clauses on random nested trees)."""
import struct
from ..common import *
from ..stages import *


def _f(b):
    return struct.unpack('f', struct.pack('I', b & 0xffffffff))[0]


def _sign(tag, bits):
    if tag == 2:
        return 'auto'
    v = _f(bits)
    return 'neg' if v < 0 else ('pos' if v > 0 else 'zero')


def case_features(c):
    """Shape of one K case from its C integers (layout: see coq/Model/BlockRun.v)."""
    n = c[4]
    kids = [c[62 + 57 * k:119 + 57 * k] for k in range(n)]
    feats = set()
    feats.add('root-width-' + ('auto' if c[5 + 15] == 2 else 'definite'))
    feats.add('root-height-' + ('auto' if c[5 + 17] == 2 else 'definite'))
    feats.add('avail-width-' + ['definite', 'min-content', 'max-content'][c[0]])
    inflow = []
    for k in kids:
        if k[0] == 3:
            feats.add('hidden-child')
        elif k[6] == 1:
            feats.add('absolute-child')
        else:
            inflow.append(k)
            if k[0] in (1, 2):
                feats.add('non-block-leaf')
            if k[1]:
                feats.add('table-child')
            if k[17] == 2 and k[54] == 0 or (k[17] == 0 and _f(k[18]) == 0.0):
                feats.add('empty-or-zero-height-child')
            if k[17] == 1:
                feats.add('percent-height-child')
            if any(k[7 + 2 * i] != 2 for i in range(4)):
                feats.add('relative-inset')
    pairs = set()
    for a, b in zip(inflow, inflow[1:]):
        pairs.add((_sign(a[35], a[36]), _sign(b[33], b[34])))   # margin-bottom of a, margin-top of b
    return feats, pairs, len(inflow)


def run(rep, tier, seed, replay=None):
    res, changed = proof_stage(rep, 'C10', extra_trusted=[
        'modelled by hand (tied by K): block.rs generate_item_list, perform_final_layout_on_in_flow_children, the decisions of '
        'compute_inner / compute_block_layout / compute_root_layout, determine_content_based_container_width over leaves, leaf.rs '
        'compute_leaf_layout (InherentSize; measure functions that ignore the available space), Cache::get for the final-layout entry',
        'each in-flow child\'s LayoutOutput is an oracle value in the theorems; K computes it with the leaf model',
        'calc() values and baselines are not modelled; absolute children in K1: all insets auto; in the whole-tree K4 the absolute pass is '
        'the translated C11 kernel (Model/BlockAbs.v) with arbitrary insets',
        'whole-tree theorems C10_block_tree_*: engine skeleton with the exact-key memo (Model/Engine.v), hand models Model/BlockAlg.v / '
        'BlockEngine.v / BlockAbs.v / BlockRoot.v tied by K4; the premises on child outputs are on the final cache entries (real outputs)',
        'oracle: harness re-statement of the clauses (harness/src/c10.rs check_container) on layouts obtained through the low-level API'])
    rc, out, binp, dt = build_harness('release')
    if rc != 0:
        rep.add_broken('build', 'harness', out[-1500:])
        return
    block_changed = [c for c in changed if c.startswith('gen_block:')]
    n = 1200 if tier == 'quick' else 8000
    if block_changed:
        n = max(n, 3000)
    rep.cov['fingerprints_changed_block'] = block_changed
    # ---- K
    if replay and 'kcase' in replay:
        kseed, kidx = replay['kcase']
        rc, out = vh(binp, ['c10', 'case', kseed, kidx], timeout=60)
        idx_of = [kidx]
    else:
        kseed = seed
        rc, out = vh(binp, ['c10', 'cases', seed, n], timeout=300)
        idx_of = None
    cases, impl = parse_cr(out)
    if rc != 0 or not cases:
        rep.add_broken('correspondence', 'vh c10 cases', 'harness failed: ' + out[-500:])
        return
    if idx_of is None:
        idx_of = list(range(len(cases)))
    bad = []
    try:
        with Lock('coq'):
            rcm, outm, _ = coq_make(['Model/BlockRun.vo'])
        if rcm != 0:
            raise RuntimeError(outm[-1500:])
        model = run_model('C10', 'From TV Require Import Model.BlockRun.', 'run_case', cases, scope='Z', elem='list Z')
        bad = diff_results(rep, 'block container of leaves (TaffyTree, unrounded layouts) vs Model.BlockRun.run_case over F32',
                           cases, impl, model)
    except RuntimeError as ex:
        rep.add_broken('correspondence', 'model evaluation', str(ex)[-1500:])
    # ---- K2: every block container of the oracle's nested trees (flex / grid / block children), the LayoutOutputs the children
    # returned being recorded through the low-level API and supplied to the model as oracle values: same block_inflow, plus
    # compute_inner's decisions (outer height, collapse-through flag, top / bottom margin sets) and what was passed to each child
    bad2, k2_trees = [], (500 if tier == 'quick' else 6000)
    if block_changed:
        k2_trees = max(k2_trees, 2500)
    if not (replay and ('kcase' in replay or 'ocase' in replay)):
        rc, out = vh(binp, ['c10', 'kcases2', seed, k2_trees], timeout=300)
        tags = [l.split()[1:] for l in out.split('\n') if l.startswith('T ')]
        cases2, impl2 = parse_cr(out)
        if rc != 0 or not cases2 or len(tags) != len(cases2):
            rep.add_broken('correspondence', 'vh c10 kcases2', 'harness failed: ' + out[-500:])
        else:
            try:
                model2 = run_model('C10b', 'From TV Require Import Model.BlockRun.', 'run_case2', cases2, scope='Z', elem='list Z')
                keep = [i for i, m in enumerate(model2) if m != [-1]]
                rep.cov['k2_containers'] = len(keep)
                rep.cov['k2_skipped_content_based_width'] = len(cases2) - len(keep)
                rep.cov['k2_with_flex_or_grid_children'] = sum(1 for i in keep if any(
                    cases2[i][11 + 57 + 67 * k + 57] == 1 and cases2[i][11 + 57 + 67 * k + 0] in (1, 2) for k in range(cases2[i][10])))
                bad2 = diff_results(rep, 'block container with recorded child outputs (low-level API) vs Model.BlockRun.run_case2 over F32',
                                    [cases2[i] for i in keep], [impl2[i] for i in keep], [model2[i] for i in keep])
                bad2 = [(tags[cases2.index(c)], c, a, b) for c, a, b in bad2]
            except RuntimeError as ex:
                rep.add_broken('correspondence', 'model evaluation (K2)', str(ex)[-1500:])
        # ---- K3 (added with the C05 / C06 blindness theorems about this model): the K2 protocol on trees where 30 % of the nodes are
        # position:absolute and 25 % display:none, keeping the containers in which such children sit between in-flow ones
        from . import _hidabs
        _hidabs.block_k(rep, 'C10', binp, seed + 1010, 1600 if tier != 'quick' or block_changed else 400)
        # ---- K4 (wave 5): WHOLE TREES -- the engine instance of block containers and leaves (compute_root_layout + exact-key memo +
        # block resumption with the REAL absolute routine + leaf) that C10_block_tree_* / C04 / C12 / C05 / C06 block-engine theorems
        # are about vs TaffyTree::compute_layout_with_measure, every node's unrounded layout, bit for bit
        from . import _blocktree
        _blocktree.tree_k(rep, 'C10', binp, seed + 505, 4000 if tier != 'quick' or block_changed else 600)
    feats, pairs, distinct = {}, set(), set()
    inflow_total = 0
    for c in cases:
        f, p, ni = case_features(c)
        for x in f:
            feats[x] = feats.get(x, 0) + 1
        pairs |= p
        inflow_total += ni
        if ni >= 1:
            distinct.add(tuple(c))
    rep.cov['distinct_nontrivial'] = len(distinct)
    rep.cov['rule'] = ('K case = (available space, root block style, 1..7 child styles + measure data), generated from one PRNG stream '
                       'per (seed, index); non-trivial = at least one in-flow child; distinct = distinct integer encodings; every case '
                       'compares the container size, content size and per child order/location/size/margins/scrollbar/padding/border '
                       'as bit patterns')
    rep.cov['input_distribution'] = dict(sorted(feats.items()))
    rep.cov['adjacent_margin_sign_combinations'] = sorted('%s/%s' % p for p in pairs)
    rep.cov['inflow_children_total'] = inflow_total
    rep.cov['samples'] = [{'case': c[:70], 'impl': a[:30]} for c, a in list(zip(cases, impl))[:2]]
    rep.cov['samples'].append({'theorem': 'C10_order_no_overlap_partial : fin_params P -> Forall (nonneg_ok P) xs -> nth_error rs i = Some ri -> '
                                          'nth_error rs j = Some rj -> i < j -> inflow ri -> inflow rj -> val (y ri) + val (h ri) <= val (y rj)'})
    rep.cov['samples'].append({'theorem': 'C10_margin_collapse_through_partial : ... ~ mixed_ms (top_set r_j) -> val (y r_j) - (val (y r_i) + val (h r_i)) '
                                          '== val (ms_resolve (ms_collapse_with_set (through_union (bottom_set r_i) rs_m) (top_set r_j)))'})
    # ---- known-finding witnesses: they must still fail on the implementation
    known_entries = {f['id']: f for f in known_findings('C10') if f.get('status') == 'known'}
    seen_known = {}

    def note_known(cls, detail):
        if cls not in seen_known:
            seen_known[cls] = [0, detail]
        seen_known[cls][0] += 1

    stale = []
    rc, out = vh(binp, ['c10', 'witness'], timeout=60)
    m = re.search(r'WITNESS child_y=(\S+) child_h=(\S+) sibling_y=(\S+)', out)
    if m and float(m.group(3)) < float(m.group(1)) + float(m.group(2)) and 'KNOWN 0 ct-positive-height' in out:
        note_known('ct-positive-height', 'witness: child at y=%s height %s, next sibling at y=%s' % m.groups())
    else:
        stale.append('ct-positive-height')
    rc, out = vh(binp, ['c10', 'witness2'], timeout=60)
    m = re.search(r'WITNESS2 a_bottom=(\S+) b_y=(\S+)', out)
    if m and abs(float(m.group(2)) - 30.0) > 0.01 and 'KNOWN 0 mixed-sign-top-set' in out:
        note_known('mixed-sign-top-set', 'witness: B at y=%s, adjoining margins {-10, 20, -5} give y=30' % m.group(2))
    else:
        stale.append('mixed-sign-top-set')
    rc, out = vh(binp, ['c10', 'insetwitness'], timeout=60)
    m = re.search(r'INSETWITNESS a_y=(\S+) a_h=(\S+) b_y=(\S+)', out)
    if m and float(m.group(3)) < float(m.group(1)) + float(m.group(2)):
        note_known('relative-inset-overlap', 'witness: first child at y=%s height %s, next sibling at y=%s' % m.groups())
    else:
        stale.append('relative-inset-overlap')
    rep.cov['known_findings_not_reproduced'] = stale

    def absorb(out, kind, mk_replay):
        """FAIL lines -> violations, KNOWN lines -> known findings (only classes listed in known_findings.json)."""
        nv = 0
        for l in out.split('\n'):
            if l.startswith('KNOWN '):
                _, idx, cls, msg = l.split(' ', 3)
                if cls in known_entries:
                    note_known(cls, '%s %s: %s' % (kind, idx, msg))
                    continue
                l = 'FAIL %s %s' % (idx, msg)
            if l.startswith('FAIL '):
                _, idx, msg = l.split(' ', 2)
                if nv < 3:
                    rep.add_violation(msg, mk_replay(int(idx)))
                nv += 1
        return nv

    # ---- a K disagreement is decided on the implementation alone: the three clauses on that very case
    for c, a, b in bad[:3]:
        i = idx_of[cases.index(c)]
        rc, out = vh(binp, ['c10', 'check-case', kseed, i], timeout=60)
        absorb(out, 'K case', lambda idx: {'kcase': [kseed, idx], 'cmd': 'vh c10 case %d %d v ; vh c10 check-case %d %d' % (kseed, idx, kseed, idx)})
    for tg, c, a, b in bad2[:3]:
        rc, out = vh(binp, ['c10', 'oracle-one', seed, tg[0]], timeout=60)
        absorb(out, 'oracle case', lambda idx: {'ocase': [seed, idx], 'cmd': 'vh c10 oracle-one %d %d' % (seed, idx)})
    # ---- search: direct oracle on random nested trees (always run)
    if replay and 'ocase' in replay:
        oseed, oidx = replay['ocase']
        rc, out = vh(binp, ['c10', 'oracle-one', oseed, oidx], timeout=60)
        absorb(out, 'oracle case', lambda idx: {'ocase': [oseed, idx], 'cmd': 'vh c10 oracle-one %d %d' % (oseed, idx)})
    else:
        budget = 300000 if tier == 'quick' else 3000000
        if rep.broken or block_changed:
            budget = max(budget, 400000)
        rc, out = vh(binp, ['c10', 'oracle', seed, budget], timeout=900)
        m = re.search(r'ORACLE trees=(\d+) containers=(\d+) order_pairs=(\d+) width_checks=(\d+) gap_checks=(\d+) gaps_through=(\d+)', out)
        if rc != 0 or not m:
            rep.add_broken('search', 'vh c10 oracle', out[-500:])
        else:
            rep.cov['oracle'] = dict(zip(['trees', 'block_containers', 'order_pairs', 'width_checks', 'gap_checks', 'gaps_with_collapsed_through_boxes'],
                                         [int(x) for x in m.groups()]))
            rep.cov['evaluations'] = rep.cov.get('evaluations', 0) + int(m.group(1))
        absorb(out, 'oracle case', lambda idx: {'ocase': [seed, idx], 'cmd': 'vh c10 oracle-one %d %d' % (seed, idx)})
        mc = re.search(r'classes=(\{.*\})', out)
        if mc:
            rep.cov['oracle_known_classes'] = mc.group(1)
    for cls, (cnt, detail) in sorted(seen_known.items()):
        rep.known.append('%s [%s; %d shown this run; e.g. %s]' % (known_entries[cls]['line'].replace('known: property=C10 ', ''), cls, cnt, detail[:300]))
