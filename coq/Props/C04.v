(* C04 -- layout is homogeneous under uniform scaling of all lengths.  Statements only; proofs in Proofs/ScalePrim.v,
   Proofs/ScaleProofs.v, Proofs/ScaleAbsProofs.v, Proofs/FlexFractionProofs.v, Proofs/ScaleNotes.v.

   Numbers: XQ (exact rationals + infinities + NaN), scale factor k > 0.  Vocabulary (Model/ScaleBase.v, Model/Scale.v,
   Model/ScaleAbs.v):
     x_scale k x     the length x multiplied by k (finite values multiplied; +-infinity and NaN kept)
     sc k a a'       a' is a scaled by k            := xeq a' (x_scale k a)     (xeq: equality of rationals, Q is not canonical)
     dl a a'         a' is the same pure number     := xeq a' a                 (percentages, flex factors, aspect ratio, counts)
     *_rel           the componentwise lifts to Option / Size / Rect / Point / AvailableSpace / style lengths / records;
                     enums, booleans, orders are equal
     *_scale         the functional scaling of a record; `X_rel k x (X_scale k x)` always holds
   A kernel f is homogeneous when related inputs give related outputs; with x' := scale k x this reads
   f (scale k x) ~ scale k (f x)  (C04_related_is_scaled).  No finiteness premise: the statements hold on all of XQ.

   What is proved: the primitive layer; every generated MaybeMath / MaybeResolve / aspect-ratio table; compute_leaf_layout
   and the root layout of a one-node tree (Model/Leaf.v, Model/Root.v: the kernels tied to the code by the C19
   correspondence); the three absolutely-positioned kernels incl. their style resolution (Model/AbsPos.v over the
   regenerated Gen/AbsPosGen.v: C11 correspondence).  What is refuted: pixel rounding, the cache's is_roughly_equal, the
   grid THRESHOLD comparison, and the flex intrinsic main-size step (known findings).  The flex / grid / block container
   algorithms as wholes are covered by the implementation-side oracle only (notes/C04.md). *)
From Coq Require Import ZArith NArith QArith Bool List.
From TV Require Import Num.Num Num.QNum Model.ScaleBase Proofs.ScalePrim.
From TV Require Model.Common Model.Leaf Model.Root Model.Scale Proofs.ScaleProofs.
From TV Require Gen.AbsPosEnums Model.AbsPosBase Gen.AbsPosGen Model.AbsPos Model.ScaleAbs Proofs.ScaleAbsProofs.

(* ------------------------------------------------------------------------------------------------------------ *)
(** * Primitive layer *)

(* + - neg max min abs commute with the scaling *)
Theorem C04_arith : forall k a b, 0 < k ->
  xeq (x_add (x_scale k a) (x_scale k b)) (x_scale k (x_add a b)) /\
  xeq (x_sub (x_scale k a) (x_scale k b)) (x_scale k (x_sub a b)) /\
  xeq (x_neg (x_scale k a)) (x_scale k (x_neg a)) /\
  xeq (x_max (x_scale k a) (x_scale k b)) (x_scale k (x_max a b)) /\
  xeq (x_min (x_scale k a) (x_scale k b)) (x_scale k (x_min a b)) /\
  xeq (x_abs (x_scale k a)) (x_scale k (x_abs a)).
Proof.
  intros k a b Hk. pose proof (sc_self k a) as Ha. pose proof (sc_self k b) as Hb.
  repeat split.
  - exact (sc_add k _ _ _ _ Ha Hb).
  - exact (sc_sub k _ _ _ _ Ha Hb).
  - exact (sc_neg k _ _ Ha).
  - exact (sc_max k _ _ _ _ Hk Ha Hb).
  - exact (sc_min k _ _ _ _ Hk Ha Hb).
  - exact (sc_abs k _ _ Hk Ha).
Qed.
Print Assumptions C04_arith.

(* length * pure number and length / pure number are lengths; length / length is a pure number.  (Division by zero,
   0 * infinity etc. included: both sides produce the same infinity / NaN.) *)
Theorem C04_mul_div : forall k a b p, 0 < k ->
  xeq (x_mul (x_scale k a) p) (x_scale k (x_mul a p)) /\
  xeq (x_mul p (x_scale k a)) (x_scale k (x_mul p a)) /\
  xeq (x_div (x_scale k a) p) (x_scale k (x_div a p)) /\
  xeq (x_div (x_scale k a) (x_scale k b)) (x_div a b).
Proof.
  intros k a b p Hk. pose proof (sc_self k a) as Ha. pose proof (sc_self k b) as Hb. pose proof (dl_refl p) as Hp.
  repeat split.
  - exact (sc_mul_dl k _ _ _ _ Hk Ha Hp).
  - exact (sc_dl_mul k _ _ _ _ Hk Hp Ha).
  - exact (sc_div_dl k _ _ _ _ Hk Ha Hp).
  - exact (dl_div_sc k _ _ _ _ Hk Ha Hb).
Qed.
Print Assumptions C04_mul_div.

(* comparisons of two lengths are invariant (NaN compares false on both sides, infinities are fixed points) *)
Theorem C04_compare : forall k a b, 0 < k ->
  x_ltb (x_scale k a) (x_scale k b) = x_ltb a b /\
  x_leb (x_scale k a) (x_scale k b) = x_leb a b /\
  x_eqb (x_scale k a) (x_scale k b) = x_eqb a b.
Proof.
  intros k a b Hk. pose proof (sc_self k a) as Ha. pose proof (sc_self k b) as Hb.
  repeat split; [apply (sc_x_ltb k) | apply (sc_x_leb k) | apply (sc_x_eqb k)]; assumption.
Qed.
Print Assumptions C04_compare.

(* for k > 0 the scaling is the multiplication of the Num instance *)
Theorem C04_scale_is_mul : forall k x, 0 < k -> x_scale k x = x_mul (Fin k) x.
Proof. exact x_scale_is_mul. Qed.
Print Assumptions C04_scale_is_mul.

(* ------------------------------------------------------------------------------------------------------------ *)
(** * Generated tables, leaf and root kernels (geometry of Model/Common.v) *)
Module LeafKernels.
  Import TV.Model.Common TV.Model.Leaf TV.Model.Root TV.Model.Scale TV.Proofs.ScaleProofs.

  Definition homog2 {A B C} (RA : A -> A -> Prop) (RB : B -> B -> Prop) (RC : C -> C -> Prop) (f : A -> B -> C) : Prop :=
    forall a a' b b', RA a a' -> RB b b' -> RC (f a b) (f a' b').
  Definition homog3 {A B C D} (RA : A -> A -> Prop) (RB : B -> B -> Prop) (RC : C -> C -> Prop) (RD : D -> D -> Prop)
      (f : A -> B -> C -> D) : Prop :=
    forall a a' b b' c c', RA a a' -> RB b b' -> RC c c' -> RD (f a b c) (f a' b' c').

  (* every impl of MaybeMath (src/util/math.rs, regenerated into Gen/MathGen.v):
     L = f32 length, O = Option<f32>, A = AvailableSpace *)
  Theorem C04_maybe_math : forall k, 0 < k ->
    let L := sc k in let O := op_rel (sc k) in let A := av_rel (sc k) in
    homog2 O O O maybe_min_oo /\ homog2 O O O maybe_max_oo /\ homog3 O O O O maybe_clamp_oo /\
    homog2 O O O maybe_add_oo /\ homog2 O O O maybe_sub_oo /\
    homog2 O L O maybe_min_of /\ homog2 O L O maybe_max_of /\ homog3 O L L O maybe_clamp_of /\
    homog2 O L O maybe_add_of /\ homog2 O L O maybe_sub_of /\
    homog2 L O L maybe_min_fo /\ homog2 L O L maybe_max_fo /\ homog3 L O O L maybe_clamp_fo /\
    homog2 L O L maybe_add_fo /\ homog2 L O L maybe_sub_fo /\
    homog2 A L A maybe_min_af /\ homog2 A L A maybe_max_af /\ homog3 A L L A maybe_clamp_af /\
    homog2 A L A maybe_add_af /\ homog2 A L A maybe_sub_af /\
    homog2 A O A maybe_min_ao /\ homog2 A O A maybe_max_ao /\ homog3 A O O A maybe_clamp_ao /\
    homog2 A O A maybe_add_ao /\ homog2 A O A maybe_sub_ao.
  Proof.
    intros k Hk L O A. unfold homog2, homog3.
    repeat split; intros.
    - apply (rel_maybe_min_oo k Hk); assumption.
    - apply (rel_maybe_max_oo k Hk); assumption.
    - apply (rel_maybe_clamp_oo k Hk); assumption.
    - apply (rel_maybe_add_oo k); assumption.
    - apply (rel_maybe_sub_oo k); assumption.
    - apply (rel_maybe_min_of k Hk); assumption.
    - apply (rel_maybe_max_of k Hk); assumption.
    - apply (rel_maybe_clamp_of k Hk); assumption.
    - apply (rel_maybe_add_of k); assumption.
    - apply (rel_maybe_sub_of k); assumption.
    - apply (rel_maybe_min_fo k Hk); assumption.
    - apply (rel_maybe_max_fo k Hk); assumption.
    - apply (rel_maybe_clamp_fo k Hk); assumption.
    - apply (rel_maybe_add_fo k); assumption.
    - apply (rel_maybe_sub_fo k); assumption.
    - apply (rel_maybe_min_af k Hk); assumption.
    - apply (rel_maybe_max_af k Hk); assumption.
    - apply (rel_maybe_clamp_af k Hk); assumption.
    - apply (rel_maybe_add_af k); assumption.
    - apply (rel_maybe_sub_af k); assumption.
    - apply (rel_maybe_min_ao k Hk); assumption.
    - apply (rel_maybe_max_ao k Hk); assumption.
    - apply (rel_maybe_clamp_ao k Hk); assumption.
    - apply (rel_maybe_add_ao k); assumption.
    - apply (rel_maybe_sub_ao k); assumption.
  Qed.
  Print Assumptions C04_maybe_math.

  (* MaybeResolve / ResolveOrZero (src/util/resolve.rs): a length resolves to the scaled length, a percentage to
     percentage * scaled basis; Size::maybe_apply_aspect_ratio (src/geometry.rs) *)
  Theorem C04_resolve : forall k, 0 < k ->
    let L := sc k in let O := op_rel (sc k) in
    homog2 (lp_rel k) O O maybe_resolve_lp /\ homog2 (lpa_rel k) O O maybe_resolve_lpa /\
    homog2 (lpa_rel k) O O maybe_resolve_dim /\
    homog2 (lp_rel k) O L resolve_or_zero_lp /\ homog2 (lpa_rel k) O L resolve_or_zero_lpa /\
    homog2 (lpa_rel k) O L resolve_or_zero_dim /\
    homog2 (sz_rel O) (op_rel dl) (sz_rel O) maybe_apply_aspect_ratio.
  Proof.
    intros k Hk L O. unfold homog2. split; [|split; [|split; [|split; [|split; [|split]]]]]; intros.
    - apply (rel_maybe_resolve_lp k Hk); assumption.
    - apply (rel_maybe_resolve_lpa k Hk); assumption.
    - apply (rel_maybe_resolve_dim k Hk); assumption.
    - apply (rel_resolve_or_zero_lp k Hk); assumption.
    - apply (rel_resolve_or_zero_lpa k Hk); assumption.
    - apply (rel_resolve_or_zero_dim k Hk); assumption.
    - apply (rel_maybe_apply_aspect_ratio k Hk); assumption.
  Qed.
  Print Assumptions C04_resolve.

  (* e.g. the functional reading for one table: a length is scaled, a percentage multiplies the scaled basis *)
  Theorem C04_resolve_or_zero_scaled : forall k d c, 0 < k ->
    xeq (resolve_or_zero_lpa (lpa_scale k d) (opt_scale k c)) (x_scale k (resolve_or_zero_lpa d c)).
  Proof. intros k d c Hk. apply (rel_resolve_or_zero_lpa k Hk); [apply lpa_rel_scale | apply op_rel_scale]. Qed.
  Print Assumptions C04_resolve_or_zero_scaled.

  (* compute_leaf_layout (src/compute/leaf.rs, all run modes and sizing modes): scaling the style, the known dimensions,
     the parent size and the available space, with a measure function that is homogeneous, gives the same panic
     behaviour, the scaled LayoutOutput and the scaled arguments of the measure call *)
  Theorem C04_leaf : forall k st i measure measure', 0 < k -> measure_homog k measure measure' ->
    result_rel (output_rel k) k (compute_leaf_layout i st measure)
                                (compute_leaf_layout (input_scale k i) (style_scale k st) measure').
  Proof.
    intros k st i m m' Hk Hm. apply (leaf_homog k Hk); [apply style_rel_scale | apply input_rel_scale | exact Hm].
  Qed.
  Print Assumptions C04_leaf.
  (* the general form: any related style / inputs *)
  Theorem C04_leaf_related : forall k st st' i i' measure measure', 0 < k ->
    style_rel k st st' -> input_rel k i i' -> measure_homog k measure measure' ->
    result_rel (output_rel k) k (compute_leaf_layout i st measure) (compute_leaf_layout i' st' measure').
  Proof. intros k st st' i i' m m' Hk. apply (leaf_homog k Hk). Qed.
  Print Assumptions C04_leaf_related.

  (* the unrounded Layout of a one-node tree (compute_root_layout + dispatch + compute_leaf_layout, Model/Root.v) *)
  Theorem C04_root_leaf : forall k st av measure measure', 0 < k -> measure_homog k measure measure' ->
    result_rel (layout_rel k) k (root_leaf st measure av) (root_leaf (style_scale k st) measure' (savail_scale k av)).
  Proof.
    intros k st av m m' Hk Hm. apply (root_leaf_homog k Hk); [apply style_rel_scale | apply savail_rel_scale | exact Hm].
  Qed.
  Print Assumptions C04_root_leaf.

  (* `related` means `equal to the scaled value` (here for the sizes of a LayoutOutput) *)
  Theorem C04_related_is_scaled : forall k o o',
    output_rel k o o' <->
    sz_rel dl (out_size (output_scale k o)) (out_size o') /\
    sz_rel dl (out_content_size (output_scale k o)) (out_content_size o') /\
    margins_can_collapse_through o' = margins_can_collapse_through o /\
    pt_rel (op_rel (sc k)) (first_baselines o) (first_baselines o') /\
    mset_rel k (top_margin o) (top_margin o') /\ mset_rel k (bottom_margin o) (bottom_margin o').
  Proof. exact output_rel_iff. Qed.
  Print Assumptions C04_related_is_scaled.

  (* the hypothesis on measure functions is satisfiable: the harness's Fixed(w,h) and Echo(base) measure functions with
     the scaled context are homogeneous; and the one-function equational reading implies the relational one *)
  Theorem C04_measure_examples : forall k w h base, 0 < k ->
    measure_homog k (measure_fixed w h) (measure_fixed (x_scale k w) (x_scale k h)) /\
    measure_homog k (measure_echo base) (measure_echo (x_scale k base)).
  Proof. intros k w h base Hk. split; [apply measure_fixed_homog | apply measure_echo_homog; exact Hk]. Qed.
  Print Assumptions C04_measure_examples.
  Theorem C04_measure_equational : forall k m m',
    measure_proper m' ->
    (forall kd av, sz_rel dl (size_scale k (m kd av)) (m' (osize_scale k kd) (savail_scale k av))) ->
    measure_homog k m m'.
  Proof. exact measure_homog_of_eq. Qed.
  Print Assumptions C04_measure_equational.
End LeafKernels.

(* ------------------------------------------------------------------------------------------------------------ *)
(** * Absolutely positioned children (geometry of Model/AbsPosBase.v) *)
Module AbsKernels.
  Import TV.Gen.AbsPosEnums TV.Model.AbsPosBase TV.Gen.AbsPosGen TV.Model.AbsPos TV.Model.ScaleAbs TV.Proofs.ScaleAbsProofs.

  (* block: perform_absolute_layout_on_absolute_children (block.rs) for one child: container geometry, static position,
     resolved child inputs and the measured size scaled => location, size and margins scaled *)
  Theorem C04_abs_block : forall k ct sp i measure measure', 0 < k -> abs_measure_homog k measure measure' ->
    absout_rel k (abs_block ct sp i measure)
                 (abs_block (container_scale k ct) (apoint_scale k sp) (absin_scale k i) measure').
  Proof.
    intros k ct sp i m m' Hk Hm.
    apply (abs_block_homog k Hk); [apply container_rel_scale | apply apt_rel_scale | apply absin_rel_scale | exact Hm].
  Qed.
  Print Assumptions C04_abs_block.
  (* flex: perform_absolute_layout_on_absolute_children (flexbox.rs) *)
  Theorem C04_abs_flex : forall k c i measure measure', 0 < k -> abs_measure_homog k measure measure' ->
    absout_rel k (abs_flex c i measure) (abs_flex (flexc_scale k c) (absin_scale k i) measure').
  Proof.
    intros k c i m m' Hk Hm. apply (abs_flex_homog k Hk); [apply flexc_rel_scale | apply absin_rel_scale | exact Hm].
  Qed.
  Print Assumptions C04_abs_flex.
  (* grid: align_and_position_item (grid/alignment.rs) for an absolute child with auto grid lines *)
  Theorem C04_abs_grid : forall k ct ji ai i measure measure', 0 < k -> abs_measure_homog k measure measure' ->
    absout_rel k (abs_grid ct ji ai i measure) (abs_grid (container_scale k ct) ji ai (absin_scale k i) measure').
  Proof.
    intros k ct ji ai i m m' Hk Hm. apply (abs_grid_homog k Hk); [apply container_rel_scale | apply absin_rel_scale | exact Hm].
  Qed.
  Print Assumptions C04_abs_grid.

  (* the same from the child's STYLE (lengths scaled, percentages / aspect ratio / enums untouched): resolution included *)
  Theorem C04_abs_styles : forall k ct sp dir wr jc ais ji ai st measure measure', 0 < k ->
    abs_measure_homog k measure measure' ->
    absout_rel k (abs_block_style ct sp st measure)
                 (abs_block_style (container_scale k ct) (apoint_scale k sp) (absstyle_scale k st) measure') /\
    absout_rel k (abs_flex_style (flex_constants ct dir wr jc ais) st measure)
                 (abs_flex_style (flex_constants (container_scale k ct) dir wr jc ais) (absstyle_scale k st) measure') /\
    absout_rel k (abs_grid_style ct ji ai st measure)
                 (abs_grid_style (container_scale k ct) ji ai (absstyle_scale k st) measure').
  Proof.
    intros k ct sp dir wr jc ais ji ai st m m' Hk Hm. split; [|split].
    - apply (abs_block_style_homog k Hk); [apply container_rel_scale | apply apt_rel_scale | apply absstyle_rel_scale | exact Hm].
    - apply (abs_flex_style_homog k Hk); [apply (rel_flex_constants k); apply container_rel_scale | apply absstyle_rel_scale | exact Hm].
    - apply (abs_grid_style_homog k Hk); [apply container_rel_scale | apply absstyle_rel_scale | exact Hm].
  Qed.
  Print Assumptions C04_abs_styles.

  Theorem C04_abs_related_is_scaled : forall k o o',
    absout_rel k o o' <->
    apt_rel dl (o_location (absout_scale k o)) (o_location o') /\ asz_rel dl (o_size (absout_scale k o)) (o_size o') /\
    arc_rel dl (o_margin (absout_scale k o)) (o_margin o').
  Proof. exact absout_rel_iff. Qed.
  Print Assumptions C04_abs_related_is_scaled.
End AbsKernels.

(* ------------------------------------------------------------------------------------------------------------ *)
(** * Where homogeneity fails *)
From TV Require Import Model.FlexFraction Proofs.FlexFractionProofs Proofs.ScaleNotes Model.Rounding.
From TV Require Model.Cache.

(* KNOWN FINDING flex-intrinsic-shrink-factor-floor.  determine_container_main_size (flexbox.rs, min-/max-content
   branch), per item (Model/FlexFraction.v): the floor f32_max(1.0, flex_shrink * inner_flex_basis) compares a length
   with 1, so the target size of an item whose content contribution is below its flex basis is not homogeneous.
   Witness: flex_shrink 1/2, flex basis 1, content 1/2, k = 4 (target 1/2, scaled 0 instead of 2); replayed on the
   implementation by `vh c04 witness`. *)
Theorem C04_flex_intrinsic_refuted :
  exists k cc fb ifb g s, 0 < k /\ finite cc /\ finite fb /\ finite ifb /\ finite g /\ finite s /\
    ~ sc k (item_target_size cc fb ifb g s)
           (item_target_size (x_scale k cc) (x_scale k fb) (x_scale k ifb) g s).
Proof. exact flex_intrinsic_not_homogeneous. Qed.
Print Assumptions C04_flex_intrinsic_refuted.
(* concrete values of three witnesses: flex_shrink 1/2 (1/2 -> 0, expected 2); flex_shrink 1, basis 1/2 (3/8 -> 1,
   expected 3/2: `flex_shrink >= 1` does not make the step homogeneous); flex_shrink 0 (-4 -> -24, expected -8: the
   contribution basis + basis * diff is quadratic in the lengths) *)
Theorem C04_flex_intrinsic_witness_values :
  (xeq (item_target_size (Fin (1#2)) (Fin 1) (Fin 1) (Fin 1) (Fin (1#2))) (Fin (1#2)) /\
   xeq (item_target_size (x_scale 4 (Fin (1#2))) (x_scale 4 (Fin 1)) (x_scale 4 (Fin 1)) (Fin 1) (Fin (1#2))) (Fin 0)) /\
  (xeq (item_target_size (Fin (1#4)) (Fin (1#2)) (Fin (1#2)) (Fin 1) (Fin 1)) (Fin (3#8)) /\
   xeq (item_target_size (x_scale 4 (Fin (1#4))) (x_scale 4 (Fin (1#2))) (x_scale 4 (Fin (1#2))) (Fin 1) (Fin 1)) (Fin 1)) /\
  (xeq (item_target_size (Fin 2) (Fin 4) (Fin 4) (Fin 1) (Fin 0)) (Fin (-4)) /\
   xeq (item_target_size (x_scale 2 (Fin 2)) (x_scale 2 (Fin 4)) (x_scale 2 (Fin 4)) (Fin 1) (Fin 0)) (Fin (-24))).
Proof. exact (conj flex_witness_shrink_half (conj flex_witness_shrink_one flex_witness_shrink_zero)). Qed.
Print Assumptions C04_flex_intrinsic_witness_values.
(* the complement, proved: the step IS homogeneous when the content contribution is not below the flex basis ... *)
Theorem C04_flex_intrinsic_diff_nonneg : forall k cc cc' fb fb' ifb ifb' g g' s s', 0 < k ->
  sc k cc cc' -> sc k fb fb' -> sc k ifb ifb' -> dl g g' -> dl s s' ->
  finite cc -> finite fb -> finite g ->
  ltb (sub cc fb) zero = false ->
  sc k (item_target_size cc fb ifb g s) (item_target_size cc' fb' ifb' g' s').
Proof. intros k cc cc' fb fb' ifb ifb' g g' s s' Hk. apply (flex_homog_diff_nonneg k Hk). Qed.
Print Assumptions C04_flex_intrinsic_diff_nonneg.
(* ... and when it is below but the floor is inactive at both scales (flex_shrink * inner_flex_basis >= 1 before and
   after scaling) *)
Theorem C04_flex_intrinsic_floor_inactive : forall k cc cc' fb fb' ifb ifb' g g' s s', 0 < k ->
  sc k cc cc' -> sc k fb fb' -> sc k ifb ifb' -> dl g g' -> dl s s' ->
  finite cc -> finite fb -> finite ifb -> finite s ->
  ltb (sub cc fb) zero = true ->
  leb one (mul s ifb) = true -> leb one (mul s' ifb') = true ->
  sc k (item_target_size cc fb ifb g s) (item_target_size cc' fb' ifb' g' s').
Proof. intros k cc cc' fb fb' ifb ifb' g g' s s' Hk. apply (flex_homog_floor_inactive k Hk). Qed.
Print Assumptions C04_flex_intrinsic_floor_inactive.
Example C04_flex_premises_satisfiable :
  ltb (sub (Fin 30) (Fin 20)) zero = false /\
  (ltb (sub (Fin 90) (Fin 100)) zero = true /\ leb one (mul (Fin (1#2)) (Fin 100)) = true /\
   leb one (mul (Fin (1#2)) (x_scale 2 (Fin 100))) = true).
Proof. exact flex_homog_premises_ok. Qed.

(* pixel rounding is not homogeneous (round(2 * 0.3) = 1, 2 * round(0.3) = 0), on the primitive and on the generated
   rounding pass: the reason the property speaks of UNROUNDED output lengths *)
Theorem C04_rounding_refuted :
  (exists k x, 0 < k /\ finite x /\ ~ sc k (fround x) (fround (x_scale k x))) /\
  (exists k w, 0 < k /\ finite w /\
     ~ sc k (size_width (round_node zero zero (lay_w w))) (size_width (round_node zero zero (lay_w (x_scale k w))))).
Proof. exact (conj fround_not_homogeneous round_layout_not_homogeneous). Qed.
Print Assumptions C04_rounding_refuted.

(* absolute thresholds: AvailableSpace::is_roughly_equal (|a - b| < f32::EPSILON, the cache compatibility of C02) and
   the grid track sizing loop (`space > THRESHOLD`) are not invariant; scaling the lengths by k amounts to scaling the
   threshold by 1/k; is_roughly_equal is invariant when the two values are equal or at least EPSILON apart at both scales
   (the case for every pair the oracle produces).  LIMITATION: the cache is not part of the kernels above. *)
Theorem C04_threshold_note :
  (exists k a b, 0 < k /\ finite a /\ finite b /\
     Cache.roughly a b = true /\ Cache.roughly (x_scale k a) (x_scale k b) = false) /\
  (exists k space, 0 < k /\ finite space /\
     above_threshold (Fin (1#100)) space = true /\ above_threshold (Fin (1#100)) (x_scale k space) = false) /\
  (forall k t t' space space', 0 < k -> sc k t t' -> sc k space space' ->
     above_threshold t' space' = above_threshold t space) /\
  (forall k a b, 0 < k -> finite a -> finite b ->
     (xeq a b \/ (Cache.roughly a b = false /\ Cache.roughly (x_scale k a) (x_scale k b) = false)) ->
     Cache.roughly (x_scale k a) (x_scale k b) = Cache.roughly a b).
Proof. exact (conj roughly_not_invariant (conj threshold_not_invariant (conj threshold_exact roughly_invariant_far))). Qed.
Print Assumptions C04_threshold_note.
