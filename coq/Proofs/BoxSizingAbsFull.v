(* C12 -- the absolute-positioning kernels as a whole (resolve stage + known dimensions + measure call + final size +
   placement) are box-sizing blind: the resolve stage gives the same AbsIn up to rational equality
   (Proofs/BoxSizingAbsProofs.v), and the kernels map related AbsIn to related outputs -- which is the k = 1 instance of the
   homogeneity lemmas of C04 (Proofs/ScaleAbsProofs.v: `sc 1` is equality of rationals).  (audit, wave 5c) *)
From Coq Require Import QArith Bool List.
From TV Require Import Num.QNum Proofs.LeafAxis.
From TV Require Import Gen.AbsPosEnums Model.AbsPosBase Gen.AbsPosGen Model.AbsPos Model.BoxSizingAbs Proofs.BoxSizingAbsProofs.
From TV Require Import Model.ScaleBase Model.ScaleAbs Proofs.ScalePrim Proofs.ScaleAbsProofs Proofs.EngineBoxSizing.

Lemma Q01 : 0 < 1. Proof. reflexivity. Qed.
Lemma o1_refl (o : option XQ) : op_rel (sc 1) o o. Proof. destruct o; cbn; [apply sc1_refl|exact I]. Qed.
Lemma odl_refl (o : option XQ) : op_rel dl o o. Proof. destruct o; cbn; [apply dl_refl|exact I]. Qed.
Lemma oxeq_rel1 (a b : option XQ) : opt_xeq a b -> op_rel (sc 1) b a.
Proof. destruct a, b; cbn; try tauto. intro H. apply sc1_iff. exact H. Qed.
Lemma osz_rel1 (a b : Size (option XQ)) : asize_oxeq a b -> asz_rel (op_rel (sc 1)) b a.
Proof. intros [H1 H2]. split; apply oxeq_rel1; assumption. Qed.
Lemma absin_xeq_rel1 i i' : absin_xeq i i' -> absin_rel 1 i' i.
Proof.
  intros (E1 & E2 & E3 & E4 & E5 & E6 & H7 & H8 & H9 & E10 & E11 & E12). unfold absin_rel.
  rewrite E1, E2, E3, E4, E5, E6, E10, E11, E12.
  repeat match goal with |- _ /\ _ => split end; try reflexivity; try apply odl_refl; try apply o1_refl; try apply sc1_refl;
    try (apply osz_rel1; assumption);
    try (repeat split; first [apply o1_refl | apply sc1_refl]).
Qed.
Lemma container_rel1_refl (ct : @Container XQ) : container_rel 1 ct ct. Proof. repeat split; apply sc1_refl. Qed.
Lemma apt_rel1_refl (p : Point XQ) : apt_rel (sc 1) p p. Proof. split; apply sc1_refl. Qed.

Theorem abs_block_full : forall (ct : @Container XQ) (sp : Point XQ) (st : AbsStyle XQ) (m : Size (option XQ) -> Size XQ),
  abs_eligible st -> abs_measure_homog 1 m m ->
  absout_rel 1 (abs_block_style ct sp st m) (abs_block_style ct sp (abs_to_border_box st) m).
Proof.
  intros ct sp st m El Hm. unfold abs_block_style.
  apply (abs_block_homog 1 Q01); [apply container_rel1_refl | apply apt_rel1_refl | | exact Hm].
  apply absin_xeq_rel1. apply block_resolve_invariant. exact El.
Qed.
Theorem abs_flex_full : forall (c : FlexConstants XQ) (st : AbsStyle XQ) (m : Size (option XQ) -> Size XQ),
  abs_eligible st -> abs_measure_homog 1 m m ->
  absout_rel 1 (abs_flex_style c st m) (abs_flex_style c (abs_to_border_box st) m).
Proof.
  intros c st m El Hm. unfold abs_flex_style. change (flex_child c ?i m) with (abs_flex c i m).
  apply (abs_flex_homog 1 Q01); [repeat split; apply sc1_refl | | exact Hm].
  apply absin_xeq_rel1. apply flex_resolve_invariant. exact El.
Qed.
Theorem abs_grid_full : forall (ct : @Container XQ) ji ai (st : AbsStyle XQ) (m : Size (option XQ) -> Size XQ),
  abs_eligible st -> abs_measure_homog 1 m m ->
  absout_rel 1 (abs_grid_style ct ji ai st m) (abs_grid_style ct ji ai (abs_to_border_box st) m).
Proof.
  intros ct ji ai st m El Hm. unfold abs_grid_style.
  apply (abs_grid_homog 1 Q01); [apply container_rel1_refl | | exact Hm].
  apply absin_xeq_rel1. apply grid_resolve_invariant. exact El.
Qed.

(* a measure function that respects equality of rationals in its known dimensions *)
Definition abs_measure_known_or (w h : XQ) : Size (option XQ) -> Size XQ :=
  fun kd => mkSize (match s_width kd with Some v => v | None => w end) (match s_height kd with Some v => v | None => h end).
Lemma abs_measure_known_or_respects w h : abs_measure_homog 1 (abs_measure_known_or w h) (abs_measure_known_or w h).
Proof.
  intros kd kd' [Hw Hh]. unfold abs_measure_known_or. split; cbn [s_width s_height].
  - destruct (s_width kd), (s_width kd'); cbn in Hw; try contradiction; [exact Hw|apply sc1_refl].
  - destruct (s_height kd), (s_height kd'); cbn in Hh; try contradiction; [exact Hh|apply sc1_refl].
Qed.
