(* GENERATED on every run by translator/gen_leaf.py from src/compute/mod.rs (whole body of compute_root_layout; the child layout
   `tree.perform_child_layout(root, ..)` is the parameter, applied to the LayoutInput that src/tree/traits.rs builds) -- do not edit. *)
From Coq Require Import List Bool NArith.
From TV Require Import Model.Common Model.Leaf Model.Root.
Import ListNotations.
Section RootGen.
Context {T : Type} `{Num T}.

Definition gen_compute_root_layout (style : Style T)
    (perform_child_layout : LayoutInput T -> option (LayoutOutput T * list (MeasureCall T)))
    (available_space : Size (AvailableSpace T)) : option (Layout T * list (MeasureCall T)) :=
    let v_known_dimensions := (size_NONE : Size (option T)) in
    let v_known_dimensions := (let v_parent_size := (size_into_options available_space) in
    let v_known_dimensions := (if (is_block style) then (let v_aspect_ratio := (aspect_ratio style) in
    let v_margin := (rect_resolve_or_zero_lpa (margin style) (width v_parent_size)) in
    let v_padding := (rect_resolve_or_zero_lp (padding style) (width v_parent_size)) in
    let v_border := (rect_resolve_or_zero_lp (border style) (width v_parent_size)) in
    let v_padding_border_size := (sum_axes (rect_add v_padding v_border)) in
    let v_box_sizing_adjustment := (match (box_sizing style) with ContentBox => (v_padding_border_size) | _ => (size_ZERO) end) in
    let v_min_size := (size_maybe_add_of (maybe_apply_aspect_ratio (size_maybe_resolve_dim (min_size style) v_parent_size) v_aspect_ratio) v_box_sizing_adjustment) in
    let v_max_size := (size_maybe_add_of (maybe_apply_aspect_ratio (size_maybe_resolve_dim (max_size style) v_parent_size) v_aspect_ratio) v_box_sizing_adjustment) in
    let v_clamped_style_size := (size_maybe_clamp_oo (size_maybe_add_of (maybe_apply_aspect_ratio (size_maybe_resolve_dim (size style) v_parent_size) v_aspect_ratio) v_box_sizing_adjustment) v_min_size v_max_size) in
    let v_min_max_definite_size := (size_zip_map (fun v_min v_max => (match (v_min, v_max) with
      | ((Some v_min), (Some v_max)) => (if (leb v_max v_min) then (Some v_min) else None)
      | _ => None
      end)) v_min_size v_max_size) in
    let v_available_space_based_size := (mkSize (maybe_sub_of (avail_into_option (width available_space)) (horizontal_axis_sum v_margin)) None) in
    let v_styled_based_known_dimensions := (size_maybe_max_of (size_or (size_or (size_or v_known_dimensions v_min_max_definite_size) v_clamped_style_size) v_available_space_based_size) v_padding_border_size) in
    let v_known_dimensions := v_styled_based_known_dimensions in
    v_known_dimensions) else v_known_dimensions) in
    v_known_dimensions) in
    (match perform_child_layout (mkInput PerformLayout InherentSize v_known_dimensions (size_into_options available_space) available_space) with
    | None => None
    | Some (v_output, child_calls1) =>
    let v_padding := (rect_resolve_or_zero_lp (padding style) (avail_into_option (width available_space))) in
    let v_border := (rect_resolve_or_zero_lp (border style) (avail_into_option (width available_space))) in
    let v_margin := (rect_resolve_or_zero_lpa (margin style) (avail_into_option (width available_space))) in
    let v_scrollbar_size := (mkSize (match (py (overflow style)) with Scroll => ((scrollbar_width style)) | _ => (zero) end) (match (px (overflow style)) with Scroll => ((scrollbar_width style)) | _ => (zero) end)) in
    (Some ((mkLayout 0%N point_ZERO (out_size v_output) (out_content_size v_output) v_scrollbar_size v_border v_padding v_margin), child_calls1))
    end).

End RootGen.
