(* Runner of the EVENT-LEVEL engine correspondence (C01 / C15 / C17): a history of TaffyTree API calls is replayed on the
   forest of engine trees (Model/EngineForest.v) with the REPLAY instance of Model/EngineReplay.v (the real algorithms'
   behaviour unfolded from the script table the harness recorded), and for every compute_layout the traced memo's event
   list is reported: every compute_cached_layout call in order with (node, input, hit/miss), its Return, every
   compute_hidden_layout and set_unrounded_layout, plus TaffyTree::dirty of every live node after every call.

   case = [nnodes; (parent or -1, none)*nnodes; nentries; entries; ops each prefixed by its length]
   entry = node; style version; nkids; (kid; kid version)*nkids; input; script
   script = 0 out | 1 child input nbranches (out script)*nbranches | 2 child script *)
From Coq Require Import List Bool Arith NArith ZArith Lia.
From TV Require Import Model.Engine Model.EngineForest Model.EngineReplay.
Import ListNotations.

Fixpoint parse_script (fuel : nat) (l : list Z) : option (script * list Z) :=
  match fuel with
  | O => None
  | S f =>
      match l with
      | 0%Z :: o :: r => Some (SRet (Z.to_N o), r)
      | 1%Z :: c :: i :: nb :: r =>
          match (fix brs (k : nat) (l : list Z) : option (list (N * script) * list Z) :=
                   match k with
                   | O => Some ([], l)
                   | S k' =>
                       match l with
                       | o :: r1 =>
                           match parse_script f r1 with
                           | Some (s, r2) =>
                               match brs k' r2 with
                               | Some (bs, r3) => Some ((Z.to_N o, s) :: bs, r3)
                               | None => None
                               end
                           | None => None
                           end
                       | [] => None
                       end
                   end) (Z.to_nat nb) r with
          | Some (bs, r') => Some (SQuery (Z.to_nat c) (Z.to_N i) bs, r')
          | None => None
          end
      | 2%Z :: c :: r =>
          match parse_script f r with
          | Some (s, r') => Some (SSet (Z.to_nat c) s, r')
          | None => None
          end
      | _ => None
      end
  end.

Fixpoint take_pairs (k : nat) (l : list Z) : list (N * N) * list Z :=
  match k with
  | O => ([], l)
  | S k' => match l with
            | a :: b :: r => let '(ps, r') := take_pairs k' r in ((Z.to_N a, Z.to_N b) :: ps, r')
            | _ => ([], l)
            end
  end.

Fixpoint parse_table (k : nat) (l : list Z) : table * list Z :=
  match k with
  | O => ([], l)
  | S k' =>
      match l with
      | nd :: ver :: nk :: r =>
          let '(ks, r1) := take_pairs (Z.to_nat nk) r in
          match r1 with
          | inp :: r2 =>
              match parse_script (length r2) r2 with
              | Some (sc, r3) =>
                  let '(tb, r4) := parse_table k' r3 in
                  (({| k_id := Z.to_N nd; k_ver := Z.to_N ver; k_kids := ks; k_in := Z.to_N inp |}, sc) :: tb, r4)
              | None => ([], l)
              end
          | [] => ([], l)
          end
      | _ => ([], l)
      end
  end.

(* one integer per event: kind + 4 * payload *)
Definition enc_event (e : event RS RIn) : Z :=
  match e with
  | EQuery _ _ s i hit => (4 * ((if hit then 1 else 0) + 2 * (Z.of_N (rs_id s) + 1024 * Z.of_N i)))%Z
  | EReturn _ _ s => (4 * Z.of_N (rs_id s) + 1)%Z
  | EHidden _ _ s => (4 * Z.of_N (rs_id s) + 2)%Z
  | ESetLayout _ _ s => (4 * Z.of_N (rs_id s) + 3)%Z
  end.

(* compute_layout: compute_root_layout = perform_child_layout(root, the root input) through compute_cached_layout, then
   set_unrounded_layout(root); -2 closes the event list *)
Definition r_layout (tb : table) (t : rtree) (tag : N) : option (rtree * list Z) :=
  match r_memo_tr tb 64 t tag with
  | Some (_, t', evs) =>
      Some (t', map enc_event evs ++ [enc_event (ESetLayout RS RIn (style_of RS RIn ROut RLay t)); (-2)%Z])
  | None => None
  end.

Definition r_new_style (id : N) (none : bool) : RS := (id, 0%N, none).
Definition r_restyle (s : RS) (none : bool) : RS := (rs_id s, (rs_ver s + 1)%N, none).    (* set_style bumps the version *)
Definition r_rectx (s : RS) : RS := (rs_id s, (rs_ver s + 1)%N, rs_none s).               (* so does set_node_context *)

Definition run_case (c : list Z) : list Z :=
  match c with
  | n :: rest =>
      let '(f0, r1) := build_nodes RS RIn ROut RLay rs_id r_new_style tt (Z.to_nat n) rest 0%N [] in
      match r1 with
      | nt :: r2 =>
          let '(tb, ops) := parse_table (Z.to_nat nt) r2 in
          run_ops_out RS RIn ROut RLay rs_id r_new_style r_restyle r_rectx tt (r_layout tb) f0 ops
      | [] => []
      end
  | [] => []
  end.
