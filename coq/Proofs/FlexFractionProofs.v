(* C04 -- the flex intrinsic-size step (Model/FlexFraction.v: content_flex_fraction / flex_contribution of
   determine_container_main_size) is NOT homogeneous: witnesses; and the two regions where it is (proved). *)
From Coq Require Import QArith Qabs Lqa Bool List ZArith Lia.
From TV Require Import Num.Num Num.QNum Model.ScaleBase Model.FlexFraction Proofs.ScalePrim.

(* ------------------------------------------------------------------------------------------------------------ *)
(** * Witnesses (exact arithmetic; the same numbers are replayed on the implementation by `vh c04 witness`) *)

(* flex_shrink 1/2, flex basis 1 (inner 1), content contribution 1/2: target 1/2.  Scaled by 4 the floor
   f32_max(1, shrink * basis) switches off: target 0 instead of 2. *)
Lemma flex_witness_shrink_half :
  xeq (item_target_size (Fin (1#2)) (Fin 1) (Fin 1) (Fin 1) (Fin (1#2))) (Fin (1#2)) /\
  xeq (item_target_size (x_scale 4 (Fin (1#2))) (x_scale 4 (Fin 1)) (x_scale 4 (Fin 1)) (Fin 1) (Fin (1#2))) (Fin 0).
Proof. split; vm_compute; reflexivity. Qed.
(* the same with flex_shrink = 1: `flex_shrink >= 1` does not help, the floor compares shrink * BASIS with 1 *)
Lemma flex_witness_shrink_one :
  xeq (item_target_size (Fin (1#4)) (Fin (1#2)) (Fin (1#2)) (Fin 1) (Fin 1)) (Fin (3#8)) /\
  xeq (item_target_size (x_scale 4 (Fin (1#4))) (x_scale 4 (Fin (1#2))) (x_scale 4 (Fin (1#2))) (Fin 1) (Fin 1)) (Fin 1).
Proof. split; vm_compute; reflexivity. Qed.
(* flex_shrink = 0 (an item that must not shrink): target = basis + basis * diff, quadratic in the lengths:
   basis 4, content 2 -> 4 + 4 * (-2) = -4; scaled by 2: 8 + 8 * (-4) = -24 instead of -8 *)
Lemma flex_witness_shrink_zero :
  xeq (item_target_size (Fin 2) (Fin 4) (Fin 4) (Fin 1) (Fin 0)) (Fin (-4)) /\
  xeq (item_target_size (x_scale 2 (Fin 2)) (x_scale 2 (Fin 4)) (x_scale 2 (Fin 4)) (Fin 1) (Fin 0)) (Fin (-24)).
Proof. split; vm_compute; reflexivity. Qed.

Theorem flex_intrinsic_not_homogeneous :
  exists k cc fb ifb g s, 0 < k /\ finite cc /\ finite fb /\ finite ifb /\ finite g /\ finite s /\
    ~ sc k (item_target_size cc fb ifb g s)
           (item_target_size (x_scale k cc) (x_scale k fb) (x_scale k ifb) g s).
Proof.
  exists 4, (Fin (1#2)), (Fin 1), (Fin 1), (Fin 1), (Fin (1#2)). repeat split; try exact I; try reflexivity.
  vm_compute. discriminate.
Qed.

(* ------------------------------------------------------------------------------------------------------------ *)
(** * Signs of quotients, dimensionless max *)

Lemma dl_as_sc a a' : dl a a' <-> sc 1 a a'.
Proof. unfold dl, sc. destruct a, a'; cbn; try tauto. split; intros H; rewrite H; ring. Qed.
Lemma dl_max a a' b b' : dl a a' -> dl b b' -> dl (fmax a b) (fmax a' b').
Proof. rewrite !dl_as_sc. apply sc_max. reflexivity. Qed.
Lemma dl_zero : dl zero zero.
Proof. apply dl_refl. Qed.
Lemma dl_one : dl one one.
Proof. apply dl_refl. Qed.

(* f32_max(1.0, x) of a finite x is finite and at least 1 *)
Lemma fmax_one_ge x : finite x -> exists q, fmax one x = Fin q /\ 1 <= q.
Proof.
  destruct x as [q| | |]; cbn; try contradiction. intros _.
  destruct (Qle_bool q 1) eqn:E; cbn.
  - exists 1. split; [reflexivity | lra].
  - exists q. split; [reflexivity|]. assert (~ q <= 1) by (intro L; apply Qle_bool_iff in L; congruence). lra.
Qed.

Lemma div_pos_sign d m : 0 < m -> x_div (Fin d) (Fin m) = Fin (d / m).
Proof. intros Hm. cbn. destruct (q_sign_of m) as (P & _). rewrite (P Hm). reflexivity. Qed.
Lemma qdiv_pos d m : 0 < m -> 0 < d -> 0 < d / m.
Proof. intros Hm Hd. apply Qlt_shift_div_l; [assumption | lra]. Qed.
Lemma qdiv_neg d m : 0 < m -> d < 0 -> d / m < 0.
Proof. intros Hm Hd. apply Qlt_shift_div_r; [assumption | lra]. Qed.
Lemma qle_bool_false a b : Qle_bool a b = false -> b < a.
Proof. intro E. apply Qnot_le_lt. intro L. apply Qle_bool_iff in L. congruence. Qed.
Lemma qle_bool_true_of a b : a <= b -> Qle_bool a b = true.
Proof. intro. apply Qle_bool_iff. assumption. Qed.
Lemma qle_bool_false_of a b : b < a -> Qle_bool a b = false.
Proof. intro. destruct (Qle_bool a b) eqn:E; [|reflexivity]. apply Qle_bool_iff in E. lra. Qed.

Section FlexHomog.
  Variable k : Q.
  Hypothesis Hk : 0 < k.

  (* complement 1: the content contribution is not below the flex basis (diff >= 0): grow branch or no flexing *)
  Theorem flex_homog_diff_nonneg cc cc' fb fb' ifb ifb' g g' s s' :
    sc k cc cc' -> sc k fb fb' -> sc k ifb ifb' -> dl g g' -> dl s s' ->
    finite cc -> finite fb -> finite g ->
    ltb (sub cc fb) zero = false ->
    sc k (item_target_size cc fb ifb g s) (item_target_size cc' fb' ifb' g' s').
  Proof.
    intros Hcc Hfb Hifb Hg Hs Fcc Ffb Fg Hd.
    unfold item_target_size, content_flex_fraction.
    pose proof (sc_sub k _ _ _ _ Hcc Hfb) as Hdiff.
    set (d := sub cc fb) in *. set (d' := sub cc' fb') in *.
    assert (Fd : finite d) by (destruct cc, fb; cbn in *; try contradiction; exact I).
    apply sc_add; [assumption|].
    unfold fraction_of_diff.
    rewrite (sc_gtb k d d' zero zero Hk Hdiff (sc_zero k)), (sc_ltb k d d' zero zero Hk Hdiff (sc_zero k)), Hd.
    destruct (gtb d zero) eqn:Eg.
    - (* growing: fraction = diff / max(1, grow) is a positive length *)
      pose proof (dl_max one one g g' dl_one Hg) as Hm.
      pose proof (sc_div_dl k d d' _ _ Hk Hdiff Hm) as Hf.
      destruct (fmax_one_ge g Fg) as (m & Em & Hm1).
      assert (Hpos : gtb (div d (fmax one g)) zero = true).
      { rewrite Em. destruct d as [dq| | |]; cbn in Fd; try contradiction.
        change (div (Fin dq) (Fin m)) with (x_div (Fin dq) (Fin m)). rewrite div_pos_sign by lra.
        unfold gtb in *. cbn in *. rewrite negb_true_iff in *. apply qle_bool_false in Eg.
        apply qle_bool_false_of. apply qdiv_pos; lra. }
      unfold flex_contribution.
      rewrite (sc_gtb k _ _ zero zero Hk Hf (sc_zero k)), Hpos.
      apply (sc_dl_mul k); assumption.
    - unfold flex_contribution.
      replace (gtb zero zero) with false by reflexivity. replace (ltb zero zero) with false by reflexivity.
      apply sc_zero.
  Qed.

  (* complement 2: shrinking (diff < 0) with the floor inactive at BOTH scales: flex_shrink * inner_flex_basis >= 1 and
     k * flex_shrink * inner_flex_basis >= 1.  Then the fraction is the pure number diff / (shrink * basis). *)
  Lemma floor_inactive x x' : sc k x x' -> leb one x = true -> leb one x' = true -> sc k (fmax one x) (fmax one x').
  Proof.
    unfold sc. destruct x as [q| | |], x' as [q'| | |]; cbn; intros H L L'; try contradiction; try discriminate; try exact I.
    apply Qle_bool_iff in L. apply Qle_bool_iff in L'.
    destruct (Qle_bool q 1) eqn:E, (Qle_bool q' 1) eqn:E'; cbn;
      try apply Qle_bool_iff in E; try apply Qle_bool_iff in E'; try apply qle_bool_false in E; try apply qle_bool_false in E'; nra.
  Qed.

  Theorem flex_homog_floor_inactive cc cc' fb fb' ifb ifb' g g' s s' :
    sc k cc cc' -> sc k fb fb' -> sc k ifb ifb' -> dl g g' -> dl s s' ->
    finite cc -> finite fb -> finite ifb -> finite s ->
    ltb (sub cc fb) zero = true ->
    leb one (mul s ifb) = true -> leb one (mul s' ifb') = true ->
    sc k (item_target_size cc fb ifb g s) (item_target_size cc' fb' ifb' g' s').
  Proof.
    intros Hcc Hfb Hifb Hg Hs Fcc Ffb Fifb Fs Hd Hfl Hfl'.
    unfold item_target_size, content_flex_fraction.
    pose proof (sc_sub k _ _ _ _ Hcc Hfb) as Hdiff.
    set (d := sub cc fb) in *. set (d' := sub cc' fb') in *.
    assert (Fd : finite d) by (destruct cc, fb; cbn in *; try contradiction; exact I).
    apply sc_add; [assumption|].
    assert (Hgt : gtb d zero = false).
    { destruct d as [dq| | |]; cbn in Fd; try contradiction. unfold gtb. cbn in *. rewrite negb_true_iff in Hd.
      apply qle_bool_false in Hd. rewrite negb_false_iff. apply qle_bool_true_of. lra. }
    unfold fraction_of_diff.
    rewrite (sc_gtb k d d' zero zero Hk Hdiff (sc_zero k)), (sc_ltb k d d' zero zero Hk Hdiff (sc_zero k)), Hd, Hgt.
    pose proof (sc_dl_mul k ifb ifb' s s' Hk Hs Hifb) as Hsf.
    pose proof (floor_inactive _ _ Hsf Hfl Hfl') as HM.
    pose proof (dl_div_sc k d d' _ _ Hk Hdiff HM) as Hf.
    (* the fraction is negative *)
    assert (Fm : finite (mul s ifb)) by (destruct s, ifb; cbn in *; try contradiction; exact I).
    destruct (fmax_one_ge _ Fm) as (m & Em & Hm1).
    assert (Hneg : ltb (div d (fmax one (mul s ifb))) zero = true).
    { rewrite Em. destruct d as [dq| | |]; cbn in Fd; try contradiction.
      change (div (Fin dq) (Fin m)) with (x_div (Fin dq) (Fin m)). rewrite div_pos_sign by lra.
      cbn in *. rewrite negb_true_iff in *. apply qle_bool_false in Hd.
      apply qle_bool_false_of. apply qdiv_neg; lra. }
    assert (Hngt : gtb (div d (fmax one (mul s ifb))) zero = false).
    { rewrite Em in *. destruct d as [dq| | |]; cbn in Fd; try contradiction.
      change (div (Fin dq) (Fin m)) with (x_div (Fin dq) (Fin m)) in *. rewrite div_pos_sign in * by lra.
      unfold gtb. cbn in *. rewrite negb_true_iff in Hneg. apply qle_bool_false in Hneg.
      rewrite negb_false_iff. apply qle_bool_true_of. lra. }
    unfold flex_contribution.
    assert (E1 : gtb (div d' (fmax one (mul s' ifb'))) zero = gtb (div d (fmax one (mul s ifb))) zero).
    { unfold gtb. apply dl_x_ltb; [apply dl_zero | exact Hf]. }
    assert (E2 : ltb (div d' (fmax one (mul s' ifb'))) zero = ltb (div d (fmax one (mul s ifb))) zero).
    { apply dl_x_ltb; [exact Hf | apply dl_zero]. }
    rewrite E1, E2, Hngt, Hneg.
    apply (sc_mul_dl k); [exact Hk | | exact Hf].
    apply (sc_dl_mul k); [exact Hk | apply dl_max; [apply dl_one | exact Hs] | exact Hifb].
  Qed.
End FlexHomog.

(* the premises of both complements are satisfiable *)
Example flex_homog_premises_ok :
  ltb (sub (Fin 30) (Fin 20)) zero = false /\
  (ltb (sub (Fin 90) (Fin 100)) zero = true /\ leb one (mul (Fin (1#2)) (Fin 100)) = true /\
   leb one (mul (Fin (1#2)) (x_scale 2 (Fin 100))) = true).
Proof. repeat split; vm_compute; reflexivity. Qed.
