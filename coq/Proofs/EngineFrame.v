(* What clear_path (hence, by md_spec, mark_dirty) changes: exactly the caches on the path to the target. *)
From Coq Require Import List Bool Arith Lia.
From TV Require Import Model.Engine Proofs.EngineMemo.
Import ListNotations.

Section Frame.
  Variables (S In Out Lay : Type).
  Notation tree := (tree S In Out Lay).
  Notation Node := (Node S In Out Lay).
  Notation subtree := (subtree S In Out Lay).
  Notation clear_path := (clear_path S In Out Lay).
  Notation cache_of := (cache_of S In Out Lay).
  Notation cempty := (cempty In Out).

  Fixpoint is_prefix (q p : list nat) : bool :=
    match q, p with
    | [], _ => true
    | x :: q', y :: p' => Nat.eqb x y && is_prefix q' p'
    | _ :: _, [] => false
    end.

  Definition cache_at (t : tree) (q : list nat) := option_map cache_of (subtree t q).
  Definition style_at (t : tree) (q : list nat) := option_map (style_of S In Out Lay) (subtree t q).
  Definition lay_at (t : tree) (q : list nat) := option_map (lay_of S In Out Lay) (subtree t q).

  Lemma nth_error_replace_other' {A} n m (x : A) l t :
    nth_error l n = Some t -> n <> m -> nth_error (replace_nth n x l) m = nth_error l m.
  Proof.
    unfold replace_nth. revert m l; induction n as [|n IH]; intros m [|a l] Hn Hne; cbn in Hn; try discriminate.
    - destruct m as [|m]; [congruence|reflexivity].
    - destruct m as [|m]; [reflexivity|]. cbn. apply IH; [exact Hn|congruence].
  Qed.

  (* every node on the path (prefix of p, including the target) ends with an empty cache *)
  Lemma clear_path_on : forall p t q, (exists u, subtree t p = Some u) -> is_prefix q p = true ->
    cache_at (clear_path t p) q = Some cempty.
  Proof.
    induction p as [|x p IH]; intros [s c l kids] q [u Hu] Hq.
    - destruct q; [reflexivity|discriminate].
    - cbn in Hu. destruct (nth_error kids x) as [ch|] eqn:Ex; [|discriminate].
      cbn [Engine.clear_path]. rewrite Ex.
      destruct q as [|y q]; [reflexivity|].
      cbn in Hq. apply andb_true_iff in Hq. destruct Hq as [Hxy Hq]. apply Nat.eqb_eq in Hxy. subst y.
      unfold cache_at. cbn. rewrite (nth_error_replace_same _ _ _ _ Ex).
      apply IH; [exists u; exact Hu|exact Hq].
  Qed.

  (* every other node keeps its cache; styles and stored layouts are untouched everywhere *)
  Lemma clear_path_off : forall p t q, is_prefix q p = false -> cache_at (clear_path t p) q = cache_at t q.
  Proof.
    induction p as [|x p IH]; intros [s c l kids] q Hq.
    - destruct q; [discriminate|reflexivity].
    - destruct q as [|y q]; [discriminate|].
      cbn [Engine.clear_path]. destruct (nth_error kids x) as [ch|] eqn:Ex; [|reflexivity].
      unfold cache_at. cbn.
      destruct (Nat.eq_dec x y) as [->|Hne].
      + rewrite (nth_error_replace_same _ _ _ _ Ex), Ex. cbn in Hq. rewrite Nat.eqb_refl in Hq. cbn in Hq.
        apply IH. exact Hq.
      + rewrite (nth_error_replace_other' _ _ _ _ _ Ex Hne). reflexivity.
  Qed.

  Lemma clear_path_style : forall p t q, style_at (clear_path t p) q = style_at t q.
  Proof.
    induction p as [|x p IH]; intros [s c l kids] q.
    - destruct q; reflexivity.
    - cbn [Engine.clear_path]. destruct (nth_error kids x) as [ch|] eqn:Ex; [|reflexivity].
      destruct q as [|y q]; [reflexivity|]. unfold style_at. cbn.
      destruct (Nat.eq_dec x y) as [->|Hne].
      + rewrite (nth_error_replace_same _ _ _ _ Ex), Ex. apply IH.
      + rewrite (nth_error_replace_other' _ _ _ _ _ Ex Hne). reflexivity.
  Qed.

  Lemma clear_path_lay : forall p t q, lay_at (clear_path t p) q = lay_at t q.
  Proof.
    induction p as [|x p IH]; intros [s c l kids] q.
    - destruct q; reflexivity.
    - cbn [Engine.clear_path]. destruct (nth_error kids x) as [ch|] eqn:Ex; [|reflexivity].
      destruct q as [|y q]; [reflexivity|]. unfold lay_at. cbn.
      destruct (Nat.eq_dec x y) as [->|Hne].
      + rewrite (nth_error_replace_same _ _ _ _ Ex), Ex. apply IH.
      + rewrite (nth_error_replace_other' _ _ _ _ _ Ex Hne). reflexivity.
  Qed.
End Frame.
