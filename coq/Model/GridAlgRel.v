(* Relations on the vocabulary of the grid resumption (Model/GridAlg.v, Model/GridAlgBase.v) over the exact instance XQ, extending Model/Scale.v
   (leaf records), Model/ScaleGrid.v (tracks, templates), Model/ScaleAbs.v (the translated align_and_position_item kernel) and Model/FlexAlgRel.v
   (`fin_rel` / `flay_rel`: LayoutInput and Layout are shared by flex and grid).  Definitions only.  `X_rel k x x'` = x' is x with every length
   scaled by k up to the equality of rationals; at k = 1 it is "equal as numbers", the reading C12 uses.

     gstyle_rel k          every length of the GStyle scaled (C04)
     gstyle_wrel k         what the GRID algorithm reads of a style (its own or a child's): every field except box_sizing / size / min_size /
                           max_size / padding / border, and those only through the resolutions the algorithm performs:
                             grid_pre (compute_grid_layout l.50-138: the container's own style, whole),
                             dims_definite (explicit track counts: is size / max_size definite -- only Some/None is read),
                             item_resolved (GridItem::known_dimensions and GridItem::minimum_contribution: size / min_size / max_size resolved,
                                            aspect ratio applied, box-sizing adjustment added),
                             replaced_caps (GridItem::minimum_contribution, the compressible-replaced branch: RAW size / max_size at Some 0 --
                                            the KNOWN FINDING of C12: no box-sizing adjustment there; read only when item_is_replaced),
                             AG.grid_resolve (align_and_position_item, translated).
                           gstyle_rel k implies it; so does the content-box -> border-box rewrite of an eligible NOT compressible-replaced style
                           at k = 1 (Proofs/GridStyleRel.v)
     ProgRel               two sizing programs (the free monad `Prog` of Model/GridAlg.v) in lockstep: same shape, same child, related measuring
                           queries, related continuations given related answers
     pre_rel, icache_rel, gitem_rel, sstate_rel, sized_rel, oof_rel, placed_rel     the algorithm's records *)
From Coq Require Import QArith ZArith Bool List.
From TV Require Import Num.Num Num.QNum Model.Common Model.Leaf Model.Root Model.BoxSizing Gen.GridTracksGen Model.GridTracks Model.GridIntrinsic.
From TV Require Import Model.FiltersBase Gen.FiltersGen Model.ItemFilters Model.GridAlgBase Model.GridAlg.
From TV Require Import Model.Scale Model.ScaleGrid Model.Engine Model.EngineRel Model.FlexAlgBase Model.FlexAlgRel.
From TV Require Model.AbsPosBase Gen.AbsPosGen Model.ScaleAbs.
Import ListNotations.
Close Scope Z_scope.

(* ------------------------------------------------------------------------------------------------ the resolutions, named (any Num) *)
Section Sites.
  Context {T : Type} `{Num T}.

  (* size / min_size / max_size of a style resolved against `ctx`, aspect ratio applied, box-sizing adjustment `pbs` added: the idiom of
     GridItem::known_dimensions (ctx = the grid area) and GridItem::minimum_contribution (ctx = inner_node_size) *)
  Definition bs_triple (c : Style T) (pbs : Size T) (ctx : Size (option T)) : Size (option T) * Size (option T) * Size (option T) :=
    let ar := aspect_ratio c in
    let bsa := match box_sizing c with ContentBox => pbs | BorderBox => size_ZERO end in
    (size_maybe_add_of (maybe_apply_aspect_ratio (size_maybe_resolve_dim (size c) ctx) ar) bsa,
     size_maybe_add_of (maybe_apply_aspect_ratio (size_maybe_resolve_dim (min_size c) ctx) ar) bsa,
     size_maybe_add_of (maybe_apply_aspect_ratio (size_maybe_resolve_dim (max_size c) ctx) ar) bsa).
  Definition item_resolved (c : Style T) (ctx : Size (option T)) : Size (option T) * Size (option T) * Size (option T) :=
    let pad := rect_resolve_or_zero_lp_size (padding c) ctx in
    let bor := rect_resolve_or_zero_lp_size (border c) ctx in
    bs_triple c (sum_axes (rect_add pad bor)) ctx.

  (* explicit_counts: `size.maybe_resolve(ctx).is_some() || max_size.maybe_resolve(ctx).is_some()` *)
  Definition dim_definite (d : Dimension T) (ctx : option T) : bool :=
    match maybe_resolve_dim d ctx with None => false | Some _ => true end.
  Definition dims_definite (c : Style T) (ax : GAxis) (ctx : option T) : bool * bool :=
    (dim_definite (get_ax (size c) ax) ctx, dim_definite (get_ax (max_size c) ax) ctx).

  (* GridItem::minimum_contribution, `if self.is_compressible_replaced`: the raw size and max_size, resolved against Some(0.0) *)
  Definition replaced_caps (c : Style T) (ax : GAxis) : option T * option T :=
    (maybe_resolve_dim (get_ax (size c) ax) (Some zero), maybe_resolve_dim (get_ax (max_size c) ax) (Some zero)).
End Sites.

(* ------------------------------------------------------------------------------------------------ styles *)
Definition gstyle_rel (k : Q) (s s' : GStyle XQ) : Prop :=
  style_rel k (gs_core s) (gs_core s') /\ rc_rel (lpa_rel k) (gs_inset s) (gs_inset s') /\
  Forall2 (tsf_rel k) (gs_template_columns s) (gs_template_columns s') /\ Forall2 (tsf_rel k) (gs_template_rows s) (gs_template_rows s') /\
  Forall2 (nrt_rel k) (gs_auto_columns s) (gs_auto_columns s') /\ Forall2 (nrt_rel k) (gs_auto_rows s) (gs_auto_rows s') /\
  gs_flow s' = gs_flow s /\ sz_rel (lp_rel k) (gs_gap s) (gs_gap s') /\
  gs_align_items s' = gs_align_items s /\ gs_justify_items s' = gs_justify_items s /\
  gs_align_content s' = gs_align_content s /\ gs_justify_content s' = gs_justify_content s /\
  gs_row s' = gs_row s /\ gs_column s' = gs_column s /\ gs_align_self s' = gs_align_self s /\ gs_justify_self s' = gs_justify_self s /\
  gs_replaced s' = gs_replaced s.
Definition gstyle_scale (k : Q) (s : GStyle XQ) : GStyle XQ :=
  mkGStyle (style_scale k (gs_core s)) (rect_map (lpa_scale k) (gs_inset s))
           (map (tsf_scale k) (gs_template_columns s)) (map (tsf_scale k) (gs_template_rows s))
           (map (nrt_scale k) (gs_auto_columns s)) (map (nrt_scale k) (gs_auto_rows s))
           (gs_flow s) (size_map (lp_scale k) (gs_gap s)) (gs_align_items s) (gs_justify_items s) (gs_align_content s) (gs_justify_content s)
           (gs_row s) (gs_column s) (gs_align_self s) (gs_justify_self s) (gs_replaced s).

(* compute_grid_layout's preprocessing record *)
Definition pre_rel (k : Q) (P P' : @Pre XQ) : Prop :=
  rc_rel (sc k) (p_padding P) (p_padding P') /\ rc_rel (sc k) (p_border P) (p_border P') /\ sz_rel (sc k) (p_pb_size P) (p_pb_size P') /\
  sz_rel (op_rel (sc k)) (p_min P) (p_min P') /\ sz_rel (op_rel (sc k)) (p_max P) (p_max P') /\ sz_rel (op_rel (sc k)) (p_pref P) (p_pref P') /\
  pt_rel (sc k) (p_gutter P) (p_gutter P') /\ rc_rel (sc k) (p_inset P) (p_inset P') /\
  sz_rel (av_rel (sc k)) (p_grid_avail P) (p_grid_avail P') /\ sz_rel (op_rel (sc k)) (p_outer P) (p_outer P') /\
  sz_rel (op_rel (sc k)) (p_inner P) (p_inner P').

Definition triple_rel (k : Q) (a a' : Size (option XQ) * Size (option XQ) * Size (option XQ)) : Prop :=
  sz_rel (op_rel (sc k)) (fst (fst a)) (fst (fst a')) /\ sz_rel (op_rel (sc k)) (snd (fst a)) (snd (fst a')) /\
  sz_rel (op_rel (sc k)) (snd a) (snd a').

(* what the grid algorithm reads of a style, up to scaling *)
Definition gstyle_wrel (k : Q) (s s' : GStyle XQ) : Prop :=
  let c := gs_core s in let c' := gs_core s' in
  display c' = display c /\ Leaf.position c' = Leaf.position c /\ overflow c' = overflow c /\ sc k (scrollbar_width c) (scrollbar_width c') /\
  op_rel dl (aspect_ratio c) (aspect_ratio c') /\ rc_rel (lpa_rel k) (margin c) (margin c') /\
  Forall2 (tsf_rel k) (gs_template_columns s) (gs_template_columns s') /\ Forall2 (tsf_rel k) (gs_template_rows s) (gs_template_rows s') /\
  Forall2 (nrt_rel k) (gs_auto_columns s) (gs_auto_columns s') /\ Forall2 (nrt_rel k) (gs_auto_rows s) (gs_auto_rows s') /\
  gs_flow s' = gs_flow s /\ sz_rel (lp_rel k) (gs_gap s) (gs_gap s') /\
  gs_align_items s' = gs_align_items s /\ gs_justify_items s' = gs_justify_items s /\
  gs_align_content s' = gs_align_content s /\ gs_justify_content s' = gs_justify_content s /\
  gs_row s' = gs_row s /\ gs_column s' = gs_column s /\ gs_align_self s' = gs_align_self s /\ gs_justify_self s' = gs_justify_self s /\
  gs_replaced s' = gs_replaced s /\
  (* compute_grid_layout l.50-138: the container's own padding / border / size / min_size / max_size / overflow / scrollbar_width *)
  (forall i i', fin_rel k i i' -> pre_rel k (grid_pre s i) (grid_pre s' i')) /\
  (* explicit track counts: is the container's size / max_size definite in the axis *)
  (forall ax ctx ctx', op_rel (sc k) ctx ctx' -> dims_definite c' ax ctx' = dims_definite c ax ctx) /\
  (* GridItem::known_dimensions / minimum_contribution: an item's size / min_size / max_size *)
  (forall ctx ctx', sz_rel (op_rel (sc k)) ctx ctx' -> triple_rel k (item_resolved c ctx) (item_resolved c' ctx')) /\
  (* GridItem::minimum_contribution of a compressible replaced item: the raw size / max_size *)
  (gs_replaced s = true -> forall ax, op_rel (sc k) (fst (replaced_caps c ax)) (fst (replaced_caps c' ax)) /\
                                      op_rel (sc k) (snd (replaced_caps c ax)) (snd (replaced_caps c' ax))) /\
  (* align_and_position_item: the translated resolution of an item's / absolute child's style *)
  (forall area area', ScaleAbs.arc_rel (sc k) area area' ->
     ScaleAbs.absin_rel k (AbsPosGen.grid_resolve area (abs_style s)) (AbsPosGen.grid_resolve area' (abs_style s'))).

(* ------------------------------------------------------------------------------------------------ C12: the rewrite *)
Section GridBoxSizing.
  Context {T : Type} `{Num T}.
  Definition g_to_border_box (s : GStyle T) : GStyle T :=
    mkGStyle (to_border_box (gs_core s)) (gs_inset s) (gs_template_columns s) (gs_template_rows s) (gs_auto_columns s) (gs_auto_rows s)
             (gs_flow s) (gs_gap s) (gs_align_items s) (gs_justify_items s) (gs_align_content s) (gs_justify_content s)
             (gs_row s) (gs_column s) (gs_align_self s) (gs_justify_self s) (gs_replaced s).
  (* the class of C12_leaf, minus the compressible replaced items (item_is_replaced): the known finding *)
  Definition g_eligibleb (s : GStyle T) : bool := eligibleb (gs_core s) && negb (gs_replaced s).
  Definition gbb_rel (s s' : GStyle T) : Prop := s' = s \/ (g_eligibleb s = true /\ s' = g_to_border_box s).
End GridBoxSizing.

(* ------------------------------------------------------------------------------------------------ the sizing monad *)
Section ProgRel.
  Variable k : Q.
  Context {A : Type}.
  Variable RA : A -> A -> Prop.
  Inductive ProgRel : @Prog XQ A -> @Prog XQ A -> Prop :=
  | PR_ret a a' : RA a a' -> ProgRel (PRet a) (PRet a')
  | PR_measure c kn kn' pa pa' av av' ax f f' :
      sz_rel (op_rel (sc k)) kn kn' -> sz_rel (op_rel (sc k)) pa pa' -> sz_rel (av_rel (sc k)) av av' ->
      (forall v v', sc k v v' -> ProgRel (f v) (f' v')) -> ProgRel (PMeasure c kn pa av ax f) (PMeasure c kn' pa' av' ax f')
  | PR_baseline c pa pa' f f' :
      sz_rel (op_rel (sc k)) pa pa' ->
      (forall h h' b b', sc k h h' -> op_rel (sc k) b b' -> ProgRel (f h b) (f' h' b')) -> ProgRel (PBaseline c pa f) (PBaseline c pa' f').
End ProgRel.

(* ------------------------------------------------------------------------------------------------ the algorithm's records *)
Definition icache_rel (k : Q) (c c' : @ICache XQ) : Prop :=
  op_rel (sz_rel (op_rel (sc k))) (ic_avail c) (ic_avail c') /\ sz_rel (op_rel (sc k)) (ic_min c) (ic_min c') /\
  sz_rel (op_rel (sc k)) (ic_minimum c) (ic_minimum c') /\ sz_rel (op_rel (sc k)) (ic_max c) (ic_max c').

Definition gitem_rel (k : Q) (g g' : @GItem XQ) : Prop :=
  g_node g' = g_node g /\ gstyle_wrel k (g_style g) (g_style g') /\ g_line g' = g_line g /\ g_align g' = g_align g /\
  g_justify g' = g_justify g /\ g_ix g' = g_ix g /\ g_xflex g' = g_xflex g /\ g_xintr g' = g_xintr g /\
  op_rel (sc k) (g_baseline g) (g_baseline g') /\ sc k (g_shim g) (g_shim g') /\ icache_rel k (g_cache g) (g_cache g').

Definition sstate_rel (k : Q) (s s' : @SState XQ) : Prop :=
  tracks_rel k (ss_cols s) (ss_cols s') /\ tracks_rel k (ss_rows s) (ss_rows s') /\ sc k (ss_adj_cols s) (ss_adj_cols s') /\
  sc k (ss_adj_rows s) (ss_adj_rows s') /\ Forall2 (gitem_rel k) (ss_items s) (ss_items s').

Definition sized_rel (k : Q) (z z' : @Sized XQ) : Prop :=
  sstate_rel k (z_state z) (z_state z') /\ sz_rel (sc k) (z_border_box z) (z_border_box z') /\
  sz_rel (sc k) (z_content_box z) (z_content_box z').

Definition oof_rel (k : Q) (c c' : @OofChild XQ) : Prop :=
  match c, c' with
  | OHidden, OHidden | OSkip, OSkip => True
  | OAbs s, OAbs s' => gstyle_wrel k s s'
  | _, _ => False
  end.

Definition placed_rel (k : Q) (p p' : @Placed XQ) : Prop :=
  gitem_rel k (fst (fst p)) (fst (fst p')) /\ sc k (snd (fst p)) (snd (fst p')) /\ sc k (snd p) (snd p').

(* (index, style) pairs of the in-flow iterator *)
Definition inflow_rel (k : Q) (a a' : nat * GStyle XQ) : Prop := fst a' = fst a /\ gstyle_wrel k (snd a) (snd a').
